(* C03: obligations over the generated tables, the witnesses of the three findings, and the
   non-vacuity examples of the implications proved in NameRefProofs / RenameProofs. *)
From KV Require Import Res.BuildRefs Res.FsFacts Res.CsvFacts Res.NameRefProofs Res.RenameProofs Res.RewriteProofs.
From KV Require Import Gen.NameRefRules Gen.FieldSpecs Res.NameRefRulesRef.

(* ================= obligations over the generated rule table ================= *)

Definition rule_fs_ok (f : fieldspec) : bool :=
  let segs := path_splitter (fs_path f) in
  forallb plain_key segs && identity_safe segs.

(* the table merges without conflict, its order does not depend on the sorting algorithm,
   every row names a kind and has referrers, every referrer path parses into ordinary field names
   and stays clear of kind / apiVersion / metadata.name / metadata.namespace *)
Definition nameref_table_wf (first last : list string) (raw : list nbr) : bool :=
  match effective_rules first last raw with
  | Ok rules =>
      nbr_keys_distinct first last rules &&
      forallb (fun b => negb (String.eqb (nb_kind b) "") &&
                        match nb_referrers b with [] => false | _ => true end &&
                        forallb rule_fs_ok (nb_referrers b)) rules
  | _ => false
  end.

Lemma gen_nameref_table_wf :
  nameref_table_wf gen_gvk_order_first gen_gvk_order_last gen_nameref_raw = true.
Proof. vm_compute. reflexivity. Qed.

(* what the rule-level theorems need of a rule of the generated table *)
Lemma gen_rule_path_plain rules b f :
  effective_rules gen_gvk_order_first gen_gvk_order_last gen_nameref_raw = Ok rules ->
  In b rules -> In f (nb_referrers b) -> rule_path_plain f.
Proof.
  intros He Hb Hf. pose proof gen_nameref_table_wf as H. unfold nameref_table_wf in H.
  rewrite He in H. apply andb_true_iff in H as [_ H].
  rewrite forallb_forall in H. specialize (H b Hb).
  apply andb_true_iff in H as [_ H]. rewrite forallb_forall in H. specialize (H f Hf).
  unfold rule_fs_ok in H. apply andb_true_iff in H as [H _].
  unfold rule_path_plain. apply Forall_forall. rewrite forallb_forall in H. exact H.
Qed.

Lemma gen_rule_ok rules b f :
  effective_rules gen_gvk_order_first gen_gvk_order_last gen_nameref_raw = Ok rules ->
  In b rules -> In f (nb_referrers b) -> rule_ok f.
Proof.
  intros He Hb Hf. split; [eapply gen_rule_path_plain; eauto|].
  pose proof gen_nameref_table_wf as H. unfold nameref_table_wf in H.
  rewrite He in H. apply andb_true_iff in H as [_ H].
  rewrite forallb_forall in H. specialize (H b Hb).
  apply andb_true_iff in H as [_ H]. rewrite forallb_forall in H. specialize (H f Hf).
  unfold rule_fs_ok in H. now apply andb_true_iff in H as [_ H].
Qed.

(* FixBackReferences with the generated table never changes what a resource is called *)
Lemma gen_transform_identity cs nonstr rules m m' :
  effective_rules gen_gvk_order_first gen_gvk_order_last gen_nameref_raw = Ok rules ->
  nameref_transform cs nonstr rules m = Ok m' -> Forall2 same_identity m m'.
Proof.
  intros He. apply nameref_transform_identity. intros b f Hb Hf. eapply gen_rule_ok; eauto.
Qed.

Lemma gen_namespace_table_ok : forallb ns_spec_ok gen_namespace_fs = true.
Proof. vm_compute. reflexivity. Qed.
Lemma gen_prefix_table : gen_name_prefix_fs = name_fs.
Proof. reflexivity. Qed.
Lemma gen_suffix_table : gen_name_suffix_fs = name_fs.
Proof. reflexivity. Qed.

(* ================= the regenerated tables are the documented ones ================= *)

(* every table C03 depends on, regenerated from /repo, equals the committed reference copy *)
Lemma gen_rules_eq_ref :
  gen_nameref_raw = ref_nameref_raw /\
  gen_gvk_order_first = ref_gvk_order_first /\ gen_gvk_order_last = ref_gvk_order_last /\
  gen_prefix_skip = ref_prefix_skip /\ gen_suffix_skip = ref_suffix_skip.
Proof. repeat split; vm_compute; reflexivity. Qed.

(* ================= the reference kinds the property names ================= *)

(* (referent kind, referrer kind, path): the families listed in the statement of C03.  Deleting one of
   these rows from namereference.go makes the obligation below fail. *)
Definition named_rules : list (string * string * string) := [
  ("ConfigMap", "Pod", "spec/volumes/configMap/name");
  ("ConfigMap", "Pod", "spec/containers/env/valueFrom/configMapKeyRef/name");
  ("ConfigMap", "Pod", "spec/containers/envFrom/configMapRef/name");
  ("ConfigMap", "Deployment", "spec/template/spec/volumes/configMap/name");
  ("ConfigMap", "Deployment", "spec/template/spec/containers/env/valueFrom/configMapKeyRef/name");
  ("ConfigMap", "Deployment", "spec/template/spec/containers/envFrom/configMapRef/name");
  ("ConfigMap", "StatefulSet", "spec/template/spec/volumes/configMap/name");
  ("ConfigMap", "DaemonSet", "spec/template/spec/volumes/configMap/name");
  ("ConfigMap", "Job", "spec/template/spec/volumes/configMap/name");
  ("ConfigMap", "CronJob", "spec/jobTemplate/spec/template/spec/volumes/configMap/name");
  ("Secret", "Pod", "spec/volumes/secret/secretName");
  ("Secret", "Pod", "spec/containers/env/valueFrom/secretKeyRef/name");
  ("Secret", "Deployment", "spec/template/spec/volumes/secret/secretName");
  ("Secret", "Deployment", "spec/template/spec/containers/envFrom/secretRef/name");
  ("Secret", "Deployment", "spec/template/spec/imagePullSecrets/name");
  ("Secret", "StatefulSet", "spec/template/spec/volumes/secret/secretName");
  ("Secret", "Ingress", "spec/tls/secretName");
  ("Secret", "ServiceAccount", "imagePullSecrets/name");
  ("Service", "StatefulSet", "spec/serviceName");
  ("Service", "Ingress", "spec/rules/http/paths/backend/service/name");
  ("Service", "Ingress", "spec/defaultBackend/service/name");
  ("ServiceAccount", "Pod", "spec/serviceAccountName");
  ("ServiceAccount", "Deployment", "spec/template/spec/serviceAccountName");
  ("ServiceAccount", "StatefulSet", "spec/template/spec/serviceAccountName");
  ("ServiceAccount", "RoleBinding", "subjects");
  ("ServiceAccount", "ClusterRoleBinding", "subjects");
  ("PersistentVolumeClaim", "Pod", "spec/volumes/persistentVolumeClaim/claimName");
  ("PersistentVolumeClaim", "Deployment", "spec/template/spec/volumes/persistentVolumeClaim/claimName");
  ("PersistentVolumeClaim", "StatefulSet", "spec/template/spec/volumes/persistentVolumeClaim/claimName");
  ("Role", "RoleBinding", "roleRef/name");
  ("ClusterRole", "RoleBinding", "roleRef/name");
  ("ClusterRole", "ClusterRoleBinding", "roleRef/name");
  ("Deployment", "HorizontalPodAutoscaler", "spec/scaleTargetRef/name");
  ("StatefulSet", "HorizontalPodAutoscaler", "spec/scaleTargetRef/name");
  ("PersistentVolume", "PersistentVolumeClaim", "spec/volumeName");
  ("StorageClass", "PersistentVolumeClaim", "spec/storageClassName");
  ("PriorityClass", "Pod", "spec/priorityClassName");
  ("IngressClass", "Ingress", "spec/ingressClassName")].

Definition rule_present (raw : list nbr) (t : string * string * string) : bool :=
  let '(target, rk, path) := t in
  existsb (fun b => String.eqb (nb_kind b) target &&
                    existsb (fun f => String.eqb (fs_kind f) rk && String.eqb (fs_path f) path) (nb_referrers b)) raw.

Lemma gen_covers_named_rules : forallb (rule_present gen_nameref_raw) named_rules = true.
Proof. vm_compute. reflexivity. Qed.

(* ================= every row selects the objects it is written for ================= *)

(* the gvk of an object whose apiVersion field reads [av] *)
Definition gvk_of (av k : string) (scoped : bool) : gvk :=
  mkGvk (fst (parse_group_version av)) (snd (parse_group_version av)) k scoped.

(* an apiVersion an object of the row's kind can carry: the row's group and version ("v1" when the row
   leaves the version open) *)
Definition row_api_version (b : nbr) : string :=
  gvk_api_version (nb_group b) (if String.eqb (nb_version b) "" then "v1" else nb_version b).

(* No row of the table is dead: for each there is an apiVersion whose PARSED group / version, with the row's
   kind, the row selects.  (Until /repo commit 9f584a1 the IngressClass row had the group
   "networking.k8s.io/v1", which no parsed apiVersion can equal: the former finding
   C03/rule-row-never-selects:IngressClass.) *)
Lemma all_rows_reachable :
  forall b, In b gen_nameref_raw ->
            gvk_is_selected (gvk_of (row_api_version b) (nb_kind b) false) (nb_gvk b) = true.
Proof.
  assert (H: forallb (fun b => gvk_is_selected (gvk_of (row_api_version b) (nb_kind b) false) (nb_gvk b))
                     gen_nameref_raw = true) by (vm_compute; reflexivity).
  intros b Hb. rewrite forallb_forall in H. exact (H b Hb).
Qed.

(* ================= witnesses ================= *)

Definition sc (v : string) : node := Scalar TStr SPlain v.
Definition doc (av kind name : string) (extra : list (string * node)) : node :=
  Map ([("apiVersion", sc av); ("kind", sc kind); ("metadata", Map [("name", sc name)])] ++ extra)%list.
Definition fresh (n : node) : resource := mkRes n None None None None None false.

Definition no_cs : string -> string -> bool := fun _ _ => false.
Definition no_nonstr : string -> bool := fun _ => false.

(* ---- finding 2: rewrite cascade (corpus/C03/builds.json[1], state just before FixBackReferences) ---- *)
Definition w2_state : list resource := [
  mkRes (doc "apps/v1" "Deployment" "app-s" []) (Some "app") (Some "default") (Some "Deployment") None (Some "-s") false;
  mkRes (doc "apps/v1" "StatefulSet" "app-s-s" []) (Some "app-s") (Some "default") (Some "StatefulSet") None (Some "-s") false;
  mkRes (doc "autoscaling/v2" "HorizontalPodAutoscaler" "hpa-s"
             [("spec", Map [("scaleTargetRef", Map [("apiVersion", sc "apps/v1"); ("kind", sc "Deployment"); ("name", sc "app")])])])
        (Some "hpa") (Some "default") (Some "HorizontalPodAutoscaler") None (Some "-s") false ].
Definition w2_addr : list astep := [AKey "spec"; AKey "scaleTargetRef"; AKey "name"].

(* the whole-transformer reading of "no reference changes its referent" at one address: a scalar that
   changed now holds the current name of a resource that once had the old text as its name *)
Definition retargeted (cands : list cand) (old new : string) : bool :=
  negb (String.eqb new old) &&
  forallb (fun c => negb (prev_name_matches old c && String.eqb (c_name c) new)) cands.

Definition unres {A} (r : res (list A)) : list A := match r with Ok l => l | _ => [] end.

Definition gen_rules : list nbr :=
  unres (effective_rules gen_gvk_order_first gen_gvk_order_last gen_nameref_raw).
Lemma gen_rules_eq :
  effective_rules gen_gvk_order_first gen_gvk_order_last gen_nameref_raw = Ok gen_rules.
Proof. vm_compute. reflexivity. Qed.

Definition w2_after : list resource := unres (nameref_transform no_cs no_nonstr gen_rules w2_state).
Definition w2_cands : list cand := unres (mapM (view no_cs) w2_state).

Lemma cascade_witness :
  exists rules m' cands r r' t s old t' s' new,
    effective_rules gen_gvk_order_first gen_gvk_order_last gen_nameref_raw = Ok rules /\
    nameref_transform no_cs no_nonstr rules w2_state = Ok m' /\
    mapM (view no_cs) w2_state = Ok cands /\
    nth_error w2_state 2 = Some r /\ nth_error m' 2 = Some r' /\
    get_addr w2_addr (r_node r) = Some (Scalar t s old) /\
    get_addr w2_addr (r_node r') = Some (Scalar t' s' new) /\
    retargeted cands old new = true.
Proof.
  exists gen_rules, w2_after, w2_cands.
  exists (nth 2 w2_state (fresh (sc ""))), (nth 2 w2_after (fresh (sc ""))).
  exists TStr, SPlain, "app", TNone, SPlain, "app-s-s".
  split; [exact gen_rules_eq|].
  split; [vm_compute; reflexivity|].
  split; [vm_compute; reflexivity|].
  split; [vm_compute; reflexivity|].
  split; [vm_compute; reflexivity|].
  split; [vm_compute; reflexivity|].
  split; vm_compute; reflexivity.
Qed.

(* ---- finding 3: intermediate name collision (corpus/C03/builds.json[2], the layering) ---- *)
Definition w3_layer : layer :=
  Layer "" "dev-" "" [] [
    ISub (Layer "" "" "-s" [] [
      IRes (fresh (doc "v1" "ServiceAccount" "a" []));
      IRes (fresh (doc "v1" "ServiceAccount" "a-s" []))]);
    IRes (fresh (doc "v1" "Pod" "pod" [("spec", Map [("serviceAccountName", sc "a-s")])]))].
Definition w3_addr : list astep := [AKey "spec"; AKey "serviceAccountName"].

Definition gen_build_refs :=
  build_refs no_cs no_nonstr gen_name_prefix_fs gen_name_suffix_fs gen_namespace_fs gen_prefix_skip
             gen_suffix_skip gen_gvk_order_first gen_gvk_order_last gen_nameref_raw.

Definition w3_out : list resource := unres (gen_build_refs w3_layer [""; ""; ""]).

Lemma collision_witness :
  exists out referent referrer t s,
    distinct_kind_name (layer_leaves w3_layer) = true /\
    gen_build_refs w3_layer [""; ""; ""] = Ok out /\
    (* the Pod refers to the account whose ORIGINAL name is "a-s": the second leaf *)
    option_map (fun r => get_name (r_node r)) (nth_error (layer_leaves w3_layer) 1) = Some "a-s" /\
    nth_error out 1 = Some referent /\ nth_error out 2 = Some referrer /\
    get_name (r_node referent) = "dev-a-s-s" /\
    get_addr w3_addr (r_node referrer) = Some (Scalar t s "a-s").
Proof.
  exists w3_out, (nth 1 w3_out (fresh (sc ""))), (nth 2 w3_out (fresh (sc ""))), TStr, SPlain.
  split; [vm_compute; reflexivity|].
  split; [vm_compute; reflexivity|].
  split; [vm_compute; reflexivity|].
  split; [vm_compute; reflexivity|].
  split; [vm_compute; reflexivity|].
  split; vm_compute; reflexivity.
Qed.

(* ================= non-vacuity of the implications ================= *)

(* select_unique_visible / refs_follow_rule: the Deployment row applied to the HPA of w2_state *)
Definition ex_cand0 : cand :=
  mkCand [] (mkId (gvk_lit "" "" "") "" "") "" "" "" [] [].
Definition ex_fs : fieldspec := mkFs "" "" "HorizontalPodAutoscaler" "spec/scaleTargetRef/name" false.
Definition ex_tg : gvk := gvk_lit "" "" "Deployment".

Example refs_follow_rule_nonvacuous :
  exists cands referrer r' b,
    mapM (view no_cs) w2_state = Ok cands /\ nth_error w2_state 2 = Some referrer /\
    rule_path_plain ex_fs /\
    reaches (path_splitter (fs_path ex_fs)) w2_addr (r_node referrer) = true /\
    get_addr w2_addr (r_node referrer) = Some (Scalar TStr SPlain "app") /\
    filter (name_kind_match (make_ctx no_cs referrer (fs_path ex_fs) ex_tg) "app") cands = [b] /\
    roleref_sieve (make_ctx no_cs referrer (fs_path ex_fs) ex_tg) b = true /\
    namespace_sieve (make_ctx no_cs referrer (fs_path ex_fs) ex_tg) b = true /\
    apply_rule no_cs no_nonstr cands ex_fs ex_tg referrer = Ok r' /\
    get_addr w2_addr (r_node r') = Some (Scalar TNone SPlain "app-s") /\ c_name b = "app-s".
Proof.
  set (referrer := nth 2 w2_state (fresh (sc ""))).
  exists w2_cands, referrer.
  exists (match apply_rule no_cs no_nonstr w2_cands ex_fs ex_tg referrer with Ok r => r | _ => referrer end).
  exists (nth 0 w2_cands (ex_cand0)).
  split; [vm_compute; reflexivity|]. split; [vm_compute; reflexivity|].
  split; [unfold rule_path_plain; apply Forall_forall; apply forallb_forall; vm_compute; reflexivity|].
  split; [vm_compute; reflexivity|]. split; [vm_compute; reflexivity|].
  split; [vm_compute; reflexivity|]. split; [vm_compute; reflexivity|].
  split; [vm_compute; reflexivity|]. split; [vm_compute; reflexivity|].
  split; vm_compute; reflexivity.
Qed.

(* external_untouched_rule: the same rule when the field names something nobody ever was called *)
Example external_untouched_nonvacuous :
  exists cands, mapM (view no_cs) w2_state = Ok cands /\
                forallb (fun c => negb (prev_name_matches "ext-1" c)) cands = true.
Proof. exists w2_cands. split; vm_compute; reflexivity. Qed.

(* select_unique_in_context: two ConfigMaps both once called "cm", in the contexts p- and q-;
   the referrer lives in context p- *)
Definition ex_cand (name pfx : string) : cand :=
  mkCand [mkId (gvk_lit "" "v1" "ConfigMap") "cm" "default"]
         (mkId (mkGvk "" "v1" "ConfigMap" false) name "") name "" "ConfigMap" [pfx] [].
Definition ex_ctx : referrer_ctx :=
  mkCtx (mkId (mkGvk "apps" "v1" "Deployment" false) "p-dep" "") ["p-"] [] None
        "spec/template/spec/volumes/configMap/name" (gvk_lit "" "v1" "ConfigMap").

Example select_unique_in_context_nonvacuous :
  List.length (sieve4 ex_ctx "cm" [ex_cand "p-cm" "p-"; ex_cand "q-cm" "q-"]) = 2 /\
  filter (prefix_suffix_sieve ex_ctx true) (sieve4 ex_ctx "cm" [ex_cand "p-cm" "p-"; ex_cand "q-cm" "q-"])
  = [ex_cand "p-cm" "p-"].
Proof. split; vm_compute; reflexivity. Qed.

(* history_inv: a fresh ConfigMap through prefix, namespace, suffix, hash *)
Definition ex_res : resource := mkRes (doc "v1" "ConfigMap" "cm" []) None None None None None true.
Definition ex_steps : list rename_step :=
  [SPrefix "p-"; SNamespace "ns1"; SSuffix "-s"; SHash "abc123"].

Example history_inv_nonvacuous :
  forallb step_ok ex_steps = true /\ wf_res ex_res /\ ptriples ex_res = [] /\
  exists r', apply_steps no_cs no_nonstr gen_name_prefix_fs gen_name_suffix_fs gen_namespace_fs
                         gen_prefix_skip gen_suffix_skip ex_steps ex_res = Ok r' /\
             get_name (r_node r') = "p-cm-s-abc123" /\ r_pnames r' = Some "cm,p-cm,p-cm,p-cm-s".
Proof.
  split; [reflexivity|]. split.
  - split; [exact I|].
    exists [("apiVersion", sc "v1"); ("kind", sc "ConfigMap"); ("metadata", Map [("name", sc "cm")])],
           [("name", sc "cm")], TStr, SPlain, "cm", (sc "ConfigMap").
    repeat split; try reflexivity. discriminate.
  - split; [reflexivity|].
    eexists (match apply_steps no_cs no_nonstr gen_name_prefix_fs gen_name_suffix_fs gen_namespace_fs
                               gen_prefix_skip gen_suffix_skip ex_steps ex_res with Ok r => r | _ => ex_res end).
    split; [vm_compute; reflexivity|]. split; vm_compute; reflexivity.
Qed.

(* ================= the rule-level laws for the rules of the generated table ================= *)

Section GenRules.
  Variable cs : string -> string -> bool.
  Variable nonstr : string -> bool.
  Variables (rules : list nbr) (b : nbr) (fs : fieldspec).
  Hypothesis Hrules : effective_rules gen_gvk_order_first gen_gvk_order_last gen_nameref_raw = Ok rules.
  Hypothesis Hb : In b rules.
  Hypothesis Hfs : In fs (nb_referrers b).

  Lemma gen_refs_follow_rule cands referrer r' a t s old c :
    reaches (path_splitter (fs_path fs)) a (r_node referrer) = true ->
    get_addr a (r_node referrer) = Some (Scalar t s old) ->
    is_null (Scalar t s old) = false ->
    let x := make_ctx cs referrer (fs_path fs) (nb_gvk b) in
    filter (name_kind_match x old) cands = [c] ->
    roleref_sieve x c = true -> namespace_sieve x c = true ->
    apply_rule cs nonstr cands fs (nb_gvk b) referrer = Ok r' ->
    exists t', get_addr a (r_node r') = Some (Scalar t' s (c_name c)).
  Proof. apply refs_follow_rule. exact (gen_rule_path_plain rules b fs Hrules Hb Hfs). Qed.

  Lemma gen_no_retarget_rule cands referrer r' a t s old :
    reaches (path_splitter (fs_path fs)) a (r_node referrer) = true ->
    get_addr a (r_node referrer) = Some (Scalar t s old) ->
    is_null (Scalar t s old) = false ->
    apply_rule cs nonstr cands fs (nb_gvk b) referrer = Ok r' ->
    get_addr a (r_node r') = Some (Scalar t s old) \/
    exists c, In c cands /\ prev_name_matches old c = true /\ prev_id_selected_by (nb_gvk b) c = true /\
              get_addr a (r_node r') = Some (Scalar TNone s (c_name c)).
  Proof. apply no_retarget_rule. exact (gen_rule_path_plain rules b fs Hrules Hb Hfs). Qed.

  Lemma gen_external_untouched_rule cands referrer r' a t s old :
    reaches (path_splitter (fs_path fs)) a (r_node referrer) = true ->
    get_addr a (r_node referrer) = Some (Scalar t s old) ->
    (forall c, In c cands -> prev_name_matches old c = false) ->
    apply_rule cs nonstr cands fs (nb_gvk b) referrer = Ok r' ->
    get_addr a (r_node r') = Some (Scalar t s old).
  Proof. apply external_untouched_rule. exact (gen_rule_path_plain rules b fs Hrules Hb Hfs). Qed.
End GenRules.

(* the history theorems over the generated tables *)
Definition gen_apply_steps (cs : string -> string -> bool) (nonstr : string -> bool) :=
  apply_steps cs nonstr gen_name_prefix_fs gen_name_suffix_fs gen_namespace_fs gen_prefix_skip gen_suffix_skip.

Lemma gen_history_prefix cs nonstr l r r' :
  forallb step_ok l = true -> wf_res r -> gen_apply_steps cs nonstr l r = Ok r' ->
  wf_res r' /\ (exists ext, history cs r' = (history cs r ++ ext)%list) /\
  get_kind (r_node r') = get_kind (r_node r) /\
  get_api_version (r_node r') = get_api_version (r_node r).
Proof.
  apply history_prefix; auto using gen_prefix_table, gen_suffix_table, gen_namespace_table_ok.
Qed.

Lemma gen_history_inv cs nonstr l r r' :
  forallb step_ok l = true -> wf_res r -> ptriples r = [] -> gen_apply_steps cs nonstr l r = Ok r' ->
  exists p, prev_ids r' = Ok p /\
    ((p = [] /\ get_name (r_node r') = get_name (r_node r)) \/
     (exists id rest, p = id :: rest /\ id_name id = get_name (r_node r))).
Proof.
  apply history_inv; auto using gen_prefix_table, gen_suffix_table, gen_namespace_table_ok.
Qed.

(* ================= from the rename history to the first two sieves ================= *)

Lemma zip_ids_gvk g v a b c id :
  In id (zip_ids g v a b c) -> g_group (id_gvk id) = g /\ g_version (id_gvk id) = v.
Proof.
  revert b c. induction a as [|x a IH]; intros [|y b] [|z c] H; cbn in H; try contradiction.
  destruct H as [<-|H]; [split; reflexivity|eauto].
Qed.

Lemma prev_ids_gvk r p id :
  prev_ids r = Ok p -> In id p ->
  g_group (id_gvk id) = fst (parse_group_version (get_api_version (r_node r))) /\
  g_version (id_gvk id) = snd (parse_group_version (get_api_version (r_node r))).
Proof.
  unfold prev_ids. destruct (r_pnames r); [|intros H; inv H; contradiction].
  destruct (_ && _); [|discriminate].
  destruct (parse_group_version _) as [g v]. intros H Hin. inv H. cbn [fst snd].
  eapply zip_ids_gvk; eauto.
Qed.

(* Whatever renaming transformers ran on a resource that entered the build fresh, either it was never
   renamed (no previous id, same name: a reference to it is already right), or the first two sieves of
   selectReferral accept it for its ORIGINAL name and for every rule row that selects its original
   group / version / kind. *)
Lemma original_referent_findable cs nonstr l r r' :
  forallb step_ok l = true -> wf_res r -> ptriples r = [] -> gen_apply_steps cs nonstr l r = Ok r' ->
  exists c, view cs r' = Ok c /\
    ((c_prev c = [] /\ c_name c = get_name (r_node r)) \/
     (prev_name_matches (get_name (r_node r)) c = true /\
      forall tg, gvk_is_selected (gvk_of (get_api_version (r_node r)) (get_kind (r_node r)) false) tg = true ->
                 prev_id_selected_by tg c = true)).
Proof.
  intros Hl Hw Hf H.
  pose proof (history_first cs nonstr _ _ _ _ _ gen_prefix_table gen_suffix_table gen_namespace_table_ok
                            l r r' Hl Hw Hf H) as (p & Hp & Hcase).
  pose proof (history_prefix cs nonstr _ _ _ _ _ gen_prefix_table gen_suffix_table gen_namespace_table_ok
                             l r r' Hl Hw H) as (_ & _ & Hk & Ha).
  unfold view. rewrite Hp. cbn [bind]. eexists. split; [reflexivity|]. cbn [c_prev c_name].
  destruct Hcase as [[-> Hn]|(id & rest & -> & Hid)].
  - left. auto.
  - right. unfold id_triple, cur_triple in Hid. inversion Hid as [[Hn Hns Hkd]].
    split.
    + unfold prev_name_matches. cbn [c_prev existsb]. rewrite Hn, String.eqb_refl. reflexivity.
    + intros tg Hsel. unfold prev_id_selected_by. cbn [c_prev existsb].
      destruct (prev_ids_gvk r' _ id Hp (or_introl eq_refl)) as [Hg Hv].
      rewrite Ha in Hg, Hv.
      assert (E: gvk_is_selected (id_gvk id) tg = true).
      { unfold gvk_is_selected, gvk_of in *. cbn [g_group g_version g_kind] in Hsel.
        rewrite Hg, Hv. first [exact Hsel | rewrite Hkd; exact Hsel]. }
      rewrite E. reflexivity.
Qed.

(* ================= the whole transformer, at one address ================= *)

Definition no_empty_prev (C : list cand) : bool := forallb (fun c => negb (prev_name_matches "" c)) C.

Lemma no_empty_prev_spec C : no_empty_prev C = true -> forall c, In c C -> prev_name_matches "" c = false.
Proof.
  unfold no_empty_prev. rewrite forallb_forall. intros H c Hc. specialize (H c Hc).
  now apply negb_true_iff in H.
Qed.

Section GenWhole.
  Variable cs : string -> string -> bool.
  Variable nonstr : string -> bool.
  Variables (rules : list nbr) (m m' : list resource) (C : list cand).
  Hypothesis Hrules : effective_rules gen_gvk_order_first gen_gvk_order_last gen_nameref_raw = Ok rules.
  Hypothesis HC : mapM (view cs) m = Ok C.
  Hypothesis Hne : no_empty_prev C = true.
  Hypothesis Hrun : nameref_transform cs nonstr rules m = Ok m'.
  Variables (i : nat) (r r' : resource) (a : list astep) (t : tag) (s : style) (v : string).
  Hypothesis Hr : nth_error m i = Some r.
  Hypothesis Hr' : nth_error m' i = Some r'.
  Hypothesis Hns : no_ns_key a.
  Hypothesis Hg : get_addr a (r_node r) = Some (Scalar t s v).

  Lemma gen_whole_chain :
    exists t' s' v', get_addr a (r_node r') = Some (Scalar t' s' v') /\ chain C v v'.
  Proof.
    eapply nameref_transform_at; eauto using no_empty_prev_spec.
    intros b f Hb Hf. eapply gen_rule_ok; eauto.
  Qed.

  Lemma gen_whole_external :
    (forall c, In c C -> prev_name_matches v c = false) ->
    exists t' s', get_addr a (r_node r') = Some (Scalar t' s' v).
  Proof.
    intros Hno. destruct gen_whole_chain as (t' & s' & v' & Hg' & Hc).
    rewrite (chain_external C v v' Hno Hc) in Hg'. eauto.
  Qed.

  Lemma gen_whole_closed new :
    (forall c, In c C -> prev_name_matches v c = true -> c_name c = new) ->
    (forall c, In c C -> prev_name_matches new c = true -> c_name c = new) ->
    exists t' s' v', get_addr a (r_node r') = Some (Scalar t' s' v') /\ (v' = v \/ v' = new).
  Proof.
    intros H1 H2. destruct gen_whole_chain as (t' & s' & v' & Hg' & Hc).
    exists t', s', v'. split; [assumption|]. eapply chain_closed; eauto.
  Qed.
End GenWhole.

(* non-vacuity: w2_state meets the hypotheses of the whole-transformer theorems *)
Example whole_nonvacuous :
  mapM (view no_cs) w2_state = Ok w2_cands /\ no_empty_prev w2_cands = true /\
  nameref_transform no_cs no_nonstr gen_rules w2_state = Ok w2_after /\
  no_ns_key w2_addr /\
  get_addr w2_addr (r_node (nth 2 w2_state (fresh (sc "")))) = Some (Scalar TStr SPlain "app").
Proof.
  split; [vm_compute; reflexivity|]. split; [vm_compute; reflexivity|].
  split; [vm_compute; reflexivity|]. split; [|vm_compute; reflexivity].
  unfold no_ns_key, w2_addr. repeat constructor; discriminate.
Qed.

(* a closed pair: ConfigMap cm renamed to p-cm, nothing else was ever called cm or p-cm *)
Definition ex_closed_state : list resource := [
  mkRes (doc "v1" "ConfigMap" "p-cm" []) (Some "cm") (Some "default") (Some "ConfigMap") (Some "p-") None false;
  mkRes (doc "v1" "Pod" "p-pod" [("spec", Map [("volumes", Seq [Map [("configMap", Map [("name", sc "cm")])]])])])
        (Some "pod") (Some "default") (Some "Pod") (Some "p-") None false ].
Definition ex_closed_cands : list cand := unres (mapM (view no_cs) ex_closed_state).

Example closed_nonvacuous :
  mapM (view no_cs) ex_closed_state = Ok ex_closed_cands /\ no_empty_prev ex_closed_cands = true /\
  forallb (fun c => negb (prev_name_matches "cm" c) || String.eqb (c_name c) "p-cm") ex_closed_cands = true /\
  forallb (fun c => negb (prev_name_matches "p-cm" c) || String.eqb (c_name c) "p-cm") ex_closed_cands = true /\
  option_map (fun r => get_addr [AKey "spec"; AKey "volumes"; AIdx 0; AKey "configMap"; AKey "name"] (r_node r))
             (nth_error (unres (nameref_transform no_cs no_nonstr gen_rules ex_closed_state)) 1)
  = Some (Some (Scalar TNone SPlain "p-cm")).
Proof. repeat split; vm_compute; reflexivity. Qed.


(* select_unique_strict: three ConfigMaps once called "cm"; contexts none / p- / none; the referrer lives in
   p-: the coarse pass keeps all three (an empty context matches anything), the strict one only p- *)
Definition ex_cand_ctx (name : string) (pfx : list string) : cand :=
  mkCand [mkId (gvk_lit "" "v1" "ConfigMap") "cm" "default"]
         (mkId (mkGvk "" "v1" "ConfigMap" false) name "") name "" "ConfigMap" pfx [].
Definition ex_three : list cand :=
  [ex_cand_ctx "cm0" []; ex_cand_ctx "p-cm" ["p-"]; ex_cand_ctx "cm1" []].

Example select_unique_strict_nonvacuous :
  filter (prefix_suffix_sieve ex_ctx true) (sieve4 ex_ctx "cm" ex_three) = ex_three /\
  filter (prefix_suffix_sieve ex_ctx false) ex_three = [ex_cand_ctx "p-cm" ["p-"]] /\
  select_referral ex_ctx "cm" ex_three all_names_same = Ok (Some (ex_cand_ctx "p-cm" ["p-"])).
Proof. repeat split; vm_compute; reflexivity. Qed.

(* ================= progress through the whole transformer, generated table ================= *)

From KV Require Import Res.ProgressProofs.

Lemma gen_refs_follow_transform cs nonstr rules m m' C :
  effective_rules gen_gvk_order_first gen_gvk_order_last gen_nameref_raw = Ok rules ->
  mapM (view cs) m = Ok C -> no_empty_prev C = true ->
  nameref_transform cs nonstr rules m = Ok m' ->
  forall i r r' org row fs flags cands b a t s old,
    nth_error m i = Some r -> nth_error m' i = Some r' -> org_id cs r = Ok org ->
    In row rules -> In fs (nb_referrers row) -> gvk_is_selected (id_gvk org) (fs_gvk fs) = true ->
    roleref_sieve (make_ctx cs r (fs_path fs) (nb_gvk row)) b = true ->
    (has_suffix "roleRef/name" (fs_path fs) = false \/
     exists g, roleref_gvk (r_node r) = Some g /\ external C (g_group g) /\ external C (g_kind g)) ->
    referencable cs m r = Ok flags -> mapM (view cs) (select_by flags m) = Ok cands ->
    no_ns_key a -> reaches (path_splitter (fs_path fs)) a (r_node r) = true ->
    get_addr a (r_node r) = Some (Scalar t s old) -> is_null (Scalar t s old) = false ->
    filter (name_kind_match (make_ctx cs r (fs_path fs) (nb_gvk row)) old) cands = [b] ->
    namespace_sieve (make_ctx cs r (fs_path fs) (nb_gvk row)) b = true ->
    (forall c, In c C -> prev_name_matches old c = true -> c_name c = c_name b) ->
    (forall c, In c C -> prev_name_matches (c_name b) c = true -> c_name c = c_name b) ->
    exists t' s', get_addr a (r_node r') = Some (Scalar t' s' (c_name b)).
Proof.
  intros Hr HC Hne Hrun i r r' org row fs flags cands b a t s old.
  intros; eapply (refs_follow_transform cs nonstr rules m m' C); eauto using no_empty_prev_spec.
  intros b0 f Hb Hf. eapply gen_rule_ok; eauto.
Qed.

(* non-vacuity: ex_closed_state (ConfigMap cm -> p-cm, a Pod mounting "cm") meets every hypothesis *)
Definition ex_pod_addr : list astep := [AKey "spec"; AKey "volumes"; AIdx 0; AKey "configMap"; AKey "name"].
Definition ex_pod_fs : fieldspec := mkFs "" "v1" "Pod" "spec/volumes/configMap/name" false.
Definition ex_cm_row : nbr := nth 4 gen_rules (mkNbr "" "" "" []).
Definition ex_pod : resource := nth 1 ex_closed_state (fresh (sc "")).
Definition ex_flags : list bool := match referencable no_cs ex_closed_state ex_pod with Ok f => f | _ => [] end.
Definition ex_vis_cands : list cand := unres (mapM (view no_cs) (select_by ex_flags ex_closed_state)).
Definition ex_b : cand := nth 0 ex_closed_cands ex_cand0.

Example refs_follow_transform_nonvacuous :
  nb_kind ex_cm_row = "ConfigMap" /\ In ex_cm_row gen_rules /\ In ex_pod_fs (nb_referrers ex_cm_row) /\
  (exists org, org_id no_cs ex_pod = Ok org /\ gvk_is_selected (id_gvk org) (fs_gvk ex_pod_fs) = true) /\
  has_suffix "roleRef/name" (fs_path ex_pod_fs) = false /\
  referencable no_cs ex_closed_state ex_pod = Ok ex_flags /\
  mapM (view no_cs) (select_by ex_flags ex_closed_state) = Ok ex_vis_cands /\
  reaches (path_splitter (fs_path ex_pod_fs)) ex_pod_addr (r_node ex_pod) = true /\
  get_addr ex_pod_addr (r_node ex_pod) = Some (Scalar TStr SPlain "cm") /\
  filter (name_kind_match (make_ctx no_cs ex_pod (fs_path ex_pod_fs) (nb_gvk ex_cm_row)) "cm") ex_vis_cands = [ex_b] /\
  namespace_sieve (make_ctx no_cs ex_pod (fs_path ex_pod_fs) (nb_gvk ex_cm_row)) ex_b = true /\
  c_name ex_b = "p-cm" /\
  forallb (fun c => negb (prev_name_matches "cm" c) || String.eqb (c_name c) "p-cm") ex_closed_cands = true /\
  forallb (fun c => negb (prev_name_matches "p-cm" c) || String.eqb (c_name c) "p-cm") ex_closed_cands = true.
Proof.
  split; [vm_compute; reflexivity|]. split; [vm_compute; tauto|]. split; [vm_compute; tauto|].
  split; [eexists; split; vm_compute; reflexivity|].
  repeat split; vm_compute; reflexivity.
Qed.

(* ================= from the layering to the unambiguity hypotheses ================= *)

(* a resource of the map, where it came from: a fresh well formed document and the renaming transformers
   its layers ran on it (comma free arguments) *)
Definition produced (cs : string -> string -> bool) (nonstr : string -> bool)
           (p : resource * list rename_step) (r : resource) : Prop :=
  wf_res (fst p) /\ ptriples (fst p) = [] /\ forallb step_ok (snd p) = true /\
  gen_apply_steps cs nonstr (snd p) (fst p) = Ok r.

(* the original name and what the layers may have made of it *)
Definition may_have_been (p : resource * list rename_step) (v : string) : bool :=
  ever_named (snd p) (get_name (r_node (fst p))) v.

Lemma produced_names cs nonstr p r c :
  produced cs nonstr p r -> view cs r = Ok c ->
  (forall v, prev_name_matches v c = true -> may_have_been p v = true) /\ may_have_been p (c_name c) = true.
Proof.
  intros (Hw & Hf & Hok & Hrun) Hv.
  pose proof (history_prefix cs nonstr _ _ _ _ _ gen_prefix_table gen_suffix_table gen_namespace_table_ok
                             _ _ _ Hok Hw Hrun) as ([Hh' Hw'] & _).
  destruct (prev_ids_triples r Hh') as (p0 & Hp & Hpt).
  unfold view in Hv. rewrite Hp in Hv. cbn [bind] in Hv. inv Hv. cbn [c_prev c_name].
  assert (Hall: forall v, In v (hist_names cs r) -> may_have_been p v = true).
  { intros v Hin. eapply (fresh_names cs nonstr); eauto using gen_prefix_table, gen_suffix_table, gen_namespace_table_ok. }
  split.
  - intros v Hm. apply Hall. unfold prev_name_matches in Hm. cbn [c_prev] in Hm.
    apply existsb_exists in Hm as (id & Hin & He). apply String.eqb_eq in He. subst v.
    unfold hist_names, history. rewrite map_app. apply in_or_app. left. rewrite <- Hpt, map_map.
    apply in_map_iff. exists id. split; [reflexivity|assumption].
  - apply Hall. unfold hist_names, history. rewrite map_app. apply in_or_app. right. left. reflexivity.
Qed.

Lemma Forall2_nth_r {A B} (R : A -> B -> Prop) l l' k y :
  Forall2 R l l' -> nth_error l' k = Some y -> exists x, nth_error l k = Some x /\ R x y.
Proof.
  intros H. revert k. induction H as [|a b l l' Hab Hl IH]; intros [|k] Hn; cbn in *; try discriminate.
  - inv Hn. eauto.
  - eauto.
Qed.

Lemma mapM_nth_r {A B} (f : A -> res B) l l' k y :
  mapM f l = Ok l' -> nth_error l' k = Some y -> exists x, nth_error l k = Some x /\ f x = Ok y.
Proof.
  revert l' k. induction l as [|a t IH]; intros l' k H Hn; cbn [mapM] in H.
  - inv H. destruct k; discriminate.
  - destruct (f a) as [b| | |] eqn:Fa; cbn [bind] in H; try discriminate.
    destruct (mapM f t) as [t'| | |] eqn:Ft; cbn [bind] in H; try discriminate. inv H.
    destruct k as [|k]; cbn in *; [inv Hn; eauto|eauto].
Qed.

Lemma mapM_select {A B} (f : A -> res B) flags l all :
  mapM f l = Ok all -> mapM f (select_by flags l) = Ok (select_by flags all).
Proof.
  revert l all. induction flags as [|fl flags IH]; intros l all H; [reflexivity|].
  destruct l as [|a l]; cbn [mapM] in H.
  - inv H. destruct fl; reflexivity.
  - destruct (f a) as [b| | |] eqn:Fa; cbn [bind] in H; try discriminate.
    destruct (mapM f l) as [bs| | |] eqn:Fl; cbn [bind] in H; try discriminate. inv H.
    destruct fl; cbn [select_by mapM]; [rewrite Fa; cbn [bind]|]; rewrite (IH l bs Fl); reflexivity.
Qed.

Lemma filter_select_single {A} (P : A -> bool) : forall j flags (l : list A) b,
  nth_error l j = Some b -> nth_error flags j = Some true -> P b = true ->
  (forall k c, k <> j -> nth_error l k = Some c -> P c = false) ->
  filter P (select_by flags l) = [b].
Proof.
  assert (Hnone: forall flags (l : list A), (forall k c, nth_error l k = Some c -> P c = false) ->
                                            filter P (select_by flags l) = []).
  { induction flags as [|fl flags IH]; intros l H; [reflexivity|].
    destruct l as [|a l]; [destruct fl; reflexivity|].
    assert (Hl: forall k c, nth_error l k = Some c -> P c = false) by (intros k c Hk; apply (H (S k)); exact Hk).
    destruct fl; cbn [select_by filter]; [rewrite (H 0 a eq_refl)|]; apply IH; assumption. }
  induction j as [|j IH]; intros flags l b Hb Hf HP Hother.
  - destruct l as [|a l]; [discriminate|]. destruct flags as [|fl flags]; [discriminate|].
    cbn in Hb, Hf. inv Hb. inv Hf. cbn [select_by filter]. rewrite HP. f_equal.
    apply Hnone. intros k c Hk. apply (Hother (S k)); [discriminate|exact Hk].
  - destruct l as [|a l]; [discriminate|]. destruct flags as [|fl flags]; [discriminate|].
    cbn in Hb, Hf.
    assert (Ha: P a = false) by (apply (Hother 0); [discriminate|reflexivity]).
    assert (Hrest: filter P (select_by flags l) = [b]).
    { apply IH; auto. intros k c Hk Hc. apply (Hother (S k)); [congruence|exact Hc]. }
    destruct fl; cbn [select_by filter]; [rewrite Ha|]; exact Hrest.
Qed.

Section Layering.
  Variable cs : string -> string -> bool.
  Variable nonstr : string -> bool.
  (* provenance of every resource of the map just before FixBackReferences *)
  Variables (prov : list (resource * list rename_step)) (m : list resource) (C : list cand).
  Hypothesis Hprov : Forall2 (produced cs nonstr) prov m.
  Hypothesis HC : mapM (view cs) m = Ok C.
  (* the referent: position, provenance, view; [old] is its ORIGINAL name *)
  Variables (j : nat) (pb : resource * list rename_step) (b : cand).
  Hypothesis Hpb : nth_error prov j = Some pb.
  Hypothesis Hb : nth_error C j = Some b.
  Let old := get_name (r_node (fst pb)).
  (* no OTHER resource may ever have been called like the referent originally, nor like it is called now *)
  Hypothesis others :
    forall k p, k <> j -> nth_error prov k = Some p ->
                may_have_been p old = false /\ may_have_been p (c_name b) = false.

  Lemma other_views k c : k <> j -> nth_error C k = Some c ->
    prev_name_matches old c = false /\ prev_name_matches (c_name b) c = false.
  Proof.
    intros Hk Hc.
    destruct (mapM_nth_r _ _ _ _ _ HC Hc) as (r & Hr & Hv).
    destruct (Forall2_nth_r _ _ _ _ _ Hprov Hr) as (p & Hp & Hprod).
    destruct (produced_names _ _ _ _ _ Hprod Hv) as [Hnames _].
    destruct (others k p Hk Hp) as [O1 O2].
    split.
    - destruct (prev_name_matches old c) eqn:E; [|reflexivity]. rewrite (Hnames _ E) in O1. discriminate.
    - destruct (prev_name_matches (c_name b) c) eqn:E; [|reflexivity]. rewrite (Hnames _ E) in O2. discriminate.
  Qed.

  (* the closedness hypotheses of the transformer-level theorem *)
  Lemma layering_closed :
    (forall c, In c C -> prev_name_matches old c = true -> c_name c = c_name b) /\
    (forall c, In c C -> prev_name_matches (c_name b) c = true -> c_name c = c_name b).
  Proof.
    split; intros c Hin Hm; apply In_nth_error in Hin as (k & Hk);
      (destruct (Nat.eq_dec k j) as [->|Hne]; [rewrite Hb in Hk; now inv Hk|]);
      destruct (other_views k c Hne Hk) as [O1 O2]; congruence.
  Qed.

  (* ... and its uniqueness hypothesis, for any set of visible candidates that contains the referent *)
  Lemma layering_unique flags cands x :
    mapM (view cs) (select_by flags m) = Ok cands -> nth_error flags j = Some true ->
    name_kind_match x old b = true ->
    filter (name_kind_match x old) cands = [b].
  Proof.
    intros Hsub Hflag Hmatch.
    rewrite (mapM_select _ flags _ _ HC) in Hsub. inv Hsub.
    apply (filter_select_single _ j); auto.
    intros k c Hk Hc. destruct (other_views k c Hk Hc) as [O1 _].
    unfold name_kind_match. rewrite O1. reflexivity.
  Qed.
End Layering.

(* non-vacuity of the layering lemma: a ConfigMap and a Pod mounting it, one layer with namePrefix p- *)
Definition ex_prov : list (resource * list rename_step) :=
  [ (fresh (doc "v1" "ConfigMap" "cm" []), [SPrefix "p-"]);
    (fresh (doc "v1" "Pod" "pod" [("spec", Map [("volumes", Seq [Map [("configMap", Map [("name", sc "cm")])]])])]),
     [SPrefix "p-"]) ].
Definition ex_prov_out : list resource :=
  map (fun p => match gen_apply_steps no_cs no_nonstr (snd p) (fst p) with Ok r => r | _ => fst p end) ex_prov.

Lemma wf_fresh_doc av kind name extra :
  good name = true -> good kind = true ->
  wf_res (fresh (doc av kind name extra)).
Proof.
  intros Hn Hk. split; [exact I|].
  exists ([("apiVersion", sc av); ("kind", sc kind); ("metadata", Map [("name", sc name)])] ++ extra)%list,
         [("name", sc name)], TStr, SPlain, name, (sc kind).
  repeat split; try reflexivity; try assumption. discriminate.
Qed.

Example layering_nonvacuous :
  Forall2 (produced no_cs no_nonstr) ex_prov ex_prov_out /\
  (exists C b, mapM (view no_cs) ex_prov_out = Ok C /\ nth_error C 0 = Some b /\ c_name b = "p-cm" /\
     forall k p, k <> 0 -> nth_error ex_prov k = Some p ->
                 may_have_been p "cm" = false /\ may_have_been p (c_name b) = false).
Proof.
  split.
  - repeat constructor; cbn [fst snd]; try (apply wf_fresh_doc; reflexivity); vm_compute; reflexivity.
  - exists (unres (mapM (view no_cs) ex_prov_out)), (nth 0 (unres (mapM (view no_cs) ex_prov_out)) ex_cand0).
    split; [vm_compute; reflexivity|]. split; [vm_compute; reflexivity|]. split; [vm_compute; reflexivity|].
    intros [|[|k]] p Hk Hp; [contradiction| |destruct k; discriminate].
    cbn in Hp. inv Hp. split; vm_compute; reflexivity.
Qed.

(* ================= build level: layering -> renames -> FixBackReferences ================= *)

From KV Require Import Res.BuildProofs.

(* a leaf of the layering: a fresh well formed document; the directives on its way are comma free *)
Definition leaf_ok (p : resource * list rename_step) : Prop :=
  wf_res (fst p) /\ ptriples (fst p) = [] /\ forallb step_ok (snd p) = true.

Definition gen_build_names (cs : string -> string -> bool) (nonstr : string -> bool) :=
  build_names cs nonstr gen_name_prefix_fs gen_name_suffix_fs gen_namespace_fs gen_prefix_skip gen_suffix_skip.

Lemma came_from_produced cs nonstr prov m :
  Forall2 (came_from cs nonstr gen_name_prefix_fs gen_name_suffix_fs gen_namespace_fs gen_prefix_skip gen_suffix_skip) prov m ->
  Forall leaf_ok prov -> Forall2 (produced cs nonstr) prov m.
Proof.
  induction 1 as [|p r prov m' Hp Hm IH]; intros Hok; [constructor|].
  pose proof (Forall_inv Hok) as (W & F & S). constructor; [|apply IH; eapply Forall_inv_tail; eauto].
  split; [exact W|]. split; [exact F|]. split; [exact S|exact Hp].
Qed.

Lemma build_produced cs nonstr l hs m :
  gen_build_names cs nonstr l hs = Ok m -> Forall leaf_ok (build_prov l hs) ->
  Forall2 (produced cs nonstr) (build_prov l hs) m.
Proof.
  intros H Hok. apply came_from_produced; [|assumption].
  exact (build_names_prov _ _ _ _ _ _ _ _ _ _ H).
Qed.

Lemma build_refs_split cs nonstr l hs out :
  build_refs cs nonstr gen_name_prefix_fs gen_name_suffix_fs gen_namespace_fs gen_prefix_skip gen_suffix_skip
             gen_gvk_order_first gen_gvk_order_last gen_nameref_raw l hs = Ok out ->
  exists m rules, gen_build_names cs nonstr l hs = Ok m /\
                  effective_rules gen_gvk_order_first gen_gvk_order_last gen_nameref_raw = Ok rules /\
                  nameref_transform cs nonstr rules m = Ok out.
Proof.
  unfold build_refs, gen_build_names. intros H.
  destruct (build_names _ _ _ _ _ _ _ l hs) as [m| | |]; cbn [bind] in H; try discriminate.
  destruct (effective_rules _ _ _) as [rules| | |]; cbn [bind] in H; try discriminate. eauto.
Qed.

(* The build-level statement, proved part: layering -> renames -> hash -> FixBackReferences. *)
Lemma refs_follow_build cs nonstr l hs m rules out C :
  gen_build_names cs nonstr l hs = Ok m ->
  effective_rules gen_gvk_order_first gen_gvk_order_last gen_nameref_raw = Ok rules ->
  nameref_transform cs nonstr rules m = Ok out ->
  Forall leaf_ok (build_prov l hs) -> mapM (view cs) m = Ok C -> no_empty_prev C = true ->
  forall i r r' org row fs flags cands j pb b a t s,
    nth_error m i = Some r -> nth_error out i = Some r' -> org_id cs r = Ok org ->
    In row rules -> In fs (nb_referrers row) -> gvk_is_selected (id_gvk org) (fs_gvk fs) = true ->
    roleref_sieve (make_ctx cs r (fs_path fs) (nb_gvk row)) b = true ->
    (has_suffix "roleRef/name" (fs_path fs) = false \/
     exists g, roleref_gvk (r_node r) = Some g /\ external C (g_group g) /\ external C (g_kind g)) ->
    referencable cs m r = Ok flags -> mapM (view cs) (select_by flags m) = Ok cands ->
    no_ns_key a -> reaches (path_splitter (fs_path fs)) a (r_node r) = true ->
    get_addr a (r_node r) = Some (Scalar t s (get_name (r_node (fst pb)))) ->
    is_null (Scalar t s (get_name (r_node (fst pb)))) = false ->
    nth_error (build_prov l hs) j = Some pb -> nth_error C j = Some b -> nth_error flags j = Some true ->
    name_kind_match (make_ctx cs r (fs_path fs) (nb_gvk row)) (get_name (r_node (fst pb))) b = true ->
    namespace_sieve (make_ctx cs r (fs_path fs) (nb_gvk row)) b = true ->
    (forall k p, k <> j -> nth_error (build_prov l hs) k = Some p ->
                 may_have_been p (get_name (r_node (fst pb))) = false /\ may_have_been p (c_name b) = false) ->
    exists t' s', get_addr a (r_node r') = Some (Scalar t' s' (c_name b)).
Proof.
  intros Hm Hrules Hrun Hleaves HC Hne i r r' org row fs flags cands j pb b a t s.
  intros Hr Hr' Horg Hrow Hfs Hsel Hnr1 Hnr2 Hflags Hcands Hns Hreach Hg Hnn Hpb Hb Hflag Hmatch Hvis Hothers.
  pose proof (build_produced cs nonstr l hs m Hm Hleaves) as Hprov.
  destruct (layering_closed cs nonstr _ _ _ Hprov HC j pb b Hb Hothers) as [Hc1 Hc2].
  pose proof (layering_unique cs nonstr _ _ _ Hprov HC j pb b Hb Hothers flags cands _ Hcands Hflag Hmatch) as Hu.
  eapply (gen_refs_follow_transform cs nonstr rules m out C Hrules HC Hne Hrun); eauto.
Qed.

(* non-vacuity of the build-level theorem: one kustomization, namePrefix p-, a ConfigMap and a Pod mounting it *)
Definition ex_layer : layer :=
  Layer "" "p-" "" [] [IRes (fresh (doc "v1" "ConfigMap" "cm" []));
                    IRes (fresh (doc "v1" "Pod" "pod" [("spec", Map [("volumes", Seq [Map [("configMap", Map [("name", sc "cm")])]])])]))].
Definition ex_hs : list string := [""; ""].
Definition ex_m : list resource := unres (gen_build_names no_cs no_nonstr ex_layer ex_hs).
Definition ex_out : list resource := unres (nameref_transform no_cs no_nonstr gen_rules ex_m).
Definition ex_C : list cand := unres (mapM (view no_cs) ex_m).
Definition ex_r : resource := nth 1 ex_m (fresh (sc "")).
Definition ex_fl : list bool := match referencable no_cs ex_m ex_r with Ok f => f | _ => [] end.

Example refs_follow_build_nonvacuous :
  gen_build_names no_cs no_nonstr ex_layer ex_hs = Ok ex_m /\
  nameref_transform no_cs no_nonstr gen_rules ex_m = Ok ex_out /\
  Forall leaf_ok (build_prov ex_layer ex_hs) /\
  mapM (view no_cs) ex_m = Ok ex_C /\ no_empty_prev ex_C = true /\
  referencable no_cs ex_m ex_r = Ok ex_fl /\ nth_error ex_fl 0 = Some true /\
  reaches (path_splitter (fs_path ex_pod_fs)) ex_pod_addr (r_node ex_r) = true /\
  get_addr ex_pod_addr (r_node ex_r) = Some (Scalar TStr SPlain "cm") /\
  (exists pb b, nth_error (build_prov ex_layer ex_hs) 0 = Some pb /\ get_name (r_node (fst pb)) = "cm" /\
                nth_error ex_C 0 = Some b /\ c_name b = "p-cm" /\
                name_kind_match (make_ctx no_cs ex_r (fs_path ex_pod_fs) (nb_gvk ex_cm_row)) "cm" b = true /\
                namespace_sieve (make_ctx no_cs ex_r (fs_path ex_pod_fs) (nb_gvk ex_cm_row)) b = true /\
                forall k p, k <> 0 -> nth_error (build_prov ex_layer ex_hs) k = Some p ->
                            may_have_been p "cm" = false /\ may_have_been p (c_name b) = false) /\
  option_map (fun r => get_addr ex_pod_addr (r_node r)) (nth_error ex_out 1) = Some (Some (Scalar TNone SPlain "p-cm")).
Proof.
  split; [vm_compute; reflexivity|]. split; [vm_compute; reflexivity|].
  split; [repeat constructor; cbn [fst snd]; try (apply wf_fresh_doc; reflexivity); reflexivity|].
  split; [vm_compute; reflexivity|]. split; [vm_compute; reflexivity|].
  split; [vm_compute; reflexivity|]. split; [vm_compute; reflexivity|].
  split; [vm_compute; reflexivity|]. split; [vm_compute; reflexivity|].
  split; [|vm_compute; reflexivity].
  exists (nth 0 (build_prov ex_layer ex_hs) (fresh (sc ""), [])), (nth 0 ex_C ex_cand0).
  split; [vm_compute; reflexivity|]. split; [vm_compute; reflexivity|]. split; [vm_compute; reflexivity|].
  split; [vm_compute; reflexivity|]. split; [vm_compute; reflexivity|]. split; [vm_compute; reflexivity|].
  intros [|[|k]] p Hk Hp; [contradiction| |destruct k; discriminate].
  vm_compute in Hp. inv Hp. split; vm_compute; reflexivity.
Qed.

(* ================= the proposed repair (nameref.ResolvedFields) in the model ================= *)

From KV Require Import Res.NameRefResolved.

(* With the repair the two cascade witnesses come out right: the field keeps the name the row of the
   referent's kind wrote.  (The unrepaired model: cascade_witness / C03_no_retarget_whole_refuted.) *)
Definition w2_after_r : list resource := unres (nameref_transform_r no_cs no_nonstr gen_rules w2_state).

Example cascade_repaired_hpa :
  nameref_transform_r no_cs no_nonstr gen_rules w2_state = Ok w2_after_r /\
  option_map (fun r => get_addr w2_addr (r_node r)) (nth_error w2_after_r 2) = Some (Some (Scalar TNone SPlain "app-s")) /\
  option_map (fun r => get_name (r_node r)) (nth_error w2_after_r 0) = Some "app-s".
Proof. split; [vm_compute; reflexivity|]. split; vm_compute; reflexivity. Qed.

(* corpus/C03/builds.json[3]: ConfigMap cm -> p-cm, Secret p-cm -> p-p-cm, ClusterRole resourceNames [cm] *)
Definition w4_state : list resource := [
  mkRes (doc "v1" "ConfigMap" "p-cm" []) (Some "cm") (Some "default") (Some "ConfigMap") (Some "p-") None false;
  mkRes (doc "v1" "Secret" "p-p-cm" []) (Some "p-cm") (Some "default") (Some "Secret") (Some "p-") None false;
  mkRes (doc "rbac.authorization.k8s.io/v1" "ClusterRole" "p-cr"
             [("rules", Seq [Map [("resources", Seq [sc "configmaps"]); ("resourceNames", Seq [sc "cm"])]])])
        (Some "cr") (Some "_non_namespaceable_") (Some "ClusterRole") (Some "p-") None false ].
Definition w4_cs : string -> string -> bool := fun av k => String.eqb k "ClusterRole".
Definition w4_addr : list astep := [AKey "rules"; AIdx 0; AKey "resourceNames"; AIdx 0].

Example cascade_repaired_resource_names :
  option_map (fun r => get_addr w4_addr (r_node r))
             (nth_error (unres (nameref_transform w4_cs no_nonstr gen_rules w4_state)) 2)
  = Some (Some (Scalar TNone SPlain "p-p-cm")) /\
  option_map (fun r => get_addr w4_addr (r_node r))
             (nth_error (unres (nameref_transform_r w4_cs no_nonstr gen_rules w4_state)) 2)
  = Some (Some (Scalar TNone SPlain "p-cm")).
Proof. split; vm_compute; reflexivity. Qed.

(* where no field is shared by several rows the two transformers agree (here: the closed example) *)
Example resolved_agrees_closed :
  nameref_transform_r no_cs no_nonstr gen_rules ex_closed_state = nameref_transform no_cs no_nonstr gen_rules ex_closed_state.
Proof. vm_compute. reflexivity. Qed.

(* non-vacuity of the roleRef/name case: Role admin -> p-admin, a RoleBinding whose roleRef names it *)
Definition ex_rb_state : list resource := [
  mkRes (doc "rbac.authorization.k8s.io/v1" "Role" "p-admin" []) (Some "admin") (Some "default") (Some "Role") (Some "p-") None false;
  mkRes (doc "rbac.authorization.k8s.io/v1" "RoleBinding" "p-rb"
             [("roleRef", Map [("apiGroup", sc "rbac.authorization.k8s.io"); ("kind", sc "Role"); ("name", sc "admin")])])
        (Some "rb") (Some "default") (Some "RoleBinding") (Some "p-") None false ].
Definition ex_rb : resource := nth 1 ex_rb_state (fresh (sc "")).
Definition ex_rb_C : list cand := unres (mapM (view no_cs) ex_rb_state).
Definition ex_rb_b : cand := nth 0 ex_rb_C ex_cand0.
Definition ex_rb_fs : fieldspec := mkFs "rbac.authorization.k8s.io" "" "RoleBinding" "roleRef/name" false.
Definition ex_role_tg : gvk := gvk_lit "rbac.authorization.k8s.io" "" "Role".

Example roleref_nonvacuous :
  has_suffix "roleRef/name" (fs_path ex_rb_fs) = true /\
  roleref_gvk (r_node ex_rb) = Some (gvk_lit "rbac.authorization.k8s.io" "" "Role") /\
  forallb (fun c => negb (prev_name_matches "rbac.authorization.k8s.io" c) && negb (prev_name_matches "Role" c)) ex_rb_C = true /\
  roleref_sieve (make_ctx no_cs ex_rb (fs_path ex_rb_fs) ex_role_tg) ex_rb_b = true /\
  option_map (fun r => get_addr [AKey "roleRef"; AKey "name"] (r_node r))
             (nth_error (unres (nameref_transform no_cs no_nonstr gen_rules ex_rb_state)) 1)
  = Some (Some (Scalar TNone SPlain "p-admin")).
Proof.
  split; [vm_compute; reflexivity|]. split; [vm_compute; reflexivity|]. split; [vm_compute; reflexivity|].
  split; vm_compute; reflexivity.
Qed.

(* ---------- PatchTransformer's bookkeeping (layer field [touches], step STouch) ---------- *)
(* an overlay patches the ConfigMap its base has renamed: the current id is recorded once more, then the
   overlay's own prefix is applied; the history reads cm, p-cm, p-cm and the name is q-p-cm *)
Definition touch_layer : layer :=
  Layer "" "q-" "" [[true; false]]
    [ISub (Layer "" "p-" "" [] [IRes (fresh (doc "v1" "ConfigMap" "cm" []));
                                 IRes (fresh (doc "v1" "Secret" "s" []))])].

Example touch_recorded :
  map (fun r => (get_name (r_node r), r_pnames r))
    (unres (build_names (fun _ _ => false) (fun _ => false)
              gen_name_prefix_fs gen_name_suffix_fs gen_namespace_fs gen_prefix_skip gen_suffix_skip touch_layer [""; ""]))
  = [("q-p-cm", Some "cm,p-cm,p-cm"); ("q-p-s", Some "s,p-s")].
Proof. vm_compute. reflexivity. Qed.

Example touch_prov_example :
  map snd (build_prov touch_layer [""; ""]) =
  [[SPrefix "p-"; STouch; SPrefix "q-"; SHash ""]; [SPrefix "p-"; SPrefix "q-"; SHash ""]].
Proof. reflexivity. Qed.
