(* C06 over the integrated pipeline (Res/Pipeline.v): the name of every generated ConfigMap / Secret of a build
   output is <name accumulated through all layers> "-" hash(content of the emitted document), and a reference the
   name-reference pass resolves to it receives exactly that name. *)
From KV Require Import Res.Pipeline Res.PipelineProofs Res.PipelineFrameProofs Res.PipelineWfProofs Res.RenameProofs.
From KV Require Import Yaml.FieldSpecSpec Yaml.FieldSpecProofs.
From KV Require Import Res.Hash Res.HashProofs Res.CsvFacts Res.FsFacts.
From KV Require Import Res.C03Facts Res.NameRefProofs.
From KV Require Res.Generators.
From Coq Require Import Sorting.Permutation.
Local Open Scope string_scope.

(* ---------- what the steps after the hash can touch: referrer fields of the rule table, metadata/annotations ---------- *)

Definition post_fs : list fieldspec :=
  (flat_map nb_referrers pipe_rule_list ++ [mkFs "" "" "" "metadata/annotations" false])%list.

Definition untouched_post (q : jpath) : Prop :=
  Forall (fun fs => fs_diverges (fs_segments fs) q = true) post_fs.
Definition untouched_post_b (q : jpath) : bool :=
  forallb (fun fs => fs_diverges (fs_segments fs) q) post_fs.
Lemma untouched_post_b_sound q : untouched_post_b q = true -> untouched_post q.
Proof. unfold untouched_post_b, untouched_post. rewrite forallb_forall, Forall_forall. auto. Qed.

Lemma post_in_frame fs : In fs post_fs -> In fs frame_fs.
Proof.
  unfold post_fs, frame_fs. intros H. apply in_app_or in H as [H|[H|[]]].
  - apply in_or_app. right. apply in_or_app. left. exact H.
  - subst. do 2 (apply in_or_app; right). right. right. right. left. reflexivity.
Qed.

Lemma untouched_post_in q fs :
  untouched_post q -> In fs post_fs -> forallb seg_ok (fs_segments fs) = true /\ fs_diverges (fs_segments fs) q = true.
Proof.
  intros HU Hin. split.
  - pose proof frame_fs_segments_ok as H. rewrite forallb_forall in H. apply H. apply post_in_frame. exact Hin.
  - unfold untouched_post in HU. rewrite Forall_forall in HU. apply HU. exact Hin.
Qed.

(* name, kind and the hashed fields are out of reach of the name-reference pass and of the final annotation rewrite *)
Lemma identity_fields_untouched_post :
  untouched_post [JKey "metadata"; JKey "name"] /\ untouched_post [JKey "kind"] /\
  untouched_post [JKey "data"] /\ untouched_post [JKey "binaryData"] /\ untouched_post [JKey "type"].
Proof. repeat split; apply untouched_post_b_sound; vm_compute; reflexivity. Qed.

Definition keeps_post (r r' : resource) : Prop :=
  forall q, untouched_post q -> get_at q (r_node r') = get_at q (r_node r).

Lemma keeps_post_refl r : keeps_post r r.
Proof. intros q _. reflexivity. Qed.
Lemma keeps_post_trans a b c : keeps_post a b -> keeps_post b c -> keeps_post a c.
Proof. intros H1 H2 q Hq. rewrite H2, H1; auto. Qed.

Section Post.
  Variable nonstr : string -> bool.
  Notation cs := pipe_cs.

  Lemma apply_rule_keeps_post cands fs tg r r' :
    In fs post_fs -> apply_rule cs nonstr cands fs tg r = Ok r' -> keeps_post r r'.
  Proof.
    intros Hin H. unfold apply_rule in H.
    match type of H with bind ?E _ = _ => destruct E as [n'| | |] eqn:HF end; cbn [bind] in H; try discriminate.
    inv H. intros q Hq. cbn [r_node with_node].
    destruct (untouched_post_in q fs Hq Hin) as [S D]. unfold fs_segments in *.
    eapply fs_filter_frame; eauto.
  Qed.

  Lemma apply_rules_keeps_post mb ma flags fl : forall r r',
    Forall (fun p => In (fst p) post_fs) fl ->
    apply_rules cs nonstr mb ma flags fl r = Ok r' -> keeps_post r r'.
  Proof.
    induction fl as [|[fs tg] t IH]; intros r r' Hok H; cbn [apply_rules] in H; [inv H; apply keeps_post_refl|].
    inversion Hok as [|? ? H1 H2]; subst. cbn [fst] in H1.
    destruct (mapM (view cs) _) as [cands| | |]; cbn [bind] in H; try discriminate.
    destruct (apply_rule cs nonstr cands fs tg r) as [r1| | |] eqn:E; cbn [bind] in H; try discriminate.
    eapply keeps_post_trans; [eapply apply_rule_keeps_post; eauto|eauto].
  Qed.

  Lemma transform_loop_keeps_post filters :
    Forall (Forall (fun p => In (fst p) post_fs)) filters ->
    forall done todo out,
      transform_loop cs nonstr filters done todo = Ok out ->
      exists tail, out = (done ++ tail)%list /\ Forall2 keeps_post todo tail.
  Proof.
    induction filters as [|fl filters IH]; intros Hok done todo out H.
    - destruct todo; cbn in H; inv H.
      + exists []. split; [now rewrite app_nil_r|constructor].
      + eexists. split; [reflexivity|]. clear. induction (r :: todo); constructor; auto using keeps_post_refl.
    - inversion Hok as [|? ? Hfl Hrest]; subst.
      destruct todo as [|r t]; cbn [transform_loop] in H.
      + inv H. exists []. split; [now rewrite app_nil_r|constructor].
      + destruct fl as [|f0 fl'].
        * destruct (IH Hrest _ _ _ H) as (tail & -> & HF).
          exists (r :: tail). split; [now rewrite <- app_assoc|].
          constructor; [apply keeps_post_refl|assumption].
        * destruct (referencable cs _ r) as [flags| | |]; cbn [bind] in H; try discriminate.
          destruct (apply_rules cs nonstr done t flags (f0 :: fl') r) as [r'| | |] eqn:E;
            cbn [bind] in H; try discriminate.
          destruct (IH Hrest _ _ _ H) as (tail & -> & HF).
          exists (r' :: tail). split; [now rewrite <- app_assoc|].
          constructor; [eapply apply_rules_keeps_post; eauto|assumption].
  Qed.

  Lemma nameref_keeps_post rules m m' :
    pipe_rules = Ok rules -> nameref_transform cs nonstr rules m = Ok m' -> Forall2 keeps_post m m'.
  Proof.
    intros HR H. assert (ER : rules = pipe_rule_list) by (unfold pipe_rule_list; rewrite HR; reflexivity).
    unfold nameref_transform in H.
    destruct (mapM (org_id cs) m) as [orgs| | |]; cbn [bind] in H; try discriminate.
    assert (HF : Forall (Forall (fun p => In (fst p) post_fs)) (map (filters_for rules) orgs)).
    { apply Forall_forall. intros fl Hin. apply in_map_iff in Hin as (org & <- & _).
      eapply Forall_impl; [|apply filters_for_in]. intros p Hp. unfold post_fs. apply in_or_app. left.
      rewrite <- ER. exact Hp. }
    destruct (transform_loop_keeps_post _ HF [] m m' H) as (tail & -> & H2). exact H2.
  Qed.
End Post.

Section Post2.
  Variable nonstr : string -> bool.
  Notation cs := pipe_cs.

  Lemma strip_node_frame_post n q : untouched_post q -> get_at q (strip_node n) = get_at q n.
  Proof.
    intros Hq.
    assert (Hs : In (mkFs "" "" "" "metadata/annotations" false) post_fs)
      by (unfold post_fs; apply in_or_app; right; left; reflexivity).
    destruct (untouched_post_in q _ Hq Hs) as [_ D]. change (fs_segments _) with ["metadata"; "annotations"] in D.
    unfold strip_node. destruct (annos_of n) as [|a0 at_] eqn:EA; [reflexivity|].
    destruct n as [t s v|kvs|es]; try reflexivity.
    destruct (find_field "metadata" kvs) as [md|] eqn:EM; [|reflexivity].
    destruct md as [t s v|mkvs|es]; try reflexivity.
    destruct q as [|[k|i] rest]; [discriminate| |reflexivity].
    cbn [fs_diverges] in D. change (seg_name "metadata") with "metadata" in D.
    cbn [get_at]. destruct (String.eqb k "metadata") eqn:Ek.
    - apply String.eqb_eq in Ek. subst k. rewrite (pp_find_set_first_same _ _ _ _ EM), EM.
      destruct rest as [|[k2|i2] rest2]; [discriminate| |reflexivity].
      cbn [fs_diverges] in D. change (seg_name "annotations") with "annotations" in D.
      destruct (String.eqb k2 "annotations") eqn:Ek2; [rewrite fs_diverges_nil in D; discriminate|].
      apply String.eqb_neq in Ek2. cbn [get_at].
      rewrite pp_find_app, pp_find_remove_first_other by exact Ek2.
      destruct (find_field k2 mkvs); [reflexivity|].
      unfold meta_map_field. destruct (Hygiene.strip_run [] (a0 :: at_)); [reflexivity|].
      cbn [find_field]. destruct (String.eqb "annotations" k2) eqn:E3; [apply String.eqb_eq in E3; congruence|reflexivity].
    - apply String.eqb_neq in Ek. rewrite pp_find_set_first_other by exact Ek. reflexivity.
  Qed.

  (* ---------- name, kind and hashed content as functions of five locations ---------- *)

  Lemma map_field_value_get_at f n : map_field_value f n = get_at [JKey f] n.
  Proof. unfold map_field_value. cbn [get_at]. destruct n; try reflexivity. destruct (find_field f kvs); reflexivity. Qed.

  Definition same_hashed_fields (n n' : node) : Prop :=
    get_at [JKey "metadata"; JKey "name"] n' = get_at [JKey "metadata"; JKey "name"] n /\
    get_at [JKey "kind"] n' = get_at [JKey "kind"] n /\
    get_at [JKey "data"] n' = get_at [JKey "data"] n /\
    get_at [JKey "binaryData"] n' = get_at [JKey "binaryData"] n /\
    get_at [JKey "type"] n' = get_at [JKey "type"] n.

  Lemma same_hashed_fields_spec n n' : same_hashed_fields n n' ->
    get_name n' = get_name n /\ get_kind n' = get_kind n /\ content_of_node n' = content_of_node n.
  Proof.
    intros (H1 & H2 & H3 & H4 & H5). repeat split.
    - unfold get_name. rewrite !meta_string_get_at, H1. reflexivity.
    - rewrite !get_kind_get_at. unfold p_kind. rewrite H2. reflexivity.
    - unfold content_of_node. rewrite !get_kind_get_at, !map_field_value_get_at. unfold p_kind. rewrite H2, H3, H4, H5. reflexivity.
  Qed.

  Lemma keeps_post_fields r r' : keeps_post r r' -> same_hashed_fields (r_node r) (r_node r').
  Proof.
    intros H. destruct identity_fields_untouched_post as (U1 & U2 & U3 & U4 & U5).
    repeat split; apply H; assumption.
  Qed.

  (* ---------- HashTransformer on one well-formed resource ---------- *)

  Lemma suffix_alphabet_no_comma h : str_all in_suffix_alphabet h = true -> no_char ","%char h = true.
  Proof.
    induction h as [|c t IH]; cbn; intro H; [reflexivity|]. apply andb_true_iff in H as [H1 H2]. rewrite (IH H2).
    destruct (Ascii.eqb c ","%char) eqn:E; [|reflexivity]. apply Ascii.eqb_eq in E. subst c. vm_compute in H1. discriminate.
  Qed.

  Lemma set_name_top v n n' f :
    wf_node n -> set_name nonstr v n = Ok n' -> f <> "metadata" -> get_at [JKey f] n' = get_at [JKey f] n.
  Proof.
    intros (kvs & mkvs & tn & sn & name & kn & E & Hm & Hn & Ht & Hg & Hk & Hkg & Hns) H Hf.
    subst n. unfold set_name, put in H. cbn [walk] in H. rewrite Hm in H.
    unfold k_set_field, set_field in H. cbn [is_null andb] in H. rewrite Hn in H.
    cbn [bind fst snd style_of with_style] in H. inv H.
    cbn [get_at]. rewrite find_set_first_other by exact Hf. reflexivity.
  Qed.

  (* what the hash step does to a well-formed resource that asks for a suffix *)
  Definition hashed (r r1 : resource) : Prop :=
    if r_needs_hash r
    then exists h, Hash.hash_content (content_of_node (r_node r1)) = Ok h /\
                   get_name (r_node r1) = get_name (r_node r) ++ "-" ++ h /\
                   content_of_node (r_node r1) = content_of_node (r_node r) /\
                   get_kind (r_node r1) = get_kind (r_node r) /\
                   get_namespace (r_node r1) = get_namespace (r_node r)
    else r1 = r.

  Lemma hash_res_hashed r r1 : wf_res r -> hash_res nonstr r = Ok r1 -> hashed r r1.
  Proof.
    intros [Hh Hw] H. unfold hash_res, hashed in *. destruct (r_needs_hash r) eqn:En; [|inv H; reflexivity].
    destruct (String.eqb (get_kind (r_node r)) "ConfigMap" || String.eqb (get_kind (r_node r)) "Secret"); [|discriminate].
    destruct (Hash.hash_content (content_of_node (r_node r))) as [h| | |] eqn:Eh; cbn [bind] in H; try discriminate.
    unfold hash_one in H. rewrite En in H.
    assert (Hnode : r_node (store_previous_id cs r) = r_node r) by (rewrite store_previous_id_eq; reflexivity).
    rewrite Hnode in H.
    destruct (set_name nonstr _ (r_node r)) as [n'| | |] eqn:Hs; cbn [bind] in H; try discriminate. inv H.
    cbn [r_node with_node].
    destruct (hash_content_shape _ _ Eh) as [_ Ha].
    destruct (wf_node_good _ Hw) as (G1 & _).
    assert (Hg : good (get_name (r_node r) ++ "-" ++ h) = true).
    { apply good_app_r; [assumption|]. cbn [append no_char]. rewrite (suffix_alphabet_no_comma _ Ha). reflexivity. }
    destruct (set_name_spec nonstr _ _ _ Hw Hg Hs) as (W' & N1 & N2 & N3 & N4).
    assert (Hc : content_of_node n' = content_of_node (r_node r)).
    { unfold content_of_node. rewrite N2, !map_field_value_get_at.
      rewrite (set_name_top _ _ _ "data" Hw Hs), (set_name_top _ _ _ "binaryData" Hw Hs), (set_name_top _ _ _ "type" Hw Hs);
        try discriminate. reflexivity. }
    exists h. rewrite Hc. repeat split; assumption.
  Qed.
End Post2.

Section Top.
  Variable nonstr : string -> bool.
  Notation cs := pipe_cs.

  Lemma mapM_hashed m : forall m1, Forall wf_res m -> mapM (hash_res nonstr) m = Ok m1 -> Forall2 hashed m m1.
  Proof.
    induction m as [|r t IH]; intros m1 Hw H; cbn [mapM] in H; [inv H; constructor|].
    inversion Hw as [|? ? W1 W2]; subst.
    destruct (hash_res nonstr r) as [r1| | |] eqn:E; cbn [bind] in H; try discriminate.
    destruct (mapM (hash_res nonstr) t) as [t1| | |]; cbn [bind] in H; try discriminate. inv H.
    constructor; [apply (hash_res_hashed nonstr); assumption|apply IH; auto].
  Qed.

  (* C06_name_is_hash over the integrated build.  [m]: what the tree accumulates (all layers, all merges); guard:
     its documents are well formed (mapping with a kind, a non-empty comma-free name, comma-free namespace) and their
     rename histories consistent.  Every output document comes from one resource [r1] of the hashed map ([subrel]:
     IgnoreLocal may drop some; the final sort permutes) with the SAME metadata.name, kind, data, binaryData and
     type; and r1 is the accumulated resource r renamed  name(r) ++ "-" ++ hash(content of r1)  when r asks for a
     suffix, r itself otherwise. *)
  Theorem build_generated_names o t outs m :
    accumulate nonstr t = Ok m -> Forall wf_res m -> build nonstr o t = Ok outs ->
    exists m1 outs0,
      Forall2 hashed m m1 /\ Permutation outs outs0 /\
      subrel (fun r1 out => same_hashed_fields (r_node r1) out) m1 outs0.
  Proof.
    intros EA HW H. unfold build in H. destruct t as [docs|n d ents]; [discriminate|].
    rewrite EA in H. cbn [bind] in H.
    destruct (mapM (hash_res nonstr) m) as [m1| | |] eqn:EH; cbn [bind] in H; try discriminate.
    destruct (hash_check m1) as [[]| | |]; cbn [bind] in H; try discriminate.
    destruct pipe_rules as [rules| | |] eqn:ER; cbn [bind] in H; try discriminate.
    destruct (nameref_transform cs nonstr rules m1) as [m2| | |] eqn:EN; cbn [bind] in H; try discriminate.
    destruct (ignore_local m2) as [m2l| | |] eqn:EL; cbn [bind] in H; try discriminate.
    destruct (sort_resources o m2l) as [m3| | |] eqn:ES; cbn [bind] in H; try discriminate.
    inv H.
    exists m1, (map (fun r => strip_node (r_node r)) m2l). split; [apply mapM_hashed; assumption|]. split.
    - apply Permutation_map. apply sort_perm with (o := o). exact ES.
    - pose proof (Forall2_subrel _ _ _ _ (nameref_keeps_post nonstr _ _ _ ER EN) (ignore_local_subrel _ _ EL)) as HS.
      eapply subrel_map; [|exact HS]. intros r1 r2 HK. cbv beta.
      destruct (keeps_post_fields _ _ HK) as (F1 & F2 & F3 & F4 & F5).
      destruct identity_fields_untouched_post as (U1 & U2 & U3 & U4 & U5).
      repeat split; rewrite strip_node_frame_post by assumption; assumption.
  Qed.

  (* ... for trees of well-formed documents (Res/PipelineWfProofs.v [tree_wf]) the guard holds *)
  Corollary build_generated_names_wf o t outs :
    tree_wf t -> build nonstr o t = Ok outs ->
    exists m m1 outs0,
      accumulate nonstr t = Ok m /\
      Forall2 hashed m m1 /\ Permutation outs outs0 /\
      subrel (fun r1 out => same_hashed_fields (r_node r1) out) m1 outs0.
  Proof.
    intros Hwf H. destruct (accumulate nonstr t) as [m| | |] eqn:EA;
      try (unfold build in H; destruct t; [discriminate|rewrite EA in H; discriminate]).
    destruct (accumulate_Inv nonstr t m Hwf EA) as [HW _].
    assert (HW' : Forall wf_res m) by (eapply Forall_impl; [|exact HW]; intros r [X _]; exact X).
    destruct (build_generated_names o t outs m EA HW' H) as (m1 & outs0 & A & B & C).
    exists m, m1, outs0. auto.
  Qed.

  (* ---------- references ---------- *)

  (* the candidate the name-reference pass sees for a hashed resource carries the suffixed name *)
  Lemma view_hashed r r1 c :
    r_needs_hash r = true -> hashed r r1 -> view cs r1 = Ok c ->
    exists h, Hash.hash_content (content_of_node (r_node r1)) = Ok h /\ c_name c = get_name (r_node r) ++ "-" ++ h.
  Proof.
    intros En Hh Hv. unfold hashed in Hh. rewrite En in Hh. destruct Hh as (h & H1 & H2 & _).
    exists h. split; [exact H1|]. unfold view in Hv.
    destruct (prev_ids r1); cbn [bind] in Hv; try discriminate. inv Hv. cbn [c_name]. exact H2.
  Qed.
End Top.


(* a reference that one rule row of the generated table resolves to a hashed generated object receives exactly
   <accumulated name> "-" hash(content of that object): the suffix in the reference is the suffix of the name
   (guards: those of C03_refs_follow_partial — the old text names exactly one candidate of the row's kind, which is
   visible to the referrer) *)
Theorem refs_carry_suffix :
  forall nonstr rules b fs,
    effective_rules gen_gvk_order_first gen_gvk_order_last gen_nameref_raw = Ok rules ->
    In b rules -> In fs (nb_referrers b) ->
    forall cands referrer r' a t s old c r r1,
      reaches (path_splitter (fs_path fs)) a (r_node referrer) = true ->
      get_addr a (r_node referrer) = Some (Scalar t s old) ->
      is_null (Scalar t s old) = false ->
      let x := make_ctx pipe_cs referrer (fs_path fs) (nb_gvk b) in
      filter (name_kind_match x old) cands = [c] ->
      roleref_sieve x c = true -> namespace_sieve x c = true ->
      apply_rule pipe_cs nonstr cands fs (nb_gvk b) referrer = Ok r' ->
      r_needs_hash r = true -> hashed r r1 -> view pipe_cs r1 = Ok c ->
      exists t' h, Hash.hash_content (content_of_node (r_node r1)) = Ok h /\
                   get_name (r_node r1) = get_name (r_node r) ++ "-" ++ h /\
                   get_addr a (r_node r') = Some (Scalar t' s (get_name (r_node r) ++ "-" ++ h)).
Proof.
  intros nonstr rules b fs HR Hb Hfs cands referrer r' a t s old c r r1 H1 H2 H3 x H4 H5 H6 H7 En Hh Hv.
  destruct (gen_refs_follow_rule pipe_cs nonstr rules b fs HR Hb Hfs cands referrer r' a t s old c H1 H2 H3 H4 H5 H6 H7) as [t' Ht].
  destruct (view_hashed r r1 c En Hh Hv) as (h & E1 & E2).
  exists t', h. split; [exact E1|]. split.
  - unfold hashed in Hh. rewrite En in Hh. destruct Hh as (h' & X1 & X2 & _). congruence.
  - rewrite <- E2. exact Ht.
Qed.

Definition S (v : string) : node := Scalar TStr SPlain v.
Definition ex_deploy : node :=
  Map [("apiVersion", S "apps/v1"); ("kind", S "Deployment"); ("metadata", Map [("name", S "web")]);
       ("spec", Map [("template", Map [("spec", Map [("volumes", Seq [Map [("name", S "v"); ("configMap", Map [("name", S "cfg")])]])])])])].
Definition ex_base : ptree :=
  PDir "base" (mkPDirsG "" "p-" "" [] [] [] [mkPGen "cfg" "" "" ["a=1"; "b=2"] "" false [] [] false] []
                        (Some (mkPGopts [("g", "1")] [] false)))
       [PFile [ex_deploy]].
Definition ex_top : ptree :=
  PDir "top" (mkPDirs "" "" "-s" [] [] [] [mkPGen "cfg" "" "merge" ["b=3"] "" false [] [] false] []) [ex_base].

(* non-vacuity: a base with generatorOptions and a namePrefix, an overlay that MERGES into the generated ConfigMap and
   adds a nameSuffix, a Deployment referring to it: the guard of [build_generated_names] holds, the output name is
   p-cfg-s-<hash of the merged content> and the reference carries the same suffix *)
Example pipeline_generated_example :
  (exists m, accumulate (fun _ => false) ex_top = Ok m /\ Forall wf_res m) /\
  exists d c, build (fun _ => false) PSortNone ex_top = Ok [d; c] /\
              get_name c = "p-cfg-s-dtd4b88ttf" /\ Hash.hash_content (content_of_node c) = Ok "dtd4b88ttf" /\
              get_at [JKey "spec"; JKey "template"; JKey "spec"; JKey "volumes"; JIdx 0; JKey "configMap"; JKey "name"] d
              = Some (Scalar TNone SPlain "p-cfg-s-dtd4b88ttf").
Proof.
  split.
  - eexists. split; [vm_compute; reflexivity|].
    constructor; [|constructor; [|constructor]].
    + split; [vm_compute; split; reflexivity|].
      eexists _, [("name", Scalar TNone SPlain "p-web-s")], TNone, SPlain, "p-web-s", (Scalar TStr SPlain "Deployment").
      repeat split. intro H; discriminate H.
    + split; [vm_compute; split; reflexivity|].
      eexists _, [("name", Scalar TNone SPlain "p-cfg-s"); ("labels", Map [("g", Scalar TStr SPlain "1")])], TNone, SPlain, "p-cfg-s", (Scalar TStr SPlain "ConfigMap").
      repeat split. intro H; discriminate H.
  - do 2 eexists. split; [vm_compute; reflexivity|]. vm_compute. repeat split.
Qed.

(* ---------- C06_invariance over the integrated build: no directive of a kustomization reaches what is hashed ---------- *)

Lemma hashed_fields_untouched :
  untouched [JKey "kind"] /\ untouched [JKey "data"] /\ untouched [JKey "binaryData"] /\ untouched [JKey "type"].
Proof. repeat split; apply untouched_b_sound; vm_compute; reflexivity. Qed.

Lemma keeps_content r r' : keeps r r' ->
  content_of_node (r_node r') = content_of_node (r_node r) /\ r_needs_hash r' = r_needs_hash r.
Proof.
  intros [H Hh]. split; [|exact Hh]. destruct hashed_fields_untouched as (U1 & U2 & U3 & U4).
  unfold content_of_node. rewrite !get_kind_get_at, !map_field_value_get_at. unfold p_kind.
  rewrite (H _ U1), (H _ U2), (H _ U3), (H _ U4). reflexivity.
Qed.

(* namespace, namePrefix, nameSuffix, labels, commonLabels, commonAnnotations, replicas of one kustomization (in the
   generated transformer order, whatever their values): the hashed content and the hash request of every resource are
   unchanged.  Guards (those of run_transformers_keeps): `labels` entries carry no custom `fields`, no `images:`
   directive, every resource has a kind. *)
Theorem transformers_keep_content nonstr d m m' :
  no_custom_fields d -> pd_images d = [] -> Forall has_kind m -> run_transformers nonstr d m = Ok m' ->
  Forall2 (fun r r' => content_of_node (r_node r') = content_of_node (r_node r) /\ r_needs_hash r' = r_needs_hash r) m m'.
Proof.
  intros Hn Hi Hk H. pose proof (run_transformers_keeps nonstr d m m' Hn Hi Hk H) as K.
  clear H Hk Hn Hi. induction K as [|r r' t t' K1 _ IH]; constructor; [apply keeps_content; exact K1|exact IH].
Qed.
