(* C02: frame and identity statements for ANY pipeline made of field-spec driven transformer steps.
   Every builtin transformer that edits resources (prefix, suffix, namespace, labels, annotations, images,
   replicas, name references) does so by running fsslice/fieldspec filters with some setter; this file
   states what such a pipeline can never do, whatever the setters are. *)
From KV Require Import Yaml.FieldSpec Yaml.FieldSpecSpec Yaml.FieldSpecProofs Yaml.FieldSpecGenProofs.

(* one transformer step: a field-spec list run with a setter *)
Record step := mkStep {
  st_fs : list fieldspec;
  st_kind : option kind;
  st_tag : tag;
  st_set : node -> res node
}.

Definition run_step (s : step) (obj : node) : res node :=
  fsslice_apply (st_kind s) (st_tag s) (st_set s) (st_fs s) obj.

Fixpoint run_steps (ss : list step) (obj : node) : res node :=
  match ss with
  | [] => Ok obj
  | s :: t => do o <- run_step s obj; run_steps t o
  end.

(* a pipeline applied to every resource of a build, in order *)
Fixpoint run_all (ss : list step) (objs : list node) : res (list node) :=
  match objs with
  | [] => Ok []
  | o :: t => do o' <- run_steps ss o; do t' <- run_all ss t; Ok (o' :: t')
  end.

(* q is not under any path of the table (document-independent: patterns, not instances) *)
Definition untargeted (tbl : list fieldspec) (q : jpath) : Prop :=
  Forall (fun fs => fs_diverges (fs_segments fs) q = true) tbl.

Definition segs_ok (tbl : list fieldspec) : Prop :=
  Forall (fun fs => forallb seg_ok (fs_segments fs) = true) tbl.

Lemma Forall_and_combine {A} (P Q : A -> Prop) l :
  Forall P l -> Forall Q l -> Forall (fun x => P x /\ Q x) l.
Proof. induction 1; intros H2; inversion H2; subst; constructor; auto. Qed.

Lemma run_step_frame s obj obj' q :
  segs_ok (st_fs s) -> untargeted (st_fs s) q ->
  run_step s obj = Ok obj' -> get_at q obj' = get_at q obj.
Proof.
  intros Hs Hu H. unfold run_step in H.
  eapply fsslice_apply_frame; [|exact H].
  apply Forall_and_combine; assumption.
Qed.

Lemma run_steps_frame ss : forall obj obj' q,
  Forall (fun s => segs_ok (st_fs s) /\ untargeted (st_fs s) q) ss ->
  run_steps ss obj = Ok obj' -> get_at q obj' = get_at q obj.
Proof.
  induction ss as [|s t IH]; intros obj obj' q HF H; cbn in H.
  - inversion H; reflexivity.
  - inversion HF as [|? ? [Hs Hu] HF']; subst.
    destruct (run_step s obj) as [o1| | |] eqn:E; cbn in H; try discriminate.
    rewrite (IH _ _ _ HF' H). eapply run_step_frame; eauto.
Qed.

(* identity: a successful pipeline returns exactly one output per input, in the same order, and every
   untargeted location of every resource keeps its value *)
Lemma run_all_frame ss : forall objs objs',
  run_all ss objs = Ok objs' ->
  List.length objs' = List.length objs /\
  forall i o o' q, nth_error objs i = Some o -> nth_error objs' i = Some o' ->
    Forall (fun s => segs_ok (st_fs s) /\ untargeted (st_fs s) q) ss ->
    get_at q o' = get_at q o.
Proof.
  induction objs as [|o t IH]; intros objs' H; cbn in H.
  - inversion H; subst. split; [reflexivity|]. intros [|i] ? ? ? H1; cbn in H1; discriminate.
  - destruct (run_steps ss o) as [o1| | |] eqn:E; cbn in H; try discriminate.
    destruct (run_all ss t) as [t1| | |] eqn:E2; cbn in H; try discriminate.
    inversion H; subst. destruct (IH _ eq_refl) as [HL HP]. split; [cbn; now rewrite HL|].
    intros [|i] a a' q H1 H2 HF; cbn in H1, H2.
    + inversion H1; inversion H2; subst. eapply run_steps_frame; eauto.
    + eapply HP; eauto.
Qed.

(* steps whose field specs are drawn from the generated builtin tables *)
Definition builtin_step (s : step) : Prop := incl (st_fs s) gen_all_fs.

Lemma gen_all_segs_ok : segs_ok gen_all_fs.
Proof.
  unfold segs_ok. apply Forall_forall. intros fs Hin.
  pose proof gen_fs_segments_ok as H. rewrite forallb_forall in H. apply H; exact Hin.
Qed.

Lemma builtin_pipeline_frame ss objs objs' :
  Forall builtin_step ss -> run_all ss objs = Ok objs' ->
  List.length objs' = List.length objs /\
  forall i o o' q, nth_error objs i = Some o -> nth_error objs' i = Some o' ->
    untargeted gen_all_fs q -> get_at q o' = get_at q o.
Proof.
  intros HB H. destruct (run_all_frame ss objs objs' H) as [HL HP]. split; [exact HL|].
  intros i o o' q H1 H2 HU. eapply HP; eauto.
  apply Forall_forall. intros s Hs. rewrite Forall_forall in HB. specialize (HB s Hs).
  split.
  - unfold segs_ok. apply Forall_forall. intros fs Hfs.
    pose proof gen_all_segs_ok as G. unfold segs_ok in G. rewrite Forall_forall in G. apply G. apply HB; exact Hfs.
  - unfold untargeted in *. apply Forall_forall. intros fs Hfs. rewrite Forall_forall in HU. apply HU. apply HB; exact Hfs.
Qed.

(* non-vacuity: a concrete untargeted location exists (spec/extra of any object) and a concrete targeted one does not qualify *)
Example untargeted_example : untargeted gen_all_fs [JKey "spec"; JKey "extra"].
Proof. unfold untargeted. apply Forall_forall. intros fs Hin.
  assert (H : forallb (fun fs => fs_diverges (fs_segments fs) [JKey "spec"; JKey "extra"]) gen_all_fs = true) by (vm_compute; reflexivity).
  rewrite forallb_forall in H. apply H; exact Hin. Qed.

Example targeted_example :
  forallb (fun fs => fs_diverges (fs_segments fs) [JKey "metadata"; JKey "labels"; JKey "app"]) gen_all_fs = false.
Proof. vm_compute. reflexivity. Qed.
