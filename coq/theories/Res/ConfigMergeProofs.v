(* C11, configurations: the sort at the end of every TransformerConfig.Merge makes the accumulated nameReference
   table depend only on the MULTISET of its rows - not on the order in which sibling bases or layers contributed
   them - whenever the row order (Gvk.IsLessThan) is a strict total order on the rows (exact, decidable guard). *)
From KV Require Import Res.ConfigMerge Base.SortFacts Base.StrOrder.
From Coq Require Import Sorting.Permutation Sorting.Sorted.
Local Open Scope string_scope.

Section Proofs.
  Variable ofirst olast : list string.
  Notation less := (nbr_less ofirst olast).
  Notation sortn := (nbr_sort ofirst olast).

  Lemma gvk_less_asym a b : gvk_less ofirst olast a b = true -> gvk_less ofirst olast b a = false.
  Proof.
    unfold gvk_less. rewrite (Z.eqb_sym (type_order ofirst olast (g_kind b))).
    destruct (Z.eqb_spec (type_order ofirst olast (g_kind a)) (type_order ofirst olast (g_kind b))) as [E|E].
    - apply (sltb_asym (stable_sort_string a) (stable_sort_string b)).
    - intros H. apply Z.ltb_lt in H. apply Z.ltb_ge. lia.
  Qed.

  Lemma less_asym a b : less a b = true -> less b a = false.
  Proof. apply gvk_less_asym. Qed.

  Lemma insert_perm x l : Permutation (nbr_insert ofirst olast x l) (x :: l).
  Proof.
    induction l as [|y t IH]; cbn; [auto|].
    destruct (less y x); [|auto].
    eapply perm_trans; [apply perm_skip; exact IH|apply perm_swap].
  Qed.

  Lemma sortn_perm l : Permutation (sortn l) l.
  Proof.
    induction l as [|x t IH]; cbn; [auto|].
    eapply perm_trans; [apply insert_perm|]. auto.
  Qed.

  Lemma insert_sorted x l : weakly_sorted less l -> weakly_sorted less (nbr_insert ofirst olast x l).
  Proof.
    unfold weakly_sorted. induction l as [|y t IH]; intros S; cbn.
    - constructor; auto.
    - destruct (less y x) eqn:E.
      + inversion S as [|? ? St Hd]; subst. constructor; [auto|].
        destruct t as [|z t']; cbn.
        * constructor. apply less_asym. exact E.
        * destruct (less z x); constructor.
          -- inversion Hd; auto.
          -- apply less_asym. exact E.
      + constructor; [exact S|]. constructor. exact E.
  Qed.

  Lemma sortn_sorted l : weakly_sorted less (sortn l).
  Proof. induction l as [|x t IH]; cbn; [constructor|apply insert_sorted; exact IH]. Qed.

  (* sort.Sort(nbrSlice) as modelled meets the contract of sort.Sort for every input *)
  Theorem sortn_sort_spec : sort_spec less sortn.
  Proof. intros l. split; [apply sortn_perm|apply sortn_sorted]. Qed.

  (* the accumulated table is canonical: two row multisets that agree sort to the same table *)
  Theorem config_sort_canonical l l' :
    total_b less l = true -> Permutation l l' -> sortn l = sortn l'.
  Proof.
    intros G P. apply (sort_canonical_b _ less sortn l l' sortn_sort_spec G P).
  Qed.

  (* ... hence so does whatever reads the table in order: the rule that acts first on a referrer *)
  Corollary winner_canonical ref path cands l l' :
    total_b less l = true -> Permutation l l' ->
    winner ref path cands (sortn l) = winner ref path cands (sortn l').
  Proof. intros G P. rewrite (config_sort_canonical l l' G P). reflexivity. Qed.
End Proofs.

(* non-vacuity: the two custom rows of the seeded scenario in either order, next to a default row *)
Example config_sort_example :
  let cm := mkNbr "" "" "ConfigMap" [mkFs "" "" "MyApp" "spec/ref/name" false] in
  let sec := mkNbr "" "" "Secret" [mkFs "" "" "MyApp" "spec/ref/name" false] in
  let dflt := mkNbr "" "v1" "ConfigMap" [mkFs "" "" "Pod" "spec/volumes/configMap/name" false] in
  let first := ["Namespace"; "ConfigMap"; "Secret"] in
  total_b (nbr_less first []) [sec; dflt; cm] = true /\
  nbr_sort first [] [sec; dflt; cm] = nbr_sort first [] [cm; sec; dflt] /\
  winner (gvk_lit "example.com" "v1" "MyApp") "spec/ref/name" [gvk_lit "" "v1" "Secret"; gvk_lit "" "v1" "ConfigMap"]
         (nbr_sort first [] [sec; dflt; cm]) = Some (gvk_lit "" "v1" "ConfigMap").
Proof. vm_compute. repeat split. Qed.
