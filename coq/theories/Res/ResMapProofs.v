(* Proofs about KV.Res.ResMapModel: identity uniqueness (Inv) through the resmap operations,
   well-formedness after IgnoreLocal, and the tail of krusty.Run. *)
From KV Require Import Base.Prelude Res.HygieneTypes Gen.Annotations Res.Hygiene Res.HygieneProofs Res.ResMapModel.
Open Scope list_scope.

Ltac inv H := inversion H; subst; clear H.

Definition key (r : mres) := id_key (cur r).

(* ---------- strings ---------- *)

Lemma append_inj_l (p a b : string) : (p ++ a)%string = (p ++ b)%string -> a = b.
Proof. induction p as [|c p IH]; cbn; intros H; auto. inv H. auto. Qed.

Lemma length_append (a b : string) : String.length (a ++ b)%string = String.length a + String.length b.
Proof. induction a as [|c a IH]; cbn; auto. Qed.

(* a ++ b = c ++ d with |b| = |d| splits at the same place *)
Lemma append_eq_len (a c b d : string) :
  (a ++ b)%string = (c ++ d)%string -> String.length b = String.length d -> a = c /\ b = d.
Proof.
  revert c. induction a as [|x a IH]; intros [|y c] H L; cbn in *.
  - auto.
  - exfalso. subst b. cbn in L. rewrite length_append in L. lia.
  - exfalso. subst d. cbn in L. rewrite length_append in L. lia.
  - inv H. destruct (IH c H2 L) as [-> ->]. auto.
Qed.

Lemma append_inj_r (a b s : string) : (a ++ s)%string = (b ++ s)%string -> a = b.
Proof. intros H. apply (append_eq_len a b s s H eq_refl). Qed.

Lemma append_nil_inv (a b : string) : (a ++ b)%string = ""%string -> a = ""%string /\ b = ""%string.
Proof. destruct a; cbn; intros H; [auto | discriminate]. Qed.

(* ---------- identities ---------- *)

Lemma id_equals_key a b : id_equals a b = true <-> id_key a = id_key b.
Proof.
  unfold id_equals, gvk_equals, id_key. rewrite !andb_true_iff, !String.eqb_eq.
  split.
  - intros [E [N [[G V] K]]]. congruence.
  - intros H. inv H. auto.
Qed.

Lemma id_equals_refl a : id_equals a a = true.
Proof. apply id_equals_key. reflexivity. Qed.

Lemma id_same_refl a : id_same a a = true.
Proof.
  unfold id_same, gvk_equals. rewrite !String.eqb_refl. destruct (g_cs (i_gvk a)); reflexivity.
Qed.

Lemma id_same_fields a b : id_same a b = true ->
  g_kind (i_gvk a) = g_kind (i_gvk b) /\ i_name a = i_name b /\ id_key a = id_key b.
Proof.
  unfold id_same, gvk_equals, id_key, eff_ns.
  rewrite !andb_true_iff, !String.eqb_eq. intros [[[[[G V] K] C] N] S].
  apply Bool.eqb_prop in C. rewrite G, V, K, C, N, S. auto.
Qed.

Lemma existsb_equals_in r m :
  existsb (fun x => id_equals (cur r) (cur x)) m = true <-> In (key r) (map key m).
Proof.
  rewrite existsb_exists. split.
  - intros [x [Hx E]]. apply id_equals_key in E. apply in_map_iff. exists x. split; auto.
  - intros H. apply in_map_iff in H as [x [E Hx]]. exists x. split; auto. apply id_equals_key. auto.
Qed.

(* ---------- list facts ---------- *)

Lemma NoDup_snoc {A} (l : list A) (x : A) : NoDup l -> ~ In x l -> NoDup (l ++ [x]).
Proof.
  induction l as [|y t IH]; cbn; intros N H.
  - constructor; auto.
  - inv N. constructor.
    + intros X. apply in_app_or in X as [X|[X|[]]]; auto.
    + apply IH; auto.
Qed.

Lemma NoDup_map_filter {A B} (f : A -> B) (p : A -> bool) (l : list A) :
  NoDup (map f l) -> NoDup (map f (filter p l)).
Proof.
  induction l as [|x t IH]; cbn; intros N; auto.
  inv N. destruct (p x); cbn.
  - constructor.
    + intros X. apply H1. apply in_map_iff in X as [y [E Hy]].
      apply filter_In in Hy as [Hy _]. apply in_map_iff. exists y; auto.
    + apply IH; assumption.
  - apply IH; assumption.
Qed.

(* if equal new keys force equal old keys, distinct old keys give distinct new keys *)
Lemma NoDup_map_rel {A B C} (k1 : A -> B) (k2 : A -> C) (l : list A) :
  NoDup (map k1 l) ->
  (forall a b, In a l -> In b l -> k2 a = k2 b -> k1 a = k1 b) ->
  NoDup (map k2 l).
Proof.
  induction l as [|x t IH]; cbn; intros N H; [constructor|].
  inv N. constructor.
  - intros X. apply in_map_iff in X as [y [E Hy]].
    apply H2. apply in_map_iff. exists y. split; [|assumption]. apply H; cbn; auto.
  - apply IH; auto.
Qed.

Lemma mapM_ok_map {A B} (f : A -> res B) (g : A -> B) (l : list A) (l' : list B) :
  (forall a b, f a = Ok b -> g a = b) -> mapM f l = Ok l' -> l' = map g l.
Proof.
  intros Hg. revert l'. induction l as [|x t IH]; cbn; intros l' H.
  - inv H. reflexivity.
  - destruct (f x) as [y| | |] eqn:E; cbn in H; try discriminate.
    destruct (mapM f t) as [ys| | |] eqn:E2; cbn in H; try discriminate.
    inv H. rewrite (Hg _ _ E), (IH ys eq_refl). reflexivity.
Qed.

Lemma map_replace_nth {A B} (f : A -> B) (l : list A) i x y :
  nth_error l i = Some x -> f x = f y -> map f (replace_nth i y l) = map f l.
Proof.
  revert i. induction l as [|h t IH]; intros [|i]; cbn; intros H E; try discriminate.
  - inv H. congruence.
  - rewrite (IH i); auto.
Qed.

Lemma last_index_spec {A} (f : A -> bool) (l : list A) i acc j :
  last_index f l i acc = Some j ->
  acc = Some j \/ exists x, nth_error l (j - i) = Some x /\ f x = true /\ i <= j.
Proof.
  revert i acc. induction l as [|h t IH]; cbn; intros i acc H.
  - left; auto.
  - apply IH in H as [H|[x [Hn [Hf Hle]]]].
    + destruct (f h) eqn:E.
      * inv H. right. exists h. rewrite Nat.sub_diag. cbn. auto.
      * left; auto.
    + right. exists x. replace (j - i) with (S (j - S i)) by lia. cbn. repeat split; auto. lia.
Qed.

(* ---------- Inv through the resWrangler operations ---------- *)

Lemma Inv_nil : Inv [].
Proof. constructor. Qed.

Lemma append_spec r m m' : append r m = Ok m' ->
  m' = m ++ [r] /\ ~ In (key r) (map key m).
Proof.
  unfold append. destruct (existsb _ m) eqn:E; intros H; inv H.
  split; auto. intros X. apply existsb_equals_in in X. congruence.
Qed.

Lemma append_inv r m m' : Inv m -> append r m = Ok m' -> Inv m'.
Proof.
  intros I H. apply append_spec in H as [-> N]. unfold Inv. rewrite map_app. cbn.
  apply NoDup_snoc; auto.
Qed.

Lemma append_all_inv rs m m' : Inv m -> append_all rs m = Ok m' -> Inv m'.
Proof.
  revert m. induction rs as [|r t IH]; cbn; intros m I H.
  - inv H. auto.
  - destruct (append r m) as [m1| | |] eqn:E; cbn in H; try discriminate.
    eapply IH; [|exact H]. eapply append_inv; eauto.
Qed.

Lemma append_all_app rs m m' : append_all rs m = Ok m' -> m' = m ++ rs.
Proof.
  revert m. induction rs as [|r t IH]; cbn; intros m H.
  - inv H. rewrite app_nil_r. reflexivity.
  - destruct (append r m) as [m1| | |] eqn:E; cbn in H; try discriminate.
    apply append_spec in E as [-> _]. apply IH in H. rewrite <- app_assoc in H. exact H.
Qed.

(* whatever was there before: a map rebuilt by Clear + Append has unique ids *)
Lemma append_all_nil_inv rs m' : append_all rs [] = Ok m' -> Inv m'.
Proof. apply append_all_inv. apply Inv_nil. Qed.

Lemma append_all_ok rs m : Inv (m ++ rs) -> append_all rs m = Ok (m ++ rs).
Proof.
  revert m. induction rs as [|r t IH]; cbn; intros m I.
  - rewrite app_nil_r. reflexivity.
  - unfold append. destruct (existsb _ m) eqn:E.
    + exfalso. apply existsb_equals_in in E. unfold Inv in I. rewrite map_app in I. cbn in I.
      apply NoDup_remove_2 in I. apply I. apply in_or_app. left. exact E.
    + cbn. replace (m ++ r :: t) with ((m ++ [r]) ++ t) in * by (rewrite <- app_assoc; reflexivity).
      apply IH. exact I.
Qed.

Lemma remove_inv id m m' : Inv m -> remove id m = Ok m' -> Inv m'.
Proof.
  unfold remove. intros I H. destruct (Nat.eqb _ _); inv H.
  apply NoDup_map_filter. exact I.
Qed.

Lemma remove_spec id m m' : remove id m = Ok m' ->
  forall r, In r m' -> In r m /\ id_same (cur r) id = false.
Proof.
  unfold remove. intros H r Hr. destruct (Nat.eqb _ _); inv H.
  apply filter_In in Hr as [Hr E]. split; auto. apply negb_true_iff in E. exact E.
Qed.

Lemma replace_res_inv r m i m' : Inv m -> replace_res r m = Ok (i, m') -> Inv m'.
Proof.
  unfold replace_res, index_of_cur_id. intros I H.
  destruct (Nat.ltb 1 _); cbn in H; try discriminate.
  destruct (last_index _ m 0 None) as [j|] eqn:E; inv H.
  apply last_index_spec in E as [E|[x [Hn [Hf _]]]]; [discriminate|].
  rewrite Nat.sub_0_r in Hn. unfold Inv.
  rewrite (map_replace_nth (fun r => id_key (cur r)) m i x r Hn); auto.
  apply id_equals_key in Hf. symmetry. exact Hf.
Qed.

Lemma absorb_one_inv r m m' : Inv m -> absorb_one r m = Ok m' -> Inv m'.
Proof.
  unfold absorb_one. intros I H.
  destruct (matching_any_id (cur r) m 0) as [idxs| | |]; cbn in H; try discriminate.
  destruct idxs as [|i [|j idxs]].
  - destruct (merge_or_replace r); [discriminate|]. eapply append_inv; eauto.
  - destruct (nth_error m i) as [old|]; [|discriminate].
    destruct (merge_or_replace r); [|discriminate].
    destruct (replace_res (copy_merge r old) m) as [[k m1]| | |] eqn:E; cbn in H; try discriminate.
    destruct (Nat.eqb k i); inv H. eapply replace_res_inv; eauto.
  - discriminate.
Qed.

Lemma absorb_all_inv rs m m' : Inv m -> absorb_all rs m = Ok m' -> Inv m'.
Proof.
  revert m. induction rs as [|r t IH]; cbn; intros m I H.
  - inv H. auto.
  - destruct (absorb_one r m) as [m1| | |] eqn:E; cbn in H; try discriminate.
    eapply IH; [|exact H]. eapply absorb_one_inv; eauto.
Qed.

Lemma drop_empties_inv m : Inv m -> Inv (drop_empties m).
Proof. apply NoDup_map_filter. Qed.

(* ---------- re-append based operations: unique afterwards, whatever came in ---------- *)

Lemma sort_legacy_inv m m' : sort_legacy m = Ok m' -> Inv m'.
Proof. apply append_all_nil_inv. Qed.

Lemma sm_patch_inv sc sel pn pk an ak del m m' : sm_patch sc sel pn pk an ak del m = Ok m' -> Inv m'.
Proof. apply append_all_nil_inv. Qed.

(* ---------- namespace transformer ---------- *)

Lemma filter_count_one {A} (f : A -> bool) (done t : list A) (x : A) :
  List.length (filter f (done ++ x :: t)) = 1 -> f x = true -> forall y, In y done -> f y = false.
Proof.
  intros L Fx y Hy. rewrite filter_app in L. cbn in L. rewrite Fx in L.
  rewrite app_length in L. cbn in L.
  destruct (f y) eqn:E; auto. exfalso.
  assert (In y (filter f done)) by (apply filter_In; auto).
  destruct (filter f done); [destruct H | cbn in L; lia].
Qed.

Lemma ns_go_inv ns u todo : forall done m',
  (forall r, In r todo -> m_empty r = false) ->
  NoDup (map key done) -> ns_go ns u done todo = Ok m' -> NoDup (map key m').
Proof.
  induction todo as [|r t IH]; cbn; intros done m' NE N H.
  - inv H. exact N.
  - rewrite (NE r (or_introl eq_refl)) in H.
    destruct (Nat.eqb _ 1) eqn:C; [|discriminate].
    apply Nat.eqb_eq in C.
    eapply IH; [| |exact H].
    + intros x Hx. apply NE. right. exact Hx.
    + rewrite map_app. cbn. apply NoDup_snoc; auto.
      intros X. apply in_map_iff in X as [y [E Hy]].
      pose proof (filter_count_one _ done t (ns_one ns u r) C (id_equals_refl _) y Hy) as F.
      cbn in F. assert (id_equals (cur (ns_one ns u r)) (cur y) = true) by (apply id_equals_key; unfold key in E; auto).
      congruence.
Qed.

Definition no_empties (m : rmap) : Prop := forall r, In r m -> m_empty r = false.

Lemma ns_all_inv ns u m m' : Inv m -> no_empties m -> ns_all ns u m = Ok m' -> Inv m'.
Proof.
  unfold ns_all. intros I NE H. destruct (String.eqb ns ""); [inv H; exact I|].
  exact (ns_go_inv ns u m [] m' NE (NoDup_nil _) H).
Qed.

(* with a non-empty target namespace uniqueness holds afterwards even if it did not hold before *)
Lemma ns_all_unique ns u m m' : ns <> ""%string -> no_empties m -> ns_all ns u m = Ok m' -> Inv m'.
Proof.
  unfold ns_all. intros Hn NE H. destruct (String.eqb ns "") eqn:E.
  - apply String.eqb_eq in E. contradiction.
  - exact (ns_go_inv ns u m [] m' NE (NoDup_nil _) H).
Qed.

(* ---------- name prefix / suffix ---------- *)

(* the kind a resource had first (its OrgId) is its current kind: no patch changed the kind *)
Definition uniform (m : rmap) : Prop :=
  forall r o, In r m -> org_id r = Ok o -> g_kind (i_gvk o) = g_kind (i_gvk (cur r)).

Lemma org_id_gv r o : org_id r = Ok o ->
  g_group (i_gvk o) = g_group (i_gvk (cur r)) /\ g_version (i_gvk o) = g_version (i_gvk (cur r)).
Proof.
  unfold org_id, prev_ids. intros H.
  destruct (ann_get K_utils_BuildAnnotationPreviousNames (m_ann r)) as [names|].
  - destruct (_ && _); cbn in H; [|discriminate].
    destruct (zip3 _ _ _) as [|[[n s] k] t]; cbn in H; inv H; auto.
  - cbn in H. inv H. auto.
Qed.

Lemma skipped_same tab a b :
  g_group (i_gvk a) = g_group (i_gvk b) -> g_version (i_gvk a) = g_version (i_gvk b) ->
  g_kind (i_gvk a) = g_kind (i_gvk b) -> skipped tab a = skipped tab b.
Proof.
  intros G V K. unfold skipped. induction tab as [|[[g v] k] t IH]; cbn; auto.
  rewrite G, V, K, IH. reflexivity.
Qed.

(* set_ann / store_prev / set_name leave everything of the key but the name alone *)
Lemma cur_set_ann a r : cur (set_ann a r) = cur r.
Proof. reflexivity. Qed.
Lemma cur_store_prev r : cur (store_prev r) = cur r.
Proof. reflexivity. Qed.

Definition rename_key (f : string -> string) (i : resid) : resid := mkId (i_gvk i) (f (i_name i)) (i_ns i).

Lemma prefix_one_cur p r r' : prefix_one p r = Ok r' ->
  exists o, org_id r = Ok o /\
  cur r' = if skipped gen_prefix_skip o then cur r
           else if String.eqb (i_name (cur r)) "" then cur r
           else rename_key (fun n => (p ++ n)%string) (cur r).
Proof.
  unfold prefix_one. destruct (org_id r) as [o| | |]; cbn [bind]; try discriminate. intros H. exists o. split; auto.
  destruct (skipped gen_prefix_skip o); inv H; auto.
  unfold cur, store_prev, set_ann, set_name, rename_key.
  destruct (String.eqb p ""); cbn; destruct (String.eqb (i_name (m_id r)) ""); reflexivity.
Qed.

Lemma suffix_one_cur s r r' : suffix_one s r = Ok r' ->
  exists o, org_id r = Ok o /\
  cur r' = if skipped gen_suffix_skip o then cur r
           else if String.eqb (i_name (cur r)) "" then cur r
           else rename_key (fun n => (n ++ s)%string) (cur r).
Proof.
  unfold suffix_one. destruct (org_id r) as [o| | |]; cbn [bind]; try discriminate. intros H. exists o. split; auto.
  destruct (skipped gen_suffix_skip o); inv H; auto.
  unfold cur, store_prev, set_ann, set_name, rename_key.
  destruct (String.eqb s ""); cbn; destruct (String.eqb (i_name (m_id r)) ""); reflexivity.
Qed.

Lemma id_key_rename f i : id_key (rename_key f i) =
  (g_group (i_gvk i), g_version (i_gvk i), g_kind (i_gvk i), f (i_name i), eff_ns i).
Proof. reflexivity. Qed.

(* generic: renaming by a function that is injective on non-empty names, applied under a skip decision
   that depends only on group/version/kind, keeps distinct keys distinct *)
Section Rename.
  Variable tab : list (string * string * string).
  Variable f : string -> string.
  Hypothesis f_inj : forall a b, a <> ""%string -> b <> ""%string -> f a = f b -> a = b.
  Hypothesis f_nonempty : forall a, a <> ""%string -> f a <> ""%string.
  Variable one : mres -> res mres.
  Hypothesis one_cur : forall r r', one r = Ok r' ->
    exists o, org_id r = Ok o /\
    cur r' = if skipped tab o then cur r
             else if String.eqb (i_name (cur r)) "" then cur r else rename_key f (cur r).

  Lemma rename_all_inv m m' : Inv m -> uniform m -> mapM one m = Ok m' -> Inv m'.
  Proof.
    intros I U H.
    pose (g := fun r => match one r with Ok x => x | _ => r end).
    assert (E : m' = map g m).
    { eapply mapM_ok_map; [|exact H]. intros a b Hab. unfold g. rewrite Hab. reflexivity. }
    assert (OK : forall r, In r m -> exists r', one r = Ok r').
    { clear E I U. revert m' H. induction m as [|x t IH]; cbn; intros m' H r Hr; [destruct Hr|].
      destruct (one x) as [y| | |] eqn:E1; cbn in H; try discriminate.
      destruct (mapM one t) as [ys| | |] eqn:E2; cbn in H; try discriminate.
      destruct Hr as [<-|Hr]; eauto. }
    subst m'. unfold Inv. rewrite map_map.
    apply (NoDup_map_rel key (fun r => id_key (cur (g r))) m I).
    intros a b Ha Hb Eq.
    destruct (OK a Ha) as [a' Ea]. destruct (OK b Hb) as [b' Eb].
    unfold g in Eq. rewrite Ea, Eb in Eq.
    destruct (one_cur _ _ Ea) as [oa [Oa Ca]]. destruct (one_cur _ _ Eb) as [ob [Ob Cb]].
    pose proof (U a oa Ha Oa) as Ka. pose proof (U b ob Hb Ob) as Kb.
    destruct (org_id_gv _ _ Oa) as [Ga Va]. destruct (org_id_gv _ _ Ob) as [Gb Vb].
    (* group/version/kind of the new keys are those of the old keys *)
    assert (GVK : g_group (i_gvk (cur a)) = g_group (i_gvk (cur b)) /\
                  g_version (i_gvk (cur a)) = g_version (i_gvk (cur b)) /\
                  g_kind (i_gvk (cur a)) = g_kind (i_gvk (cur b)) /\
                  eff_ns (cur a) = eff_ns (cur b)).
    { rewrite Ca, Cb in Eq.
      destruct (skipped tab oa), (skipped tab ob), (String.eqb (i_name (cur a)) ""), (String.eqb (i_name (cur b)) "");
        try rewrite !id_key_rename in Eq; unfold id_key in Eq; inv Eq; auto. }
    destruct GVK as [G [V [K En]]].
    assert (S : skipped tab oa = skipped tab ob).
    { apply skipped_same; congruence. }
    rewrite Ca, Cb, S in Eq. unfold key.
    destruct (skipped tab ob); auto.
    destruct (String.eqb (i_name (cur a)) "") eqn:Na, (String.eqb (i_name (cur b)) "") eqn:Nb; auto;
      try rewrite !id_key_rename in Eq; unfold id_key in *; inv Eq.
    - apply String.eqb_eq in Na. apply String.eqb_neq in Nb. exfalso. eapply f_nonempty; eauto. congruence.
    - apply String.eqb_neq in Na. apply String.eqb_eq in Nb. exfalso. eapply f_nonempty; eauto. congruence.
    - apply String.eqb_neq in Na. apply String.eqb_neq in Nb.
      match goal with HH : f _ = f _ |- _ => rewrite (f_inj _ _ Na Nb HH) end. reflexivity.
  Qed.
End Rename.

Lemma prefix_all_inv p m m' : Inv m -> uniform m -> prefix_all p m = Ok m' -> Inv m'.
Proof.
  apply (rename_all_inv gen_prefix_skip (fun n => (p ++ n)%string)).
  - intros a b _ _ H. eapply append_inj_l; eauto.
  - intros a Ha H. apply append_nil_inv in H as [_ H]. auto.
  - apply prefix_one_cur.
Qed.

Lemma suffix_all_inv s m m' : Inv m -> uniform m -> suffix_all s m = Ok m' -> Inv m'.
Proof.
  apply (rename_all_inv gen_suffix_skip (fun n => (n ++ s)%string)).
  - intros a b _ _ H. eapply append_inj_r; eauto.
  - intros a Ha H. apply append_nil_inv in H as [H _]. auto.
  - apply suffix_one_cur.
Qed.
