(* C09: every output resource of a tree-level build (accumulate_ns) is the image of an input resource under
   the namespace directives from its layer up to the root. *)
From KV Require Import Res.Labels Res.LabelsProofs Res.Namespace Res.NamespaceProofs.

Section NsTree.
  Variable t : scope_table.
  Variable fss : list fieldspec.

  Inductive nreaches : nlayer -> node -> list string -> Prop :=
  | nreach_own ns own bases r : In r own -> nreaches (NLayer ns own bases) r [ns]
  | nreach_base ns own bases b r ch : In b bases -> nreaches b r ch -> nreaches (NLayer ns own bases) r (ch ++ [ns])%list.

  Fixpoint nlayer_size (l : nlayer) : nat :=
    match l with
    | NLayer _ _ bases => S (fold_right (fun b acc => nlayer_size b + acc) 0 bases)
    end.

  Lemma append_all_spec : forall l acc out, append_all t acc l = Ok out -> out = (acc ++ l)%list.
  Proof.
    induction l as [|r rest IH]; intros acc out H; cbn [append_all] in H.
    - inversion H. rewrite app_nil_r. reflexivity.
    - destruct (Nat.eqb (count_id t (cur_id t r) acc) 0); [|discriminate].
      apply IH in H. rewrite H, <- app_assoc. reflexivity.
  Qed.

  Lemma ns_chain_snoc : forall ch o o1 d,
    ns_chain t fss ch o = Ok o1 ->
    ns_chain t fss (ch ++ [d]) o =
      (if String.eqb d "" then Ok o1 else ns_filter t (mkNs d fss false RBDefault) o1).
  Proof.
    induction ch as [|d0 rest IH]; intros o o1 d H; cbn [app ns_chain] in *.
    - inversion H; subst. destruct (String.eqb d ""); [reflexivity|].
      destruct (ns_filter t (mkNs d fss false RBDefault) o1); reflexivity.
    - destruct (String.eqb d0 ""); [apply IH; exact H|].
      destruct (ns_filter t (mkNs d0 fss false RBDefault) o) as [o'| | |]; cbn [bind] in *; try discriminate.
      apply IH; exact H.
  Qed.

  Lemma ns_transform_images ns rs out :
    ns_transform t (mkNs ns fss false RBDefault) rs = Ok out ->
    Forall2 (fun r r' => (if String.eqb ns "" then Ok r else ns_filter t (mkNs ns fss false RBDefault) r) = Ok r') rs out.
  Proof.
    intros H. destruct (String.eqb ns "") eqn:E.
    - unfold ns_transform in H. cbn [ns_value] in H. rewrite E in H. inversion H; subst.
      induction out; constructor; auto.
    - destruct (ns_transform_spec t (mkNs ns fss false RBDefault) rs out E H) as (HF & _). exact HF.
  Qed.

  Theorem ns_build_is_chain : forall n l out,
    nlayer_size l <= n ->
    accumulate_ns t fss l = Ok out ->
    Forall (fun o => exists r ch, nreaches l r ch /\ ns_chain t fss ch r = Ok o) out.
  Proof.
    induction n as [|n IH]; intros l out Hn H; [destruct l; cbn in Hn; lia|].
    destruct l as [ns own bases]. cbn [accumulate_ns] in H.
    match type of H with (do bs <- ?X; _) = _ => destruct X as [bs| | |] eqn:EB end; cbn [bind] in H; try discriminate.
    assert (HB : forall acc, Forall (fun o => exists b r ch, In b bases /\ nreaches b r ch /\ ns_chain t fss ch r = Ok o) acc ->
              forall bs0,
              (fix go (bl : list nlayer) (acc : list node) : res (list node) :=
                 match bl with
                 | [] => Ok acc
                 | b :: rest => do x <- accumulate_ns t fss b; do acc' <- append_all t acc x; go rest acc'
                 end) bases acc = Ok bs0 ->
              Forall (fun o => exists b r ch, In b bases /\ nreaches b r ch /\ ns_chain t fss ch r = Ok o) bs0).
    { cbn [nlayer_size] in Hn. clear H EB. induction bases as [|b rest IHb]; intros acc Hacc bs0 E.
      - inversion E; subst. exact Hacc.
      - destruct (accumulate_ns t fss b) as [x| | |] eqn:Ex; cbn [bind] in E; try discriminate.
        destruct (append_all t acc x) as [acc'| | |] eqn:Ea; cbn [bind] in E; try discriminate.
        cbn [fold_right] in Hn.
        assert (Hx := IH b x ltac:(lia) Ex). apply append_all_spec in Ea. subst acc'.
        assert (Hacc' : Forall (fun o => exists b0 r ch, In b0 rest /\ nreaches b0 r ch /\ ns_chain t fss ch r = Ok o \/
                                          In b0 (b :: rest) /\ nreaches b0 r ch /\ ns_chain t fss ch r = Ok o) (acc ++ x)).
        { apply Forall_app. split.
          - eapply Forall_impl; [|exact Hacc]. intros o (b0 & r & ch & Hb & Hr & Hc). exists b0, r, ch. right. auto.
          - eapply Forall_impl; [|exact Hx]. intros o (r & ch & Hr & Hc). exists b, r, ch. right. split; [left; reflexivity|auto]. }
        (* continue with the rest, carrying membership in (b :: rest) *)
        assert (G : forall rest' acc0 bs1,
                  (forall b0, In b0 rest' -> In b0 (b :: rest) /\ nlayer_size b0 <= n) ->
                  Forall (fun o => exists b0 r ch, In b0 (b :: rest) /\ nreaches b0 r ch /\ ns_chain t fss ch r = Ok o) acc0 ->
                  (fix go (bl : list nlayer) (acc : list node) : res (list node) :=
                     match bl with
                     | [] => Ok acc
                     | b :: rest => do x <- accumulate_ns t fss b; do acc' <- append_all t acc x; go rest acc'
                     end) rest' acc0 = Ok bs1 ->
                  Forall (fun o => exists b0 r ch, In b0 (b :: rest) /\ nreaches b0 r ch /\ ns_chain t fss ch r = Ok o) bs1).
        { clear - IH. induction rest' as [|b1 r1 IHr]; intros acc0 bs1 Hin Hacc0 E1.
          - inversion E1; subst. exact Hacc0.
          - destruct (accumulate_ns t fss b1) as [x1| | |] eqn:Ex1; cbn [bind] in E1; try discriminate.
            destruct (append_all t acc0 x1) as [acc1| | |] eqn:Ea1; cbn [bind] in E1; try discriminate.
            destruct (Hin b1 (or_introl eq_refl)) as [Hb1 Hs1].
            assert (Hx1 := IH b1 x1 Hs1 Ex1). apply append_all_spec in Ea1. subst acc1.
            apply (IHr (acc0 ++ x1)%list bs1); auto.
            + intros b0 Hb0. apply Hin. right; exact Hb0.
            + apply Forall_app. split; [exact Hacc0|].
              eapply Forall_impl; [|exact Hx1]. intros o (r & ch & Hr & Hc). exists b1, r, ch. auto. }
        apply (G rest (acc ++ x)%list bs0); auto.
        + intros b0 Hb0. split; [right; exact Hb0|].
          clear - Hn Hb0. induction rest as [|y ys IHy]; [destruct Hb0|]. cbn [fold_right] in Hn.
          destruct Hb0 as [<-|Hb0]; [lia|]. apply IHy; auto. lia.
        + eapply Forall_impl; [|exact Hacc']. intros o (b0 & r & ch & [H1|H1]); exists b0, r, ch.
          * destruct H1 as (Hb & Hr & Hc). split; [right; exact Hb|auto].
          * exact H1. }
    specialize (HB [] (Forall_nil _) bs EB).
    destruct (append_all t bs own) as [all| | |] eqn:Ea; cbn [bind] in H; try discriminate.
    apply append_all_spec in Ea. subst all.
    apply ns_transform_images in H.
    assert (HI : Forall (fun o => (exists b r ch, In b bases /\ nreaches b r ch /\ ns_chain t fss ch r = Ok o) \/ In o own)
                        (bs ++ own)).
    { apply Forall_app. split.
      - eapply Forall_impl; [|exact HB]. intros; left; auto.
      - apply Forall_forall. intros; right; auto. }
    clear HB EB. revert HI. induction H as [|o o' l1 l2 Ho HF IHF]; intros HI; [constructor|].
    inversion HI as [|? ? Hhd Htl]; subst. constructor; [|apply IHF; exact Htl].
    destruct Hhd as [(b & r & ch & Hb & Hr & Hc)|Hr].
    - exists r, (ch ++ [ns])%list. split; [eapply nreach_base; eauto|].
      rewrite (ns_chain_snoc _ _ _ ns Hc). exact Ho.
    - exists o, [ns]. split; [apply nreach_own; exact Hr|]. cbn [ns_chain].
      destruct (String.eqb ns ""); [exact Ho|]. rewrite Ho. reflexivity.
  Qed.

  Corollary ns_build_outputs_are_chain_images : forall l out,
    accumulate_ns t fss l = Ok out ->
    Forall (fun o => exists r ch, nreaches l r ch /\ ns_chain t fss ch r = Ok o) out.
  Proof. intros l out. apply (ns_build_is_chain (nlayer_size l)). apply le_n. Qed.
End NsTree.
