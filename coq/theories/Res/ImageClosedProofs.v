(* The image entry at full strength: which values an entry rewrites (exactly the references
   name[:tag][@sha256:digest] of its name, nothing else) and WHAT it writes, in closed form — the result
   expressed in the entry name, the old tag and the old digest, without image.Split in the statement.
   The split of a matched reference is computed here once and for all (split_ref): for an entry name
   that is a plain repository path (no ':' and no '@' after the registry host) Split returns exactly
   the entry name, the tag and the digest the match saw. *)
From KV Require Import Base.Regex Base.RegexProofs Base.RegexParse Res.Image Res.ImageProofs Res.ImageNormProofs Res.ImageParseProofs.
Require Import Lia.

Ltac inv H := inversion H; subst; clear H.

(* ---------- index_of / take / drop over concatenations ---------- *)
Lemma index_of_app_some c : forall a b i, index_of c a = Some i -> index_of c (a ++ b) = Some i.
Proof.
  induction a as [|x a IH]; cbn; intros b i H; [discriminate|].
  destruct (Ascii.eqb x c); auto.
  destruct (index_of c a) as [j|] eqn:E; cbn in H; inv H. rewrite (IH b j); auto.
Qed.

Lemma index_of_app_none c : forall a b,
  index_of c a = None -> index_of c (a ++ b) = option_map (Nat.add (String.length a)) (index_of c b).
Proof.
  induction a as [|x a IH]; cbn; intros b H.
  - destruct (index_of c b); reflexivity.
  - destruct (Ascii.eqb x c); [discriminate|].
    destruct (index_of c a) eqn:E; cbn in H; [discriminate|].
    rewrite IH; auto. destruct (index_of c b); reflexivity.
Qed.

Lemma index_of_lt c : forall s i, index_of c s = Some i -> i < String.length s.
Proof.
  induction s as [|x s IH]; cbn; intros i H; [discriminate|].
  destruct (Ascii.eqb x c); [inv H; lia|].
  destruct (index_of c s) eqn:E; cbn in H; inv H. specialize (IH _ eq_refl). lia.
Qed.

Lemma drop_app n : forall s x, n <= String.length s -> drop n (s ++ x) = drop n s ++ x.
Proof.
  induction n; intros s x H; [reflexivity|].
  destruct s as [|c s]; cbn in *; [lia|]. apply IHn. lia.
Qed.

Lemma take_app_len : forall s x, take (String.length s) (s ++ x) = s.
Proof. induction s; cbn; intros; auto. rewrite IHs; auto. Qed.

Lemma drop_app_len : forall s x, drop (String.length s) (s ++ x) = x.
Proof. induction s; cbn; intros; auto. Qed.

Lemma length_drop n : forall s, n <= String.length s -> String.length (drop n s) + n = String.length s.
Proof.
  induction n; intros s H; cbn; [lia|].
  destruct s as [|c s]; cbn in *; [lia|]. specialize (IHn s). lia.
Qed.

(* a run of tag characters contains none of the separators *)
Lemma all_in_no c : in_cls (N_of_ascii c) tag_cls = false ->
  forall y, all_in tag_cls y = true -> index_of c y = None.
Proof.
  intros Hc. induction y as [|a y IH]; intros H; [reflexivity|].
  cbn [all_in] in H. cbn [index_of].
  apply andb_prop in H; destruct H as [Ha Hy].
  destruct (Ascii.eqb a c) eqn:E.
  - apply Ascii.eqb_eq in E; subst. rewrite Hc in Ha. discriminate.
  - rewrite IH; auto.
Qed.

(* ---------- plain repository paths ---------- *)
Definition slash_of (s : string) : nat :=
  match index_of "/" s with Some (S k) => S k | _ => 0 end.

(* no ':' and no '@' after the registry host (the text up to the first slash, which may carry a port) *)
Definition plain_repo (t : string) : bool :=
  match index_of ":" (drop (slash_of t) t), index_of "@" (drop (slash_of t) t) with
  | None, None => true
  | _, _ => false
  end.

Lemma slash_of_le t : slash_of t <= String.length t.
Proof.
  unfold slash_of. destruct (index_of "/" t) as [[|k]|] eqn:E; try lia.
  apply index_of_lt in E. lia.
Qed.

(* the reference of entry name t with an optional tag and an optional sha256 digest *)
Definition tag_text (oy : option string) : string := match oy with Some y => ":" ++ y | None => "" end.
Definition dig_text (oz : option string) : string := match oz with Some z => "@sha256:" ++ z | None => "" end.
Definition ref_text (t : string) (oy oz : option string) : string := t ++ tag_text oy ++ dig_text oz.
Definition tag_of (oy : option string) : string := match oy with Some y => y | None => "" end.
Definition dig_of (oz : option string) : string := match oz with Some z => "sha256:" ++ z | None => "" end.
Definition opt_tag_ok (o : option string) : Prop := forall y, o = Some y -> all_in tag_cls y = true.

Lemma image_ref_of_ref_text t s :
  image_ref_of t s <-> exists oy oz, s = ref_text t oy oz /\ opt_tag_ok oy /\ opt_tag_ok oz.
Proof.
  unfold image_ref_of, ref_text, tag_part, digest_part. split.
  - intros (tag & dig & -> & Ht & Hd).
    destruct Ht as [->|(y & -> & Hy)]; destruct Hd as [->|(z & -> & Hz)].
    + exists None, None. repeat split; intros ? E; inv E.
    + exists None, (Some z). repeat split; intros ? E; inv E; auto.
    + exists (Some y), None. repeat split; intros ? E; inv E; auto.
    + exists (Some y), (Some z). repeat split; intros ? E; inv E; auto.
  - intros (oy & oz & -> & Hy & Hz). exists (tag_text oy), (dig_text oz). split; auto. split.
    + destruct oy as [y|]; [right; exists y; split; auto|left; reflexivity].
    + destruct oz as [z|]; [right; exists z; split; auto|left; reflexivity].
Qed.

Lemma no_slash_suffix oy oz : opt_tag_ok oy -> opt_tag_ok oz -> index_of "/" (tag_text oy ++ dig_text oz) = None.
Proof.
  intros Hy Hz.
  assert (Z : index_of "/" (dig_text oz) = None).
  { destruct oz as [z|]; cbn; auto. rewrite (all_in_no "/"); auto. }
  destruct oy as [y|]; cbn; auto.
  rewrite index_of_app_none; [rewrite Z; reflexivity|]. apply all_in_no; auto.
Qed.

Lemma slash_of_ref t oy oz : opt_tag_ok oy -> opt_tag_ok oz -> slash_of (ref_text t oy oz) = slash_of t.
Proof.
  intros Hy Hz. unfold slash_of, ref_text.
  destruct (index_of "/" t) as [i|] eqn:E.
  - rewrite (index_of_app_some _ _ _ _ E). reflexivity.
  - rewrite index_of_app_none; auto. rewrite no_slash_suffix; auto.
Qed.

(* image.Split on a matched reference returns the entry name, the tag and the digest *)
Theorem split_ref t oy oz :
  plain_repo t = true -> opt_tag_ok oy -> opt_tag_ok oz ->
  split_image (ref_text t oy oz) = (t, tag_of oy, dig_of oz).
Proof.
  intros Hp Hy Hz. unfold split_image. cbv zeta.
  fold (slash_of (ref_text t oy oz)). rewrite slash_of_ref; auto.
  unfold plain_repo in Hp.
  destruct (index_of ":" (drop (slash_of t) t)) eqn:Pc; [discriminate|].
  destruct (index_of "@" (drop (slash_of t) t)) eqn:Pa; [discriminate|]. clear Hp.
  pose proof (slash_of_le t) as Hle. pose proof (length_drop _ _ Hle) as HL.
  set (sl := slash_of t) in *. set (t' := drop sl t) in *. set (L := String.length t') in *.
  assert (Hs : drop sl (ref_text t oy oz) = t' ++ tag_text oy ++ dig_text oz)
    by (unfold ref_text; apply drop_app; auto).
  rewrite !Hs.
  rewrite (index_of_app_none _ t' _ Pa), (index_of_app_none _ t' _ Pc). fold L.
  destruct oy as [y|]; destruct oz as [z|]; cbn [tag_text dig_text tag_of dig_of].
  - (* tag and digest *)
    pose proof (Hy y eq_refl) as Ay. pose proof (Hz z eq_refl) as Az.
    assert (E1 : index_of "@" ((":" ++ y) ++ "@sha256:" ++ z) = Some (S (String.length y))).
    { cbn. rewrite index_of_app_none; [|apply all_in_no; auto]. cbn. rewrite Nat.add_0_r. reflexivity. }
    assert (E2 : index_of ":" ((":" ++ y) ++ "@sha256:" ++ z) = Some 0) by reflexivity.
    rewrite E1, E2. cbn [option_map].
    replace (Nat.ltb (L + S (String.length y)) (L + 0)) with false
      by (symmetry; apply Nat.ltb_ge; lia).
    replace (L + 0 + sl) with (String.length t) by lia.
    replace (L + S (String.length y) + sl - String.length t) with (S (String.length y)) by lia.
    replace (L + S (String.length y) + sl) with (S (String.length y) + String.length t) by lia.
    unfold ref_text. rewrite take_app_len. rewrite <- drop_drop. rewrite drop_app_len.
    f_equal; [f_equal|].
    + cbn [append take tag_text dig_text]. rewrite take_app_len. reflexivity.
    + cbn [append drop tag_text dig_text]. rewrite drop_app_len. reflexivity.
  - (* tag only *)
    pose proof (Hy y eq_refl) as Ay.
    assert (E1 : index_of "@" ((":" ++ y) ++ "") = None).
    { rewrite app_empty_r. cbn. rewrite (all_in_no "@"); auto. }
    assert (E2 : index_of ":" ((":" ++ y) ++ "") = Some 0) by reflexivity.
    rewrite E1, E2. cbn [option_map].
    replace (L + 0 + sl) with (String.length t) by lia.
    unfold ref_text. rewrite take_app_len, drop_app_len. cbn [tag_text dig_text].
    rewrite app_empty_r. reflexivity.
  - (* digest only *)
    pose proof (Hz z eq_refl) as Az.
    assert (E1 : index_of "@" ("" ++ "@sha256:" ++ z) = Some 0) by reflexivity.
    assert (E2 : index_of ":" ("" ++ "@sha256:" ++ z) = Some 7) by reflexivity.
    rewrite E1, E2. cbn [option_map].
    replace (Nat.ltb (L + 0) (L + 7)) with true by (symmetry; apply Nat.ltb_lt; lia).
    replace (L + 0 + sl) with (String.length t) by lia.
    unfold ref_text. rewrite take_app_len, drop_app_len. reflexivity.
  - (* bare name *)
    cbn. unfold ref_text. cbn. rewrite app_empty_r. reflexivity.
Qed.

(* ---------- what SetImageValue composes, in the entry name and the old tag/digest ---------- *)
Definition compose_parts (im : image) (t tag dig : string) : string :=
  let name := if String.eqb (im_new_name im) "" then t else im_new_name im in
  if negb (String.eqb (im_new_tag im) "") && negb (String.eqb (im_digest im) "")
  then build_image name (im_new_tag im) (im_digest im)
  else if negb (String.eqb (im_new_tag im) "") then build_image name (im_new_tag im) ""
  else if negb (String.eqb (im_digest im) "") then build_image name "" (im_digest im)
  else if negb (String.eqb (im_tag_suffix im) "") then build_image name (tag ++ im_tag_suffix im) ""
  else build_image name tag dig.

Lemma compose_of_split im v n t d : split_image v = (n, t, d) -> compose im v = compose_parts im n t d.
Proof.
  intros H. unfold compose, compose_parts. rewrite H.
  destruct (negb (im_new_tag im =? "") && negb (im_digest im =? ""))%bool; auto.
  destruct (negb (im_new_tag im =? "")); auto.
  destruct (negb (im_digest im =? "")); auto.
  destruct (negb (im_tag_suffix im =? "")); auto.
Qed.

Section Closed.
  Variable parse : string -> option re.
  Hypothesis parse_quoted : forall t,
    exists r, parse ("^" ++ quote_meta t ++ img_suffix) = Some r /\ forall s, matches r s = matches (img_re t) s.

  (* an entry rewrites a value iff the value is a reference of its name; everything else is left alone *)
  Theorem update_value_exact im v :
    (image_ref_of (im_name im) v -> update_value parse im v = Ok (Some (compose im v))) /\
    (~ image_ref_of (im_name im) v -> update_value parse im v = Ok None).
  Proof.
    unfold update_value.
    destruct (image_match_total parse parse_quoted v (im_name im)) as (b & Hb).
    pose proof (image_exact parse parse_quoted v (im_name im)) as Hx.
    rewrite Hb in *. cbn. destruct b; split; intros H; auto.
    - exfalso. apply H. apply Hx. reflexivity.
    - apply Hx in H. discriminate.
  Qed.

  (* ... and a reference of a plain repository name becomes the composition of the entry with the
     name, tag and digest of that reference *)
  Theorem update_value_closed im oy oz :
    plain_repo (im_name im) = true -> opt_tag_ok oy -> opt_tag_ok oz ->
    update_value parse im (ref_text (im_name im) oy oz) =
    Ok (Some (compose_parts im (im_name im) (tag_of oy) (dig_of oz))).
  Proof.
    intros Hp Hy Hz.
    destruct (update_value_exact im (ref_text (im_name im) oy oz)) as [H _].
    rewrite H; [|apply image_ref_of_ref_text; eauto].
    rewrite (compose_of_split _ _ _ _ _ (split_ref _ _ _ Hp Hy Hz)). reflexivity.
  Qed.
End Closed.

(* with the Gallina parser in the place of regexp.Compile: no hypothesis about the parser *)
Theorem update_value_exact_parsed im v :
  ascii_text (im_name im) = true ->
  (image_ref_of (im_name im) v -> update_value re_parse im v = Ok (Some (compose im v))) /\
  (~ image_ref_of (im_name im) v -> update_value re_parse im v = Ok None).
Proof.
  intros Ha. unfold update_value, is_matched. rewrite img_pattern_text.
  destruct (re_parse_image_matches _ Ha) as (r & -> & Hr). rewrite Hr. cbn.
  destruct (matches (img_re (im_name im)) v) eqn:E; split; intros H; auto.
  - exfalso. apply H. apply matches_img_re. auto.
  - apply matches_img_re in H. congruence.
Qed.

Theorem update_value_closed_parsed im oy oz :
  ascii_text (im_name im) = true -> plain_repo (im_name im) = true -> opt_tag_ok oy -> opt_tag_ok oz ->
  update_value re_parse im (ref_text (im_name im) oy oz) =
  Ok (Some (compose_parts im (im_name im) (tag_of oy) (dig_of oz))).
Proof.
  intros Ha Hp Hy Hz.
  destruct (update_value_exact_parsed im (ref_text (im_name im) oy oz) Ha) as [H _].
  rewrite H; [|apply image_ref_of_ref_text; eauto].
  rewrite (compose_of_split _ _ _ _ _ (split_ref _ _ _ Hp Hy Hz)). reflexivity.
Qed.

(* ---------- the combinations, spelled out ---------- *)
(* newName replaces the name and nothing else; newTag drops the old digest; digest drops the old tag;
   newTag and digest together replace both; tagSuffix (only without newTag/digest) drops the digest;
   an entry that sets nothing rebuilds the reference from its parts. *)
Theorem compose_parts_table im t tag dig :
  let n' := if String.eqb (im_new_name im) "" then t else im_new_name im in
  (im_new_tag im <> "" -> im_digest im <> "" ->
     compose_parts im t tag dig = n' ++ ":" ++ im_new_tag im ++ "@" ++ im_digest im) /\
  (im_new_tag im <> "" -> im_digest im = "" ->
     compose_parts im t tag dig = n' ++ ":" ++ im_new_tag im) /\
  (im_new_tag im = "" -> im_digest im <> "" ->
     compose_parts im t tag dig = n' ++ "@" ++ im_digest im) /\
  (im_new_tag im = "" -> im_digest im = "" -> im_tag_suffix im <> "" ->
     compose_parts im t tag dig = n' ++ ":" ++ tag ++ im_tag_suffix im) /\
  (im_new_tag im = "" -> im_digest im = "" -> im_tag_suffix im = "" ->
     compose_parts im t tag dig = build_image n' tag dig).
Proof.
  intros n'. unfold compose_parts. fold n'.
  repeat split; intros;
    repeat match goal with
           | H : ?x <> "" |- _ => rewrite (eqb_empty_false x H)
           | H : ?x = "" |- _ => rewrite H
           end; cbn [negb andb String.eqb]; unfold build_image;
    repeat match goal with
           | H : ?x <> "" |- _ => rewrite (eqb_empty_false x H)
           end; cbn [String.eqb]; rewrite ?app_empty_r; try reflexivity.
  destruct (tag ++ im_tag_suffix im =? "") eqn:E; [|reflexivity].
    apply String.eqb_eq in E. destruct tag; cbn in E; [contradiction|discriminate].
Qed.

(* an entry that sets nothing leaves a reference textually as it is — unless the reference carries an
   empty tag ("x:"), whose colon is dropped *)
Theorem compose_parts_identity im t oy oz :
  im_new_name im = "" -> im_new_tag im = "" -> im_digest im = "" -> im_tag_suffix im = "" ->
  oy <> Some "" ->
  compose_parts im t (tag_of oy) (dig_of oz) = ref_text t oy oz.
Proof.
  intros H1 H2 H3 H4 Hy. unfold compose_parts, build_image, ref_text. rewrite H1, H2, H3, H4. cbn.
  destruct oy as [[|c y]|]; [congruence| |]; destruct oz; cbn; reflexivity.
Qed.

(* non-vacuity: registry host with a port, tag and digest present; each combination computed by the
   model with the Gallina parser agrees with the closed form *)
Example update_value_closed_example :
  let t := "reg:5000/app" in
  plain_repo t = true /\ ascii_text t = true /\
  plain_repo "app:1" = false /\
  update_value re_parse (mkImage t "" "" "" "") "reg:5000/app:1@sha256:ab" = Ok (Some "reg:5000/app:1@sha256:ab") /\
  update_value re_parse (mkImage t "other" "" "" "") "reg:5000/app:1@sha256:ab" = Ok (Some "other:1@sha256:ab") /\
  update_value re_parse (mkImage t "" "" "2" "") "reg:5000/app:1@sha256:ab" = Ok (Some "reg:5000/app:2") /\
  update_value re_parse (mkImage t "" "" "" "sha256:cd") "reg:5000/app:1@sha256:ab" = Ok (Some "reg:5000/app@sha256:cd") /\
  update_value re_parse (mkImage t "n" "" "2" "sha256:cd") "reg:5000/app:1" = Ok (Some "n:2@sha256:cd") /\
  update_value re_parse (mkImage t "" "-s" "" "") "reg:5000/app:1@sha256:ab" = Ok (Some "reg:5000/app:1-s") /\
  update_value re_parse (mkImage t "" "" "" "") "reg:5000/app:" = Ok (Some "reg:5000/app") /\
  update_value re_parse (mkImage t "n" "" "2" "") "reg:5000/apple:1" = Ok None /\
  compose_parts (mkImage t "other" "" "" "") t (tag_of (Some "1")) (dig_of (Some "ab")) = "other:1@sha256:ab".
Proof. repeat split; vm_compute; reflexivity. Qed.
