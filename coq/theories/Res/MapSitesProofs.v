From KV Require Import Res.MapSites Gen.MapRanges.

(* every map range of the current source is sorted-after-collection, order-insensitive by shape, or hand-justified *)
Lemma mapranges_ok : forallb site_ok gen_map_ranges = true.
Proof. vm_compute. reflexivity. Qed.

(* non-vacuity: the table is not empty and contains sorted-key sites *)
Lemma mapranges_nonempty :
  existsb (fun s => match ms_class s with MRKeysThenSorted => true | _ => false end) gen_map_ranges = true.
Proof. vm_compute. reflexivity. Qed.
