(* C08: node sharing is unobservable when no key repeats along a directive chain. *)
From KV Require Import Res.Labels Res.LabelsProofs.
From Coq Require Import Permutation.

Definition ends_key (k : string) (l : loc) : Prop := exists pre, l = (pre ++ [SK k])%list.

Lemma ends_key_inj k k' l : ends_key k l -> ends_key k' l -> k = k'.
Proof.
  intros [p ->] [p' H]. apply app_inj_tail in H as [_ H]. inversion H; reflexivity.
Qed.

Lemma step_eqb_eq a b : step_eqb a b = true -> a = b.
Proof.
  destruct a, b; cbn; try discriminate; intros H.
  - apply String.eqb_eq in H; subst; reflexivity.
  - apply Nat.eqb_eq in H; subst; reflexivity.
Qed.
Lemma loc_eqb_eq : forall a b, loc_eqb a b = true -> a = b.
Proof.
  induction a as [|x a IH]; destruct b as [|y b]; cbn; try discriminate; auto.
  intros H. apply andb_true_iff in H as [H1 H2]. apply step_eqb_eq in H1. apply IH in H2. subst; reflexivity.
Qed.

(* every location reported by scan ends with the key scanned for *)
Lemma scan_keys k : forall new old pre l,
  In l (fst (scan k old new pre) ++ snd (scan k old new pre))%list -> ends_key k l.
Proof.
  induction new as [t s x|kvs IH|es IH] using node_ind'; intros old pre l H.
  - cbn in H. destruct H.
  - cbn [scan] in H.
    remember (match old with Map o => o | _ => [] end) as okvs. clear Heqokvs.
    revert l H. induction IH as [|[key x'] t Hx Ht IHt]; intros l H.
    + cbn in H. destruct H.
    + cbn [fst snd] in H.
      assert (Hhere : forall l,
        In l (fst (match find_field key okvs with
                   | Some x => if String.eqb key k && is_scalar x'
                               then (if scalar_same x x' then ([], []) else ([], [(pre ++ [SK key])%list]))
                               else scan k x x' (pre ++ [SK key])%list
                   | None => if String.eqb key k && is_scalar x'
                             then ([(pre ++ [SK key])%list], [])
                             else scan k (Map []) x' (pre ++ [SK key])%list
                   end) ++
              snd (match find_field key okvs with
                   | Some x => if String.eqb key k && is_scalar x'
                               then (if scalar_same x x' then ([], []) else ([], [(pre ++ [SK key])%list]))
                               else scan k x x' (pre ++ [SK key])%list
                   | None => if String.eqb key k && is_scalar x'
                             then ([(pre ++ [SK key])%list], [])
                             else scan k (Map []) x' (pre ++ [SK key])%list
                   end))%list -> ends_key k l).
      { intros l0. destruct (find_field key okvs) as [x|].
        - destruct (String.eqb key k && is_scalar x') eqn:E.
          + apply andb_true_iff in E as [E _]. apply String.eqb_eq in E; subst key.
            destruct (scalar_same x x'); cbn; [intros []|].
            intros [<-|[]]. eexists; reflexivity.
          + apply Hx.
        - destruct (String.eqb key k && is_scalar x') eqn:E.
          + apply andb_true_iff in E as [E _]. apply String.eqb_eq in E; subst key.
            cbn. intros [<-|[]]. eexists; reflexivity.
          + apply Hx. }
      apply in_app_or in H as [H|H]; apply in_app_or in H as [H|H].
      * apply Hhere. apply in_or_app; auto.
      * apply IHt. apply in_or_app; left; exact H.
      * apply Hhere. apply in_or_app; auto.
      * apply IHt. apply in_or_app; right; exact H.
  - cbn [scan] in H.
    remember (match old with Seq o => o | _ => [] end) as oes. clear Heqoes.
    revert l H. generalize 0 as i.
    induction IH as [|x' t Hx Ht IHt]; intros i l H.
    + cbn in H. destruct H.
    + cbn [fst snd] in H. cbn zeta in H. cbn [fst snd] in H.
      apply in_app_or in H as [H|H]; apply in_app_or in H as [H|H].
      * eapply Hx. apply in_or_app; left; exact H.
      * eapply IHt. apply in_or_app; left; exact H.
      * eapply Hx. apply in_or_app; right; exact H.
      * eapply IHt. apply in_or_app; right; exact H.
Qed.

Lemma NoDup_app_inv {A} (a b : list A) :
  NoDup (a ++ b) -> NoDup a /\ NoDup b /\ (forall x, In x a -> In x b -> False).
Proof.
  induction a as [|x a IH]; cbn; intros H.
  - split; [constructor|]. split; [exact H|]. intros x [].
  - inversion H as [|? ? Hn Hd]; subst. destruct (IH Hd) as (Ha & Hb & Hab).
    split; [constructor; [intros Hin; apply Hn; apply in_or_app; left; exact Hin|exact Ha]|].
    split; [exact Hb|].
    intros y [<-|Hy] Hyb; [apply Hn; apply in_or_app; right; exact Hyb|eapply Hab; eauto].
Qed.

(* every location of every sharing class ends with a key of K *)
Definition covered (K : list string) (gs : list group) : Prop :=
  forall g, In g gs -> forall l, In l g -> exists k, In k K /\ ends_key k l.

Lemma covered_nil K : covered K [].
Proof. intros g []. Qed.

Lemma covered_mono K K' gs : (forall k, In k K -> In k K') -> covered K gs -> covered K' gs.
Proof. intros HK H g Hg l Hl. destruct (H g Hg l Hl) as (k & Hk & He). exists k; auto. Qed.

Section AliasFree.
  Variable nonstr : string -> bool.
  Variable tc : tconfig.

  (* a pass for a key that no sharing class mentions behaves like the plain pass *)
  Lemma key_pass_al_plain fss k v obj gs K st' :
    covered K gs -> ~ In k K ->
    key_pass_al nonstr fss (k, v) (obj, gs) = Ok st' ->
    exists obj' gs', st' = (obj', gs') /\ key_pass nonstr fss (k, v) obj = Ok obj' /\ covered (k :: K) gs'.
  Proof.
    intros Hcov Hk H. unfold key_pass_al in H.
    destruct (key_pass nonstr fss (k, v) obj) as [obj'| | |] eqn:EP; cbn [bind] in H; try discriminate.
    cbn [fst snd] in H.
    destruct (scan k obj obj' []) as [created changed] eqn:ES.
    assert (Hhit : filter (fun g => existsb (fun l => mem_loc l g) changed) gs = []).
    { clear H. induction gs as [|g gs IH]; [reflexivity|]. cbn [filter].
      destruct (existsb (fun l => mem_loc l g) changed) eqn:E.
      - exfalso. apply existsb_exists in E as (l & Hl & Hm).
        unfold mem_loc in Hm. apply existsb_exists in Hm as (l' & Hl' & He). apply loc_eqb_eq in He; subst l'.
        destruct (Hcov g (or_introl eq_refl) l Hl') as (k' & Hk' & He').
        assert (Hek : ends_key k l).
        { apply (scan_keys k obj' obj []). rewrite ES. cbn [fst snd]. apply in_or_app; right; exact Hl. }
        rewrite (ends_key_inj _ _ _ Hek He') in Hk. contradiction.
      - apply IH. intros g' Hg'. apply Hcov. right; exact Hg'. }
    rewrite Hhit in H. cbn [fold_left] in H. inv H.
    eexists. eexists. split; [reflexivity|]. split; [reflexivity|].
    assert (Hold : covered (k :: K) gs) by (eapply covered_mono; [|exact Hcov]; intros; right; auto).
    destruct created as [|c1 [|c2 cs]]; try exact Hold.
    intros g [<-|Hg]; [|apply Hold; exact Hg].
    intros l Hl. exists k. split; [left; reflexivity|].
    apply (scan_keys k obj' obj []). rewrite ES. cbn [fst snd]. apply in_or_app; left; exact Hl.
  Qed.

  Lemma keys_pass_al_plain fss : forall kvs obj gs K st',
    covered K gs -> NoDup (map fst kvs) -> (forall k, In k (map fst kvs) -> ~ In k K) ->
    keys_pass_al nonstr fss kvs (obj, gs) = Ok st' ->
    exists obj' gs', st' = (obj', gs') /\ keys_pass nonstr fss kvs obj = Ok obj' /\
                     covered (map fst kvs ++ K) gs'.
  Proof.
    induction kvs as [|[k v] t IH]; intros obj gs K st' Hcov Hnd Hfresh H.
    - cbn in H. inv H. eexists. eexists. split; [reflexivity|]. split; [reflexivity|]. exact Hcov.
    - cbn [keys_pass_al] in H.
      destruct (key_pass_al nonstr fss (k, v) (obj, gs)) as [st1| | |] eqn:E1; cbn [bind] in H; try discriminate.
      cbn [map fst] in Hnd. inversion Hnd as [|? ? Hnk Hnd']; subst.
      destruct (key_pass_al_plain fss k v obj gs K st1 Hcov) as (o1 & g1 & -> & Hp & Hc1); auto.
      { apply Hfresh. left; reflexivity. }
      destruct (IH o1 g1 (k :: K) st' Hc1 Hnd') as (o2 & g2 & -> & Hp2 & Hc2); auto.
      { intros k' Hk' [<-|Hin]; [contradiction|]. apply (Hfresh k'); [right; exact Hk'|exact Hin]. }
      eexists. eexists. split; [reflexivity|]. split.
      + cbn [keys_pass]. rewrite Hp. cbn [bind]. exact Hp2.
      + eapply covered_mono; [|exact Hc2]. intros k' Hk'. cbn [map fst app].
        apply in_app_or in Hk' as [Hk'|[<-|Hk']].
        * right. apply in_or_app; left; exact Hk'.
        * left; reflexivity.
        * right. apply in_or_app; right; exact Hk'.
  Qed.

  Lemma insert_kv_perm x l : Permutation (insert_kv x l) (x :: l).
  Proof.
    induction l as [|y t IH]; cbn; [apply Permutation_refl|].
    destruct (String.ltb (fst x) (fst y)); [apply Permutation_refl|].
    eapply Permutation_trans; [apply perm_skip; exact IH|apply perm_swap].
  Qed.
  Lemma sort_pairs_perm l : Permutation (sort_pairs l) l.
  Proof.
    induction l as [|x t IH]; cbn; [apply Permutation_refl|].
    eapply Permutation_trans; [apply insert_kv_perm|apply perm_skip; exact IH].
  Qed.

  (* one transformer over one resource *)
  Lemma run_al_plain labels fss obj gs K rs' :
    covered K gs -> NoDup (map fst labels) -> (forall k, In k (map fst labels) -> ~ In k K) ->
    run_label_transformer_al nonstr labels fss [(obj, gs)] = Ok rs' ->
    exists obj' gs', rs' = [(obj', gs')] /\ run_label_transformer nonstr labels fss [obj] = Ok [obj'] /\
                     covered (map fst labels ++ K) gs'.
  Proof.
    intros Hcov Hnd Hfresh H. unfold run_label_transformer_al in H. unfold run_label_transformer.
    destruct labels as [|kv0 rest].
    - inv H. eexists. eexists. split; [reflexivity|]. split; [reflexivity|]. exact Hcov.
    - remember (kv0 :: rest) as labels. clear Heqlabels kv0 rest.
      cbn [mapM] in H.
      destruct (keys_pass_al nonstr fss (sort_pairs labels) (obj, gs)) as [st1| | |] eqn:E1; cbn [bind] in H; try discriminate.
      inv H.
      pose proof (Permutation_map fst (sort_pairs_perm labels)) as Pm.
      destruct (keys_pass_al_plain fss (sort_pairs labels) obj gs K st1 Hcov) as (o1 & g1 & -> & Hp & Hc1); auto.
      { eapply Permutation_NoDup; [apply Permutation_sym; exact Pm|exact Hnd]. }
      { intros k Hk. apply Hfresh. eapply Permutation_in; [exact Pm|exact Hk]. }
      eexists. eexists. split; [reflexivity|]. split.
      + cbn [mapM]. unfold label_filter. rewrite Hp. reflexivity.
      + eapply covered_mono; [|exact Hc1]. intros k Hk.
        apply in_app_or in Hk as [Hk|Hk]; apply in_or_app; [left|right; exact Hk].
        eapply Permutation_in; [exact Pm|exact Hk].
  Qed.

  Definition lts_keys (lts : list (pairs * list fieldspec)) : list string :=
    flat_map (fun pf => map fst (fst pf)) lts.

  Lemma run_transformers_al_plain : forall lts obj gs K rs',
    covered K gs -> NoDup (lts_keys lts) -> (forall k, In k (lts_keys lts) -> ~ In k K) ->
    run_transformers_al nonstr lts [(obj, gs)] = Ok rs' ->
    exists obj' gs', rs' = [(obj', gs')] /\ run_transformers nonstr lts [obj] = Ok [obj'] /\
                     covered (lts_keys lts ++ K) gs'.
  Proof.
    induction lts as [|[p fss] t IH]; intros obj gs K rs' Hcov Hnd Hfresh H.
    - cbn in H. inv H. eexists. eexists. split; [reflexivity|]. split; [reflexivity|]. exact Hcov.
    - cbn [run_transformers_al] in H. cbn [lts_keys flat_map fst] in Hnd, Hfresh.
      destruct (run_label_transformer_al nonstr p fss [(obj, gs)]) as [rs1| | |] eqn:E1; cbn [bind] in H; try discriminate.
      destruct (NoDup_app_inv _ _ Hnd) as (Hnd1 & Hnd2 & Hdisj).
      destruct (run_al_plain p fss obj gs K rs1 Hcov Hnd1) as (o1 & g1 & -> & Hp & Hc1); auto.
      { intros k Hk. apply Hfresh. apply in_or_app; left; exact Hk. }
      destruct (IH o1 g1 (map fst p ++ K)%list rs' Hc1) as (o2 & g2 & -> & Hp2 & Hc2); auto.
      { intros k Hk Hin. apply in_app_or in Hin as [Hin|Hin].
        - eapply Hdisj; eauto.
        - apply (Hfresh k); [apply in_or_app; right; exact Hk|exact Hin]. }
      eexists. eexists. split; [reflexivity|]. split.
      + cbn [run_transformers]. rewrite Hp. cbn [bind]. exact Hp2.
      + eapply covered_mono; [|exact Hc2]. intros k Hk. cbn [lts_keys flat_map fst].
        rewrite <- app_assoc. apply in_app_or in Hk as [Hk|Hk].
        * apply in_or_app; right. apply in_or_app; left; exact Hk.
        * apply in_app_or in Hk as [Hk|Hk]; [apply in_or_app; left; exact Hk|].
          apply in_or_app; right. apply in_or_app; right; exact Hk.
  Qed.

  Definition dirs_keys (d : dirs) : list string :=
    (flat_map (fun e => map fst (ld_pairs e)) (d_labels d) ++ map fst (d_common_labels d) ++
     map fst (d_common_annos d))%list.
  Definition chain_keys (ds : list dirs) : list string := flat_map dirs_keys ds.

  Lemma mapM_label_keys : forall l r,
    mapM (fun e => do fss <- label_fs tc e; Ok (ld_pairs e, fss)) l = Ok r ->
    lts_keys r = flat_map (fun e => map fst (ld_pairs e)) l.
  Proof.
    induction l as [|e t IH]; intros r H; cbn [mapM] in H.
    - inv H. reflexivity.
    - destruct (label_fs tc e) as [fss| | |]; cbn [bind] in H; try discriminate.
      destruct (mapM _ t) as [r'| | |] eqn:E; cbn [bind] in H; try discriminate. inv H.
      cbn [lts_keys flat_map fst]. f_equal. apply IH. reflexivity.
  Qed.

  Lemma lts_keys_app a b : lts_keys (a ++ b) = (lts_keys a ++ lts_keys b)%list.
  Proof. unfold lts_keys. apply flat_map_app. Qed.

  Lemma label_transformers_keys d lts :
    label_transformers tc d = Ok lts ->
    lts_keys lts = (flat_map (fun e => map fst (ld_pairs e)) (d_labels d) ++ map fst (d_common_labels d))%list.
  Proof.
    unfold label_transformers. intros H.
    assert (G : (do l <- mapM (fun e => do fss <- label_fs tc e; Ok (ld_pairs e, fss)) (d_labels d);
                 Ok (l ++ [(d_common_labels d, tc_common_labels tc)])%list) = Ok lts ->
                lts_keys lts = (flat_map (fun e => map fst (ld_pairs e)) (d_labels d) ++ map fst (d_common_labels d))%list).
    { intros H'. destruct (mapM _ (d_labels d)) as [l| | |] eqn:E; cbn [bind] in H'; try discriminate. inv H'.
      rewrite lts_keys_app, (mapM_label_keys _ _ E). cbn. rewrite app_nil_r. reflexivity. }
    destruct (d_labels d) as [|e t] eqn:El; [destruct (d_common_labels d) eqn:Ec|]; auto.
    inv H. reflexivity.
  Qed.

  Lemma apply_dirs_al_plain d obj gs K rs' :
    covered K gs -> NoDup (dirs_keys d) -> (forall k, In k (dirs_keys d) -> ~ In k K) ->
    apply_dirs_al nonstr tc d [(obj, gs)] = Ok rs' ->
    exists obj' gs', rs' = [(obj', gs')] /\ apply_dirs nonstr tc d [obj] = Ok [obj'] /\
                     covered (dirs_keys d ++ K) gs'.
  Proof.
    intros Hcov Hnd Hfresh H. unfold apply_dirs_al in H. unfold apply_dirs.
    destruct (label_transformers tc d) as [lts| | |] eqn:EL; cbn [bind] in H |- *; try discriminate.
    pose proof (label_transformers_keys _ _ EL) as HK.
    unfold dirs_keys in Hnd, Hfresh. rewrite app_assoc, <- HK in Hnd, Hfresh.
    destruct (NoDup_app_inv _ _ Hnd) as (Hnd1 & Hnd2 & Hdisj).
    destruct (run_transformers_al nonstr lts [(obj, gs)]) as [rs1| | |] eqn:E1; cbn [bind] in H; try discriminate.
    destruct (run_transformers_al_plain lts obj gs K rs1 Hcov Hnd1) as (o1 & g1 & -> & Hp & Hc1); auto.
    { intros k Hk. apply Hfresh. apply in_or_app; left; exact Hk. }
    rewrite Hp. cbn [bind].
    destruct (run_al_plain (d_common_annos d) (tc_common_annotations tc) o1 g1 (lts_keys lts ++ K)%list rs' Hc1 Hnd2)
      as (o2 & g2 & -> & Hp2 & Hc2); auto.
    { intros k Hk Hin. apply in_app_or in Hin as [Hin|Hin].
      - eapply Hdisj; eauto.
      - apply (Hfresh k); [apply in_or_app; right; exact Hk|exact Hin]. }
    eexists. eexists. split; [reflexivity|]. split; [exact Hp2|].
    eapply covered_mono; [|exact Hc2]. intros k Hk. unfold dirs_keys. rewrite app_assoc, <- HK.
    apply in_app_or in Hk as [Hk|Hk].
    - apply in_or_app; left. apply in_or_app; right; exact Hk.
    - apply in_app_or in Hk as [Hk|Hk]; [apply in_or_app; left; apply in_or_app; left; exact Hk|].
      apply in_or_app; right; exact Hk.
  Qed.

  (* When no label / annotation key occurs twice along a resource's directive chain, node sharing is
     unobservable: the build computes exactly what the plain (copying) semantics computes. *)
  Theorem chain_alias_free : forall ds obj gs K st',
    covered K gs -> NoDup (chain_keys ds) -> (forall k, In k (chain_keys ds) -> ~ In k K) ->
    apply_chain_al nonstr tc ds (obj, gs) = Ok st' ->
    apply_chain nonstr tc ds obj = Ok (fst st').
  Proof.
    induction ds as [|d t IH]; intros obj gs K st' Hcov Hnd Hfresh H.
    - cbn in H. inv H. reflexivity.
    - cbn [apply_chain_al] in H. cbn [apply_chain]. cbn [chain_keys flat_map] in Hnd, Hfresh.
      destruct (NoDup_app_inv _ _ Hnd) as (Hnd1 & Hnd2 & Hdisj).
      unfold rstate in *.
      destruct (apply_dirs_al nonstr tc d [(obj, gs)]) as [rs1| | |] eqn:E1; [|cbn in H; discriminate..].
      destruct (apply_dirs_al_plain d obj gs K rs1 Hcov Hnd1) as (o1 & g1 & -> & Hp & Hc1); auto.
      { intros k Hk. apply Hfresh. apply in_or_app; left; exact Hk. }
      rewrite Hp. cbn [bind] in H |- *.
      apply (IH o1 g1 (dirs_keys d ++ K)%list st' Hc1 Hnd2); auto.
      intros k Hk Hin. apply in_app_or in Hin as [Hin|Hin].
      + eapply Hdisj; eauto.
      + apply (Hfresh k); [apply in_or_app; right; exact Hk|exact Hin].
  Qed.
End AliasFree.
