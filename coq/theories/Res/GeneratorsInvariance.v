(* C06 — labels and annotations never influence names, namespaces or data: a build commutes with erasing them.
   (C06_invariance at the level of whole trees of kustomizations.) *)
From KV Require Import Res.Hash Res.HashProofs Res.Generators Res.GeneratorsProofs.
From Coq Require Import ZifyNat ZifyN ZifyBool.
Local Open Scope string_scope.

(* ------------------------------------------------------------------ labels and annotations never influence the rest *)

(* an object without its labels and annotations *)
Definition strip (o : gobj) : gobj := set_annos (set_labels o []) [].

Lemma map_strip_app : forall a b, map strip (a ++ b)%list = (map strip a ++ map strip b)%list.
Proof. intros. apply map_app. Qed.

Lemma indices_from_map : forall {A B} (f : B -> bool) (g : A -> B) l i,
  indices_from f i (map g l) = indices_from (fun x => f (g x)) i l.
Proof. intros A B f g l. induction l as [|x t IH]; intro i; cbn; [reflexivity|]. rewrite IH. reflexivity. Qed.

Lemma indices_from_ext : forall {A} (f g : A -> bool) l i, (forall x, f x = g x) -> indices_from f i l = indices_from g i l.
Proof. intros A f g l. induction l as [|x t IH]; intros i H; cbn; [reflexivity|]. rewrite H, (IH _ H). reflexivity. Qed.

Lemma matches_any_strip : forall s id o, matches_any s id (strip o) = matches_any s id o.
Proof. reflexivity. Qed.
Lemma matches_cur_strip : forall s id o, matches_cur s id (strip o) = matches_cur s id o.
Proof. reflexivity. Qed.

Lemma indices_any_strip : forall s id rm, indices (matches_any s id) (map strip rm) = indices (matches_any s id) rm.
Proof. intros. unfold indices. rewrite indices_from_map. apply indices_from_ext. intro. apply matches_any_strip. Qed.
Lemma indices_cur_strip : forall s id rm, indices (matches_cur s id) (map strip rm) = indices (matches_cur s id) rm.
Proof. intros. unfold indices. rewrite indices_from_map. apply indices_from_ext. intro. apply matches_cur_strip. Qed.

Lemma existsb_cur_strip : forall s id rm, existsb (matches_cur s id) (map strip rm) = existsb (matches_cur s id) rm.
Proof. intros s id rm. induction rm as [|x t IH]; cbn; [reflexivity|]. rewrite IH. reflexivity. Qed.

Lemma replace_nth_map : forall {A B} (g : A -> B) i x l, map g (replace_nth i x l) = replace_nth i (g x) (map g l).
Proof. intros A B g i x l. revert i. induction l as [|y t IH]; intros [|i]; cbn; try reflexivity. rewrite IH. reflexivity. Qed.

Lemma nth_error_map' : forall {A B} (g : A -> B) l i, nth_error (map g l) i = option_map g (nth_error l i).
Proof. intros A B g l. induction l as [|y t IH]; intros [|i]; cbn; auto. Qed.

Lemma strip_idem : forall o, strip (strip o) = strip o.
Proof. reflexivity. Qed.

Lemma strip_copy_merge : forall r old, strip (copy_merge_meta (strip r) (strip old)) = strip (copy_merge_meta r old).
Proof. reflexivity. Qed.
Lemma strip_merge_data : forall r old, strip (merge_data (strip r) (strip old)) = strip (merge_data r old).
Proof. reflexivity. Qed.
Lemma merge_data_strip_l : forall r old, strip (merge_data r (strip old)) = strip (merge_data r old).
Proof. reflexivity. Qed.

Definition rstrip (r : res resmap) : res resmap := res_map (map strip) r.

Lemma map_strip_idem : forall rm, map strip (map strip rm) = map strip rm.
Proof. intro rm. rewrite map_map. apply map_ext. intro. apply strip_idem. Qed.

Lemma rm_append_strip : forall rm r, rstrip (rm_append rm r) = rstrip (rm_append (map strip rm) (strip r)).
Proof.
  intros rm r. unfold rm_append.
  change (g_secret (strip r)) with (g_secret r). change (cur_id (strip r)) with (cur_id r).
  rewrite existsb_cur_strip. destruct (existsb _ rm); [reflexivity|].
  cbn [rstrip res_map]. f_equal. rewrite !map_app, map_strip_idem. reflexivity.
Qed.

Lemma rm_replace_strip : forall rm r,
  res_map (fun p => (fst p, map strip (snd p))) (rm_replace rm r) =
  res_map (fun p => (fst p, map strip (snd p))) (rm_replace (map strip rm) (strip r)).
Proof.
  intros rm r. unfold rm_replace.
  change (g_secret (strip r)) with (g_secret r). change (cur_id (strip r)) with (cur_id r).
  rewrite indices_cur_strip.
  destruct (indices (matches_cur (g_secret r) (cur_id r)) rm) as [|i [|j t]]; try reflexivity.
  cbn [res_map fst snd]. rewrite !replace_nth_map, map_strip_idem, strip_idem. reflexivity.
Qed.

Lemma absorb_strip : forall rm r, rstrip (absorb rm r) = rstrip (absorb (map strip rm) (strip r)).
Proof.
  intros rm r. unfold absorb.
  change (g_secret (strip r)) with (g_secret r). change (cur_id (strip r)) with (cur_id r).
  change (g_behavior (strip r)) with (g_behavior r).
  rewrite indices_any_strip.
  set (ms := indices (matches_any (g_secret r) (cur_id r)) rm).
  destruct (absorb_action (List.length ms) (g_behavior r)) eqn:Ea; try reflexivity.
  - apply rm_append_strip.
  - destruct ms as [|i [|j t]]; try reflexivity.
    rewrite nth_error_map'. destruct (nth_error rm i) as [old|]; [|reflexivity]. cbn [option_map].
    pose proof (rm_replace_strip rm (copy_merge_meta r old)) as H.
    change (strip (copy_merge_meta r old)) with (strip (copy_merge_meta (strip r) (strip old))) in H.
    pose proof (rm_replace_strip (map strip rm) (copy_merge_meta (strip r) (strip old))) as H'.
    rewrite map_strip_idem in H'. rewrite <- H' in H. clear H'.
    destruct (rm_replace rm (copy_merge_meta r old)) as [[i1 l1]| | |],
             (rm_replace (map strip rm) (copy_merge_meta (strip r) (strip old))) as [[i2 l2]| | |];
      cbn [res_map fst snd] in H; try discriminate H; try reflexivity.
    injection H as H1 H2. subst i2. cbn [bind fst snd]. destruct (Nat.eqb i1 i); [|reflexivity].
    cbn [rstrip res_map]. rewrite H2. reflexivity.
  - destruct ms as [|i [|j t]]; try reflexivity.
    rewrite nth_error_map'. destruct (nth_error rm i) as [old|]; [|reflexivity]. cbn [option_map].
    pose proof (rm_replace_strip rm (merge_data (copy_merge_meta r old) old)) as H.
    change (strip (merge_data (copy_merge_meta r old) old))
      with (strip (merge_data (copy_merge_meta (strip r) (strip old)) (strip old))) in H.
    pose proof (rm_replace_strip (map strip rm) (merge_data (copy_merge_meta (strip r) (strip old)) (strip old))) as H'.
    rewrite map_strip_idem in H'. rewrite <- H' in H. clear H'.
    destruct (rm_replace rm (merge_data (copy_merge_meta r old) old)) as [[i1 l1]| | |],
             (rm_replace (map strip rm) (merge_data (copy_merge_meta (strip r) (strip old)) (strip old))) as [[i2 l2]| | |];
      cbn [res_map fst snd] in H; try discriminate H; try reflexivity.
    injection H as H1 H2. subst i2. cbn [bind fst snd]. destruct (Nat.eqb i1 i); [|reflexivity].
    cbn [rstrip res_map]. rewrite H2. reflexivity.
Qed.

Definition strip_args (a : genargs) : genargs :=
  mkGenArgs (ga_secret a) (ga_name a) (ga_ns a) (ga_behavior a) (ga_envs a) (ga_literals a) (ga_files a) (ga_type a)
            (ga_has_opts a) [] [] (ga_disable_hash a) (ga_immutable a).
Definition strip_gopts (g : gopts) : gopts := mkGopts [] [] (go_disable_hash g) (go_immutable g).

Lemma make_generated_strip : forall files g a,
  res_map strip (make_generated files g a) = res_map strip (make_generated files (option_map strip_gopts g) (strip_args a)).
Proof.
  intros files g a. destruct a as [sec name ns beh envs lits fs ty has lab ann dis imm].
  unfold make_generated, strip_args. cbn [ga_name ga_secret ga_ns ga_behavior ga_type].
  destruct name as [|c0 s0]; [reflexivity|].
  change (kv_load files (mkGenArgs sec (String c0 s0) ns beh envs lits fs ty has [] [] dis imm))
    with (kv_load files (mkGenArgs sec (String c0 s0) ns beh envs lits fs ty has lab ann dis imm)).
  destruct (kv_load files _) as [pairs| | |]; try reflexivity. cbn [bind].
  destruct (validated_map pairs []) as [m| | |]; try reflexivity. cbn [bind].
  unfold local_opts. cbn [ga_has_opts ga_labels ga_annos ga_disable_hash ga_immutable].
  destruct sec.
  - destruct has, g as [g0|]; reflexivity.
  - destruct (split_data m) as [dd bb]. destruct has, g as [g0|]; reflexivity.
Qed.

Lemma Ok_inj : forall {A} (a b : A), Ok a = Ok b -> a = b.
Proof. intros A a b H. injection H. auto. Qed.

Lemma res_map_strip_inv : forall (a b : res gobj), res_map strip a = res_map strip b ->
  match a, b with
  | Ok x, Ok y => strip x = strip y
  | Err, Err | Panic, Panic | Diverge, Diverge => True
  | _, _ => False
  end.
Proof. intros [x| | |] [y| | |] H; cbn [res_map] in H; try discriminate; try exact I. apply Ok_inj in H. exact H. Qed.

Lemma rstrip_inv : forall (a b : res resmap), rstrip a = rstrip b ->
  match a, b with
  | Ok x, Ok y => map strip x = map strip y
  | Err, Err | Panic, Panic | Diverge, Diverge => True
  | _, _ => False
  end.
Proof. intros [x| | |] [y| | |] H; cbn [rstrip res_map] in H; try discriminate; try exact I. apply Ok_inj in H. exact H. Qed.

Lemma absorb_sim : forall rm rm' r r', map strip rm = map strip rm' -> strip r = strip r' ->
  rstrip (absorb rm r) = rstrip (absorb rm' r').
Proof. intros rm rm' r r' H1 H2. rewrite (absorb_strip rm r), (absorb_strip rm' r'), H1, H2. reflexivity. Qed.

Lemma run_generators_sim : forall d d' gens gens' rm rm',
  l_files d = l_files d' ->
  option_map strip_gopts (if l_has_genopts d then Some (l_genopts d) else None) =
  option_map strip_gopts (if l_has_genopts d' then Some (l_genopts d') else None) ->
  map strip_args gens = map strip_args gens' -> map strip rm = map strip rm' ->
  rstrip (run_generators d gens rm) = rstrip (run_generators d' gens' rm').
Proof.
  intros d d' gens. induction gens as [|a t IH]; intros [|a' t'] rm rm' Hf Hg Ha Hr; try discriminate Ha.
  - cbn. rewrite Hr. reflexivity.
  - cbn [map] in Ha.
    assert (Ha1 : strip_args a = strip_args a')
      by (exact (f_equal (fun l => match l with x :: _ => x | [] => strip_args a end) Ha)).
    assert (Ha2 : map strip_args t = map strip_args t') by (exact (f_equal (@tl _) Ha)).
    cbn [run_generators].
    assert (M1 : res_map strip (make_generated (l_files d) (if l_has_genopts d then Some (l_genopts d) else None) a) =
                 res_map strip (make_generated (l_files d') (if l_has_genopts d' then Some (l_genopts d') else None) a')).
    { rewrite (make_generated_strip (l_files d) _ a), (make_generated_strip (l_files d') _ a'), Hf, Hg, Ha1. reflexivity. }
    apply res_map_strip_inv in M1.
    destruct (make_generated (l_files d) _ a) as [o| | |], (make_generated (l_files d') _ a') as [o'| | |];
      try contradiction; try reflexivity.
    cbn [bind]. pose proof (absorb_sim rm rm' o o' Hr M1) as A. apply rstrip_inv in A.
    destruct (absorb rm o) as [rm1| | |], (absorb rm' o') as [rm1'| | |]; try contradiction; try reflexivity.
    cbn [bind]. apply IH; assumption.
Qed.

Lemma strip_eq_fields : forall o o', strip o = strip o' ->
  g_secret o = g_secret o' /\ cur_id o = cur_id o' /\ g_hash o = g_hash o' /\ content_of o = content_of o'.
Proof.
  intros o o' H. repeat split.
  - change (g_secret (strip o) = g_secret (strip o')). rewrite H. reflexivity.
  - change (cur_id (strip o) = cur_id (strip o')). rewrite H. reflexivity.
  - change (g_hash (strip o) = g_hash (strip o')). rewrite H. reflexivity.
  - change (content_of (strip o) = content_of (strip o')). rewrite H. reflexivity.
Qed.

Lemma Some_inj : forall {A} (a b : A), Some a = Some b -> a = b.
Proof. intros A a b H. injection H. auto. Qed.

Lemma ns_loop_sim : forall ns todo i rm rm', map strip rm = map strip rm' ->
  rstrip (ns_loop ns todo i rm) = rstrip (ns_loop ns todo i rm').
Proof.
  intros ns todo. induction todo as [|todo IH]; intros i rm rm' H; cbn [ns_loop].
  - cbn. rewrite H. reflexivity.
  - assert (Hn : option_map strip (nth_error rm i) = option_map strip (nth_error rm' i))
      by (rewrite <- !nth_error_map', H; reflexivity).
    destruct (nth_error rm i) as [o|], (nth_error rm' i) as [o'|]; cbn [option_map] in Hn; try discriminate Hn.
    2:{ cbn. rewrite H. reflexivity. }
    apply Some_inj in Hn.
    set (o1 := set_ns (store_prev o) ns). set (o1' := set_ns (store_prev o') ns).
    assert (Hs1 : strip o1 = strip o1').
    { change (set_ns (store_prev (strip o)) ns = set_ns (store_prev (strip o')) ns). rewrite Hn. reflexivity. }
    assert (Hm : map strip (replace_nth i o1 rm) = map strip (replace_nth i o1' rm'))
      by (rewrite !replace_nth_map, H, Hs1; reflexivity).
    destruct (strip_eq_fields _ _ Hs1) as [F1 [F2 _]].
    rewrite <- (indices_cur_strip _ _ (replace_nth i o1 rm)), <- (indices_cur_strip _ _ (replace_nth i o1' rm')).
    rewrite Hm, F1, F2.
    destruct (indices _ (map strip (replace_nth i o1' rm'))) as [|x [|y t]]; try reflexivity.
    apply IH. exact Hm.
Qed.

Lemma forallb_map : forall {A B} (f : B -> bool) (g : A -> B) l, forallb f (map g l) = forallb (fun x => f (g x)) l.
Proof. intros A B f g l. induction l; cbn; congruence. Qed.
Lemma forallb_ext' : forall {A} (f g : A -> bool) l, (forall x, f x = g x) -> forallb f l = forallb g l.
Proof. intros A f g l H. induction l; cbn; [reflexivity|]. rewrite H, IHl. reflexivity. Qed.

Lemma map_strip_comm : forall (f : gobj -> gobj) rm, (forall o, strip (f o) = f (strip o)) ->
  map strip (map f rm) = map f (map strip rm).
Proof. intros f rm H. rewrite !map_map. apply map_ext. exact H. Qed.

Lemma strip_meta_transform : forall a l rm, map strip (annos_transform a (labels_transform l rm)) = map strip rm.
Proof.
  intros a l rm. unfold annos_transform, labels_transform. rewrite !map_map. apply map_ext. reflexivity.
Qed.

Lemma run_transformers_sim : forall d d' rm rm',
  l_ns d = l_ns d' -> l_prefix d = l_prefix d' -> l_suffix d = l_suffix d' ->
  map strip rm = map strip rm' ->
  rstrip (run_transformers d rm) = rstrip (run_transformers d' rm').
Proof.
  intros d d' rm rm' Hns Hp Hs H. unfold run_transformers. rewrite <- Hns, <- Hp, <- Hs.
  assert (N : rstrip (ns_transform (l_ns d) rm) = rstrip (ns_transform (l_ns d) rm')).
  { unfold ns_transform. destruct (l_ns d); [cbn; rewrite H; reflexivity|].
    assert (L : List.length rm = List.length rm') by (rewrite <- (map_length strip rm), H, map_length; reflexivity).
    rewrite L. apply ns_loop_sim. exact H. }
  apply rstrip_inv in N.
  destruct (ns_transform (l_ns d) rm) as [r1| | |], (ns_transform (l_ns d) rm') as [r1'| | |]; try contradiction; try reflexivity.
  cbn [bind rstrip res_map]. f_equal.
  rewrite !strip_meta_transform.
  unfold suffix_transform, prefix_transform.
  destruct (l_prefix d) as [|pc ps], (l_suffix d) as [|sc ss]; try assumption;
    repeat (rewrite map_strip_comm by reflexivity); rewrite N; reflexivity.
Qed.

Definition meta_empty (d : ldecl) : bool :=
  match l_labels d, l_annos d with [], [] => true | _, _ => false end.

(* two kustomizations that differ only in label / annotation directives (commonLabels, commonAnnotations,
   labels and annotations of generatorOptions and of the generators' options) *)
Definition decl_sim (d d' : ldecl) : Prop :=
  l_files d = l_files d' /\
  map strip_args (l_cmgens d) = map strip_args (l_cmgens d') /\
  map strip_args (l_secgens d) = map strip_args (l_secgens d') /\
  option_map strip_gopts (if l_has_genopts d then Some (l_genopts d) else None) =
  option_map strip_gopts (if l_has_genopts d' then Some (l_genopts d') else None) /\
  l_ns d = l_ns d' /\ l_prefix d = l_prefix d' /\ l_suffix d = l_suffix d' /\
  meta_empty d = meta_empty d' /\ l_extra d = l_extra d'.

Fixpoint layer_sim (l l' : layer) : Prop :=
  match l, l' with
  | Layer bs d, Layer bs' d' =>
      decl_sim d d' /\
      (fix go (bs bs' : list layer) : Prop :=
         match bs, bs' with
         | [], [] => True
         | b :: t, b' :: t' => layer_sim b b' /\ go t t'
         | _, _ => False
         end) bs bs'
  end.

Fixpoint bases_sim (bs bs' : list layer) : Prop :=
  match bs, bs' with
  | [], [] => True
  | b :: t, b' :: t' => layer_sim b b' /\ bases_sim t t'
  | _, _ => False
  end.

Lemma layer_sim_unfold : forall bs d bs' d',
  layer_sim (Layer bs d) (Layer bs' d') <-> decl_sim d d' /\ bases_sim bs bs'.
Proof.
  intros bs d bs' d'. cbn [layer_sim].
  assert (E : forall a b, (fix go (bs bs' : list layer) : Prop :=
         match bs, bs' with
         | [], [] => True
         | b :: t, b' :: t' => layer_sim b b' /\ go t t'
         | _, _ => False
         end) a b <-> bases_sim a b).
  { induction a as [|x t IH]; intros [|y t']; cbn [bases_sim]; try tauto. }
  rewrite E. tauto.
Qed.

Fixpoint layer_ind' (P : layer -> Prop)
  (H : forall bs d, Forall P bs -> P (Layer bs d)) (l : layer) : P l :=
  match l with
  | Layer bs d =>
      H bs d ((fix go (bs : list layer) : Forall P bs :=
                 match bs with
                 | [] => Forall_nil P
                 | b :: t => Forall_cons b (layer_ind' P H b) (go t)
                 end) bs)
  end.

Fixpoint acc_bases (bs : list layer) (rm : resmap) : res resmap :=
  match bs with
  | [] => Ok rm
  | b :: bs' => do sub <- accumulate b; do rm' <- rm_append_all rm sub; acc_bases bs' rm'
  end.

Lemma accumulate_eq : forall bs d,
  accumulate (Layer bs d) =
  if decl_empty (List.length bs) d then Err
  else do rm0 <- acc_bases bs []; do rm1 <- run_generators d (l_cmgens d ++ l_secgens d)%list rm0; run_transformers d rm1.
Proof.
  intros bs d. cbn [accumulate]. destruct (decl_empty (List.length bs) d); [reflexivity|].
  reflexivity.
Qed.

Lemma rm_append_sim : forall rm rm' o o', map strip rm = map strip rm' -> strip o = strip o' ->
  rstrip (rm_append rm o) = rstrip (rm_append rm' o').
Proof. intros rm rm' o o' H1 H2. rewrite (rm_append_strip rm o), (rm_append_strip rm' o'), H1, H2. reflexivity. Qed.

Lemma rm_append_all_sim : forall l l' rm rm', map strip rm = map strip rm' -> map strip l = map strip l' ->
  rstrip (rm_append_all rm l) = rstrip (rm_append_all rm' l').
Proof.
  induction l as [|o t IH]; intros [|o' t'] rm rm' Hr Hl; try discriminate Hl.
  - cbn. rewrite Hr. reflexivity.
  - cbn [map] in Hl.
    assert (H1 : strip o = strip o') by (exact (f_equal (fun l => match l with x :: _ => x | [] => strip o end) Hl)).
    assert (H2 : map strip t = map strip t') by (exact (f_equal (@tl _) Hl)).
    cbn [rm_append_all]. pose proof (rm_append_sim rm rm' o o' Hr H1) as A. apply rstrip_inv in A.
    destruct (rm_append rm o) as [r1| | |], (rm_append rm' o') as [r1'| | |]; try contradiction; try reflexivity.
    cbn [bind]. apply IH; assumption.
Qed.

Lemma length_map_eq : forall {A B} (f : A -> B) (l l' : list A), map f l = map f l' -> List.length l = List.length l'.
Proof. intros A B f l l' H. rewrite <- (map_length f l), H, map_length. reflexivity. Qed.

Lemma decl_empty_sim : forall n d d', decl_sim d d' -> decl_empty n d = decl_empty n d'.
Proof.
  intros n d d' [Hf [Hc [Hs [Hg [Hns [Hp [Hsf [Hm He]]]]]]]]. unfold decl_empty.
  rewrite <- Hns, <- Hp, <- Hsf, <- He.
  assert (G : l_has_genopts d = l_has_genopts d').
  { destruct (l_has_genopts d), (l_has_genopts d'); cbn in Hg; try discriminate; reflexivity. }
  rewrite <- G. unfold meta_empty in Hm. rewrite <- Hm.
  apply length_map_eq in Hc, Hs.
  destruct (l_cmgens d), (l_cmgens d'), (l_secgens d), (l_secgens d'); cbn in Hc, Hs; try discriminate; reflexivity.
Qed.

Lemma bases_sim_length : forall bs bs', bases_sim bs bs' -> List.length bs = List.length bs'.
Proof. induction bs as [|b t IH]; intros [|b' t'] H; cbn in *; try tauto. f_equal. apply IH. tauto. Qed.

(* C06_invariance, build level *)
Lemma accumulate_sim : forall l l', layer_sim l l' -> rstrip (accumulate l) = rstrip (accumulate l').
Proof.
  intro l. induction l as [bs d IH] using layer_ind'. intros [bs' d'] H.
  apply layer_sim_unfold in H as [Hd Hb].
  rewrite !accumulate_eq, (decl_empty_sim _ d d' Hd), (bases_sim_length _ _ Hb).
  destruct (decl_empty (List.length bs') d'); [reflexivity|].
  assert (B : forall rm rm', map strip rm = map strip rm' -> rstrip (acc_bases bs rm) = rstrip (acc_bases bs' rm')).
  { clear Hd. revert bs' Hb. induction bs as [|b t IHt]; intros [|b' t'] Hb rm rm' Hr; cbn in Hb; try contradiction.
    - cbn. rewrite Hr. reflexivity.
    - destruct Hb as [Hb1 Hb2]. inversion IH as [|? ? P1 P2]. subst.
      cbn [acc_bases]. pose proof (P1 b' Hb1) as A. apply rstrip_inv in A.
      destruct (accumulate b) as [s1| | |], (accumulate b') as [s1'| | |]; try contradiction; try reflexivity.
      cbn [bind]. pose proof (rm_append_all_sim s1 s1' rm rm' Hr A) as A2. apply rstrip_inv in A2.
      destruct (rm_append_all rm s1) as [r1| | |], (rm_append_all rm' s1') as [r1'| | |]; try contradiction; try reflexivity.
      cbn [bind]. apply IHt; assumption. }
  pose proof (B [] [] eq_refl) as B0. apply rstrip_inv in B0.
  destruct (acc_bases bs []) as [rm0| | |], (acc_bases bs' []) as [rm0'| | |]; try contradiction; try reflexivity.
  cbn [bind]. destruct Hd as [Hf [Hc [Hs [Hg [Hns [Hp [Hsf [Hm He]]]]]]]].
  assert (G : rstrip (run_generators d (l_cmgens d ++ l_secgens d)%list rm0) =
              rstrip (run_generators d' (l_cmgens d' ++ l_secgens d')%list rm0')).
  { apply run_generators_sim; try assumption. rewrite !map_app, Hc, Hs. reflexivity. }
  apply rstrip_inv in G.
  destruct (run_generators d _ rm0) as [rm1| | |], (run_generators d' _ rm0') as [rm1'| | |]; try contradiction; try reflexivity.
  cbn [bind]. apply run_transformers_sim; assumption.
Qed.

Lemma add_hash_sim : forall o o', strip o = strip o' -> res_map strip (add_hash o) = res_map strip (add_hash o').
Proof.
  intros o o' H. destruct (strip_eq_fields _ _ H) as [_ [_ [Hh Hc]]]. unfold add_hash. rewrite <- Hh, <- Hc.
  destruct (g_hash o); [|cbn; rewrite H; reflexivity].
  destruct (hash_content (content_of o)) as [h| | |]; try reflexivity. cbn [bind res_map]. f_equal.
  change (set_name (store_prev (strip o)) (g_name (strip o) ++ "-" ++ h) =
          set_name (store_prev (strip o')) (g_name (strip o') ++ "-" ++ h)). rewrite H. reflexivity.
Qed.

Lemma mapM_add_hash_sim : forall rm rm', map strip rm = map strip rm' ->
  rstrip (mapM add_hash rm) = rstrip (mapM add_hash rm').
Proof.
  induction rm as [|o t IH]; intros [|o' t'] H; try discriminate H; [reflexivity|].
  cbn [map] in H.
  assert (H1 : strip o = strip o') by (exact (f_equal (fun l => match l with x :: _ => x | [] => strip o end) H)).
  assert (H2 : map strip t = map strip t') by (exact (f_equal (@tl _) H)).
  cbn [mapM]. pose proof (add_hash_sim o o' H1) as A. apply res_map_strip_inv in A.
  destruct (add_hash o) as [x| | |], (add_hash o') as [x'| | |]; try contradiction; try reflexivity.
  cbn [bind]. pose proof (IH t' H2) as A2. apply rstrip_inv in A2.
  destruct (mapM add_hash t) as [xs| | |], (mapM add_hash t') as [xs'| | |]; try contradiction; try reflexivity.
  cbn [bind rstrip res_map map]. rewrite A, A2. reflexivity.
Qed.

Lemma hash_ids_unique_strip : forall out, hash_ids_unique out = hash_ids_unique (map strip out).
Proof.
  intro out. unfold hash_ids_unique. rewrite forallb_map. apply forallb_ext'. intro o.
  change (g_hash (strip o)) with (g_hash o). change (g_secret (strip o)) with (g_secret o).
  change (cur_id (strip o)) with (cur_id o). rewrite indices_cur_strip. reflexivity.
Qed.

(* editing only label/annotation directives anywhere in the tree changes nothing but labels and annotations:
   same outcome class, same names (hence suffixes), namespaces, data, binaryData, types *)
Theorem build_meta_invariant : forall l l', layer_sim l l' -> rstrip (build l) = rstrip (build l').
Proof.
  intros l l' H. unfold build. pose proof (accumulate_sim l l' H) as A. apply rstrip_inv in A.
  destruct (accumulate l) as [rm| | |], (accumulate l') as [rm'| | |]; try contradiction; try reflexivity.
  cbn [bind]. pose proof (mapM_add_hash_sim rm rm' A) as B. apply rstrip_inv in B.
  destruct (mapM add_hash rm) as [out| | |], (mapM add_hash rm') as [out'| | |]; try contradiction; try reflexivity.
  cbn [bind]. rewrite (hash_ids_unique_strip out), (hash_ids_unique_strip out'), B.
  destruct (hash_ids_unique (map strip out')); [|reflexivity]. cbn [rstrip res_map]. rewrite B. reflexivity.
Qed.

(* non-vacuity: two trees that differ in every kind of label/annotation directive *)
Definition inv_tree (cl : dict) (gl : dict) (ol : dict) : layer :=
  Layer [Layer [] (mkLdecl [] [mkGenArgs false "cfg" "" "" [] ["a=1"] [] "" true ol ol false false] []
                           true (mkGopts gl gl false false) "" "p-" "" cl cl false)]
        (mkLdecl [] [mkGenArgs false "cfg" "" "merge" [] ["b=2"] [] "" false [] [] false false] []
                 false (mkGopts [] [] false false) "ns1" "" "" cl [] false).

Example build_meta_invariant_example :
  layer_sim (inv_tree [("app", "x")] [("g", "1")] [("o", "2")]) (inv_tree [("app", "y"); ("z", "1")] [] [("o", "3")]) /\
  exists o, build (inv_tree [("app", "x")] [("g", "1")] [("o", "2")]) = Ok [o] /\ g_labels o = [("app", "x"); ("g", "1"); ("o", "2")].
Proof. split; [cbn; repeat split|]. eexists. vm_compute. split; reflexivity. Qed.


(* ------------------------------------------------------------------ a key lives in only one of data / binaryData *)

Definition disjoint_keys (o : gobj) : Prop :=
  forall k v w, dict_get k (dict_of_opt (g_data o)) = Some v -> dict_get k (g_bin o) = Some w -> False.

Lemma dict_get_in : forall k d v, dict_get k d = Some v -> In k (map fst d).
Proof.
  intros k d v. induction d as [|[k1 v1] t IH]; cbn; [discriminate|].
  destruct (String.eqb_spec k k1); [auto|]. intro H. right. auto.
Qed.

Lemma dict_get_notin_none : forall k d, ~ In k (map fst d) -> dict_get k d = None.
Proof.
  intros k d H. destruct (dict_get k d) eqn:E; [|reflexivity]. exfalso. apply H. eapply dict_get_in. exact E.
Qed.

Lemma dict_get_rev_some : forall k l v, dict_get k (rev l) = Some v -> exists w, dict_get k l = Some w.
Proof.
  intros k l v H. apply dict_get_in in H. rewrite map_rev in H. apply in_rev in H.
  destruct (dict_get k l) eqn:E; [eauto|]. exfalso. exact (dict_get_none_notin _ _ E H).
Qed.

Lemma merge_data_disjoint : forall r old,
  disjoint_keys r -> disjoint_keys (merge_data (copy_merge_meta r old) old).
Proof.
  intros r old Hr k v w Hd Hb.
  rewrite merge_data_get in Hd.
  cbn [merge_data copy_merge_meta g_bin g_data] in Hb.
  rewrite dict_get_override, dict_get_without in Hb.
  destruct (dict_get k (rev (g_bin r))) as [w'|] eqn:Eb.
  - destruct (dict_get_rev_some _ _ _ Eb) as [w2 Eb2].
    destruct (dict_get k (rev (dict_of_opt (g_data r)))) as [v'|] eqn:Ed.
    + destruct (dict_get_rev_some _ _ _ Ed) as [v2 Ed2]. exact (Hr k v2 w2 Ed2 Eb2).
    + rewrite Eb2 in Hd. discriminate.
  - (* the old binary entry survives only when the merged data does not define the key *)
    assert (Hm : dict_get k (dict_override (dict_without (dict_of_opt (g_data old)) (g_bin r)) (dict_of_opt (g_data r))) = Some v).
    { rewrite dict_get_override, dict_get_without. exact Hd. }
    rewrite Hm in Hb. discriminate.
Qed.

Lemma copy_merge_meta_disjoint : forall r old, disjoint_keys r -> disjoint_keys (copy_merge_meta r old).
Proof. intros r old H. exact H. Qed.

Lemma Forall_replace_nth : forall {A} (P : A -> Prop) i x l, Forall P l -> P x -> Forall P (replace_nth i x l).
Proof.
  intros A P i x l H Hx. revert i. induction H as [|y t Hy Ht IH]; intros [|i]; cbn; constructor; auto.
Qed.

Lemma absorb_disjoint : forall rm r rm',
  Forall disjoint_keys rm -> disjoint_keys r -> absorb rm r = Ok rm' -> Forall disjoint_keys rm'.
Proof.
  intros rm r rm' Hrm Hr H. unfold absorb in H.
  set (ms := indices (matches_any (g_secret r) (cur_id r)) rm) in *.
  destruct (absorb_action (List.length ms) (g_behavior r)) eqn:Ea; try discriminate.
  - unfold rm_append in H. destruct (existsb _ rm); [discriminate|]. apply Ok_inj in H. subst.
    apply Forall_app. split; [exact Hrm|constructor; [exact Hr|constructor]].
  - destruct ms as [|i [|j t]]; try discriminate.
    destruct (nth_error rm i) as [old|]; [|discriminate].
    unfold rm_replace in H. destruct (indices _ rm) as [|i1 [|j1 t1]]; try discriminate.
    cbn [bind fst snd] in H. destruct (Nat.eqb i1 i); [|discriminate]. apply Ok_inj in H. subst.
    apply Forall_replace_nth; [exact Hrm|apply copy_merge_meta_disjoint; exact Hr].
  - destruct ms as [|i [|j t]]; try discriminate.
    destruct (nth_error rm i) as [old|]; [|discriminate].
    unfold rm_replace in H. destruct (indices _ rm) as [|i1 [|j1 t1]]; try discriminate.
    cbn [bind fst snd] in H. destruct (Nat.eqb i1 i); [|discriminate]. apply Ok_inj in H. subst.
    apply Forall_replace_nth; [exact Hrm|apply merge_data_disjoint; exact Hr].
Qed.

Lemma make_generated_disjoint_keys : forall files g a r, make_generated files g a = Ok r -> disjoint_keys r.
Proof.
  intros files g a r H k v w Hd Hb.
  eapply (make_generated_disjoint files g a r k H); eapply dict_get_in; eassumption.
Qed.

Lemma run_generators_disjoint : forall d gens rm rm',
  Forall disjoint_keys rm -> run_generators d gens rm = Ok rm' -> Forall disjoint_keys rm'.
Proof.
  intros d gens. induction gens as [|a t IH]; intros rm rm' Hrm H; cbn [run_generators] in H.
  - apply Ok_inj in H. subst. exact Hrm.
  - destruct (make_generated _ _ a) as [o| | |] eqn:Em; cbn [bind] in H; try discriminate.
    destruct (absorb rm o) as [rm1| | |] eqn:Ea; cbn [bind] in H; try discriminate.
    eapply IH; [|exact H]. eapply absorb_disjoint; [exact Hrm| |exact Ea].
    eapply make_generated_disjoint_keys. exact Em.
Qed.

(* a step that leaves data and binaryData alone *)
Definition same_maps (o o' : gobj) : Prop := g_data o' = g_data o /\ g_bin o' = g_bin o.

Lemma same_maps_disjoint : forall o o', same_maps o o' -> disjoint_keys o -> disjoint_keys o'.
Proof. intros o o' [H1 H2] H k v w. rewrite H1, H2. apply H. Qed.

Lemma Forall_map_same : forall (f : gobj -> gobj) rm, (forall o, same_maps o (f o)) ->
  Forall disjoint_keys rm -> Forall disjoint_keys (map f rm).
Proof.
  intros f rm Hf H. induction H; cbn; constructor; auto. eapply same_maps_disjoint; eauto.
Qed.

Lemma ns_loop_disjoint : forall ns todo i rm rm',
  Forall disjoint_keys rm -> ns_loop ns todo i rm = Ok rm' -> Forall disjoint_keys rm'.
Proof.
  intros ns todo. induction todo as [|todo IH]; intros i rm rm' Hrm H; cbn [ns_loop] in H.
  - apply Ok_inj in H. subst. exact Hrm.
  - destruct (nth_error rm i) as [o|] eqn:En; [|apply Ok_inj in H; subst; exact Hrm].
    destruct (indices _ (replace_nth i _ rm)) as [|x [|y t]]; try discriminate.
    eapply IH; [|exact H]. apply Forall_replace_nth; [exact Hrm|].
    apply (same_maps_disjoint o); [split; reflexivity|].
    rewrite Forall_forall in Hrm. apply Hrm. eapply nth_error_In. exact En.
Qed.

Lemma run_transformers_disjoint : forall d rm rm',
  Forall disjoint_keys rm -> run_transformers d rm = Ok rm' -> Forall disjoint_keys rm'.
Proof.
  intros d rm rm' Hrm H. unfold run_transformers in H.
  destruct (ns_transform (l_ns d) rm) as [r1| | |] eqn:En; cbn [bind] in H; try discriminate.
  apply Ok_inj in H. subst.
  assert (H1 : Forall disjoint_keys r1).
  { unfold ns_transform in En. destruct (l_ns d); [apply Ok_inj in En; subst; exact Hrm|].
    eapply ns_loop_disjoint; [exact Hrm|exact En]. }
  unfold annos_transform, labels_transform, suffix_transform, prefix_transform.
  apply Forall_map_same; [intro; split; reflexivity|].
  apply Forall_map_same; [intro; split; reflexivity|].
  destruct (l_suffix d), (l_prefix d); repeat (apply Forall_map_same; [intro; split; reflexivity|]); exact H1.
Qed.

Lemma rm_append_all_disjoint : forall l rm rm',
  Forall disjoint_keys rm -> Forall disjoint_keys l -> rm_append_all rm l = Ok rm' -> Forall disjoint_keys rm'.
Proof.
  induction l as [|o t IH]; intros rm rm' Hrm Hl H; cbn [rm_append_all] in H.
  - apply Ok_inj in H. subst. exact Hrm.
  - inversion Hl as [|? ? Ho Ht]; subst.
    unfold rm_append in H. destruct (existsb _ rm); [discriminate|]. cbn [bind] in H.
    eapply IH; [|exact Ht|exact H]. apply Forall_app. split; [exact Hrm|constructor; [exact Ho|constructor]].
Qed.

Lemma accumulate_disjoint : forall l rm, accumulate l = Ok rm -> Forall disjoint_keys rm.
Proof.
  intro l. induction l as [bs d IH] using layer_ind'. intros rm H.
  rewrite accumulate_eq in H. destruct (decl_empty (List.length bs) d); [discriminate|].
  assert (B : forall acc acc', Forall disjoint_keys acc -> acc_bases bs acc = Ok acc' -> Forall disjoint_keys acc').
  { clear H. induction bs as [|b t IHt]; intros acc acc' Hacc Hb; cbn [acc_bases] in Hb.
    - apply Ok_inj in Hb. subst. exact Hacc.
    - inversion IH as [|? ? P1 P2]; subst.
      destruct (accumulate b) as [sub| | |] eqn:Es; cbn [bind] in Hb; try discriminate.
      destruct (rm_append_all acc sub) as [acc1| | |] eqn:Ea; cbn [bind] in Hb; try discriminate.
      eapply (IHt P2); [|exact Hb]. eapply rm_append_all_disjoint; [exact Hacc|apply P1; reflexivity|exact Ea]. }
  destruct (acc_bases bs []) as [rm0| | |] eqn:E0; cbn [bind] in H; try discriminate.
  destruct (run_generators d _ rm0) as [rm1| | |] eqn:E1; cbn [bind] in H; try discriminate.
  eapply run_transformers_disjoint; [|exact H].
  eapply run_generators_disjoint; [|exact E1]. eapply B; [constructor|exact E0].
Qed.

(* C06_keys_disjoint: in every build output no object has a key both in data and in binaryData *)
Theorem build_keys_disjoint : forall l out, build l = Ok out -> Forall disjoint_keys out.
Proof.
  intros l out H. unfold build in H. destruct (accumulate l) as [rm| | |] eqn:Ea; cbn [bind] in H; try discriminate.
  pose proof (accumulate_disjoint l rm Ea) as Hrm. clear Ea.
  destruct (mapM add_hash rm) as [out'| | |] eqn:Em; cbn [bind] in H; try discriminate.
  destruct (hash_ids_unique out'); [|discriminate]. apply Ok_inj in H. subst out'.
  revert out Em.
  induction Hrm as [|o t Ho Ht IH]; intros out H; cbn [mapM] in H.
  - apply Ok_inj in H. subst. constructor.
  - destruct (add_hash o) as [o'| | |] eqn:Eh; cbn [bind] in H; try discriminate.
    destruct (mapM add_hash t) as [t'| | |]; cbn [bind] in H; try discriminate. apply Ok_inj in H. subst.
    constructor; [|apply IH; reflexivity].
    unfold add_hash in Eh. destruct (g_hash o); [|apply Ok_inj in Eh; subst; exact Ho].
    destruct (hash_content (content_of o)); cbn [bind] in Eh; try discriminate. apply Ok_inj in Eh. subst. exact Ho.
Qed.
