(* The tables regenerated from /repo equal the committed reference copy. *)
From KV Require Import Yaml.FieldSpecTypes Gen.FieldSpecs Res.FieldSpecsRef.

Lemma fieldspecs_eq_ref :
  gen_name_prefix_fs = ref_name_prefix_fs /\
  gen_name_suffix_fs = ref_name_suffix_fs /\
  gen_common_labels_fs = ref_common_labels_fs /\
  gen_template_labels_fs = ref_template_labels_fs /\
  gen_common_annotations_fs = ref_common_annotations_fs /\
  gen_namespace_fs = ref_namespace_fs /\
  gen_images_fs = ref_images_fs /\
  gen_replicas_fs = ref_replicas_fs.
Proof. repeat split; reflexivity. Qed.
