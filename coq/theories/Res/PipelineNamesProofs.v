(* C03 through the integrated build, tree level: every resource of the map just before FixBackReferences is
   tracked back to a NAME of the source tree (a document's metadata.name or a generator's name) and the
   renaming directives of the kustomizations on its way, through everything Pipeline.accumulate does in
   between (generators, labels / annotations, Namespace.ns_filter, the hash).  Hence the global hypotheses of
   the progress theorem (closed pair, unique candidate) follow from a boolean guard on the source tree. *)
From KV Require Import Res.Pipeline Res.PipelineProofs Res.PipelineFrameProofs Res.PipelineWfProofs Res.PipelinePermProofs.
From KV Require Import Res.CsvFacts Res.FsFacts Res.RenameProofs Res.NameRefProofs Res.RewriteProofs Res.ProgressProofs Res.BuildProofs Res.C03Facts Res.PipelineRefsProofs.
From KV Require Res.Labels Res.LabelsDefaults Res.Namespace Res.Generators Res.Hash.
From Coq Require Import Lia.
Local Open Scope string_scope.

(* ================= names a resource may have had: closure facts ================= *)

Lemma ever_named_weaken_l l1 : forall l2 u v, ever_named l2 u v = true -> ever_named (l1 ++ l2)%list u v = true.
Proof.
  induction l1 as [|st t IH]; intros l2 u v H; cbn [app]; [exact H|].
  cbn [ever_named]. rewrite (IH _ _ _ H). now rewrite !orb_true_r.
Qed.

Lemma ever_named_app l1 : forall l2 n u v,
  ever_named l1 n u = true -> ever_named l2 u v = true -> ever_named (l1 ++ l2)%list n v = true.
Proof.
  induction l1 as [|st t IH]; intros l2 n u v H1 H2.
  - cbn in H1. rewrite orb_false_r in H1. apply String.eqb_eq in H1. subst u. exact H2.
  - cbn [ever_named] in H1. apply orb_true_iff in H1 as [H1|H1].
    + apply String.eqb_eq in H1. subst u. apply (ever_named_weaken_l (st :: t)). exact H2.
    + cbn [app ever_named]. apply orb_true_iff in H1 as [H1|H1].
      * rewrite (IH _ _ _ _ H1 H2). now rewrite !orb_true_r.
      * rewrite (IH _ _ _ _ H1 H2). now rewrite !orb_true_r.
Qed.

Lemma ever_named_mono l l2 n v : ever_named l n v = true -> ever_named (l ++ l2)%list n v = true.
Proof. intros H. eapply ever_named_app; [exact H|apply ever_named_self]. Qed.

Lemma ever_named_step l st n u : ever_named l n u = true -> ever_named (l ++ [st])%list n (step_name st u) = true.
Proof.
  intros H. eapply ever_named_app; [exact H|]. cbn [ever_named]. rewrite (String.eqb_refl (step_name st u)).
  now rewrite !orb_true_r.
Qed.

(* every name in the history of [r] (previous names and the current one) is a name [n0] may have become under [l] *)
Definition names_in (n0 : string) (l : list rename_step) (r : resource) : Prop :=
  forall v, In v (hist_names pipe_cs r) -> ever_named l n0 v = true /\ v <> "".

Lemma W_name_nonempty r : W r -> get_name (r_node r) <> "".
Proof.
  intros [[_ Hw] _]. destruct (wf_node_good _ Hw) as (G & _). unfold good in G.
  apply andb_true_iff in G as [G _]. apply negb_true_iff, String.eqb_neq in G. exact G.
Qed.

Lemma cur_in_hist r : In (get_name (r_node r)) (hist_names pipe_cs r).
Proof. unfold hist_names, history. rewrite map_app. apply in_or_app. right. left. reflexivity. Qed.

Lemma names_step n0 l st r r' :
  names_in n0 l r -> grows pipe_cs r r' -> get_name (r_node r') <> "" ->
  (get_name (r_node r') = get_name (r_node r) \/ get_name (r_node r') = step_name st (get_name (r_node r))) ->
  names_in n0 (l ++ [st])%list r'.
Proof.
  intros H G Hne N v Hv. destruct (hist_names_grow pipe_cs _ _ G v Hv) as [Hold| ->].
  - split; [apply ever_named_mono|]; apply H; exact Hold.
  - split; [|exact Hne]. destruct N as [N|N]; rewrite N.
    + apply ever_named_mono. apply H. apply cur_in_hist.
    + apply ever_named_step. apply H. apply cur_in_hist.
Qed.

Lemma same_identity_history r r' : same_identity r r' -> history pipe_cs r' = history pipe_cs r.
Proof.
  intros [Hi (A1 & A2 & A3 & _)]. unfold ident in Hi. inversion Hi as [[Ha Hk Hn Hs]].
  unfold history, ptriples. rewrite A1, A2, A3. f_equal. rewrite !cur_triple_eq.
  rewrite Hn, Hk, (ens_node_ext _ _ _ Ha Hk Hs). reflexivity.
Qed.

Lemma names_same n0 l r r' : same_identity r r' -> names_in n0 l r -> names_in n0 l r'.
Proof. intros S H v Hv. apply H. unfold hist_names in *. rewrite <- (same_identity_history _ _ S). exact Hv. Qed.

(* ================= provenance of the accumulated resources ================= *)

(* original name (of a document of the tree, or of a generator), the renaming directives on the way,
   whether the resource was generated (only those may ask for a name hash) *)
Record pv := mkPv { pv_name : string; pv_steps : list rename_step; pv_gen : bool }.
Definition add_steps (l : list rename_step) (p : pv) : pv := mkPv (pv_name p) (pv_steps p ++ l)%list (pv_gen p).

Definition tracked (p : pv) (r : resource) : Prop :=
  W r /\ names_in (pv_name p) (pv_steps p) r /\ (pv_gen p = false -> r_needs_hash r = false).

(* the renaming steps one builtin transformer kind contributes *)
Definition kind_steps (k : string) (d : pdirs) : list rename_step :=
  if String.eqb k "NamespaceTransformer" then (if String.eqb (pd_ns d) "" then [] else [SNamespace (pd_ns d)])
  else if String.eqb k "PrefixTransformer" then (if String.eqb (pd_prefix d) "" then [] else [SPrefix (pd_prefix d)])
  else if String.eqb k "SuffixTransformer" then (if String.eqb (pd_suffix d) "" then [] else [SSuffix (pd_suffix d)])
  else [].
Definition order_steps (ks : list string) (d : pdirs) : list rename_step := flat_map (fun k => kind_steps k d) ks.
Definition dir_steps (d : pdirs) : list rename_step := order_steps gen_transformer_order d.

Definition gen_pv (g : pgen) : pv := mkPv (pg_name g) [] true.
Definition kind_gens (k : string) (d : pdirs) : list pv :=
  if String.eqb k "ConfigMapGenerator" then map gen_pv (pd_cmgens d)
  else if String.eqb k "SecretGenerator" then map gen_pv (pd_secgens d) else [].
Definition order_gens (ks : list string) (d : pdirs) : list pv := flat_map (fun k => kind_gens k d) ks.
Definition dir_gens (d : pdirs) : list pv := order_gens gen_generator_order d.

(* a function of the SOURCE TREE alone *)
Fixpoint tree_prov (t : ptree) : list pv :=
  match t with
  | PFile docs => map (fun n => mkPv (get_name n) [] false) docs
  | PDir _ d ents => map (add_steps (dir_steps d)) (List.concat (map tree_prov ents) ++ dir_gens d)%list
  end.

Lemma add_steps_nil prov : map (add_steps []) prov = prov.
Proof. rewrite <- (map_id prov) at 2. apply map_ext. intros [n l g]. unfold add_steps. cbn. now rewrite app_nil_r. Qed.

Lemma add_steps_app l1 l2 prov : map (add_steps l2) (map (add_steps l1) prov) = map (add_steps (l1 ++ l2)) prov.
Proof. rewrite map_map. apply map_ext. intros [n l g]. unfold add_steps. cbn. now rewrite app_assoc. Qed.

(* what one renaming transformer does to one resource, as far as names are concerned *)
Definition step_rel (st : rename_step) (r r' : resource) : Prop :=
  grows pipe_cs r r' /\
  (get_name (r_node r') = get_name (r_node r) \/ get_name (r_node r') = step_name st (get_name (r_node r))) /\
  r_needs_hash r' = r_needs_hash r.

Lemma lift_tracked st prov m : Forall2 tracked prov m -> forall m',
  Forall W m' -> Forall2 (step_rel st) m m' -> Forall2 tracked (map (add_steps [st]) prov) m'.
Proof.
  induction 1 as [|p r prov m (Wr & Nr & Hr) _ IH]; intros m' HW HS; inversion HS; subst; cbn [map]; [constructor|].
  inversion HW; subst. constructor; [|apply IH; assumption].
  match goal with H : step_rel _ _ _ |- _ => destruct H as (G & N & Hh) end.
  split; [assumption|]. split; [cbn [add_steps pv_name pv_steps]; eapply names_step; eauto using W_name_nonempty|].
  cbn [add_steps pv_gen]. intros Hg. rewrite Hh. auto.
Qed.

Lemma lift_same prov m : Forall2 tracked prov m -> forall m',
  Forall W m' -> Forall2 same_identity m m' -> Forall2 tracked prov m'.
Proof.
  induction 1 as [|p r prov m (Wr & Nr & Hr) _ IH]; intros m' HW HS; inversion HS; subst; [constructor|].
  inversion HW; subst. constructor; [|apply IH; assumption].
  match goal with H : same_identity _ _ |- _ => pose proof H as S; destruct H as (_ & _ & _ & _ & _ & _ & Hh) end.
  split; [assumption|]. split; [eapply names_same; eauto|]. intros Hg. rewrite Hh. auto.
Qed.

Lemma Forall2_tracked_W prov m : Forall2 tracked prov m -> Forall W m.
Proof. induction 1 as [|p r prov m (Wr & _) _ IH]; constructor; auto. Qed.

(* ----- prefix / suffix ----- *)

Lemma affix_steps_needs_hash affix (add : string -> resource -> resource) newv org fss :
  (forall a r0, r_needs_hash (add a r0) = r_needs_hash r0) ->
  forall r r', affix_steps pipe_cs affix add newv org fss r = Ok r' -> r_needs_hash r' = r_needs_hash r.
Proof.
  intros Hadd. induction fss as [|fs t IH]; intros r r' H; cbn [affix_steps] in H; [now inv H|].
  destruct (affix_step pipe_cs affix add newv org r fs) as [r1| | |] eqn:E; cbn [bind] in H; try discriminate.
  rewrite (IH _ _ H). clear H IH. unfold affix_step in E.
  destruct (negb _); [now inv E|].
  match type of E with bind ?e _ = _ => destruct e as [n'| | |] end; cbn [bind] in E; try discriminate.
  inv E. cbn [r_needs_hash with_node].
  destruct (String.eqb (fs_path fs) "metadata/name"); [|reflexivity].
  destruct (String.eqb affix ""); [apply Hadd|]. rewrite store_previous_id_eq. cbn [r_needs_hash]. apply Hadd.
Qed.

Lemma prefix_one_needs_hash p r r' :
  prefix_one pipe_cs gen_name_prefix_fs gen_prefix_skip p r = Ok r' -> r_needs_hash r' = r_needs_hash r.
Proof.
  unfold prefix_one. destruct (org_id pipe_cs r); cbn [bind]; try discriminate.
  destruct (should_skip _ _); [intros H; now inv H|]. apply affix_steps_needs_hash. reflexivity.
Qed.

Lemma suffix_one_needs_hash s r r' :
  suffix_one pipe_cs gen_name_suffix_fs gen_suffix_skip s r = Ok r' -> r_needs_hash r' = r_needs_hash r.
Proof.
  unfold suffix_one. destruct (org_id pipe_cs r); cbn [bind]; try discriminate.
  destruct (should_skip _ _); [intros H; now inv H|]. apply affix_steps_needs_hash. reflexivity.
Qed.

Lemma prefix_tracked p prov m m' :
  no_char ","%char p = true -> Forall2 tracked prov m ->
  prefix_transform pipe_cs gen_name_prefix_fs gen_prefix_skip p m = Ok m' ->
  Forall2 tracked (map (add_steps (if String.eqb p "" then [] else [SPrefix p])) prov) m'.
Proof.
  intros Hp HT H. pose proof (Forall2_tracked_W _ _ HT) as HW.
  destruct (prefix_transform_W _ _ _ Hp HW H) as [HW' _].
  unfold prefix_transform in H. destruct (String.eqb p ""); [inv H; now rewrite add_steps_nil|].
  apply mapM_Forall2P in H. apply (lift_tracked (SPrefix p) _ _ HT _ HW').
  clear -H HW Hp. induction H as [|r r' t t' Hr _ IH]; [constructor|].
  inversion HW as [|? ? Wr Wt]; subst. constructor; [|auto].
  destruct (prefix_one_hist pipe_cs _ _ gen_prefix_table p r r' Hp (proj1 Wr) Hr) as (_ & G & N).
  split; [exact G|]. split; [exact N|]. eapply prefix_one_needs_hash; eauto.
Qed.

Lemma suffix_tracked s prov m m' :
  no_char ","%char s = true -> Forall2 tracked prov m ->
  suffix_transform pipe_cs gen_name_suffix_fs gen_suffix_skip s m = Ok m' ->
  Forall2 tracked (map (add_steps (if String.eqb s "" then [] else [SSuffix s])) prov) m'.
Proof.
  intros Hp HT H. pose proof (Forall2_tracked_W _ _ HT) as HW.
  destruct (suffix_transform_W _ _ _ Hp HW H) as [HW' _].
  unfold suffix_transform in H. destruct (String.eqb s ""); [inv H; now rewrite add_steps_nil|].
  apply mapM_Forall2P in H. apply (lift_tracked (SSuffix s) _ _ HT _ HW').
  clear -H HW Hp. induction H as [|r r' t t' Hr _ IH]; [constructor|].
  inversion HW as [|? ? Wr Wt]; subst. constructor; [|auto].
  destruct (suffix_one_hist pipe_cs _ _ gen_suffix_table s r r' Hp (proj1 Wr) Hr) as (_ & G & N).
  split; [exact G|]. split; [exact N|]. eapply suffix_one_needs_hash; eauto.
Qed.

(* ----- namespace ----- *)

Lemma ns_loop_rel ns : forall todo done out,
  Forall W todo -> ns_loop ns done todo = Ok out ->
  exists todo', out = (done ++ todo')%list /\ Forall2 (fun r r' => ns_one ns r = Ok r') todo todo'.
Proof.
  induction todo as [|r t IH]; intros done out HT H; cbn [ns_loop] in H.
  - inv H. exists []. split; [now rewrite app_nil_r|constructor].
  - inversion HT as [|? ? Wr Wt]; subst. rewrite (W_not_empty _ Wr) in H.
    destruct (ns_one ns r) as [r2| | |] eqn:E; cbn [bind] in H; try discriminate.
    destruct (Nat.eqb _ 1); [|discriminate].
    destruct (IH _ _ Wt H) as (todo' & -> & HF). exists (r2 :: todo'). split; [now rewrite <- app_assoc|].
    constructor; assumption.
Qed.

Lemma ns_one_rel ns r r' : good ns = true -> W r -> ns_one ns r = Ok r' -> step_rel (SNamespace ns) r r'.
Proof.
  intros Hg HW H. unfold ns_one in H.
  assert (Hnode: r_node (store_previous_id pipe_cs r) = r_node r) by (rewrite store_previous_id_eq; reflexivity).
  rewrite Hnode in H.
  destruct (Namespace.ns_filter gen_ns_scope (ns_config ns) (r_node r)) as [n'| | |] eqn:Hf; cbn [bind] in H; try discriminate.
  inv H. destruct HW as [[Hh Hw] Hk].
  destruct (ns_filter_wf_doc _ _ _ Hw Hg Hf) as (Wn & K & A & N).
  destruct (store_then_update pipe_cs r n' (conj Hh Hw) Wn K A) as [_ Hr].
  split; [split; [right; eexists; exact Hr|split; assumption]|].
  split; [exact N|]. rewrite store_previous_id_eq. reflexivity.
Qed.

Lemma namespace_tracked ns prov m m' :
  no_char ","%char ns = true -> Forall2 tracked prov m -> distinct_ids m ->
  namespace_transform ns m = Ok m' ->
  Forall2 tracked (map (add_steps (if String.eqb ns "" then [] else [SNamespace ns])) prov) m'.
Proof.
  intros Hn HT Hd H. pose proof (Forall2_tracked_W _ _ HT) as HW.
  destruct (namespace_transform_W _ _ _ Hn HW Hd H) as [HW' _].
  unfold namespace_transform in H. destruct (String.eqb ns "") eqn:E; [inv H; now rewrite add_steps_nil|].
  assert (Hg : good ns = true) by (unfold good; rewrite E, Hn; reflexivity).
  destruct (ns_loop_rel ns _ _ _ HW H) as (todo' & -> & HF). cbn [app] in *.
  apply (lift_tracked (SNamespace ns) _ _ HT _ HW').
  clear -HF HW Hg. induction HF as [|r r' t t' Hr _ IH]; [constructor|].
  inversion HW as [|? ? Wr Wt]; subst. constructor; [|auto]. eapply ns_one_rel; eauto.
Qed.

(* ----- generators ----- *)

Lemma gen_resource_tracked secret g r :
  gen_good g -> gen_resource secret g = Ok r -> tracked (gen_pv g) r.
Proof.
  intros Hg H. split; [eapply gen_resource_W; eauto|]. split; [|discriminate].
  unfold gen_resource in H. destruct (gen_node secret g) as [n| | |] eqn:EN; cbn [bind] in H; try discriminate. inv H.
  unfold gen_node in EN. destruct (String.eqb (pg_name g) ""); [discriminate|].
  destruct (gen_pairs g) as [kvs| | |]; cbn [bind] in EN; try discriminate.
  destruct (Generators.validated_map kvs []) as [mm| | |]; cbn [bind] in EN; try discriminate. inv EN.
  intros v Hv. unfold hist_names, history, ptriples in Hv. cbn [r_pnames r_pnss r_pkinds get_csv] in Hv.
  cbn [zip3 app map] in Hv. destruct Hv as [<-|[]].
  unfold gen_pv. cbn [pv_name pv_steps]. rewrite cur_triple_eq. cbn [r_node triple_name fst].
  replace (get_name _) with (pg_name g) by reflexivity. split; [apply ever_named_self|].
  destruct Hg as [Hn _]. unfold good in Hn. apply andb_true_iff in Hn as [Hn _].
  apply negb_true_iff, String.eqb_neq in Hn. exact Hn.
Qed.

Lemma gen_pv_merge go g : gen_pv (merge_genopts go g) = gen_pv g.
Proof. destruct go; reflexivity. Qed.

Lemma run_gens_tracked nonstr go secret gens : forall prov m m',
  Forall creates gens -> Forall gen_good gens -> Forall2 tracked prov m ->
  run_gens nonstr go secret gens m = Ok m' -> Forall2 tracked (prov ++ map gen_pv gens)%list m'.
Proof.
  induction gens as [|g t IH]; intros prov m m' Hc Hg HT H; cbn [run_gens] in H.
  - inv H. cbn [map]. now rewrite app_nil_r.
  - inversion Hc as [|? ? Hc1 Hc2]; subst. inversion Hg as [|? ? Hg1 Hg2]; subst.
    destruct (gen_resource secret (merge_genopts go g)) as [r| | |] eqn:EG; cbn [bind] in H; try discriminate.
    destruct (absorb nonstr m _ r) as [m1| | |] eqn:EA; cbn [bind] in H; try discriminate.
    cbn [map]. replace (prov ++ gen_pv g :: map gen_pv t)%list with ((prov ++ [gen_pv g]) ++ map gen_pv t)%list
      by (rewrite <- app_assoc; reflexivity).
    eapply IH; [exact Hc2|exact Hg2| |exact H].
    unfold absorb in EA.
    destruct (matching_any (cur_id pipe_cs r) 0 m) as [ms| | |]; cbn [bind] in EA; try discriminate.
    destruct (create_action (List.length ms) _ Hc1) as [E|E]; rewrite E in EA; [|discriminate].
    apply append_one_spec in EA as [-> _].
    apply Forall2_app; [exact HT|]. constructor; [|constructor].
    rewrite <- (gen_pv_merge go g). eapply gen_resource_tracked; [apply gen_good_merge; exact Hg1|exact EG].
Qed.

Lemma run_generators_tracked nonstr d prov m m' :
  dirs_wf d -> Forall2 tracked prov m -> run_generators nonstr d m = Ok m' ->
  Forall2 tracked (prov ++ dir_gens d)%list m'.
Proof.
  intros (_ & _ & _ & [Hc1 Hc2] & Hg1 & Hg2 & _). unfold run_generators, dir_gens. generalize gen_generator_order.
  intros ks. revert prov m m'.
  induction ks as [|k t IH]; intros prov m m' HT H; cbn [run_generator_kinds order_gens flat_map] in *.
  - inv H. now rewrite app_nil_r.
  - match type of H with bind ?E _ = _ => destruct E as [mm| | |] eqn:E1 end; cbn [bind] in H; try discriminate.
    rewrite app_assoc. eapply IH; [|exact H]. unfold kind_gens.
    destruct (String.eqb k "ConfigMapGenerator"); [exact (run_gens_tracked _ _ _ _ _ _ _ Hc1 Hg1 HT E1)|].
    destruct (String.eqb k "SecretGenerator"); [exact (run_gens_tracked _ _ _ _ _ _ _ Hc2 Hg2 HT E1)|].
    inv E1. now rewrite app_nil_r.
Qed.

(* ----- the transformers of one kustomization ----- *)

Section Acc.
  Variable nonstr : string -> bool.

  Lemma run_kind_tracked k d prov m m' :
    dirs_wf d -> Forall2 tracked prov m -> distinct_ids m -> run_kind nonstr k d m = Ok m' ->
    Forall2 tracked (map (add_steps (kind_steps k d)) prov) m'.
  Proof.
    intros ([Hrp Him] & Hns & Hn & _ & _ & _ & Hp & Hs) HT Hd. pose proof (Forall2_tracked_W _ _ HT) as HW.
    unfold run_kind, kind_steps. rewrite Hrp, Him, (proj2 Hn).
    destruct (String.eqb_spec k "PatchTransformer") as [->|N0].
    { cbn. intros H; inv H. rewrite add_steps_nil. assumption. }
    destruct (String.eqb k "NamespaceTransformer"); [intros H; eapply namespace_tracked; eauto|].
    destruct (String.eqb k "PrefixTransformer"); [intros H; eapply prefix_tracked; eauto|].
    destruct (String.eqb k "SuffixTransformer"); [intros H; eapply suffix_tracked; eauto|].
    rewrite add_steps_nil.
    destruct (String.eqb k "LabelTransformer").
    { destruct (Labels.label_transformers LabelsDefaults.default_tc (label_dirs d)) as [lts| | |] eqn:E; cbn [bind]; try discriminate.
      intros H. destruct (label_transforms_W nonstr lts _ _ (label_transformers_in_tbl _ _ Hn E) HW H) as [W' S'].
      eapply lift_same; eauto. }
    destruct (String.eqb k "AnnotationsTransformer").
    { intros H. destruct (label_transform_W nonstr _ _ _ _ common_annos_in_tbl HW H) as [W' S'].
      eapply lift_same; eauto. }
    destruct (String.eqb k "ReplicaCountTransformer"); [cbn; intros H; inv H; assumption|].
    destruct (String.eqb k "ImageTagTransformer"); cbn; intros H; inv H; assumption.
  Qed.

  Lemma run_order_tracked ks d : forall prov m m',
    dirs_wf d -> Forall2 tracked prov m -> distinct_ids m -> run_order nonstr ks d m = Ok m' ->
    Forall2 tracked (map (add_steps (order_steps ks d)) prov) m'.
  Proof.
    induction ks as [|k t IH]; intros prov m m' Hd HT Hdi H; cbn [run_order order_steps flat_map] in *.
    - inv H. now rewrite add_steps_nil.
    - destruct (run_kind nonstr k d m) as [m1| | |] eqn:E; cbn [bind] in H; try discriminate.
      pose proof (run_kind_tracked _ _ _ _ _ Hd HT Hdi E) as HT1.
      pose proof (run_kind_Inv nonstr _ _ _ _ Hd (conj (Forall2_tracked_W _ _ HT) Hdi) E) as [HW1 Hd1].
      rewrite (drop_empties_W _ HW1) in H. rewrite <- add_steps_app. eapply IH; eauto.
  Qed.

  Lemma Forall2_concat {A B} (R : A -> B -> Prop) ls ls' :
    Forall2 (Forall2 R) ls ls' -> Forall2 R (List.concat ls) (List.concat ls').
  Proof. induction 1; cbn; [constructor|apply Forall2_app; assumption]. Qed.

  (* Every accumulated resource is tracked back to its name in the source tree. *)
  Theorem accumulate_tracked t : forall m,
    tree_wf t -> accumulate nonstr t = Ok m -> Forall2 tracked (tree_prov t) m.
  Proof.
    induction t as [docs|n d ents IH] using ptree_ind'; intros m Hwf H.
    - inversion Hwf as [? Hd|]; subst. cbn [accumulate] in H. apply append_all_spec in H as [-> _]. cbn [app tree_prov].
      clear -Hd. induction Hd as [|x l Hx _ IHl]; cbn [map]; constructor; [|exact IHl].
      split; [apply W_load; exact Hx|]. split; [|reflexivity].
      intros v Hv. unfold hist_names, history, ptriples, load in Hv. cbn [r_pnames r_pnss r_pkinds get_csv zip3 app map] in Hv.
      destruct Hv as [<-|[]]. cbn [pv_name pv_steps]. rewrite cur_triple_eq. cbn [r_node triple_name fst].
      split; [apply ever_named_self|]. apply (W_name_nonempty (load x)). apply W_load. exact Hx.
    - inversion Hwf as [|? ? ? Hd He]; subst. pose proof (accumulate_Inv nonstr _ _ Hwf H) as _.
      rewrite accumulate_dir in H.
      destruct (is_empty_kust d ents); [discriminate|].
      destruct (acc_list (accumulate nonstr) ents []) as [m0| | |] eqn:E0; cbn [bind] in H; try discriminate.
      destruct (run_generators nonstr d m0) as [m1| | |] eqn:E1; cbn [bind] in H; try discriminate.
      destruct (acc_list_char _ _ _ _ E0) as (subs & F0 & Em0 & Hd0). cbn [app] in Em0. subst m0.
      assert (HT0 : Forall2 tracked (List.concat (map tree_prov ents)) (List.concat subs)).
      { apply Forall2_concat. clear -IH He F0. revert subs F0.
        induction ents as [|e t IHe]; intros subs F0; inv F0; cbn [map]; [constructor|].
        inversion IH; subst. inversion He; subst. constructor; [|auto]. auto. }
      assert (HI0 : Inv (List.concat subs)).
      { split; [exact (Forall2_tracked_W _ _ HT0)|apply Hd0; exact I]. }
      pose proof (run_generators_tracked _ _ _ _ _ Hd HT0 E1) as HT1.
      pose proof (run_generators_Inv nonstr _ _ _ Hd HI0 E1) as [_ Hd1].
      unfold run_transformers in H.
      destruct (Labels.label_transformers _ _); cbn [bind] in H; try discriminate.
      cbn [tree_prov]. unfold dir_steps. eapply run_order_tracked; eauto.
  Qed.
End Acc.

(* ================= the hash: names of generated resources ================= *)

Lemma sapp_assoc (a b c : string) : ((a ++ b) ++ c = a ++ (b ++ c))%string.
Proof. induction a as [|x a IH]; cbn; [reflexivity|now rewrite IH]. Qed.

(* [v] = x ++ "-" ++ h for a name x the resource may have had: what a content hash can make of it *)
Fixpoint any_split (l : list rename_step) (n0 pre v : string) : bool :=
  match v with
  | EmptyString => false
  | String c v' => (Ascii.eqb c "-"%char && ever_named l n0 pre) || any_split l n0 (pre ++ String c "") v'
  end.

Lemma any_split_ok l n0 : forall x pre h,
  ever_named l n0 (pre ++ x) = true -> any_split l n0 pre (x ++ String "-"%char h) = true.
Proof.
  induction x as [|c x IH]; intros pre h H.
  - rewrite sapp_empty_r in H. cbn [append any_split]. rewrite H. reflexivity.
  - change (String c x ++ String "-"%char h) with (String c (x ++ String "-"%char h)). cbn [any_split].
    rewrite (IH (pre ++ String c "") h); [now rewrite orb_true_r|].
    rewrite sapp_assoc. exact H.
Qed.

(* the names a tracked resource may have (had) just before FixBackReferences *)
Definition may_be (p : pv) (v : string) : bool :=
  ever_named (pv_steps p) (pv_name p) v || (pv_gen p && any_split (pv_steps p) (pv_name p) "" v).

Definition tracked1 (p : pv) (r : resource) : Prop :=
  W r /\ forall v, In v (hist_names pipe_cs r) -> may_be p v = true /\ v <> "".

Section Top.
  Variable nonstr : string -> bool.

  Lemma hash_res_tracked p r r' : tracked p r -> hash_res nonstr r = Ok r' -> tracked1 p r'.
  Proof.
    intros (Wr & Nr & Hr) H. pose proof (hash_res_W nonstr _ _ Wr H) as Wr'. split; [exact Wr'|].
    unfold hash_res in H. destruct (r_needs_hash r) eqn:EN.
    - assert (Hg : pv_gen p = true) by (destruct (pv_gen p); [reflexivity|specialize (Hr eq_refl); congruence]).
      destruct (_ || _); [|discriminate].
      destruct (Hash.hash_content _) as [h| | |] eqn:EH; cbn [bind] in H; try discriminate.
      destruct (hash_one_hist pipe_cs nonstr h r r' (hash_no_comma _ _ EH) (proj1 Wr) H) as (_ & G & N).
      intros v Hv. destruct (hist_names_grow pipe_cs _ _ G v Hv) as [Hold| ->].
      + destruct (Nr v Hold) as [A B]. split; [|exact B]. unfold may_be. now rewrite A.
      + split; [|apply W_name_nonempty; exact Wr']. unfold may_be. destruct N as [N|N]; rewrite N.
        * rewrite (proj1 (Nr _ (cur_in_hist r))). reflexivity.
        * rewrite Hg. change (get_name (r_node r) ++ "-" ++ h) with (get_name (r_node r) ++ String "-"%char h).
          rewrite (any_split_ok _ _ (get_name (r_node r)) "" h); [now rewrite orb_true_r|].
          exact (proj1 (Nr _ (cur_in_hist r))).
    - inv H. intros v Hv. destruct (Nr v Hv) as [A B]. split; [|exact B]. unfold may_be. now rewrite A.
  Qed.

  (* The map just before FixBackReferences, position by position, against the source tree. *)
  Theorem before_refs_tracked t m1 :
    tree_wf t -> before_refs nonstr t = Ok m1 -> Forall2 tracked1 (tree_prov t) m1.
  Proof.
    intros Hwf H. unfold before_refs in H.
    destruct (accumulate nonstr t) as [m| | |] eqn:EA; cbn [bind] in H; try discriminate.
    pose proof (accumulate_tracked nonstr t m Hwf EA) as HT. apply mapM_Forall2P in H. clear EA.
    revert m1 H. induction HT as [|p r prov m Hp _ IH]; intros m1 H; inversion H; subst; [constructor|].
    constructor; [eapply hash_res_tracked; eauto|]. apply IH. assumption.
  Qed.

  Lemma tracked1_names p r c :
    tracked1 p r -> view pipe_cs r = Ok c ->
    (forall v, prev_name_matches v c = true -> may_be p v = true /\ v <> "") /\ may_be p (c_name c) = true.
  Proof.
    intros ([[Hh _] _] & Hall) Hv.
    destruct (prev_ids_triples r Hh) as (p0 & Hp & Hpt).
    unfold view in Hv. rewrite Hp in Hv. cbn [bind] in Hv. inv Hv. cbn [c_prev c_name]. split.
    - intros v Hm. apply Hall. unfold prev_name_matches in Hm. cbn [c_prev] in Hm.
      apply existsb_exists in Hm as (id & Hin & He). apply String.eqb_eq in He. subst v.
      unfold hist_names, history. rewrite map_app. apply in_or_app. left. rewrite <- Hpt, map_map.
      apply in_map_iff. exists id. split; [reflexivity|assumption].
    - apply Hall. apply cur_in_hist.
  Qed.

  Lemma tracked1_views prov m : Forall2 tracked1 prov m -> exists C, mapM (view pipe_cs) m = Ok C.
  Proof.
    induction 1 as [|p r prov m ([[Hh _] _] & _) _ (C & IH)]; [exists []; reflexivity|].
    destruct (prev_ids_triples r Hh) as (p0 & Hp & _). cbn [mapM]. unfold view at 1. rewrite Hp. cbn [bind].
    rewrite IH. cbn [bind]. eauto.
  Qed.

  (* ---------- the guard on the source tree gives the global hypotheses ---------- *)
  Section Guard.
    Variables (prov : list pv) (m : list resource) (C : list cand).
    Hypothesis Hprov : Forall2 tracked1 prov m.
    Hypothesis HC : mapM (view pipe_cs) m = Ok C.
    Variables (j : nat) (pb : pv) (b : cand).
    Hypothesis Hb : nth_error C j = Some b.
    (* no OTHER resource of the tree may ever be called like the referent originally, nor like it is called at the end *)
    Hypothesis others :
      forall k p, k <> j -> nth_error prov k = Some p ->
                  may_be p (pv_name pb) = false /\ may_be p (c_name b) = false.

    Lemma guard_other_views k c : k <> j -> nth_error C k = Some c ->
      prev_name_matches (pv_name pb) c = false /\ prev_name_matches (c_name b) c = false.
    Proof.
      intros Hk Hc.
      destruct (mapM_nth_r _ _ _ _ _ HC Hc) as (r & Hr & Hv).
      destruct (Forall2_nth_r _ _ _ _ _ Hprov Hr) as (p & Hp & Ht).
      destruct (tracked1_names _ _ _ Ht Hv) as [Hnames _].
      destruct (others k p Hk Hp) as [O1 O2].
      split.
      - destruct (prev_name_matches (pv_name pb) c) eqn:E; [|reflexivity]. rewrite (proj1 (Hnames _ E)) in O1. discriminate.
      - destruct (prev_name_matches (c_name b) c) eqn:E; [|reflexivity]. rewrite (proj1 (Hnames _ E)) in O2. discriminate.
    Qed.

    Lemma guard_closed :
      (forall c, In c C -> prev_name_matches (pv_name pb) c = true -> c_name c = c_name b) /\
      (forall c, In c C -> prev_name_matches (c_name b) c = true -> c_name c = c_name b).
    Proof.
      split; intros c Hin Hm; apply In_nth_error in Hin as (k & Hk);
        (destruct (Nat.eq_dec k j) as [->|Hne]; [rewrite Hb in Hk; now inv Hk|]);
        destruct (guard_other_views k c Hne Hk) as [O1 O2]; congruence.
    Qed.

    Lemma guard_unique flags cands x :
      mapM (view pipe_cs) (select_by flags m) = Ok cands -> nth_error flags j = Some true ->
      name_kind_match x (pv_name pb) b = true ->
      filter (name_kind_match x (pv_name pb)) cands = [b].
    Proof.
      intros Hsub Hflag Hmatch.
      rewrite (mapM_select _ flags _ _ HC) in Hsub. inv Hsub.
      apply (filter_select_single _ j); auto.
      intros k c Hk Hc. destruct (guard_other_views k c Hk Hc) as [O1 _].
      unfold name_kind_match. rewrite O1. reflexivity.
    Qed.

    Lemma guard_no_empty_prev : no_empty_prev C = true.
    Proof.
      unfold no_empty_prev. apply forallb_forall. intros c Hin. apply In_nth_error in Hin as (k & Hk).
      destruct (mapM_nth_r _ _ _ _ _ HC Hk) as (r & Hr & Hv).
      destruct (Forall2_nth_r _ _ _ _ _ Hprov Hr) as (p & Hp & Ht).
      destruct (tracked1_names _ _ _ Ht Hv) as [Hnames _].
      destruct (prev_name_matches "" c) eqn:E; [|reflexivity]. destruct (proj2 (Hnames _ E)). reflexivity.
    Qed.
  End Guard.

  (* C03 over Pipeline.build for well-formed trees: the GLOBAL hypotheses (views exist, no empty previous name,
     unique candidate, closed pair) are replaced by the guard [may_be] on [tree_prov t], a function of the source
     tree.  What remains about the map before FixBackReferences is local to the referrer and the referent: the
     field's content, the referent's visibility flag and its acceptance by the kind / roleRef / namespace sieves. *)
  Theorem refs_follow_pipeline_tree o t outs m1 m2 rules :
    tree_wf t -> build nonstr o t = Ok outs ->
    before_refs nonstr t = Ok m1 -> pipe_rules = Ok rules -> nameref_transform pipe_cs nonstr rules m1 = Ok m2 ->
    exists C, mapM (view pipe_cs) m1 = Ok C /\
    forall i r r' org row fs flags cands j pb b b2 a t0 s,
      nth_error m1 i = Some r -> nth_error m2 i = Some r' -> org_id pipe_cs r = Ok org ->
      In row rules -> In fs (nb_referrers row) -> gvk_is_selected (id_gvk org) (fs_gvk fs) = true ->
      roleref_sieve (make_ctx pipe_cs r (fs_path fs) (nb_gvk row)) b = true ->
      (has_suffix "roleRef/name" (fs_path fs) = false \/
       exists g, roleref_gvk (r_node r) = Some g /\ external C (g_group g) /\ external C (g_kind g)) ->
      referencable pipe_cs m1 r = Ok flags -> mapM (view pipe_cs) (select_by flags m1) = Ok cands ->
      no_ns_key a -> match a with AKey k :: _ => k <> "metadata" | _ => False end ->
      reaches (path_splitter (fs_path fs)) a (r_node r) = true ->
      nth_error (tree_prov t) j = Some pb ->
      get_addr a (r_node r) = Some (Scalar t0 s (pv_name pb)) -> is_null (Scalar t0 s (pv_name pb)) = false ->
      nth_error C j = Some b -> nth_error m2 j = Some b2 -> nth_error flags j = Some true ->
      name_kind_match (make_ctx pipe_cs r (fs_path fs) (nb_gvk row)) (pv_name pb) b = true ->
      namespace_sieve (make_ctx pipe_cs r (fs_path fs) (nb_gvk row)) b = true ->
      (forall k p, k <> j -> nth_error (tree_prov t) k = Some p ->
                   may_be p (pv_name pb) = false /\ may_be p (c_name b) = false) ->
      exists t' s',
        get_addr a (strip_node (r_node r')) = Some (Scalar t' s' (get_name (strip_node (r_node b2)))).
  Proof.
    intros Hwf Hbuild Hm1 ER EN.
    pose proof (before_refs_tracked t m1 Hwf Hm1) as HT.
    destruct (tracked1_views _ _ HT) as (C & HC). exists C. split; [exact HC|].
    intros i r r' org row fs flags cands j pb b b2 a t0 s.
    intros Hr Hr' Horg Hrow Hfs Hsel Hnr1 Hnr2 Hflags Hcands Hns Hroot Hreach Hpb Hg Hnn Hb Hb2 Hflag Hmatch Hvis Hothers.
    destruct (guard_closed _ _ _ HT HC j pb b Hb Hothers) as [Hc1 Hc2].
    pose proof (guard_unique _ _ _ HT HC j pb b Hb Hothers flags cands _ Hcands Hflag Hmatch) as Hu.
    pose proof (guard_no_empty_prev _ _ _ HT HC) as Hne.
    eapply (refs_follow_pipeline nonstr o t outs m1 m2 rules C Hbuild Hm1 ER EN HC Hne); eauto.
  Qed.
End Top.

(* ================= non-vacuity: one kustomization with namePrefix p-, a ConfigMap and a Pod mounting it ================= *)

Definition nm_cm : node :=
  Map [("apiVersion", Scalar TStr SPlain "v1"); ("kind", Scalar TStr SPlain "ConfigMap");
       ("metadata", Map [("name", Scalar TStr SPlain "cm")])].
Definition nm_pod : node :=
  Map [("apiVersion", Scalar TStr SPlain "v1"); ("kind", Scalar TStr SPlain "Pod");
       ("metadata", Map [("name", Scalar TStr SPlain "pod")]);
       ("spec", Map [("volumes", Seq [Map [("configMap", Map [("name", Scalar TStr SPlain "cm")])]])])].
Definition nm_tree : ptree := PDir "top" (mkPDirs "" "p-" "" [] [] [] [] []) [PFile [nm_cm; nm_pod]].

Definition nm_m1 : list resource := unres (before_refs no_nonstr nm_tree).
Definition nm_rules : list nbr := match pipe_rules with Ok l => l | _ => [] end.
Definition nm_m2 : list resource := unres (nameref_transform pipe_cs no_nonstr nm_rules nm_m1).
Definition nm_C : list cand := unres (mapM (view pipe_cs) nm_m1).
Definition nm_r : resource := nth 1 nm_m1 (fresh (sc "")).
Definition nm_fl : list bool := match referencable pipe_cs nm_m1 nm_r with Ok f => f | _ => [] end.
Definition nm_row : nbr := nth 4 nm_rules (mkNbr "" "" "" []).

Example nm_tree_wf : tree_wf nm_tree.
Proof.
  constructor; [solve_dirs_wf|]. constructor; [|constructor]. constructor.
  constructor; [solve_wf_node|]. constructor; [solve_wf_node|constructor].
Qed.

Example refs_follow_pipeline_tree_nonvacuous :
  tree_wf nm_tree /\
  map (fun p => (pv_name p, pv_steps p, pv_gen p)) (tree_prov nm_tree) =
    [("cm", [SPrefix "p-"], false); ("pod", [SPrefix "p-"], false)] /\
  before_refs no_nonstr nm_tree = Ok nm_m1 /\ pipe_rules = Ok nm_rules /\
  nameref_transform pipe_cs no_nonstr nm_rules nm_m1 = Ok nm_m2 /\ mapM (view pipe_cs) nm_m1 = Ok nm_C /\
  nb_kind nm_row = "ConfigMap" /\ In nm_row nm_rules /\ In ex_pod_fs (nb_referrers nm_row) /\
  (exists org, org_id pipe_cs nm_r = Ok org /\ gvk_is_selected (id_gvk org) (fs_gvk ex_pod_fs) = true) /\
  referencable pipe_cs nm_m1 nm_r = Ok nm_fl /\ nth_error nm_fl 0 = Some true /\
  reaches (path_splitter (fs_path ex_pod_fs)) ex_pod_addr (r_node nm_r) = true /\
  get_addr ex_pod_addr (r_node nm_r) = Some (Scalar TStr SPlain "cm") /\
  (exists pb b, nth_error (tree_prov nm_tree) 0 = Some pb /\ pv_name pb = "cm" /\
                nth_error nm_C 0 = Some b /\ c_name b = "p-cm" /\
                roleref_sieve (make_ctx pipe_cs nm_r (fs_path ex_pod_fs) (nb_gvk nm_row)) b = true /\
                name_kind_match (make_ctx pipe_cs nm_r (fs_path ex_pod_fs) (nb_gvk nm_row)) "cm" b = true /\
                namespace_sieve (make_ctx pipe_cs nm_r (fs_path ex_pod_fs) (nb_gvk nm_row)) b = true /\
                forall k p, k <> 0 -> nth_error (tree_prov nm_tree) k = Some p ->
                            may_be p "cm" = false /\ may_be p (c_name b) = false) /\
  match build no_nonstr PSortNone nm_tree with
  | Ok outs => map (fun n => (get_name n, get_addr ex_pod_addr n)) outs
  | _ => []
  end = [("p-cm", None); ("p-pod", Some (Scalar TNone SPlain "p-cm"))].
Proof.
  split; [exact nm_tree_wf|]. split; [vm_compute; reflexivity|].
  split; [vm_compute; reflexivity|]. split; [vm_compute; reflexivity|].
  split; [vm_compute; reflexivity|]. split; [vm_compute; reflexivity|].
  split; [vm_compute; reflexivity|]. split; [vm_compute; tauto|]. split; [vm_compute; tauto|].
  split; [eexists; split; vm_compute; reflexivity|].
  split; [vm_compute; reflexivity|]. split; [vm_compute; reflexivity|].
  split; [vm_compute; reflexivity|]. split; [vm_compute; reflexivity|].
  split; [|vm_compute; reflexivity].
  exists (nth 0 (tree_prov nm_tree) (mkPv "" [] false)), (nth 0 nm_C ex_cand0).
  split; [vm_compute; reflexivity|]. split; [vm_compute; reflexivity|]. split; [vm_compute; reflexivity|].
  split; [vm_compute; reflexivity|]. split; [vm_compute; reflexivity|]. split; [vm_compute; reflexivity|].
  split; [vm_compute; reflexivity|].
  intros [|[|k]] p Hk Hp; [contradiction| |destruct k; discriminate].
  vm_compute in Hp. inv Hp. split; vm_compute; reflexivity.
Qed.
