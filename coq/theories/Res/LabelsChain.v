(* C08: selector/template agreement along a whole directive chain (default tables, no custom fields,
   no key set twice): the single-run theorems composed through the node-sharing semantics. *)
From KV Require Import Res.Labels Res.LabelsProofs Res.LabelsGen Res.LabelsAlias.
From Coq Require Import Permutation.

Section KeysExtra.
  Variable nonstr : string -> bool.

  Lemma keys_shape qs fss : forall kvs obj obj',
    rows_okP qs fss obj -> keys_pass nonstr fss kvs obj = Ok obj' ->
    (is_map obj = true -> is_map obj' = true) /\
    (no_seq_along qs obj = true -> no_seq_along qs obj' = true) /\ gvk_same obj obj'.
  Proof.
    induction kvs as [|[k v] t IH]; intros obj obj' Hok H.
    - inv H. split; [auto|]. split; [auto|]. apply gvk_same_refl.
    - cbn [keys_pass] in H. destruct (key_pass nonstr fss (k, v) obj) as [o1| | |] eqn:EP; cbn [bind] in H; try discriminate.
      destruct (pass_effect nonstr k v qs fss obj o1 Hok EP) as (Hg & Hm & Hn & _).
      destruct (IH o1 obj' (rows_okP_same _ _ _ _ Hg Hok) H) as (Hm2 & Hn2 & Hg2).
      split; [auto|]. split; [auto|]. eapply gvk_same_trans; eauto.
  Qed.

  Lemma keys_lookup_other qs fss : forall kvs obj obj' k,
    rows_okP qs fss obj -> keys_pass nonstr fss kvs obj = Ok obj' ->
    ~ In k (map fst kvs) -> lookup k (labels_at qs obj') = lookup k (labels_at qs obj).
  Proof.
    induction kvs as [|[k0 v0] t IH]; intros obj obj' k Hok H Hk.
    - inv H. reflexivity.
    - cbn [keys_pass] in H. destruct (key_pass nonstr fss (k0, v0) obj) as [o1| | |] eqn:EP; cbn [bind] in H; try discriminate.
      destruct (pass_effect nonstr k0 v0 qs fss obj o1 Hok EP) as (Hg & _ & _ & Hl & _).
      rewrite (IH o1 obj' k (rows_okP_same _ _ _ _ Hg Hok) H).
      + destruct Hl as [Hl|[Hl _]]; rewrite Hl; [|reflexivity].
        apply lookup_upd_other. intros ->. apply Hk. left; reflexivity.
      + intros Hin. apply Hk. right; exact Hin.
  Qed.
End KeysExtra.

(* the annotation rows end neither at a selector nor at pod labels of the 11 kinds *)
Definition chk_annotations_clear : bool :=
  forallb (fun e : string * string => no_rows_at (fst e) (snd e) gen_common_annotations_fs) sel_kinds &&
  forallb (fun e : string * string => no_rows_at (fst e) (snd e) gen_common_annotations_fs) tmpl_kinds.
Lemma gen_annotations_clear : chk_annotations_clear = true.
Proof. vm_compute. reflexivity. Qed.

Section Chain.
  Variable nonstr : string -> bool.

  (* the invariant carried along the chain, for a workload kind with selector path sp and pod-label path tp *)
  Definition inv (sp tp : string) (w : node) : Prop :=
    assoc3 (obj_kind w) k8s_workloads = Some (Some sp, tp) /\
    is_map w = true /\ no_seq_along (path_splitter tp) w = true /\ selects w w.

  Lemma inv_paths sp tp w : inv sp tp w -> sel_path_of w = Some sp /\ tmpl_path_of w = Some tp.
  Proof. intros (HK & _). unfold sel_path_of, tmpl_path_of. rewrite HK. auto. Qed.

  Lemma sel_of_eq sp tp w : inv sp tp w -> sel_of w = labels_at (path_splitter sp) w.
  Proof. intros H. destruct (inv_paths _ _ _ H) as [Hs _]. unfold sel_of. rewrite Hs. reflexivity. Qed.

  (* one run with a table all of whose rows are well-formed w.r.t. sp and tp *)
  Lemma run_common sp tp (L : pairs) fss w w' :
    rows_okP (path_splitter sp) fss w -> rows_okP (path_splitter tp) fss w ->
    inv sp tp w -> label_filter nonstr L fss w = Ok w' ->
    selects w' w' ->
    inv sp tp w' /\ (forall k, ~ In k (map fst L) -> lookup k (sel_of w') = lookup k (sel_of w)).
  Proof.
    intros Wsp Wtp Hinv H Hsel. pose proof Hinv as (HK & Hm & Hn & _).
    destruct (keys_shape nonstr _ _ _ _ _ Wtp H) as (Hm' & Hn' & Hg).
    assert (HK' : assoc3 (obj_kind w') k8s_workloads = Some (Some sp, tp)) by (rewrite (gvk_same_kind _ _ Hg); exact HK).
    assert (Hinv' : inv sp tp w') by (repeat split; auto).
    split; [exact Hinv'|]. intros k Hk.
    rewrite (sel_of_eq _ _ _ Hinv'), (sel_of_eq _ _ _ Hinv).
    apply (keys_lookup_other nonstr _ _ _ _ _ k Wsp H).
    intros Hin. apply Hk. apply in_map_iff in Hin as ([k1 v1] & <- & Hin). apply in_map_iff. exists (k1, v1). split; auto.
    eapply Permutation_in; [apply sort_pairs_perm|exact Hin].
  Qed.

  Lemma run_selector sp tp (L : pairs) w w' :
    inv sp tp w -> label_filter nonstr L gen_common_labels_fs w = Ok w' ->
    inv sp tp w' /\ (forall k, ~ In k (map fst L) -> lookup k (sel_of w') = lookup k (sel_of w)).
  Proof.
    intros Hinv H. pose proof Hinv as (HK & Hm & Hn & Hsel). destruct (inv_paths _ _ _ Hinv) as [Hsp Htp].
    apply (run_common sp tp L gen_common_labels_fs w w'); auto.
    - apply wf_common_sel; auto.
    - apply wf_common_tmpl; auto.
    - apply (own_selector_default nonstr L w w' sp tp HK Hm Hn Hsel H).
  Qed.

  Lemma run_nonselector sp tp (p : pairs) (t : bool) fss w w' :
    label_fs default_tc (mkLD p false t []) = Ok fss ->
    inv sp tp w -> (forall kv, In kv p -> compat (fst kv) (snd kv) (sel_of w)) ->
    label_filter nonstr p fss w = Ok w' ->
    inv sp tp w' /\ (forall k, lookup k (sel_of w') = lookup k (sel_of w)).
  Proof.
    intros Hfs Hinv Hc H. pose proof Hinv as (HK & Hm & Hn & Hsel). destruct (inv_paths _ _ _ Hinv) as [Hsp Htp].
    pose proof Hfs as Hfs0. rewrite label_fs_no_fields in Hfs0.
    destruct (entry_no_sel _ _ _ _ Hfs0 Hsp) as [Wsp Hno].
    pose proof (wf_entry_tmpl _ _ _ _ Hfs0 Htp) as Wtp.
    assert (Hsel' : selects w' w') by (apply (own_selector_nonselector_default nonstr p t fss w w' sp tp Hfs HK Hm Hn Hc Hsel H)).
    destruct (run_common sp tp p fss w w' Wsp Wtp Hinv H Hsel') as [Hinv' _].
    split; [exact Hinv'|]. intros k.
    destruct (no_selector_change_default nonstr p t fss w w' sp Hfs Hsp H) as [_ E]. rewrite E. reflexivity.
  Qed.

  Lemma run_annotations sp tp (L : pairs) w w' :
    inv sp tp w -> label_filter nonstr L gen_common_annotations_fs w = Ok w' ->
    inv sp tp w' /\ (forall k, lookup k (sel_of w') = lookup k (sel_of w)).
  Proof.
    intros Hinv H. pose proof Hinv as (HK & Hm & Hn & Hsel). destruct (inv_paths _ _ _ Hinv) as [Hsp Htp].
    pose proof gen_rows_wf as W. cbn [forallb entry_tables] in W.
    apply andb_true_iff in W as [_ W]. apply andb_true_iff in W as [_ W]. apply andb_true_iff in W as [_ W].
    apply andb_true_iff in W as [W _]. unfold chk_rows_wf in W. apply andb_true_iff in W as [W1 W2].
    rewrite forallb_forall in W1, W2.
    pose proof (rows_wf_sound _ _ _ w (W1 _ (sel_path_of_in _ _ Hsp)) eq_refl) as Wsp.
    pose proof (rows_wf_sound _ _ _ w (W2 _ (tmpl_path_of_in _ _ Htp)) eq_refl) as Wtp.
    pose proof gen_annotations_clear as G. unfold chk_annotations_clear in G. apply andb_true_iff in G as [G1 G2].
    rewrite forallb_forall in G1, G2.
    pose proof (no_rows_at_sound _ _ _ w (G1 _ (sel_path_of_in _ _ Hsp)) eq_refl) as Nsp.
    pose proof (no_rows_at_sound _ _ _ w (G2 _ (tmpl_path_of_in _ _ Htp)) eq_refl) as Ntp.
    cbn [fst snd] in *.
    destruct (keys_frame nonstr _ _ _ _ _ Wsp Nsp H) as [Es Hg].
    destruct (keys_frame nonstr _ _ _ _ _ Wtp Ntp H) as [Et _].
    assert (Hsel' : selects w' w').
    { unfold selects, sel_of, pod_labels_of in *.
      rewrite (gvk_same_sel_path _ _ Hg), (gvk_same_tmpl_path _ _ Hg), Hsp, Htp in *. cbn [opt_labels_at] in *.
      unfold labels_at in *. rewrite Es, Et. exact Hsel. }
    destruct (run_common sp tp L _ w w' Wsp Wtp Hinv H Hsel') as [Hinv' _].
    split; [exact Hinv'|]. intros k.
    rewrite (sel_of_eq _ _ _ Hinv'), (sel_of_eq _ _ _ Hinv). unfold labels_at. rewrite Es. reflexivity.
  Qed.
End Chain.

Section Compose.
  Variable nonstr : string -> bool.

  Definition dir_ok (d : dirs) : Prop := forall e, In e (d_labels d) -> ld_fields e = [].

  (* the keys of the entries without includeSelectors are compatible with the selector of w *)
  Definition nonsel_compat (d : dirs) (w : node) : Prop :=
    forall e, In e (d_labels d) -> ld_selectors e = false ->
    forall kv, In kv (ld_pairs e) -> compat (fst kv) (snd kv) (sel_of w).

  Definition lt_ok (d : dirs) (pf : pairs * list fieldspec) : Prop :=
    snd pf = gen_common_labels_fs \/
    exists e t, In e (d_labels d) /\ ld_selectors e = false /\ fst pf = ld_pairs e /\
                label_fs default_tc (mkLD (ld_pairs e) false t []) = Ok (snd pf).

  Lemma mapM_entries_ok d : forall l r,
    (forall e, In e l -> In e (d_labels d) /\ ld_fields e = []) ->
    mapM (fun e => do fss <- label_fs default_tc e; Ok (ld_pairs e, fss)) l = Ok r ->
    Forall (lt_ok d) r.
  Proof.
    induction l as [|e t IH]; intros r Hin H; cbn [mapM] in H.
    - inv H. constructor.
    - destruct (label_fs default_tc e) as [fss| | |] eqn:Ef; cbn [bind] in H; try discriminate.
      destruct (mapM _ t) as [r'| | |] eqn:E; cbn [bind] in H; try discriminate. inv H.
      constructor.
      + destruct (Hin e (or_introl eq_refl)) as [He Hf]. destruct e as [p s tm f]. cbn in Hf. subst f.
        destruct s.
        * left. cbn [snd]. rewrite label_fs_selectors in Ef. inv Ef. reflexivity.
        * right. exists (mkLD p false tm []), tm. cbn [snd fst ld_pairs ld_selectors]. auto.
      + apply IH; auto. intros e' He'. apply Hin. right; exact He'.
  Qed.

  Lemma label_transformers_ok d lts :
    dir_ok d -> label_transformers default_tc d = Ok lts -> Forall (lt_ok d) lts.
  Proof.
    intros Hd H. unfold label_transformers in H.
    assert (G : (do l <- mapM (fun e => do fss <- label_fs default_tc e; Ok (ld_pairs e, fss)) (d_labels d);
                 Ok (l ++ [(d_common_labels d, tc_common_labels default_tc)])%list) = Ok lts -> Forall (lt_ok d) lts).
    { intros H'. destruct (mapM _ (d_labels d)) as [l| | |] eqn:E; cbn [bind] in H'; try discriminate. inv H'.
      apply Forall_app. split.
      - eapply mapM_entries_ok; [|exact E]. intros e He. split; auto.
      - constructor; [left; reflexivity|constructor]. }
    destruct (d_labels d) as [|e t] eqn:El; [destruct (d_common_labels d) eqn:Ec|]; auto.
    inv H. constructor.
  Qed.

  Lemma compat_stable k v s s' : lookup k s' = lookup k s -> compat k v s -> compat k v s'.
  Proof. unfold compat. intros ->. auto. Qed.

  Lemma run_single p fss w rs :
    run_label_transformer nonstr p fss [w] = Ok rs ->
    (p = [] /\ rs = [w]) \/ (exists w', rs = [w'] /\ label_filter nonstr p fss w = Ok w').
  Proof.
    unfold run_label_transformer. destruct p as [|kv t]; [intros H; inv H; left; auto|].
    cbn [mapM]. destruct (label_filter nonstr (kv :: t) fss w) as [w'| | |]; cbn [bind]; intros H; inv H.
    right. eexists; eauto.
  Qed.

  (* a configured run: selector table, or a non-selector entry whose keys are compatible with w's selector *)
  Definition lt_ok' (w : node) (pf : pairs * list fieldspec) : Prop :=
    snd pf = gen_common_labels_fs \/
    ((exists t, label_fs default_tc (mkLD (fst pf) false t []) = Ok (snd pf)) /\
     forall kv, In kv (fst pf) -> compat (fst kv) (snd kv) (sel_of w)).

  Lemma lt_ok_ok' d w lts : nonsel_compat d w -> Forall (lt_ok d) lts -> Forall (lt_ok' w) lts.
  Proof.
    intros Hc H. eapply Forall_impl; [|exact H]. intros [p fss] [Hs|(e & t & He & Hse & Hp & Hfs)]; [left; exact Hs|].
    right. cbn [fst snd] in *. subst p. split; [exists t; exact Hfs|]. intros kv Hkv. apply (Hc e He Hse kv Hkv).
  Qed.

  Lemma run_transformers_inv sp tp : forall lts w rs,
    Forall (lt_ok' w) lts -> NoDup (lts_keys lts) -> inv sp tp w ->
    run_transformers nonstr lts [w] = Ok rs ->
    exists w', rs = [w'] /\ inv sp tp w' /\
               (forall k, ~ In k (lts_keys lts) -> lookup k (sel_of w') = lookup k (sel_of w)).
  Proof.
    induction lts as [|[p fss] t IH]; intros w rs Hok Hnd Hinv H; cbn [run_transformers] in H.
    - inv H. exists w. split; [reflexivity|]. split; [exact Hinv|]. intros; reflexivity.
    - inversion Hok as [|? ? Hpf Hok']; subst. cbn [lts_keys flat_map fst] in Hnd.
      destruct (NoDup_app_inv _ _ Hnd) as (Hnd1 & Hnd2 & Hdisj).
      destruct (run_label_transformer nonstr p fss [w]) as [rs1| | |] eqn:E1; cbn [bind] in H; try discriminate.
      assert (Hstep : exists w1, rs1 = [w1] /\ inv sp tp w1 /\
                        (forall k, ~ In k (map fst p) -> lookup k (sel_of w1) = lookup k (sel_of w))).
      { destruct (run_single _ _ _ _ E1) as [[-> ->]|(w1 & -> & Hf)];
          [exists w; split; [reflexivity|]; split; [exact Hinv|]; intros; reflexivity|].
        exists w1. split; [reflexivity|].
        destruct Hpf as [Hs|((tm & Hfs) & Hc)]; cbn [fst snd] in *.
        - subst fss. apply (run_selector nonstr sp tp p w w1 Hinv Hf).
        - destruct (run_nonselector nonstr sp tp p tm fss w w1 Hfs Hinv Hc Hf) as [Hi Hl].
          split; auto. }
      destruct Hstep as (w1 & -> & Hinv1 & Hl1).
      assert (Hok1 : Forall (lt_ok' w1) t).
      { apply Forall_forall. intros pf Hin. rewrite Forall_forall in Hok'. destruct (Hok' pf Hin) as [Hs|[Ht Hc]]; [left; exact Hs|].
        right. split; [exact Ht|]. intros kv Hkv. apply (compat_stable _ _ (sel_of w)); [|apply Hc; exact Hkv].
        apply Hl1. intros Hk. apply (Hdisj (fst kv)); [exact Hk|].
        unfold lts_keys. apply in_flat_map. exists pf. split; [exact Hin|]. apply in_map. exact Hkv. }
      destruct (IH w1 rs Hok1 Hnd2 Hinv1 H) as (w' & -> & Hinv' & Hl').
      exists w'. split; [reflexivity|]. split; [exact Hinv'|]. intros k Hk.
      cbn [lts_keys flat_map fst] in Hk.
      rewrite Hl' by (intros Hin; apply Hk; apply in_or_app; right; exact Hin).
      apply Hl1. intros Hin; apply Hk; apply in_or_app; left; exact Hin.
  Qed.

  (* one kustomization *)
  Lemma apply_dirs_inv sp tp d w rs :
    dir_ok d -> NoDup (dirs_keys d) -> inv sp tp w -> nonsel_compat d w ->
    apply_dirs nonstr default_tc d [w] = Ok rs ->
    exists w', rs = [w'] /\ inv sp tp w' /\
               (forall k, ~ In k (dirs_keys d) -> lookup k (sel_of w') = lookup k (sel_of w)).
  Proof.
    intros Hd Hnd Hinv Hc H. unfold apply_dirs in H.
    destruct (label_transformers default_tc d) as [lts| | |] eqn:EL; cbn [bind] in H; try discriminate.
    pose proof (label_transformers_keys default_tc _ _ EL) as HK.
    unfold dirs_keys in Hnd. rewrite app_assoc, <- HK in Hnd.
    destruct (NoDup_app_inv _ _ Hnd) as (Hnd1 & _ & _).
    destruct (run_transformers nonstr lts [w]) as [rs1| | |] eqn:E1; cbn [bind] in H; try discriminate.
    destruct (run_transformers_inv sp tp lts w rs1 (lt_ok_ok' d w lts Hc (label_transformers_ok d lts Hd EL)) Hnd1 Hinv E1)
      as (w1 & -> & Hinv1 & Hl1).
    cbn [tc_common_annotations default_tc] in H.
    destruct (run_single _ _ _ _ H) as [[Hp ->]|(w2 & -> & Hf)].
    - exists w1. split; [reflexivity|]. split; [exact Hinv1|]. intros k Hk. apply Hl1.
      intros Hin. apply Hk. unfold dirs_keys. rewrite app_assoc, <- HK. apply in_or_app; left; exact Hin.
    - destruct (run_annotations nonstr sp tp _ w1 w2 Hinv1 Hf) as [Hinv2 Hl2].
      exists w2. split; [reflexivity|]. split; [exact Hinv2|]. intros k Hk. rewrite Hl2. apply Hl1.
      intros Hin. apply Hk. unfold dirs_keys. rewrite app_assoc, <- HK. apply in_or_app; left; exact Hin.
  Qed.

  (* the whole chain, copying semantics *)
  Lemma apply_chain_inv sp tp : forall ds w w',
    (forall d, In d ds -> dir_ok d) -> NoDup (chain_keys ds) ->
    inv sp tp w -> (forall d, In d ds -> nonsel_compat d w) ->
    apply_chain nonstr default_tc ds w = Ok w' -> inv sp tp w'.
  Proof.
    induction ds as [|d t IH]; intros w w' Hd Hnd Hinv Hc H; cbn [apply_chain] in H.
    - inv H. exact Hinv.
    - cbn [chain_keys flat_map] in Hnd. destruct (NoDup_app_inv _ _ Hnd) as (Hnd1 & Hnd2 & Hdisj).
      destruct (apply_dirs nonstr default_tc d [w]) as [l| | |] eqn:E1; cbn [bind] in H; try discriminate.
      destruct (apply_dirs_inv sp tp d w l (Hd d (or_introl eq_refl)) Hnd1 Hinv (Hc d (or_introl eq_refl)) E1)
        as (w1 & -> & Hinv1 & Hl1).
      apply (IH w1 w'); auto.
      + intros d' Hin. apply Hd. right; exact Hin.
      + intros d' Hin e He Hse kv Hkv. apply (compat_stable _ _ (sel_of w)); [|apply (Hc d' (or_intror Hin) e He Hse kv Hkv)].
        apply Hl1. intros Hk. apply (Hdisj (fst kv)); [exact Hk|].
        unfold chain_keys. apply in_flat_map. exists d'. split; [exact Hin|].
        unfold dirs_keys. apply in_or_app; left. apply in_flat_map. exists e. split; [exact He|]. apply in_map. exact Hkv.
  Qed.

  (* ... and with the node sharing of the implementation *)
  Theorem own_selector_chain : forall (ds : list dirs) (w : node) (st' : rstate) (sp tp : string),
    (forall d, In d ds -> dir_ok d) -> NoDup (chain_keys ds) ->
    (forall d, In d ds -> nonsel_compat d w) ->
    assoc3 (obj_kind w) k8s_workloads = Some (Some sp, tp) ->
    is_map w = true -> no_seq_along (path_splitter tp) w = true -> selects w w ->
    apply_chain_al nonstr default_tc ds (w, []) = Ok st' ->
    selects (fst st') (fst st').
  Proof.
    intros ds w st' sp tp Hd Hnd Hc HK Hm Hn Hsel H.
    pose proof (chain_alias_free nonstr default_tc ds w [] [] st' (covered_nil []) Hnd (fun k _ F => F) H) as Hp.
    destruct (apply_chain_inv sp tp ds w (fst st') Hd Hnd (conj HK (conj Hm (conj Hn Hsel))) Hc Hp) as (_ & _ & _ & Hs).
    exact Hs.
  Qed.
End Compose.

(* non-vacuity: a two-layer chain meeting the hypotheses of own_selector_chain *)
Example own_selector_chain_nonvacuous :
  let w := wit_deployment "apps/v1" [("app", str "x")] [("app", str "x")] in
  let ds := [mkDirs [] [("team", "t")] [("note", "n")];
             mkDirs [mkLD [("rel", "r")] false true []; mkLD [("tier", "web")] true false []] [] []] in
  (forall d, In d ds -> dir_ok d) /\ NoDup (chain_keys ds) /\ (forall d, In d ds -> nonsel_compat d w) /\
  exists st', apply_chain_al nq default_tc ds (w, []) = Ok st' /\
              sel_of (fst st') = [("app", "x"); ("team", "t"); ("tier", "web")] /\
              pod_labels_of (fst st') = [("app", "x"); ("team", "t"); ("rel", "r"); ("tier", "web")].
Proof.
  cbv zeta. split.
  - intros d [<-|[<-|[]]] e; cbn; intuition (subst; reflexivity).
  - split.
    + vm_compute. repeat constructor; cbn; intuition discriminate.
    + split.
      * intros d [<-|[<-|[]]] e; cbn; intros H Hs kv Hkv; intuition (subst; try discriminate).
        cbn in Hkv. destruct Hkv as [<-|[]]. left. vm_compute. reflexivity.
      * eexists. split; [vm_compute; reflexivity|]. split; vm_compute; reflexivity.
Qed.
