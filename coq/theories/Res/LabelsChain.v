(* C08: whole directive chains (default tables, no custom fields): how selectors evolve, and
   selector/template agreement after the chain - the single-run theorems composed. *)
From KV Require Import Res.Labels Res.LabelsProofs Res.LabelsGen.
From Coq Require Import Permutation.

Lemma insert_kv_perm x l : Permutation (insert_kv x l) (x :: l).
Proof.
  induction l as [|y t IH]; cbn; [apply Permutation_refl|].
  destruct (String.ltb (fst x) (fst y)); [apply Permutation_refl|].
  eapply Permutation_trans; [apply perm_skip; exact IH|apply perm_swap].
Qed.
Lemma sort_pairs_perm l : Permutation (sort_pairs l) l.
Proof.
  induction l as [|x t IH]; cbn; [apply Permutation_refl|].
  eapply Permutation_trans; [apply insert_kv_perm|apply perm_skip; exact IH].
Qed.

(* how a label map evolves: every key keeps its value or takes a value from L *)
Definition ev (L s s' : pairs) : Prop :=
  forall k, lookup k s' = lookup k s \/ exists v, In (k, v) L /\ lookup k s' = Some v.

Lemma ev_refl L s : ev L s s.
Proof. intros k; left; reflexivity. Qed.
Lemma ev_mono L L' s s' : (forall kv, In kv L -> In kv L') -> ev L s s' -> ev L' s s'.
Proof. intros H E k. destruct (E k) as [E1|(v & Hin & E1)]; [left; auto|right; exists v; auto]. Qed.
Lemma ev_trans L s1 s2 s3 : ev L s1 s2 -> ev L s2 s3 -> ev L s1 s3.
Proof.
  intros E1 E2 k. destruct (E2 k) as [H2|H2]; [|right; exact H2].
  rewrite H2. apply E1.
Qed.
Lemma ev_same L s s' : (forall k, lookup k s' = lookup k s) -> ev L s s'.
Proof. intros H k; left; apply H. Qed.

Section KeysExtra.
  Variable nonstr : string -> bool.

  Lemma keys_shape qs fss : forall kvs obj obj',
    rows_okP qs fss obj -> keys_pass nonstr fss kvs obj = Ok obj' ->
    (is_map obj = true -> is_map obj' = true) /\
    (no_seq_along qs obj = true -> no_seq_along qs obj' = true) /\ gvk_same obj obj'.
  Proof.
    induction kvs as [|[k v] t IH]; intros obj obj' Hok H.
    - inv H. split; [auto|]. split; [auto|]. apply gvk_same_refl.
    - cbn [keys_pass] in H. destruct (key_pass nonstr fss (k, v) obj) as [o1| | |] eqn:EP; cbn [bind] in H; try discriminate.
      destruct (pass_effect nonstr k v qs fss obj o1 Hok EP) as (Hg & Hm & Hn & _).
      destruct (IH o1 obj' (rows_okP_same _ _ _ _ Hg Hok) H) as (Hm2 & Hn2 & Hg2).
      split; [auto|]. split; [auto|]. eapply gvk_same_trans; eauto.
  Qed.

  Lemma keys_lookup_other qs fss : forall kvs obj obj' k,
    rows_okP qs fss obj -> keys_pass nonstr fss kvs obj = Ok obj' ->
    ~ In k (map fst kvs) -> lookup k (labels_at qs obj') = lookup k (labels_at qs obj).
  Proof.
    induction kvs as [|[k0 v0] t IH]; intros obj obj' k Hok H Hk.
    - inv H. reflexivity.
    - cbn [keys_pass] in H. destruct (key_pass nonstr fss (k0, v0) obj) as [o1| | |] eqn:EP; cbn [bind] in H; try discriminate.
      destruct (pass_effect nonstr k0 v0 qs fss obj o1 Hok EP) as (Hg & _ & _ & Hl & _).
      rewrite (IH o1 obj' k (rows_okP_same _ _ _ _ Hg Hok) H).
      + destruct Hl as [Hl|[Hl _]]; rewrite Hl; [|reflexivity].
        apply lookup_upd_other. intros ->. apply Hk. left; reflexivity.
      + intros Hin. apply Hk. right; exact Hin.
  Qed.

  Lemma keys_ev qs fss : forall kvs obj obj',
    rows_okP qs fss obj -> keys_pass nonstr fss kvs obj = Ok obj' ->
    ev kvs (labels_at qs obj) (labels_at qs obj').
  Proof.
    induction kvs as [|[k0 v0] t IH]; intros obj obj' Hok H.
    - inv H. apply ev_refl.
    - cbn [keys_pass] in H. destruct (key_pass nonstr fss (k0, v0) obj) as [o1| | |] eqn:EP; cbn [bind] in H; try discriminate.
      destruct (pass_effect nonstr k0 v0 qs fss obj o1 Hok EP) as (Hg & _ & _ & Hl & _).
      pose proof (IH o1 obj' (rows_okP_same _ _ _ _ Hg Hok) H) as E2.
      intros k. destruct (E2 k) as [H2|(v & Hin & H2)]; [|right; exists v; split; [right; exact Hin|exact H2]].
      rewrite H2. destruct Hl as [Hl|[Hl _]]; rewrite Hl; [|left; reflexivity].
      destruct (String.eqb k k0) eqn:E.
      + apply String.eqb_eq in E; subst k0. right. exists v0. split; [left; reflexivity|apply lookup_upd_same].
      + left. apply lookup_upd_other. intros ->. rewrite String.eqb_refl in E. discriminate.
  Qed.
End KeysExtra.

(* the annotation rows end neither at a selector nor at pod labels of the 11 kinds *)
Definition chk_annotations_clear : bool :=
  forallb (fun e : string * string => no_rows_at (fst e) (snd e) gen_common_annotations_fs) sel_kinds &&
  forallb (fun e : string * string => no_rows_at (fst e) (snd e) gen_common_annotations_fs) tmpl_kinds.
Lemma gen_annotations_clear : chk_annotations_clear = true.
Proof. vm_compute. reflexivity. Qed.

Section Chain.
  Variable nonstr : string -> bool.

  (* the invariant carried along the chain, for a workload kind with selector path sp and pod-label path tp *)
  Definition inv (sp tp : string) (w : node) : Prop :=
    assoc3 (obj_kind w) k8s_workloads = Some (Some sp, tp) /\
    is_map w = true /\ no_seq_along (path_splitter tp) w = true /\ selects w w.

  Lemma inv_paths sp tp w : inv sp tp w -> sel_path_of w = Some sp /\ tmpl_path_of w = Some tp.
  Proof. intros (HK & _). unfold sel_path_of, tmpl_path_of. rewrite HK. auto. Qed.

  Lemma sel_of_eq sp tp w : inv sp tp w -> sel_of w = labels_at (path_splitter sp) w.
  Proof. intros H. destruct (inv_paths _ _ _ H) as [Hs _]. unfold sel_of. rewrite Hs. reflexivity. Qed.

  (* one run with a table all of whose rows are well-formed w.r.t. sp and tp *)
  Lemma run_common sp tp (L : pairs) fss w w' :
    rows_okP (path_splitter sp) fss w -> rows_okP (path_splitter tp) fss w ->
    inv sp tp w -> label_filter nonstr L fss w = Ok w' ->
    selects w' w' ->
    inv sp tp w' /\ (forall k, ~ In k (map fst L) -> lookup k (sel_of w') = lookup k (sel_of w)).
  Proof.
    intros Wsp Wtp Hinv H Hsel. pose proof Hinv as (HK & Hm & Hn & _).
    destruct (keys_shape nonstr _ _ _ _ _ Wtp H) as (Hm' & Hn' & Hg).
    assert (HK' : assoc3 (obj_kind w') k8s_workloads = Some (Some sp, tp)) by (rewrite (gvk_same_kind _ _ Hg); exact HK).
    assert (Hinv' : inv sp tp w') by (repeat split; auto).
    split; [exact Hinv'|]. intros k Hk.
    rewrite (sel_of_eq _ _ _ Hinv'), (sel_of_eq _ _ _ Hinv).
    apply (keys_lookup_other nonstr _ _ _ _ _ k Wsp H).
    intros Hin. apply Hk. apply in_map_iff in Hin as ([k1 v1] & <- & Hin). apply in_map_iff. exists (k1, v1). split; auto.
    eapply Permutation_in; [apply sort_pairs_perm|exact Hin].
  Qed.

  Lemma run_selector sp tp (L : pairs) w w' :
    inv sp tp w -> label_filter nonstr L gen_common_labels_fs w = Ok w' ->
    inv sp tp w' /\ (forall k, ~ In k (map fst L) -> lookup k (sel_of w') = lookup k (sel_of w)).
  Proof.
    intros Hinv H. pose proof Hinv as (HK & Hm & Hn & Hsel). destruct (inv_paths _ _ _ Hinv) as [Hsp Htp].
    apply (run_common sp tp L gen_common_labels_fs w w'); auto.
    - apply wf_common_sel; auto.
    - apply wf_common_tmpl; auto.
    - apply (own_selector_default nonstr L w w' sp tp HK Hm Hn Hsel H).
  Qed.

  Lemma run_nonselector sp tp (p : pairs) (t : bool) fss w w' :
    label_fs default_tc (mkLD p false t []) = Ok fss ->
    inv sp tp w -> (forall kv, In kv p -> compat (fst kv) (snd kv) (sel_of w)) ->
    label_filter nonstr p fss w = Ok w' ->
    inv sp tp w' /\ (forall k, lookup k (sel_of w') = lookup k (sel_of w)).
  Proof.
    intros Hfs Hinv Hc H. pose proof Hinv as (HK & Hm & Hn & Hsel). destruct (inv_paths _ _ _ Hinv) as [Hsp Htp].
    pose proof Hfs as Hfs0. rewrite label_fs_no_fields in Hfs0.
    destruct (entry_no_sel _ _ _ _ Hfs0 Hsp) as [Wsp Hno].
    pose proof (wf_entry_tmpl _ _ _ _ Hfs0 Htp) as Wtp.
    assert (Hsel' : selects w' w') by (apply (own_selector_nonselector_default nonstr p t fss w w' sp tp Hfs HK Hm Hn Hc Hsel H)).
    destruct (run_common sp tp p fss w w' Wsp Wtp Hinv H Hsel') as [Hinv' _].
    split; [exact Hinv'|]. intros k.
    destruct (no_selector_change_default nonstr p t fss w w' sp Hfs Hsp H) as [_ E]. rewrite E. reflexivity.
  Qed.

  Lemma run_annotations sp tp (L : pairs) w w' :
    inv sp tp w -> label_filter nonstr L gen_common_annotations_fs w = Ok w' ->
    inv sp tp w' /\ (forall k, lookup k (sel_of w') = lookup k (sel_of w)).
  Proof.
    intros Hinv H. pose proof Hinv as (HK & Hm & Hn & Hsel). destruct (inv_paths _ _ _ Hinv) as [Hsp Htp].
    pose proof gen_rows_wf as W. cbn [forallb entry_tables] in W.
    apply andb_true_iff in W as [_ W]. apply andb_true_iff in W as [_ W]. apply andb_true_iff in W as [_ W].
    apply andb_true_iff in W as [W _]. unfold chk_rows_wf in W. apply andb_true_iff in W as [W1 W2].
    rewrite forallb_forall in W1, W2.
    pose proof (rows_wf_sound _ _ _ w (W1 _ (sel_path_of_in _ _ Hsp)) eq_refl) as Wsp.
    pose proof (rows_wf_sound _ _ _ w (W2 _ (tmpl_path_of_in _ _ Htp)) eq_refl) as Wtp.
    pose proof gen_annotations_clear as G. unfold chk_annotations_clear in G. apply andb_true_iff in G as [G1 G2].
    rewrite forallb_forall in G1, G2.
    pose proof (no_rows_at_sound _ _ _ w (G1 _ (sel_path_of_in _ _ Hsp)) eq_refl) as Nsp.
    pose proof (no_rows_at_sound _ _ _ w (G2 _ (tmpl_path_of_in _ _ Htp)) eq_refl) as Ntp.
    cbn [fst snd] in *.
    destruct (keys_frame nonstr _ _ _ _ _ Wsp Nsp H) as [Es Hg].
    destruct (keys_frame nonstr _ _ _ _ _ Wtp Ntp H) as [Et _].
    assert (Hsel' : selects w' w').
    { unfold selects, sel_of, pod_labels_of in *.
      rewrite (gvk_same_sel_path _ _ Hg), (gvk_same_tmpl_path _ _ Hg), Hsp, Htp in *. cbn [opt_labels_at] in *.
      unfold labels_at in *. rewrite Es, Et. exact Hsel. }
    destruct (run_common sp tp L _ w w' Wsp Wtp Hinv H Hsel') as [Hinv' _].
    split; [exact Hinv'|]. intros k.
    rewrite (sel_of_eq _ _ _ Hinv'), (sel_of_eq _ _ _ Hinv). unfold labels_at. rewrite Es. reflexivity.
  Qed.
End Chain.


(* ---------- how the selector of ANY selecting object evolves through one run ---------- *)
Section SelRuns.
  Variable nonstr : string -> bool.

  Lemma sel_of_path x sp : sel_path_of x = Some sp -> sel_of x = labels_at (path_splitter sp) x.
  Proof. intros H. unfold sel_of. rewrite H. reflexivity. Qed.

  Lemma selrun_selector (L : pairs) x x' sp :
    sel_path_of x = Some sp -> label_filter nonstr L gen_common_labels_fs x = Ok x' ->
    sel_path_of x' = Some sp /\ ev L (sel_of x) (sel_of x').
  Proof.
    intros Hsp H. pose proof (wf_common_sel _ _ Hsp) as Wsp.
    pose proof (keys_gvk_same nonstr _ _ _ _ _ Wsp H) as Hg.
    assert (Hsp' : sel_path_of x' = Some sp) by (rewrite (gvk_same_sel_path _ _ Hg); exact Hsp).
    split; [exact Hsp'|]. rewrite (sel_of_path _ _ Hsp), (sel_of_path _ _ Hsp').
    eapply ev_mono; [|apply (keys_ev nonstr _ _ _ _ _ Wsp H)]. intros kv. apply sort_pairs_in.
  Qed.

  Lemma selrun_nonselector (p : pairs) (t : bool) fss x x' sp :
    label_fs default_tc (mkLD p false t []) = Ok fss ->
    sel_path_of x = Some sp -> label_filter nonstr p fss x = Ok x' ->
    sel_path_of x' = Some sp /\ sel_of x' = sel_of x.
  Proof.
    intros Hfs Hsp H. pose proof Hfs as Hfs0. rewrite label_fs_no_fields in Hfs0.
    destruct (entry_no_sel _ _ _ _ Hfs0 Hsp) as [Wsp _].
    pose proof (keys_gvk_same nonstr _ _ _ _ _ Wsp H) as Hg.
    split; [rewrite (gvk_same_sel_path _ _ Hg); exact Hsp|].
    apply (no_selector_change_default nonstr p t fss x x' sp Hfs Hsp H).
  Qed.

  Lemma selrun_annotations (L : pairs) x x' sp :
    sel_path_of x = Some sp -> label_filter nonstr L gen_common_annotations_fs x = Ok x' ->
    sel_path_of x' = Some sp /\ sel_of x' = sel_of x.
  Proof.
    intros Hsp H.
    pose proof gen_rows_wf as W. cbn [forallb entry_tables] in W.
    apply andb_true_iff in W as [_ W]. apply andb_true_iff in W as [_ W]. apply andb_true_iff in W as [_ W].
    apply andb_true_iff in W as [W _]. unfold chk_rows_wf in W. apply andb_true_iff in W as [W1 _].
    rewrite forallb_forall in W1.
    pose proof (rows_wf_sound _ _ _ x (W1 _ (sel_path_of_in _ _ Hsp)) eq_refl) as Wsp.
    pose proof gen_annotations_clear as G. unfold chk_annotations_clear in G. apply andb_true_iff in G as [G1 _].
    rewrite forallb_forall in G1.
    pose proof (no_rows_at_sound _ _ _ x (G1 _ (sel_path_of_in _ _ Hsp)) eq_refl) as Nsp.
    cbn [fst snd] in *.
    destruct (keys_frame nonstr _ _ _ _ _ Wsp Nsp H) as [Es Hg].
    assert (Hsp' : sel_path_of x' = Some sp) by (rewrite (gvk_same_sel_path _ _ Hg); exact Hsp).
    split; [exact Hsp'|]. rewrite (sel_of_path _ _ Hsp), (sel_of_path _ _ Hsp'). unfold labels_at. rewrite Es. reflexivity.
  Qed.
End SelRuns.

(* ---------- composition along a kustomization and along a chain ---------- *)
Section Compose.
  Variable nonstr : string -> bool.

  Definition dir_ok (d : dirs) : Prop := forall e, In e (d_labels d) -> ld_fields e = [].

  (* the pairs written by the runs that include selectors: includeSelectors entries and commonLabels *)
  Definition sel_pairs_of_dir (d : dirs) : pairs :=
    (flat_map (fun e => if ld_selectors e then ld_pairs e else []) (d_labels d) ++ d_common_labels d)%list.
  Definition chain_sel_pairs (ds : list dirs) : pairs := flat_map sel_pairs_of_dir ds.

  (* a configured run, relative to a set G of selector pairs *)
  Definition lt_sel (G : pairs) (pf : pairs * list fieldspec) : Prop :=
    snd pf = gen_common_labels_fs /\ forall kv, In kv (fst pf) -> In kv G.
  Definition lt_nonsel (pf : pairs * list fieldspec) : Prop :=
    exists t, label_fs default_tc (mkLD (fst pf) false t []) = Ok (snd pf).

  Lemma mapM_entries_kinds G : forall l r,
    (forall e, In e l -> ld_fields e = [] /\ (ld_selectors e = true -> forall kv, In kv (ld_pairs e) -> In kv G)) ->
    mapM (fun e => do fss <- label_fs default_tc e; Ok (ld_pairs e, fss)) l = Ok r ->
    Forall2 (fun e pf => fst pf = ld_pairs e /\
                         ((ld_selectors e = true /\ lt_sel G pf) \/ (ld_selectors e = false /\ lt_nonsel pf))) l r.
  Proof.
    induction l as [|e t IH]; intros r Hin H; cbn [mapM] in H.
    - inv H. constructor.
    - destruct (label_fs default_tc e) as [fss| | |] eqn:Ef; cbn [bind] in H; try discriminate.
      destruct (mapM _ t) as [r'| | |] eqn:E; cbn [bind] in H; try discriminate. inv H.
      constructor; [|apply IH; auto; intros e' He'; apply Hin; right; exact He'].
      destruct (Hin e (or_introl eq_refl)) as [Hf HG]. destruct e as [p s tm f]. cbn in Hf. subst f.
      cbn [fst snd ld_pairs ld_selectors] in *. split; [reflexivity|]. destruct s.
      + left. split; [reflexivity|]. split; [|apply HG; reflexivity].
        cbn [snd]. rewrite label_fs_selectors in Ef. inv Ef. reflexivity.
      + right. split; [reflexivity|]. exists tm. exact Ef.
  Qed.

  Lemma run_single p fss w rs :
    run_label_transformer nonstr p fss [w] = Ok rs ->
    (p = [] /\ rs = [w]) \/ (exists w', rs = [w'] /\ label_filter nonstr p fss w = Ok w').
  Proof.
    unfold run_label_transformer. destruct p as [|kv t]; [intros H; inv H; left; auto|].
    cbn [mapM]. destruct (label_filter nonstr (kv :: t) fss w) as [w'| | |]; cbn [bind]; intros H; inv H.
    right. eexists; eauto.
  Qed.

  (* ----- selectors of arbitrary selecting objects ----- *)
  Lemma sel_runs G sp : forall lts x rs,
    Forall (fun pf => lt_sel G pf \/ lt_nonsel pf) lts ->
    sel_path_of x = Some sp -> run_transformers nonstr lts [x] = Ok rs ->
    exists x', rs = [x'] /\ sel_path_of x' = Some sp /\ ev G (sel_of x) (sel_of x').
  Proof.
    induction lts as [|[p fss] t IH]; intros x rs Hok Hsp H; cbn [run_transformers] in H.
    - inv H. exists x. split; [reflexivity|]. split; [exact Hsp|apply ev_refl].
    - inversion Hok as [|? ? Hpf Hok']; subst.
      destruct (run_label_transformer nonstr p fss [x]) as [rs1| | |] eqn:E1; cbn [bind] in H; try discriminate.
      assert (Hstep : exists x1, rs1 = [x1] /\ sel_path_of x1 = Some sp /\ ev G (sel_of x) (sel_of x1)).
      { destruct (run_single _ _ _ _ E1) as [[-> ->]|(x1 & -> & Hf)];
          [exists x; split; [reflexivity|]; split; [exact Hsp|apply ev_refl]|].
        exists x1. split; [reflexivity|].
        destruct Hpf as [[Hs HG]|(tm & Hfs)]; cbn [fst snd] in *.
        - subst fss. destruct (selrun_selector nonstr p x x1 sp Hsp Hf) as [Hsp1 E]. split; [exact Hsp1|].
          eapply ev_mono; [exact HG|exact E].
        - destruct (selrun_nonselector nonstr p tm fss x x1 sp Hfs Hsp Hf) as [Hsp1 E]. split; [exact Hsp1|].
          rewrite E. apply ev_refl. }
      destruct Hstep as (x1 & -> & Hsp1 & E1').
      destruct (IH x1 rs Hok' Hsp1 H) as (x' & -> & Hsp' & E').
      exists x'. split; [reflexivity|]. split; [exact Hsp'|]. eapply ev_trans; eauto.
  Qed.

  Lemma label_transformers_kinds G d lts :
    dir_ok d -> (forall kv, In kv (sel_pairs_of_dir d) -> In kv G) ->
    label_transformers default_tc d = Ok lts ->
    Forall (fun pf => lt_sel G pf \/ lt_nonsel pf) lts.
  Proof.
    intros Hd HG H. unfold label_transformers in H.
    assert (K : (do l <- mapM (fun e => do fss <- label_fs default_tc e; Ok (ld_pairs e, fss)) (d_labels d);
                 Ok (l ++ [(d_common_labels d, tc_common_labels default_tc)])%list) = Ok lts ->
                Forall (fun pf => lt_sel G pf \/ lt_nonsel pf) lts).
    { intros H'. destruct (mapM _ (d_labels d)) as [l| | |] eqn:E; cbn [bind] in H'; try discriminate. inv H'.
      apply Forall_app. split.
      - assert (HF := mapM_entries_kinds G (d_labels d) l).
        assert (Hpre : forall e, In e (d_labels d) ->
                  ld_fields e = [] /\ (ld_selectors e = true -> forall kv, In kv (ld_pairs e) -> In kv G)).
        { intros e He. split; [apply Hd; exact He|]. intros Hs kv Hkv. apply HG. unfold sel_pairs_of_dir.
          apply in_or_app; left. apply in_flat_map. exists e. split; [exact He|]. rewrite Hs. exact Hkv. }
        specialize (HF Hpre E). clear - HF. induction HF as [|e pf l1 l2 [_ Hk] _ IH]; constructor; auto.
        destruct Hk as [[_ Hk]|[_ Hk]]; auto.
      - constructor; [|constructor]. left. split; [reflexivity|]. cbn [fst]. intros kv Hkv. apply HG.
        unfold sel_pairs_of_dir. apply in_or_app; right; exact Hkv. }
    destruct (d_labels d) as [|e t] eqn:El; [destruct (d_common_labels d) eqn:Ec|]; auto.
    inv H. constructor.
  Qed.

  Lemma sel_dirs G sp d x rs :
    dir_ok d -> (forall kv, In kv (sel_pairs_of_dir d) -> In kv G) ->
    sel_path_of x = Some sp -> apply_dirs nonstr default_tc d [x] = Ok rs ->
    exists x', rs = [x'] /\ sel_path_of x' = Some sp /\ ev G (sel_of x) (sel_of x').
  Proof.
    intros Hd HG Hsp H. unfold apply_dirs in H.
    destruct (label_transformers default_tc d) as [lts| | |] eqn:EL; cbn [bind] in H; try discriminate.
    destruct (run_transformers nonstr lts [x]) as [rs1| | |] eqn:E1; cbn [bind] in H; try discriminate.
    destruct (sel_runs G sp lts x rs1 (label_transformers_kinds G d lts Hd HG EL) Hsp E1) as (x1 & -> & Hsp1 & Ev1).
    cbn [tc_common_annotations default_tc] in H.
    destruct (run_single _ _ _ _ H) as [[_ ->]|(x2 & -> & Hf)]; [exists x1; auto|].
    destruct (selrun_annotations nonstr _ x1 x2 sp Hsp1 Hf) as [Hsp2 E2].
    exists x2. split; [reflexivity|]. split; [exact Hsp2|]. rewrite E2. exact Ev1.
  Qed.

  (* how the selector of any selecting object evolves along a whole chain: every key keeps its value or
     takes a value written by a run that includes selectors *)
  Theorem selector_evolution : forall (ds : list dirs) (x x' : node) (sp : string),
    (forall d, In d ds -> dir_ok d) -> sel_path_of x = Some sp ->
    apply_chain nonstr default_tc ds x = Ok x' ->
    sel_path_of x' = Some sp /\ ev (chain_sel_pairs ds) (sel_of x) (sel_of x').
  Proof.
    induction ds as [|d t IH]; intros x x' sp Hd Hsp H; cbn [apply_chain] in H.
    - inv H. split; [exact Hsp|apply ev_refl].
    - destruct (apply_dirs nonstr default_tc d [x]) as [l| | |] eqn:E1; cbn [bind] in H; try discriminate.
      destruct (sel_dirs (chain_sel_pairs (d :: t)) sp d x l (Hd d (or_introl eq_refl))) as (x1 & -> & Hsp1 & Ev1); auto.
      { intros kv Hkv. cbn [chain_sel_pairs flat_map]. apply in_or_app; left; exact Hkv. }
      destruct (IH x1 x' sp (fun d' Hin => Hd d' (or_intror Hin)) Hsp1 H) as [Hsp' Ev'].
      split; [exact Hsp'|]. eapply ev_trans; [exact Ev1|].
      eapply ev_mono; [|exact Ev']. intros kv Hkv. cbn [chain_sel_pairs flat_map]. apply in_or_app; right; exact Hkv.
  Qed.

  (* "labels declared without includeSelectors never alter a selector", for whole chains: a key that no
     includeSelectors entry and no commonLabels of the chain sets keeps its value (or absence) in every selector *)
  Theorem no_selector_change_chain : forall (ds : list dirs) (x x' : node) (sp k : string),
    (forall d, In d ds -> dir_ok d) -> sel_path_of x = Some sp ->
    apply_chain nonstr default_tc ds x = Ok x' ->
    ~ In k (map fst (chain_sel_pairs ds)) ->
    lookup k (sel_of x') = lookup k (sel_of x).
  Proof.
    intros ds x x' sp k Hd Hsp H Hk.
    destruct (selector_evolution ds x x' sp Hd Hsp H) as [_ E].
    destruct (E k) as [E1|(v & Hin & _)]; [exact E1|].
    exfalso. apply Hk. apply in_map_iff. exists (k, v). auto.
  Qed.

  (* ----- workloads: selector / template agreement along a chain ----- *)

  (* the pairs of an entry without includeSelectors do not fight the selector: compatible with the original
     selector s0, and equal to whatever value a selector run of G gives the same key *)
  Definition good (s0 G p : pairs) : Prop :=
    forall kv, In kv p -> compat (fst kv) (snd kv) s0 /\ forall v', In (fst kv, v') G -> v' = snd kv.

  Lemma good_compat s0 G p s : good s0 G p -> ev G s0 s -> forall kv, In kv p -> compat (fst kv) (snd kv) s.
  Proof.
    intros Hg E kv Hkv. destruct (Hg kv Hkv) as [Hc HG]. destruct (E (fst kv)) as [E1|(v' & Hin & E1)].
    - unfold compat in *. rewrite E1. exact Hc.
    - right. rewrite E1. f_equal. apply HG. exact Hin.
  Qed.

  Lemma wl_runs s0 G sp tp : forall lts w rs,
    Forall (fun pf => lt_sel G pf \/ (lt_nonsel pf /\ good s0 G (fst pf))) lts ->
    inv sp tp w -> ev G s0 (sel_of w) ->
    run_transformers nonstr lts [w] = Ok rs ->
    exists w', rs = [w'] /\ inv sp tp w' /\ ev G s0 (sel_of w').
  Proof.
    induction lts as [|[p fss] t IH]; intros w rs Hok Hinv Hev H; cbn [run_transformers] in H.
    - inv H. exists w. auto.
    - inversion Hok as [|? ? Hpf Hok']; subst.
      destruct (run_label_transformer nonstr p fss [w]) as [rs1| | |] eqn:E1; cbn [bind] in H; try discriminate.
      assert (Hstep : exists w1, rs1 = [w1] /\ inv sp tp w1 /\ ev G s0 (sel_of w1)).
      { destruct (run_single _ _ _ _ E1) as [[-> ->]|(w1 & -> & Hf)]; [exists w; auto|].
        exists w1. split; [reflexivity|]. destruct (inv_paths _ _ _ Hinv) as [Hsp _].
        destruct Hpf as [[Hs HG]|[(tm & Hfs) Hg]]; cbn [fst snd] in *.
        - subst fss. destruct (run_selector nonstr sp tp p w w1 Hinv Hf) as [Hinv1 _]. split; [exact Hinv1|].
          destruct (selrun_selector nonstr p w w1 sp Hsp Hf) as [_ E]. eapply ev_trans; [exact Hev|].
          eapply ev_mono; [exact HG|exact E].
        - destruct (run_nonselector nonstr sp tp p tm fss w w1 Hfs Hinv (good_compat _ _ _ _ Hg Hev) Hf) as [Hinv1 Hl].
          split; [exact Hinv1|]. eapply ev_trans; [exact Hev|]. apply ev_same. exact Hl. }
      destruct Hstep as (w1 & -> & Hinv1 & Hev1). apply (IH w1 rs Hok' Hinv1 Hev1 H).
  Qed.

  Lemma label_transformers_kinds2 s0 G d lts :
    dir_ok d -> (forall kv, In kv (sel_pairs_of_dir d) -> In kv G) ->
    (forall e, In e (d_labels d) -> ld_selectors e = false -> good s0 G (ld_pairs e)) ->
    label_transformers default_tc d = Ok lts ->
    Forall (fun pf => lt_sel G pf \/ (lt_nonsel pf /\ good s0 G (fst pf))) lts.
  Proof.
    intros Hd HG Hgood H. unfold label_transformers in H.
    assert (K : (do l <- mapM (fun e => do fss <- label_fs default_tc e; Ok (ld_pairs e, fss)) (d_labels d);
                 Ok (l ++ [(d_common_labels d, tc_common_labels default_tc)])%list) = Ok lts ->
                Forall (fun pf => lt_sel G pf \/ (lt_nonsel pf /\ good s0 G (fst pf))) lts).
    { intros H'. destruct (mapM _ (d_labels d)) as [l| | |] eqn:E; cbn [bind] in H'; try discriminate. inv H'.
      apply Forall_app. split.
      - assert (HF := mapM_entries_kinds G (d_labels d) l).
        assert (Hpre : forall e, In e (d_labels d) ->
                  ld_fields e = [] /\ (ld_selectors e = true -> forall kv, In kv (ld_pairs e) -> In kv G)).
        { intros e He. split; [apply Hd; exact He|]. intros Hs kv Hkv. apply HG. unfold sel_pairs_of_dir.
          apply in_or_app; left. apply in_flat_map. exists e. split; [exact He|]. rewrite Hs. exact Hkv. }
        specialize (HF Hpre E).
        assert (Hall : forall e, In e (d_labels d) -> ld_selectors e = false -> good s0 G (ld_pairs e)) by exact Hgood.
        clear - HF Hall. induction HF as [|e pf l1 l2 [Hfst Hk] _ IH]; constructor.
        + destruct Hk as [[_ Hk]|[Hse Hk]]; [left; exact Hk|]. right. split; [exact Hk|].
          rewrite Hfst. apply Hall; [left; reflexivity|exact Hse].
        + apply IH. intros e' He'. apply Hall. right; exact He'.
      - constructor; [|constructor]. left. split; [reflexivity|]. cbn [fst]. intros kv Hkv. apply HG.
        unfold sel_pairs_of_dir. apply in_or_app; right; exact Hkv. }
    destruct (d_labels d) as [|e t] eqn:El; [destruct (d_common_labels d) eqn:Ec|]; auto.
    inv H. constructor.
  Qed.

  Lemma wl_chain s0 G sp tp : forall ds w w',
    (forall d, In d ds -> dir_ok d) ->
    (forall d, In d ds -> forall kv, In kv (sel_pairs_of_dir d) -> In kv G) ->
    (forall d, In d ds -> forall e, In e (d_labels d) -> ld_selectors e = false -> good s0 G (ld_pairs e)) ->
    inv sp tp w -> ev G s0 (sel_of w) ->
    apply_chain nonstr default_tc ds w = Ok w' -> inv sp tp w'.
  Proof.
    induction ds as [|d t IH]; intros w w' Hd HG Hg Hinv Hev H; cbn [apply_chain] in H.
    - inv H. exact Hinv.
    - destruct (apply_dirs nonstr default_tc d [w]) as [l| | |] eqn:E1; cbn [bind] in H; try discriminate.
      unfold apply_dirs in E1.
      destruct (label_transformers default_tc d) as [lts| | |] eqn:EL; cbn [bind] in E1; try discriminate.
      destruct (run_transformers nonstr lts [w]) as [rs1| | |] eqn:ER; cbn [bind] in E1; try discriminate.
      pose proof (label_transformers_kinds2 s0 G d lts (Hd d (or_introl eq_refl)) (HG d (or_introl eq_refl))
                    (Hg d (or_introl eq_refl)) EL) as Hk.
      destruct (wl_runs s0 G sp tp lts w rs1 Hk Hinv Hev ER) as (w1 & -> & Hinv1 & Hev1).
      cbn [tc_common_annotations default_tc] in E1.
      assert (Hstep : exists w2, l = [w2] /\ inv sp tp w2 /\ ev G s0 (sel_of w2)).
      { destruct (run_single _ _ _ _ E1) as [[_ ->]|(w2 & -> & Hf)]; [exists w1; auto|].
        destruct (run_annotations nonstr sp tp _ w1 w2 Hinv1 Hf) as [Hinv2 Hl2].
        exists w2. split; [reflexivity|]. split; [exact Hinv2|]. eapply ev_trans; [exact Hev1|apply ev_same; exact Hl2]. }
      destruct Hstep as (w2 & -> & Hinv2 & Hev2).
      apply (IH w2 w'); auto.
      + intros d' Hin. apply Hd. right; exact Hin.
      + intros d' Hin. apply HG. right; exact Hin.
      + intros d' Hin. apply Hg. right; exact Hin.
  Qed.

  (* Whole chains, any number of layers, keys may repeat: a workload whose selector matched its pod template
     still does, provided no entry WITHOUT includeSelectors fights the selector - each of its pairs (k,v) is
     compatible with the workload's original selector and agrees with every value an includeSelectors entry or
     commonLabels of the chain gives k. *)
  Theorem own_selector_chain : forall (ds : list dirs) (w w' : node) (sp tp : string),
    (forall d, In d ds -> dir_ok d) ->
    (forall d, In d ds -> forall e, In e (d_labels d) -> ld_selectors e = false ->
                          good (sel_of w) (chain_sel_pairs ds) (ld_pairs e)) ->
    assoc3 (obj_kind w) k8s_workloads = Some (Some sp, tp) ->
    is_map w = true -> no_seq_along (path_splitter tp) w = true -> selects w w ->
    apply_chain nonstr default_tc ds w = Ok w' ->
    selects w' w'.
  Proof.
    intros ds w w' sp tp Hd Hg HK Hm Hn Hsel H.
    destruct (wl_chain (sel_of w) (chain_sel_pairs ds) sp tp ds w w' Hd) as (_ & _ & _ & Hs); auto.
    - intros d Hin kv Hkv. unfold chain_sel_pairs. apply in_flat_map. exists d. auto.
    - repeat split; auto.
    - apply ev_refl.
  Qed.
End Compose.

(* non-vacuity: a two-layer chain in which the key [team] is set twice (base commonLabels, overlay entry with
   includeSelectors) and a metadata+template-only entry adds a fresh key *)
Example own_selector_chain_nonvacuous :
  let w := wit_deployment "apps/v1" [("app", str "x")] [("app", str "x")] in
  let ds := [mkDirs [] [("team", "t")] [("note", "n")];
             mkDirs [mkLD [("rel", "r")] false true []; mkLD [("team", "u")] true false []] [] []] in
  (forall d, In d ds -> dir_ok d) /\
  (forall d, In d ds -> forall e, In e (d_labels d) -> ld_selectors e = false ->
                        good (sel_of w) (chain_sel_pairs ds) (ld_pairs e)) /\
  exists w', apply_chain nq default_tc ds w = Ok w' /\
             sel_of w' = [("app", "x"); ("team", "u")] /\
             pod_labels_of w' = [("app", "x"); ("team", "u"); ("rel", "r")].
Proof.
  cbv zeta. split.
  - intros d [<-|[<-|[]]] e; cbn; intuition (subst; reflexivity).
  - split.
    + intros d [<-|[<-|[]]] e He Hs; cbn in He; [destruct He|].
      destruct He as [<-|[<-|[]]]; [|discriminate].
      intros kv [<-|[]]. split; [left; vm_compute; reflexivity|].
      intros v' Hin. vm_compute in Hin. destruct Hin as [Hin|[Hin|[]]]; inversion Hin.
    + eexists. split; [vm_compute; reflexivity|]. split; vm_compute; reflexivity.
Qed.


(* ---------- a selecting object and a workload through the same chain ---------- *)
Section Pair.
  Variable nonstr : string -> bool.

  (* what is carried along for the pair (s, w) *)
  Definition pinv (sp tp : string) (s w : node) : Prop :=
    sel_path_of s = Some sp /\ tmpl_path_of w = Some tp /\
    is_map w = true /\ no_seq_along (path_splitter tp) w = true /\
    has_exact (path_splitter sp) gen_common_labels_fs s = true /\
    has_create (path_splitter tp) gen_common_labels_fs w = true /\
    selects s w.

  Lemma pod_of_path w tp : tmpl_path_of w = Some tp -> pod_labels_of w = labels_at (path_splitter tp) w.
  Proof. intros H. unfold pod_labels_of. rewrite H. reflexivity. Qed.

  (* the shape part of the invariant survives any run whose table is well-formed for both objects *)
  Lemma pinv_shape sp tp fss (L : pairs) s w s' w' :
    rows_okP (path_splitter sp) fss s -> rows_okP (path_splitter tp) fss w ->
    pinv sp tp s w ->
    label_filter nonstr L fss s = Ok s' -> label_filter nonstr L fss w = Ok w' ->
    selects s' w' -> pinv sp tp s' w'.
  Proof.
    intros Ws Ww (Hsp & Htp & Hm & Hn & Hex & Hcr & _) Hs Hw Hsel.
    pose proof (keys_gvk_same nonstr _ _ _ _ _ Ws Hs) as Hgs.
    destruct (keys_shape nonstr _ _ _ _ _ Ww Hw) as (Hm' & Hn' & Hgw).
    repeat split; auto.
    - rewrite (gvk_same_sel_path _ _ Hgs); exact Hsp.
    - rewrite (gvk_same_tmpl_path _ _ Hgw); exact Htp.
    - rewrite (has_exact_same _ _ _ _ Hgs); exact Hex.
    - rewrite (has_create_same _ _ _ _ Hgw); exact Hcr.
  Qed.

  Lemma pair_selector sp tp (L : pairs) s w s' w' :
    pinv sp tp s w ->
    label_filter nonstr L gen_common_labels_fs s = Ok s' -> label_filter nonstr L gen_common_labels_fs w = Ok w' ->
    pinv sp tp s' w' /\ ev L (sel_of s) (sel_of s').
  Proof.
    intros Hp Hs Hw. pose proof Hp as (Hsp & Htp & Hm & Hn & Hex & Hcr & Hsel).
    split.
    - apply (pinv_shape sp tp gen_common_labels_fs L s w s' w'); auto.
      + apply wf_common_sel; auto.
      + apply wf_common_tmpl; auto.
      + apply (selects_preserved_default nonstr L s w s' w' sp tp Hsp Htp Hm Hn Hcr); auto.
        intros Hno. rewrite Hex in Hno. discriminate.
    - apply (selrun_selector nonstr L s s' sp Hsp Hs).
  Qed.

  Lemma pair_nonselector sp tp (p : pairs) (t : bool) fss s w s' w' :
    label_fs default_tc (mkLD p false t []) = Ok fss ->
    pinv sp tp s w -> (forall kv, In kv p -> compat (fst kv) (snd kv) (sel_of s)) ->
    label_filter nonstr p fss s = Ok s' -> label_filter nonstr p fss w = Ok w' ->
    pinv sp tp s' w' /\ sel_of s' = sel_of s.
  Proof.
    intros Hfs Hp Hc Hs Hw. pose proof Hp as (Hsp & Htp & Hm & Hn & Hex & Hcr & Hsel).
    pose proof Hfs as Hfs0. rewrite label_fs_no_fields in Hfs0.
    destruct (entry_no_sel _ _ _ _ Hfs0 Hsp) as [Ws Hno].
    pose proof (wf_entry_tmpl _ _ _ _ Hfs0 Htp) as Ww.
    destruct (selrun_nonselector nonstr p t fss s s' sp Hfs Hsp Hs) as [Hsp' Es].
    split; [|exact Es].
    apply (pinv_shape sp tp fss p s w s' w'); auto.
    pose proof (keys_gvk_same nonstr _ _ _ _ _ Ws Hs) as Hgs.
    destruct (keys_shape nonstr _ _ _ _ _ Ww Hw) as (_ & _ & Hgw).
    unfold selects in *. rewrite (sel_of_path _ _ Hsp'), (pod_of_path w' tp) by (rewrite (gvk_same_tmpl_path _ _ Hgw); exact Htp).
    rewrite (sel_of_path _ _ Hsp), (pod_of_path _ _ Htp) in Hsel.
    eapply (selects_preserved_generic nonstr (path_splitter sp) (path_splitter tp) fss (sort_pairs p) s w s' w'); eauto.
    - intros Hyes. rewrite Hno in Hyes. discriminate.
    - intros _. right. intros kv Hin. rewrite <- (sel_of_path _ _ Hsp). apply Hc. apply sort_pairs_in; exact Hin.
  Qed.

  Lemma pair_annotations sp tp (L : pairs) s w s' w' :
    pinv sp tp s w ->
    label_filter nonstr L gen_common_annotations_fs s = Ok s' -> label_filter nonstr L gen_common_annotations_fs w = Ok w' ->
    pinv sp tp s' w' /\ sel_of s' = sel_of s.
  Proof.
    intros Hp Hs Hw. pose proof Hp as (Hsp & Htp & Hm & Hn & Hex & Hcr & Hsel).
    destruct (selrun_annotations nonstr L s s' sp Hsp Hs) as [Hsp' Es].
    split; [|exact Es].
    pose proof gen_rows_wf as W. cbn [forallb entry_tables] in W.
    apply andb_true_iff in W as [_ W]. apply andb_true_iff in W as [_ W]. apply andb_true_iff in W as [_ W].
    apply andb_true_iff in W as [W _]. unfold chk_rows_wf in W. apply andb_true_iff in W as [W1 W2].
    rewrite forallb_forall in W1, W2.
    pose proof (rows_wf_sound _ _ _ s (W1 _ (sel_path_of_in _ _ Hsp)) eq_refl) as Ws.
    pose proof (rows_wf_sound _ _ _ w (W2 _ (tmpl_path_of_in _ _ Htp)) eq_refl) as Ww.
    pose proof gen_annotations_clear as G. unfold chk_annotations_clear in G. apply andb_true_iff in G as [_ G2].
    rewrite forallb_forall in G2.
    pose proof (no_rows_at_sound _ _ _ w (G2 _ (tmpl_path_of_in _ _ Htp)) eq_refl) as Ntp.
    cbn [fst snd] in *.
    destruct (keys_frame nonstr _ _ _ _ _ Ww Ntp Hw) as [Et Hgw].
    apply (pinv_shape sp tp gen_common_annotations_fs L s w s' w'); auto.
    unfold selects. rewrite Es, (pod_of_path w' tp) by (rewrite (gvk_same_tmpl_path _ _ Hgw); exact Htp).
    unfold selects in Hsel. rewrite (pod_of_path _ _ Htp) in Hsel. unfold labels_at in *. rewrite Et. exact Hsel.
  Qed.

  (* the runs of one kustomization, then the chain *)
  Lemma pair_runs s0 G sp tp : forall lts s w rs rw,
    Forall (fun pf => lt_sel G pf \/ (lt_nonsel pf /\ good s0 G (fst pf))) lts ->
    pinv sp tp s w -> ev G s0 (sel_of s) ->
    run_transformers nonstr lts [s] = Ok rs -> run_transformers nonstr lts [w] = Ok rw ->
    exists s' w', rs = [s'] /\ rw = [w'] /\ pinv sp tp s' w' /\ ev G s0 (sel_of s').
  Proof.
    induction lts as [|[p fss] t IH]; intros s w rs rw Hok Hp Hev Hs Hw; cbn [run_transformers] in Hs, Hw.
    - inv Hs. inv Hw. exists s; exists w. auto.
    - inversion Hok as [|? ? Hpf Hok']; subst.
      destruct (run_label_transformer nonstr p fss [s]) as [rs1| | |] eqn:E1; cbn [bind] in Hs; try discriminate.
      destruct (run_label_transformer nonstr p fss [w]) as [rw1| | |] eqn:E2; cbn [bind] in Hw; try discriminate.
      assert (Hstep : exists s1 w1, rs1 = [s1] /\ rw1 = [w1] /\ pinv sp tp s1 w1 /\ ev G s0 (sel_of s1)).
      { destruct (run_single nonstr _ _ _ _ E1) as [[Hp0 ->]|(s1 & -> & Hf1)].
        - subst p. cbn in E2. inv E2. do 2 eexists. split; [reflexivity|]. split; [reflexivity|]. auto.
        - destruct (run_single nonstr _ _ _ _ E2) as [[Hp0 _]|(w1 & -> & Hf2)];
            [subst p; unfold label_filter in Hf1; cbn in Hf1; inv Hf1; cbn in E2; inv E2; do 2 eexists; split; [reflexivity|]; split; [reflexivity|]; auto|].
          exists s1; exists w1. split; [reflexivity|]. split; [reflexivity|].
          destruct Hpf as [[Hsl HG]|[(tm & Hfs) Hg]]; cbn [fst snd] in *.
          + subst fss. destruct (pair_selector sp tp p s w s1 w1 Hp Hf1 Hf2) as [Hp1 E].
            split; [exact Hp1|]. eapply ev_trans; [exact Hev|]. eapply ev_mono; [exact HG|exact E].
          + destruct (pair_nonselector sp tp p tm fss s w s1 w1 Hfs Hp (good_compat _ _ _ _ Hg Hev) Hf1 Hf2) as [Hp1 E].
            split; [exact Hp1|]. rewrite E. exact Hev. }
      destruct Hstep as (s1 & w1 & -> & -> & Hp1 & Hev1). apply (IH s1 w1 rs rw Hok' Hp1 Hev1 Hs Hw).
  Qed.

  Lemma pair_chain s0 G sp tp : forall ds s w s' w',
    (forall d, In d ds -> dir_ok d) ->
    (forall d, In d ds -> forall kv, In kv (sel_pairs_of_dir d) -> In kv G) ->
    (forall d, In d ds -> forall e, In e (d_labels d) -> ld_selectors e = false -> good s0 G (ld_pairs e)) ->
    pinv sp tp s w -> ev G s0 (sel_of s) ->
    apply_chain nonstr default_tc ds s = Ok s' -> apply_chain nonstr default_tc ds w = Ok w' ->
    pinv sp tp s' w'.
  Proof.
    induction ds as [|d t IH]; intros s w s' w' Hd HG Hg Hp Hev Hs Hw; cbn [apply_chain] in Hs, Hw.
    - inv Hs. inv Hw. exact Hp.
    - destruct (apply_dirs nonstr default_tc d [s]) as [ls| | |] eqn:E1; cbn [bind] in Hs; try discriminate.
      destruct (apply_dirs nonstr default_tc d [w]) as [lw| | |] eqn:E2; cbn [bind] in Hw; try discriminate.
      unfold apply_dirs in E1, E2.
      destruct (label_transformers default_tc d) as [lts| | |] eqn:EL; cbn [bind] in E1, E2; try discriminate.
      destruct (run_transformers nonstr lts [s]) as [rs1| | |] eqn:ER1; cbn [bind] in E1; try discriminate.
      destruct (run_transformers nonstr lts [w]) as [rw1| | |] eqn:ER2; cbn [bind] in E2; try discriminate.
      pose proof (label_transformers_kinds2 s0 G d lts (Hd d (or_introl eq_refl)) (HG d (or_introl eq_refl))
                    (Hg d (or_introl eq_refl)) EL) as Hk.
      destruct (pair_runs s0 G sp tp lts s w rs1 rw1 Hk Hp Hev ER1 ER2) as (s1 & w1 & -> & -> & Hp1 & Hev1).
      cbn [tc_common_annotations default_tc] in E1, E2.
      assert (Hstep : exists s2 w2, ls = [s2] /\ lw = [w2] /\ pinv sp tp s2 w2 /\ ev G s0 (sel_of s2)).
      { destruct (run_single nonstr _ _ _ _ E1) as [[Hp0 ->]|(s2 & -> & Hf1)].
        - rewrite Hp0 in E2. cbn in E2. inv E2. do 2 eexists. split; [reflexivity|]. split; [reflexivity|]. auto.
        - destruct (run_single nonstr _ _ _ _ E2) as [[Hp0 _]|(w2 & -> & Hf2)];
            [rewrite Hp0 in Hf1; unfold label_filter in Hf1; cbn in Hf1; inv Hf1; rewrite Hp0 in E2; cbn in E2; inv E2; do 2 eexists; split; [reflexivity|]; split; [reflexivity|]; auto|].
          destruct (pair_annotations sp tp _ s1 w1 s2 w2 Hp1 Hf1 Hf2) as [Hp2 E].
          exists s2; exists w2. split; [reflexivity|]. split; [reflexivity|]. split; [exact Hp2|]. rewrite E. exact Hev1. }
      destruct Hstep as (s2 & w2 & -> & -> & Hp2 & Hev2).
      apply (IH s2 w2 s' w'); auto.
      + intros d' Hin. apply Hd. right; exact Hin.
      + intros d' Hin. apply HG. right; exact Hin.
      + intros d' Hin. apply Hg. right; exact Hin.
  Qed.

  (* Who selected whom before a chain still does after it: a selecting object s and a workload w that go through
     the same chain of directives (any number of layers, keys may repeat). *)
  Theorem selects_preserved_chain : forall (ds : list dirs) (s w s' w' : node) (sp tp : string),
    (forall d, In d ds -> dir_ok d) ->
    (forall d, In d ds -> forall e, In e (d_labels d) -> ld_selectors e = false ->
                          good (sel_of s) (chain_sel_pairs ds) (ld_pairs e)) ->
    sel_path_of s = Some sp -> tmpl_path_of w = Some tp ->
    is_map w = true -> no_seq_along (path_splitter tp) w = true ->
    has_exact (path_splitter sp) gen_common_labels_fs s = true ->
    has_create (path_splitter tp) gen_common_labels_fs w = true ->
    selects s w ->
    apply_chain nonstr default_tc ds s = Ok s' -> apply_chain nonstr default_tc ds w = Ok w' ->
    selects s' w'.
  Proof.
    intros ds s w s' w' sp tp Hd Hg Hsp Htp Hm Hn Hex Hcr Hsel Hs Hw.
    destruct (pair_chain (sel_of s) (chain_sel_pairs ds) sp tp ds s w s' w' Hd) as (_ & _ & _ & _ & _ & _ & H); auto.
    - intros d Hin kv Hkv. unfold chain_sel_pairs. apply in_flat_map. exists d. auto.
    - repeat split; auto.
    - apply ev_refl.
  Qed.
End Pair.
