(* C11: obligations over the GENERATED tables (Gen/LegacyOrder.v, Gen/FieldSpecs.v), the theorems
   instantiated with them, witnesses of what does NOT hold, and non-vacuity examples. *)
From KV Require Import Res.Compose Res.LegacySortProofs Res.LegacyExact Res.ComposeProofs Gen.LegacyOrder Gen.FieldSpecs.
From Coq Require Import Sorting.Permutation.
Open Scope string_scope.

(* ---------- obligations on the generated tables ---------- *)

(* "Namespace" has a rank of its own in defaultOrderFirst/defaultOrderLast *)
Lemma gen_namespace_isolated : namespace_isolated gen_order_first gen_order_last = true.
Proof. vm_compute. reflexivity. Qed.

(* the place holders and separators of the sort strings are the ones the model uses *)
Lemma gen_legacy_strings :
  gen_legacy_gvk_strings = model_legacy_gvk_strings /\
  gen_legacy_resid_strings = model_legacy_resid_strings /\
  gen_gvk_string_consts = model_gvk_string_consts /\
  gen_namespace_kind = namespace_kind.
Proof. repeat split; reflexivity. Qed.

(* the name prefix/suffix field-spec tables consist of the single catch-all entry metadata/name *)
Definition single_catchall_b (tbl : list fieldspec) : bool :=
  match tbl with
  | [fs] => String.eqb (fs_group fs) "" && String.eqb (fs_version fs) "" && String.eqb (fs_kind fs) "" &&
            String.eqb (fs_path fs) "metadata/name"
  | _ => false
  end.

Lemma single_catchall_hit : forall tbl, single_catchall_b tbl = true -> single_hit tbl.
Proof.
  intros tbl H d. destruct tbl as [|fs [|? ?]]; try discriminate.
  simpl in H. repeat (apply andb_true_iff in H; destruct H as [H ?]).
  unfold name_hits, gvk_selected. simpl. rewrite H, H0, H1, H2. reflexivity.
Qed.

Lemma gen_name_fs_single : single_catchall_b gen_name_prefix_fs = true /\ single_catchall_b gen_name_suffix_fs = true.
Proof. split; reflexivity. Qed.

Lemma gen_prefix_single_hit : single_hit gen_name_prefix_fs.
Proof. apply single_catchall_hit. apply gen_name_fs_single. Qed.
Lemma gen_suffix_single_hit : single_hit gen_name_suffix_fs.
Proof. apply single_catchall_hit. apply gen_name_fs_single. Qed.

(* ---------- the theorems with the generated tables plugged in ---------- *)

Definition accumulate_gen (cs : gvk -> bool) : tree -> res (list resource) :=
  accumulate cs gen_name_prefix_fs gen_name_suffix_fs gen_prefix_skip gen_suffix_skip.
Definition build_gen (cs : gvk -> bool) : sort_opt -> tree -> res (list rid) :=
  build cs gen_name_prefix_fs gen_name_suffix_fs gen_prefix_skip gen_suffix_skip gen_ns_reversal_guarded.
(* the build with the comparator WITHOUT the rank guard (the source as it stood when the finding was made) *)
Definition build_unguarded (cs : gvk -> bool) : sort_opt -> tree -> res (list rid) :=
  build cs gen_name_prefix_fs gen_name_suffix_fs gen_prefix_skip gen_suffix_skip false.
(* the comparator of the current source *)
Definition less_gen (first last : list string) : rid -> rid -> bool :=
  legacy_less_g gen_ns_reversal_guarded first last.
Definition out_name_gen : rid -> list (string * string) -> string := out_name gen_prefix_skip gen_suffix_skip.
Definition default_legacy : sort_opt := SortLegacy gen_order_first gen_order_last.

Theorem legacy_total_default : forall a b c,
  valid_id a = true -> valid_id b = true -> valid_id c = true ->
  let less := legacy_less gen_order_first gen_order_last in
  less a a = false /\
  (less a b = true -> less b a = false) /\
  (less a b = true -> less b c = true -> less a c = true) /\
  (a <> b -> less a b = true \/ less b a = true).
Proof. intros. apply legacy_total; auto using gen_namespace_isolated. Qed.

Theorem legacy_canonical_default : forall (sort : list rid -> list rid) l l',
  sort_spec (legacy_less gen_order_first gen_order_last) sort ->
  valid_ids l -> NoDup l -> Permutation l l' ->
  sort l = sort l' /\ sort l = sort_legacy gen_order_first gen_order_last l.
Proof. intros. apply legacy_canonical; auto using gen_namespace_isolated. Qed.

Theorem permute_legacy_default : forall cs t t' out,
  tperm t t' -> build_gen cs default_legacy t = Ok out -> valid_ids out ->
  build_gen cs default_legacy t' = Ok out.
Proof. intros. eapply build_permute_legacy; eauto using gen_namespace_isolated. Qed.

(* the comparator of the current source (with or without the rank guard) on the built-in lists *)
Theorem legacy_total_gen_default : forall l, valid_ids l -> total_on (less_gen gen_order_first gen_order_last) l.
Proof. intros. apply legacy_g_total_on; auto using gen_namespace_isolated. Qed.

(* once the source carries the rank guard, the hypothesis on the lists disappears *)
Theorem legacy_total_gen_all_lists : gen_ns_reversal_guarded = true ->
  forall first last l, valid_ids l -> total_on (less_gen first last) l.
Proof. intros G first last l V. apply legacy_g_total_on; auto. Qed.

Theorem prefix_nesting_gen : forall cs t out r,
  accumulate_gen cs t = Ok out -> In r out ->
  exists d layers, occurs t d layers /\ r_org r = d /\ r_cur r = set_name (out_name_gen d layers) d.
Proof.
  intros. eapply prefix_nesting; eauto using gen_prefix_single_hit, gen_suffix_single_hit.
Qed.

Theorem chain_nesting_gen : forall cs layers docs out d,
  accumulate_gen cs (chain layers (File docs)) = Ok out -> In d docs ->
  exists r, In r out /\ r_org r = d /\ r_cur r = set_name (out_name_gen d layers) d.
Proof.
  intros. eapply chain_nesting; eauto using gen_prefix_single_hit, gen_suffix_single_hit.
Qed.

(* ---------- what does NOT hold: witnesses ---------- *)

Definition nsid (g v n : string) : rid := mkId (mkGvk g v "Namespace") "" n.

(* (1) default lists, but an API group starting with a byte >= '~' (0x7f here; no Kubernetes group
   looks like that): a cycle among three Namespace kinds.  A remark, not a finding. *)
Lemma legacy_nontransitive_example :
  let less := legacy_less gen_order_first gen_order_last in
  let a := nsid "" "v1" "a" in let b := nsid "a" "v1" "a" in let c := nsid (sb [127%N]) "v1" "a" in
  less a b = true /\ less b c = true /\ less c a = true /\ valid_id a = true /\ valid_id b = true /\ valid_id c = false.
Proof. vm_compute. repeat split; reflexivity. Qed.

(* (2) two different ids with the same sort key: '_' inside group/version defeats the separator.
   Neither is below the other, so their relative order is whatever the input order was. *)
Lemma legacy_collision_example :
  let less := legacy_less gen_order_first gen_order_last in
  let a := mkId (mkGvk "a_b" "c" "Foo") "" "x" in let b := mkId (mkGvk "a" "b_c" "Foo") "" "x" in
  a <> b /\ less a b = false /\ less b a = false /\ valid_id a = false.
Proof. vm_compute. repeat split; try reflexivity. discriminate. Qed.

(* (3) FINDING custom-order-namespace-not-isolated: order lists that leave "Namespace" unranked;
   all three ids are ordinary Kubernetes ids *)
Definition custom_first : list string := ["ConfigMap"].
Definition core_ns : rid := mkId (mkGvk "" "v1" "Namespace") "" "core".
Definition grouped_ns : rid := mkId (mkGvk "b.example.com" "v1" "Namespace") "" "grouped".
Definition other_foo : rid := mkId (mkGvk "z.io" "v1" "Foo") "" "other".

Lemma legacy_custom_order_refuted :
  exists first last a b c,
    valid_id a = true /\ valid_id b = true /\ valid_id c = true /\
    legacy_less first last a b = true /\ legacy_less first last b c = true /\ legacy_less first last c a = true.
Proof. exists custom_first, [], core_ns, grouped_ns, other_foo. vm_compute. repeat split; reflexivity. Qed.

Definition cs_none (_ : gvk) : bool := false.
Definition witness_tree : tree := Dir [File [core_ns]; File [grouped_ns]; File [other_foo]] "" "".
Definition witness_tree' : tree := Dir [File [grouped_ns]; File [other_foo]; File [core_ns]] "" "".

(* ... and the build of the model depends on the order of the resources list *)
Lemma permute_legacy_refuted :
  exists first last t t' out out',
    tperm t t' /\ valid_ids out /\
    build_unguarded cs_none (SortLegacy first last) t = Ok out /\
    build_unguarded cs_none (SortLegacy first last) t' = Ok out' /\ out <> out'.
Proof.
  exists custom_first, [], witness_tree, witness_tree',
    [core_ns; grouped_ns; other_foo], [grouped_ns; other_foo; core_ns].
  split; [|split; [|split; [|split]]].
  - apply tp_here.
    apply (Permutation_app_comm [File [core_ns]] [File [grouped_ns]; File [other_foo]]).
  - repeat constructor.
  - vm_compute. reflexivity.
  - vm_compute. reflexivity.
  - discriminate.
Qed.

(* the wrapper corner: a kustomization holding nothing but sortOptions builds to nothing, but is rejected
   as empty once the sortOptions moved to the wrapper - hence the hypothesis of C11_wrap *)
Lemma wrap_empty_corner :
  build_gen cs_none default_legacy (Dir [] "" "") = Ok [] /\
  build_gen cs_none default_legacy (wrap (Dir [] "" "")) = Err.
Proof. split; vm_compute; reflexivity. Qed.

(* ---------- non-vacuity ---------- *)

Definition ex_ids : list rid :=
  [ mkId (mkGvk "apps" "v1" "Deployment") "ns1" "web";
    mkId (mkGvk "" "v1" "Namespace") "" "ns1";
    mkId (mkGvk "b.example.com" "v1" "Namespace") "" "odd";
    mkId (mkGvk "" "v1" "ConfigMap") "" "cfg";
    mkId (mkGvk "" "v1" "ConfigMap") "ns1" "cfg";
    mkId (mkGvk "admissionregistration.k8s.io" "v1" "ValidatingWebhookConfiguration") "" "hook";
    mkId (mkGvk "z.io" "v1beta1" "Bar") "default" "b" ].

Example ex_ids_valid : valid_ids ex_ids /\ NoDup ex_ids.
Proof.
  split.
  - repeat constructor.
  - repeat constructor; simpl; intuition discriminate.
Qed.

(* the examples below use LITERAL tables, so that they witness the hypotheses of the generic theorems
   without pinning the contents of the tables in /repo (those flow in through Gen_* obligations only) *)
Definition ex_first : list string := ["Namespace"; "ConfigMap"; "Deployment"].
Definition ex_last : list string := ["ValidatingWebhookConfiguration"].
Definition ex_fs : list fieldspec := [mkFs "" "" "" "metadata/name" false].
Definition ex_skip : list fieldspec :=
  [mkFs "" "" "CustomResourceDefinition" "" false; mkFs "apiregistration.k8s.io" "" "APIService" "" false;
   mkFs "" "" "Namespace" "" false].
Definition ex_acc := accumulate cs_none ex_fs ex_fs ex_skip ex_skip.
Definition ex_build := build cs_none ex_fs ex_fs ex_skip ex_skip false.

Example ex_sorted :
  namespace_isolated ex_first ex_last = true /\
  map id_name (sort_legacy ex_first ex_last ex_ids) = ["ns1"; "odd"; "cfg"; "cfg"; "web"; "b"; "hook"] /\
  sort_legacy ex_first ex_last (rev ex_ids) = sort_legacy ex_first ex_last ex_ids.
Proof. repeat split; vm_compute; reflexivity. Qed.

Definition ex_docs : list rid :=
  [ mkId (mkGvk "apps" "v1" "Deployment") "" "d";
    mkId (mkGvk "" "v1" "Namespace") "" "n";
    mkId (mkGvk "apiregistration.k8s.io" "v1" "APIService") "" "api";
    mkId (mkGvk "example.com" "v1" "APIService") "" "api" ].
Definition ex_layers : list (string * string) := [("o-", "-O"); ("m-", "-M"); ("i-", "-I")].

Example ex_nesting :
  single_hit ex_fs /\
  match ex_acc (chain ex_layers (File ex_docs)) with
  | Ok out => map (fun r => id_name (r_cur r)) out
  | _ => []
  end = ["o-m-i-d-I-M-O"; "n"; "api"; "o-m-i-api-I-M-O"].
Proof. split; [apply single_catchall_hit; reflexivity | vm_compute; reflexivity]. Qed.

Example ex_wrap_permute :
  let o := SortLegacy ex_first ex_last in
  let t := Dir [File ex_docs; Dir [File [mkId (mkGvk "" "v1" "ConfigMap") "" "c"]] "b-" ""] "p-" "" in
  let t' := Dir [Dir [File [mkId (mkGvk "" "v1" "ConfigMap") "" "c"]] "b-" ""; File ex_docs] "p-" "" in
  is_ok (ex_build o t) = true /\
  ex_build o (wrap t) = ex_build o t /\
  ex_build o t' = ex_build o t /\
  ex_build SortNone t' <> ex_build SortNone t.
Proof. vm_compute. repeat split; try reflexivity. discriminate. Qed.

(* the hypotheses of the theorems instantiated with the generated tables are satisfiable whatever the tables are *)
Example ex_gen_nonvacuous : forall d, accumulate_gen cs_none (File [d]) = Ok [load d].
Proof. intros. reflexivity. Qed.
