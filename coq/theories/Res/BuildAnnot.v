(* C12: model of the three api/resource.Resource methods that panic with the error of a metadata
   write (findings panic:api/resource Resource.{appendCsvAnnotation,enable,RemoveBuildAnnotations}:
   explicit-wrong-node-kind), built on the kyaml functions they call:
     RNode.GetAnnotations  = getMapFromMeta("annotations"): the Content of the first `annotations` field of
                             metadata read in key/value PAIRS, whatever its node kind;
     RNode.SetAnnotations  = setMapInMetadata: Clear(annotations), then - if the map is not empty - a fresh
                             mapping filled with SetField(k, v) per key (FieldSetter with Name "" fails on a mapping);
     yaml.SetAnnotation    = Yaml/Annot.v set_annotation (owner C13).
   Domain: the document root is a mapping whose first `metadata` field is a non-empty mapping (what
   GetValidatedMetadata leaves through: kind and metadata.name are present). Only the outcome CLASS is
   faithful: the documents returned stand for "some updated document" (never compared). *)
From KV Require Export Yaml.Fns Yaml.Annot Gen.Annotations.

(* Content read in pairs: (key.Value, value.Value) *)
Fixpoint seq_pairs (es : list node) : list (string * string) :=
  match es with
  | a :: b :: t => (node_value a, node_value b) :: seq_pairs t
  | _ => []                       (* a trailing entry without a partner is not a field (fix 1d1d852) *)
  end.
Definition content_pairs (n : node) : list (string * string) :=
  match n with
  | Map kvs => map (fun kv => (fst kv, node_value (snd kv))) kvs
  | Seq es => seq_pairs es
  | Scalar _ _ _ => []
  end.

Definition meta_map (n : node) : option (list (string * node)) :=
  match n with
  | Map kvs => match find_field "metadata" kvs with Some (Map (kv :: t)) => Some (kv :: t) | _ => None end
  | _ => None
  end.
Definition in_domain (n : node) : bool := match meta_map n with Some _ => true | None => false end.

(* RNode.GetAnnotations() as an association list (a Go map: the LAST pair of a key wins) *)
Definition get_annotations (n : node) : list (string * string) :=
  match meta_map n with
  | Some mkvs => match find_field "annotations" mkvs with Some a => content_pairs a | None => [] end
  | None => []
  end.
Fixpoint assoc_last (k : string) (l : list (string * string)) : option string :=
  match l with
  | [] => None
  | (k', v) :: t => match assoc_last k t with Some x => Some x | None => if String.eqb k' k then Some v else None end
  end.
Definition has_key (k : string) (l : list (string * string)) : bool := existsb (fun kv => String.eqb (fst kv) k) l.

(* a SECOND `annotations` field of metadata (duplicate keys are accepted by the reader): after Clear has removed the
   first one, LookupCreate finds this one *)
Definition shadow_field (n : node) : option node :=
  match meta_map n with
  | Some mkvs => find_field "annotations" (remove_first "annotations" mkvs)
  | None => None
  end.

(* RNode.SetAnnotations(m) on a document of the domain fails when ... *)
Definition set_annotations_fails (m : list (string * string)) (n : node) : bool :=
  match m with
  | [] => false                                  (* only Clear(annotations) on the metadata mapping *)
  | _ =>
      match shadow_field n with
      | Some x => if is_map x then has_key "" m                 (* SetField(k, v) into the second field *)
                  else if is_null x then
                    (* a null second field: SetField("", v) turns it into the scalar v (no error), and the NEXT key
                       (keys are set in sorted order, "" first) then meets a scalar *)
                    has_key "" m && existsb (fun kv => negb (String.eqb (fst kv) "")) m
                  else if is_scalar x then
                    (* a non-null scalar: SetField("", v) just overwrites it; any named key meets a scalar *)
                    existsb (fun kv => negb (String.eqb (fst kv) "")) m
                  else true                                     (* SetField on a sequence: wrong node kind *)
      | None => has_key "" m                            (* fresh mapping; SetField("", v): FieldSetter without a name *)
      end
  end.

(* class only: the document returned stands for "some updated document" *)
Definition set_annotations (m : list (string * string)) (n : node) : res node :=
  if set_annotations_fails m n then Err else Ok n.

Definition build_annotations : list string :=
  [K_utils_BuildAnnotationPreviousKinds; K_utils_BuildAnnotationPreviousNames; K_utils_BuildAnnotationPrefixes;
   K_utils_BuildAnnotationSuffixes; K_utils_BuildAnnotationPreviousNamespaces; K_utils_BuildAnnotationAllowNameChange;
   K_utils_BuildAnnotationAllowKindChange; K_utils_BuildAnnotationsRefBy; K_utils_BuildAnnotationsGenBehavior;
   K_utils_BuildAnnotationsGenAddHashSuffix].

Definition panic_on_err {A} (r : res A) : res A :=
  match r with Err => Panic | x => x end.

Section Methods.
  Variable nonstr : string -> bool.

  (* Resource.appendCsvAnnotation(name, value)  (AddNamePrefix / AddNameSuffix / setPreviousId) *)
  Definition append_csv_annotation (name value : string) (n : node) : res node :=
    if String.eqb value "" then Ok n else
    let cur := match assoc_last name (get_annotations n) with Some s => split_on ","%char s | None => [] end in
    panic_on_err (set_annotation nonstr name (join_with "," (cur ++ [value])) n).

  (* Resource.enable(key)  (AllowNameChange / AllowKindChange / EnableHashSuffix) *)
  Definition enable (key : string) (n : node) : res node :=
    panic_on_err (set_annotations (get_annotations n ++ [(key, K_utils_Enabled)]) n).

  (* Resource.RemoveBuildAnnotations() *)
  Definition remove_build_annotations (n : node) : res node :=
    match get_annotations n with
    | [] => Ok n
    | a => panic_on_err (set_annotations (filter (fun kv => negb (str_in (fst kv) build_annotations)) a) n)
    end.
End Methods.
