(* The integrated build pipeline ("mini-kustomize", DESIGN §3.1): ONE executable model of a whole
   `kustomize build` over real documents, obtained by COMPOSING the per-property slices:

     api/krusty/kustomizer.go                 Run: MakeCustomizedResMap, applySortOrder, RemoveBuildAnnotations      -> [build]
     api/internal/target/kusttarget.go        makeCustomizedResMap (accumulate, addHashesToNames, FixBackReferences),
                                              accumulateTarget (resources, generators, transformers),
                                              accumulateResources / accumulateFile / accumulateDirectory,
                                              runGenerators (AbsorbAll), runTransformers                             -> [accumulate]
     api/internal/target/kusttarget_configplugin.go   configureBuiltinTransformers: the ORDER is the generated
                                              table Gen/TransformerOrder.v (translate/pipeorder.go)                  -> [run_order]
     api/internal/target/multitransformer.go  DropEmpties after every transformer                                    -> [drop_empties]

   and the slices it is made of (unchanged, see their own files):
     Res/Resource.v, Res/Rename.v   documents + rename history (prefix, suffix, hash, Append / AppendAll, absorb)     (C03)
     Res/Namespace.v                namespace.Filter with the RoleBinding subject hack, scope table Gen/NsScope.v     (C09)
     Res/Labels.v                   label / annotation transformers and their configurator                           (C08, C19)
     Res/Generators.v, Res/Hash.v   literal sources, validated data map, content hash (SHA-256, suffix encoding)      (C06)
     Res/NameRef.v                  name reference fixing over the generated rule table Gen/NameRefRules.v            (C03, C01)
     Res/LegacySort.v               legacy order                                                                     (C11)
     Res/Hygiene.v                  RemoveBuildAnnotations & co. over the generated annotation lists                  (C07)

   A kustomization tree has NO paths in this model: a `resources:` entry is either the documents of a file or
   a sub-kustomization; the directory name of a kustomization is carried as an uninterpreted label ([PDir name])
   so that relocation can be stated (PIPE_relocate); no function reads it.

   Out of scope (absent from the syntax; other properties cover them): patches (SMP, JSON-6902),
   replacements, vars, components, `configurations:`/`crds:`, helm, external plugins, `immutable`, file /
   loading itself (the content of env files and file sources comes with the entry), `buildMetadata`, custom openapi schemas, `kind: List`
   documents, documents that already carry internal.config.kubernetes.io
   build annotations.  Definitions only; proofs are in Res/PipelineProofs.v. *)
From KV Require Export Res.BuildRefs.
From KV Require Res.Labels Res.LabelsDefaults Res.Namespace Res.Hygiene Res.Generators Res.LegacySort Res.Replica Res.Image.
From KV Require Export Gen.FieldSpecs Gen.NameRefRules Gen.NsScope Gen.TransformerOrder.
From KV Require Gen.LegacyOrder Gen.WalkTables.
From KV Require Res.Selector Yaml.Merge2Identity Corr.SchemaTable Base.RegexParse.
Local Open Scope string_scope.

Definition pairs := list (string * string).

(* ---------- syntax ---------- *)

(* one configMapGenerator / secretGenerator entry; the content of env files and file sources is supplied with the
   entry (the loader itself is C05's / C06's concern) *)
Record pgen := mkPGenX {
  pg_name : string;
  pg_ns : string;
  pg_behavior : string;               (* behavior: "" | create | replace | merge *)
  pg_literals : list string;          (* literals: the raw "k=v" strings *)
  pg_type : string;                   (* secrets only *)
  pg_has_opts : bool;                 (* options: present *)
  pg_labels : pairs;                  (* options.labels (unique keys) *)
  pg_annos : pairs;                   (* options.annotations *)
  pg_disable_hash : bool;             (* options.disableNameSuffixHash *)
  pg_envs : list string;              (* envs: the CONTENT of each env file, in order *)
  pg_files : list (string * string)   (* files: (source spec "key=path" | "path", content of the file) *)
}.

(* an entry with literal sources only *)
Definition mkPGen name ns beh lits ty ho labels annos dh : pgen :=
  mkPGenX name ns beh lits ty ho labels annos dh [] [].

(* generatorOptions: of a kustomization file *)
Record pgopts := mkPGopts {
  go_labels : pairs;
  go_annos : pairs;
  go_disable_hash : bool
}.

(* one patches: entry holding strategic-merge documents (inline text or file content: the loader is C05's concern).
   [pp_schema] is the projection of the openapi schema on the paths of the documents the entry can meet, as the
   correspondence observes it on the running implementation (Corr/SchemaTable.v, as in C04); theorems quantify
   over it *)
Record ppatch := mkPPatch {
  pp_docs : list node;                          (* the documents of the patch text (Factory.SliceFromBytes) *)
  pp_target : option Selector.selector;         (* target: *)
  pp_schema : SchemaTable.sroots
}.

(* the directives of one kustomization file *)
Record pdirs := mkPDirsP {
  pd_ns : string;                             (* namespace: *)
  pd_prefix : string;                         (* namePrefix: *)
  pd_suffix : string;                         (* nameSuffix: *)
  pd_labels : list Labels.label_dir;          (* labels: *)
  pd_common_labels : pairs;                   (* commonLabels: *)
  pd_common_annos : pairs;                    (* commonAnnotations: *)
  pd_cmgens : list pgen;                      (* configMapGenerator: *)
  pd_secgens : list pgen;                     (* secretGenerator: *)
  pd_genopts : option pgopts;                 (* generatorOptions: (None: absent) *)
  pd_replicas : list Replica.replica;         (* replicas: (name, count as decimal text) *)
  pd_images : list Image.image;               (* images: *)
  pd_patches : list ppatch                    (* patches: (strategic-merge entries) *)
}.

(* a kustomization file without patches *)
Definition mkPDirsX ns p s l cl ca cm sec go rp im : pdirs := mkPDirsP ns p s l cl ca cm sec go rp im [].

(* a kustomization file without replicas / images, and without generatorOptions *)
Definition mkPDirsG ns p s l cl ca cm sec go : pdirs := mkPDirsX ns p s l cl ca cm sec go [] [].
Definition mkPDirs ns p s l cl ca cm sec : pdirs := mkPDirsG ns p s l cl ca cm sec None.

Inductive ptree :=
| PFile (docs : list node)                                (* a resource file: its documents, in order *)
| PDir (name : string) (d : pdirs) (ents : list ptree).   (* a kustomization directory: resources: entries in order *)

(* sortOptions of the top kustomization, under krusty.MakeDefaultOptions *)
Inductive psort :=
| PSortNone                                       (* no sortOptions field *)
| PSortFifo                                       (* sortOptions: {order: fifo} *)
| PSortLegacy (first last : list string).         (* sortOptions: {order: legacy}, with the lists in force *)

Definition no_dirs : pdirs := mkPDirs "" "" "" [] [] [] [] [].

(* ---------- fixed tables (all GENERATED from /repo) ---------- *)

(* openapi.IsCertainlyClusterScoped on the builtin schema: the precomputed table *)
Definition pipe_cs : string -> string -> bool := Namespace.certainly_cluster_scoped gen_ns_scope.

(* the name reference rules an accumulator holds (merge + sort of the generated table), evaluated once *)
Definition pipe_rules : res (list nbr) :=
  Eval vm_compute in effective_rules gen_gvk_order_first gen_gvk_order_last gen_nameref_raw.

(* the builtin transformers this model implements; the others of the generated order have no directive
   in the syntax and are therefore never configured *)
Definition modelled_transformers : list string :=
  ["PatchTransformer"; "NamespaceTransformer"; "PrefixTransformer"; "SuffixTransformer"; "LabelTransformer";
   "AnnotationsTransformer"; "ReplicaCountTransformer"; "ImageTagTransformer"].
Definition unmodelled_transformers : list string :=
  ["PatchStrategicMergeTransformer"; "PatchJson6902Transformer"; "ReplacementTransformer"].

(* obligation Gen_transformer_order_known: every element of the generated order is classified, no repeats *)
Definition transformer_order_known_b : bool :=
  forallb (fun n => str_in n modelled_transformers || str_in n unmodelled_transformers) gen_transformer_order &&
  forallb (fun n => str_in n gen_transformer_order) modelled_transformers &&
  nodup_keys gen_transformer_order.

(* ... and of the generators: ConfigMapGenerator before SecretGenerator (helm is out of scope) *)
Definition generator_order_known_b : bool :=
  forallb (fun n => str_in n ["ConfigMapGenerator"; "SecretGenerator"; "HelmChartInflationGenerator"]) gen_generator_order &&
  str_in "ConfigMapGenerator" gen_generator_order && str_in "SecretGenerator" gen_generator_order &&
  nodup_keys gen_generator_order.

Section Pipeline.
  Variable nonstr : string -> bool.     (* yaml.IsValueNonString (go-yaml resolution): external *)

  (* ---------- resources ---------- *)

  (* a document read from a file: no build annotations *)
  Definition load (n : node) : resource := mkRes n None None None None None false.

  (* apply a document filter to every resource of a map (ResMap.ApplyFilter with a per-node filter) *)
  Definition map_nodes (f : node -> res node) (m : list resource) : res (list resource) :=
    mapM (fun r => do n <- f (r_node r); Ok (with_node r n)) m.

  (* resWrangler.DropEmpties *)
  Definition drop_empties (m : list resource) : list resource :=
    filter (fun r => negb (nil_or_empty (r_node r))) m.

  (* ---------- generators ---------- *)

  Definition str_node (v : string) : node := Scalar TStr SPlain v.

  (* RNode.LoadMapIntoConfigMapData / LoadMapIntoSecretData: sorted keys; a ConfigMap value that is not valid
     UTF-8 goes to binaryData, base64 encoded; every Secret value goes to data, base64 encoded *)
  Definition map_field (name : string) (m : Generators.dict) : list (string * node) :=
    match m with
    | [] => []
    | _ => [(name, Map (map (fun kv => (fst kv, str_node (snd kv))) m))]
    end.
  Definition data_field (secret : bool) (m : Generators.dict) : list (string * node) :=
    if secret then
      (* LookupCreate(MappingNode, data) comes first: `data: {}` for no entry *)
      [("data", Map (map (fun kv => (fst kv, str_node (Hash.encode_base64 (snd kv)))) m))]
    else
      let '(d, b) := Generators.split_data m in
      (map_field "data" d ++ map_field "binaryData" b)%list.

  Definition meta_map_field (name : string) (l : pairs) : list (string * node) :=
    match l with
    | [] => []
    | _ => [(name, Map (map (fun kv => (fst kv, str_node (snd kv))) (Labels.sort_pairs l)))]
    end.

  (* api/kv loader: env files first, then literals, then files (the key of a file source is given or the base name) *)
  Definition gen_pairs (g : pgen) : res (list (string * string)) :=
    do e <- Generators.concat_res
              (map (fun c => Generators.env_lines true (Generators.scan_lines EmptyString c)) (pg_envs g));
    do l <- mapM Generators.parse_literal (pg_literals g);
    do f <- mapM (fun sc => do kp <- Generators.parse_file_source (fst sc); Ok (fst kp, snd sc)) (pg_files g);
    Ok (e ++ l ++ f)%list.

  (* generators.MakeConfigMap / MakeSecret (makeBaseNode, type, data, copyLabelsAndAnnotations) *)
  Definition gen_node (secret : bool) (g : pgen) : res node :=
    if String.eqb (pg_name g) "" then Err else
    do kvs <- gen_pairs g;
    do m <- Generators.validated_map kvs [];
    let labels := if pg_has_opts g then pg_labels g else [] in
    let annos := if pg_has_opts g then pg_annos g else [] in
    let meta := ([("name", str_node (pg_name g))] ++
                 (if String.eqb (pg_ns g) "" then [] else [("namespace", str_node (pg_ns g))]) ++
                 meta_map_field "labels" labels ++ meta_map_field "annotations" annos)%list in
    Ok (Map ([("apiVersion", str_node "v1"); ("kind", str_node (if secret then "Secret" else "ConfigMap"));
              ("metadata", Map meta)] ++
             (if secret then [("type", str_node (if String.eqb (pg_type g) "" then "Opaque" else pg_type g))] else []) ++
             data_field secret m)%list).

  (* resmap.Factory.NewResMapFromConfigMapArgs / ...SecretArgs: the generated resource with its options
     (needsHashSuffix unless disabled); the behaviour annotation is kept beside it *)
  Definition gen_resource (secret : bool) (g : pgen) : res resource :=
    do n <- gen_node secret g;
    Ok (mkRes n None None None None None (negb (pg_has_opts g && pg_disable_hash g))).

  (* types.MergeGlobalOptionsIntoLocal: local entries win, global entries fill in missing keys, the hash suffix is
     disabled when either side says so *)
  Definition merge_pairs (l g : pairs) : pairs :=
    (l ++ filter (fun kv => negb (str_in (fst kv) (map fst l))) g)%list.
  Definition merge_genopts (go : option pgopts) (g : pgen) : pgen :=
    match go with
    | None => g
    | Some o =>
        mkPGenX (pg_name g) (pg_ns g) (pg_behavior g) (pg_literals g) (pg_type g) true
                (merge_pairs (if pg_has_opts g then pg_labels g else []) (go_labels o))
                (merge_pairs (if pg_has_opts g then pg_annos g else []) (go_annos o))
                ((pg_has_opts g && pg_disable_hash g) || go_disable_hash o) (pg_envs g) (pg_files g)
    end.

  (* ----- resWrangler.appendReplaceOrMerge ----- *)

  (* GetMatchingResourcesByAnyId(id.Equals): positions of the resources one of whose PrevIds ++ [CurId] equals id *)
  Fixpoint matching_any (id : resid) (i : nat) (m : list resource) : res (list nat) :=
    match m with
    | [] => Ok []
    | r :: t =>
        if nil_or_empty (r_node r) then matching_any id (S i) t else
        do p <- prev_ids r;
        do rest <- matching_any id (S i) t;
        Ok (if existsb (fun x => id_equals id x) (p ++ [cur_id pipe_cs r])%list then i :: rest else rest)
    end.

  (* RNode.GetLabels / GetAnnotations / GetDataMap: a Go map (later duplicates win), kept sorted by key *)
  Definition node_pairs (o : option node) : Generators.dict :=
    match o with
    | Some (Map kvs) => Generators.dict_of_pairs (map (fun kv => (fst kv, node_value (snd kv))) kvs)
    | _ => []
    end.
  Definition meta_field (f : string) (n : node) : option node :=
    match get_meta n with
    | Some (Map mkvs) => find_field f mkvs
    | _ => None
    end.

  (* RNode.setMapInMetadata (SetLabels / SetAnnotations): the field is cleared, then rebuilt at the end of
     metadata with sorted keys and !!str values; nothing for an empty map *)
  Definition set_meta_map (f : string) (m : Generators.dict) (n : node) : res node :=
    match n with
    | Map kvs =>
        match find_field "metadata" kvs with
        | Some (Map mkvs) =>
            Ok (Map (set_first "metadata" (Map (remove_first f mkvs ++ meta_map_field f m)%list) kvs))
        | _ => Err
        end
    | _ => Err
    end.

  (* RNode.SetNamespace: the field is dropped for an empty namespace *)
  Definition set_namespace (ns : string) (n : node) : res node :=
    if String.eqb ns "" then do r <- clear_at [PKey "metadata"] "namespace" n; Ok (fst r)
    else do r <- put nonstr [PKey "metadata"] "namespace" (Scalar TNone SPlain ns) n; Ok (fst r).

  (* RNode.SetDataMap / SetBinaryDataMap: Clear, then LoadMapInto...Data (sorted keys, !!str values) *)
  Definition set_top_map (f : string) (m : Generators.dict) (n : node) : res node :=
    match n with
    | Map kvs =>
        Ok (Map (remove_first f kvs ++
                 match m with
                 | [] => []
                 | _ => [(f, Map (map (fun kv => (fst kv, str_node (snd kv))) m))]
                 end)%list)
    | _ => Err
    end.

  (* Resource.CopyMergeMetaDataFieldsFrom(old): labels and (user) annotations of old overridden by r's, name and
     namespace of old; every build annotation comes from old, the hash request survives only if both have it *)
  Definition copy_merge_meta (r old : resource) : res resource :=
    do n1 <- set_meta_map "labels"
               (Generators.dict_override (node_pairs (meta_field "labels" (r_node old)))
                                         (node_pairs (meta_field "labels" (r_node r)))) (r_node r);
    do n2 <- set_meta_map "annotations"
               (Generators.dict_override (node_pairs (meta_field "annotations" (r_node old)))
                                         (node_pairs (meta_field "annotations" (r_node r)))) n1;
    do n3 <- set_name nonstr (get_name (r_node old)) n2;
    do n4 <- set_namespace (get_namespace (r_node old)) n3;
    Ok (mkRes n4 (r_pnames old) (r_pnss old) (r_pkinds old) (r_prefixes old) (r_suffixes old)
              (r_needs_hash old && r_needs_hash r)).

  (* Resource.MergeDataMapFrom / MergeBinaryDataMapFrom: entries of r win; a key r defines in the other map is dropped
     from the old object's map (a key lives in only one of data / binaryData) *)
  Definition merge_data_from (r old : resource) : res resource :=
    do n1 <- set_top_map "data"
               (Generators.dict_override
                  (Generators.dict_without (node_pairs (map_field_value "data" (r_node old)))
                                           (node_pairs (map_field_value "binaryData" (r_node r))))
                  (node_pairs (map_field_value "data" (r_node r)))) (r_node r);
    do n2 <- set_top_map "binaryData"
               (Generators.dict_override
                  (Generators.dict_without (node_pairs (map_field_value "binaryData" (r_node old)))
                                           (node_pairs (map_field_value "data" n1)))
                  (node_pairs (map_field_value "binaryData" (r_node r)))) n1;
    Ok (with_node r n2).

  (* resWrangler.Replace: the unique resource with r's current id *)
  Definition index_of_cur (id : resid) (m : list resource) : res (option nat) :=
    match Generators.indices (fun x => id_equals id (cur_id pipe_cs x)) m with
    | [] => Ok None
    | [i] => Ok (Some i)
    | _ => Err
    end.

  Definition absorb (m : list resource) (b : Generators.behavior) (r : resource) : res (list resource) :=
    do ms <- matching_any (cur_id pipe_cs r) 0 m;
    match Generators.absorb_action (List.length ms) b with
    | Generators.AAppend => append_one pipe_cs m r
    | Generators.AReplace | Generators.AMerge =>
        match ms with
        | [i] =>
            match nth_error m i with
            | Some old =>
                do r1 <- copy_merge_meta r old;
                do r2 <- match Generators.absorb_action (List.length ms) b with
                         | Generators.AMerge => merge_data_from r1 old
                         | _ => Ok r1
                         end;
                do j <- index_of_cur (cur_id pipe_cs r2) m;
                match j with
                | Some j' => if Nat.eqb j' i then Ok (replace_nth i r2 m) else Err
                | None => Err
                end
            | None => Err
            end
        | _ => Err
        end
    | Generators.AError | Generators.AUnclassified => Err
    end.

  (* runGenerators: every configMapGenerator entry, then every secretGenerator entry (generated order),
     each absorbed in turn *)
  Fixpoint run_gens (go : option pgopts) (secret : bool) (gens : list pgen) (m : list resource)
    : res (list resource) :=
    match gens with
    | [] => Ok m
    | g :: t =>
        do r <- gen_resource secret (merge_genopts go g);
        do m' <- absorb m (Generators.new_behavior (pg_behavior g)) r;
        run_gens go secret t m'
    end.

  Fixpoint run_generator_kinds (kinds : list string) (d : pdirs) (m : list resource) : res (list resource) :=
    match kinds with
    | [] => Ok m
    | k :: t =>
        do m' <- (if String.eqb k "ConfigMapGenerator" then run_gens (pd_genopts d) false (pd_cmgens d) m
                  else if String.eqb k "SecretGenerator" then run_gens (pd_genopts d) true (pd_secgens d) m
                  else Ok m);
        run_generator_kinds t d m'
    end.

  Definition run_generators (d : pdirs) (m : list resource) : res (list resource) :=
    run_generator_kinds gen_generator_order d m.

  (* ---------- transformers ---------- *)

  (* NamespaceTransformerPlugin.Transform: per resource StorePreviousId, namespace.Filter (Res/Namespace.v,
     default mode), then the id-conflict test against the whole map *)
  Definition ns_config (ns : string) : Namespace.ns_config :=
    Namespace.mkNs ns gen_namespace_fs false Namespace.RBDefault.

  Definition ns_one (ns : string) (r : resource) : res resource :=
    let r1 := store_previous_id pipe_cs r in
    do n' <- Namespace.ns_filter gen_ns_scope (ns_config ns) (r_node r1);
    Ok (with_node r1 n').

  Fixpoint ns_loop (ns : string) (done todo : list resource) : res (list resource) :=
    match todo with
    | [] => Ok done
    | r :: t =>
        if nil_or_empty (r_node r) then ns_loop ns (done ++ [r])%list t else
        do r2 <- ns_one ns r;
        if Nat.eqb (count_id pipe_cs (cur_id pipe_cs r2) (done ++ r2 :: t)%list) 1
        then ns_loop ns (done ++ [r2])%list t
        else Err
    end.
  Definition namespace_transform (ns : string) (m : list resource) : res (list resource) :=
    if String.eqb ns "" then Ok m else ns_loop ns [] m.

  (* LabelTransformerPlugin / AnnotationsTransformerPlugin.Transform: nothing for an empty map *)
  Definition label_transform (labels : pairs) (fss : list fieldspec) (m : list resource) : res (list resource) :=
    match labels with
    | [] => Ok m
    | _ => map_nodes (Labels.label_filter nonstr labels fss) m
    end.

  Fixpoint label_transforms (lts : list (pairs * list fieldspec)) (m : list resource) : res (list resource) :=
    match lts with
    | [] => Ok m
    | (p, fss) :: t => do m' <- label_transform p fss m; label_transforms t (drop_empties m')
    end.

  (* ReplicaCountTransformerPlugin.Transform (one plugin per `replicas:` entry, field specs tc.Replicas): per field
     spec the resources matched by ANY id (name + Gvk.IsSelected) are collected first, then the filter
     (Res/Replica.replica_filter) runs on each; an entry that matches nothing is an error *)
  Definition replica_hits (rp : Replica.replica) (fs : fieldspec) (r : resource) : res bool :=
    if nil_or_empty (r_node r) then Ok false else
    do prev <- prev_ids r;
    Ok (existsb (fun id => String.eqb (id_name id) (Replica.rp_name rp) && gvk_is_selected (id_gvk id) (fsgvk fs))
                (prev ++ [cur_id pipe_cs r])%list).

  Fixpoint replica_apply (rp : Replica.replica) (fs : fieldspec) (m : list resource) (hits : list bool)
    : res (list resource) :=
    match m, hits with
    | r :: t, h :: ht =>
        do r' <- (if h then do n <- Replica.replica_filter rp fs (r_node r); Ok (with_node r n) else Ok r);
        do t' <- replica_apply rp fs t ht;
        Ok (r' :: t')
    | _, _ => Ok m
    end.

  Fixpoint replica_loop (rp : Replica.replica) (fss : list fieldspec) (found : bool) (m : list resource)
    : res (bool * list resource) :=
    match fss with
    | [] => Ok (found, m)
    | fs :: t =>
        do hits <- mapM (replica_hits rp fs) m;
        do m' <- replica_apply rp fs m hits;
        replica_loop rp t (found || existsb (fun b => b) hits) m'
    end.

  Definition replica_transform (rp : Replica.replica) (m : list resource) : res (list resource) :=
    do r <- replica_loop rp gen_replicas_fs false m;
    if fst r then Ok (snd r) else Err.

  Fixpoint replicas_transform (rps : list Replica.replica) (m : list resource) : res (list resource) :=
    match rps with
    | [] => Ok m
    | rp :: t => do m' <- replica_transform rp m; replicas_transform t (drop_empties m')
    end.

  (* ImageTagTransformerPlugin.Transform (one plugin per `images:` entry, field specs tc.Images): the legacy filter
     over every resource, then the field-spec filter over every resource (Res/Image.v).  The compiled pattern is the
     one the code builds for the (quoted) entry name: [Image.img_re], the shape C10 checks against Go's parser. *)
  Definition img_parse (name : string) (pat : string) : option Regex.re :=
    match Image.img_pattern name with
    | Some p => if String.eqb p pat then Some (Image.img_re name) else None
    | None => None
    end.

  Definition image_transform (im : Image.image) (m : list resource) : res (list resource) :=
    do m1 <- map_nodes (Image.legacy_filter (img_parse (Image.im_name im)) im) m;
    map_nodes (Image.image_fs_filter (img_parse (Image.im_name im)) im gen_images_fs) m1.

  Fixpoint images_transform (ims : list Image.image) (m : list resource) : res (list resource) :=
    match ims with
    | [] => Ok m
    | im :: t => do m' <- image_transform im m; images_transform t (drop_empties m')
    end.

  Definition label_dirs (d : pdirs) : Labels.dirs :=
    Labels.mkDirs (pd_labels d) (pd_common_labels d) (pd_common_annos d).

  (* ResId == ResId (Go struct equality: the isClusterScoped flag included) *)
  Definition resid_raw_eqb (a b : resid) : bool :=
    String.eqb (id_name a) (id_name b) && String.eqb (id_ns a) (id_ns b) &&
    String.eqb (g_group (id_gvk a)) (g_group (id_gvk b)) && String.eqb (g_version (id_gvk a)) (g_version (id_gvk b)) &&
    String.eqb (g_kind (id_gvk a)) (g_kind (id_gvk b)) && Bool.eqb (g_cs (id_gvk a)) (g_cs (id_gvk b)).

  (* ---------- patches: (PatchTransformerPlugin, strategic-merge form) ----------
     One PatchTransformer per entry.  The target documents the Go code merges into carry the build annotations
     inside metadata.annotations; this model keeps them beside the document, so the document is materialised
     before Select / merge2 and the annotations are read back afterwards: a patch that replaces or deletes
     metadata.annotations loses the rename history exactly as the implementation does. *)
  Definition build_annos (r : resource) : pairs :=
    let opt k (o : option string) := match o with Some v => [(k, v)] | None => [] end in
    (opt "internal.config.kubernetes.io/previousKinds" (r_pkinds r) ++
     opt "internal.config.kubernetes.io/previousNames" (r_pnames r) ++
     opt "internal.config.kubernetes.io/prefixes" (r_prefixes r) ++
     opt "internal.config.kubernetes.io/suffixes" (r_suffixes r) ++
     opt "internal.config.kubernetes.io/previousNamespaces" (r_pnss r) ++
     (if r_needs_hash r then [("internal.config.kubernetes.io/needsHashSuffix", "enabled")] else []))%list.
  Definition build_keys : list string :=
    ["internal.config.kubernetes.io/previousKinds"; "internal.config.kubernetes.io/previousNames";
     "internal.config.kubernetes.io/prefixes"; "internal.config.kubernetes.io/suffixes";
     "internal.config.kubernetes.io/previousNamespaces"; "internal.config.kubernetes.io/needsHashSuffix"].

  (* the document as the Go Resource holds it *)
  Definition materialize (r : resource) : node :=
    match build_annos r with
    | [] => r_node r
    | ba =>
        match r_node r with
        | Map kvs =>
            match find_field "metadata" kvs with
            | Some (Map mkvs) =>
                let extra := map (fun kv => (fst kv, str_node (snd kv))) ba in
                let mkvs' := match find_field "annotations" mkvs with
                             | Some (Map a) => set_first "annotations" (Map (a ++ extra)%list) mkvs
                             | _ => (remove_first "annotations" mkvs ++ [("annotations", Map extra)])%list
                             end in
                Map (set_first "metadata" (Map mkvs') kvs)
            | _ => r_node r
            end
        | _ => r_node r
        end
    end.

  (* ... and back: the build annotations leave the document (the field with them when nothing else is in it) *)
  Definition absorb_annos (n : node) : resource :=
    match n with
    | Map kvs =>
        match find_field "metadata" kvs with
        | Some (Map mkvs) =>
            match find_field "annotations" mkvs with
            | Some (Map a) =>
                let get k := match find_field k a with Some v => Some (node_value v) | None => None end in
                let rest := filter (fun kv => negb (str_in (fst kv) build_keys)) a in
                if Nat.eqb (List.length rest) (List.length a) then load n else
                let mkvs' := match rest with
                             | [] => remove_first "annotations" mkvs
                             | _ => set_first "annotations" (Map rest) mkvs
                             end in
                mkRes (Map (set_first "metadata" (Map mkvs') kvs))
                      (get "internal.config.kubernetes.io/previousNames")
                      (get "internal.config.kubernetes.io/previousNamespaces")
                      (get "internal.config.kubernetes.io/previousKinds")
                      (get "internal.config.kubernetes.io/prefixes")
                      (get "internal.config.kubernetes.io/suffixes")
                      (match get "internal.config.kubernetes.io/needsHashSuffix" with
                       | Some v => String.eqb v "enabled"
                       | None => false
                       end)
            | _ => load n
            end
        | _ => load n
        end
    | _ => load n
    end.

  Definition nil_doc : node := Scalar TNull SPlain "".     (* Resource.SetYNode(nil) *)

  (* Resource.ApplySmPatch (no allowNameChange / allowKindChange options): patchstrategicmerge.Filter, then kind, name
     and namespace of the target restored (w-c04's Yaml/Merge2Identity.apply_sm_patch) *)
  Definition apply_sm (sch : SchemaTable.sroots) (patch : node) (r : resource) : res resource :=
    do o <- Merge2Identity.apply_sm_patch (SchemaTable.tree_schema sch) WalkTables.gen_assoc_keys nonstr patch (materialize r);
    match o with
    | None => Ok (load nil_doc)
    | Some x => Ok (absorb_annos x)
    end.

  (* resWrangler.ApplySmPatch prepares a copy of the patch per selected resource: CopyMergeMetaDataFieldsFrom(patch)
     (labels / annotations rebuilt: sorted, !!str; name and namespace rewritten; errors dropped), SetGvk(target gvk),
     SetKind(patch kind) *)
  Definition set_api_version (v : string) (n : node) : node :=
    match put nonstr [] "apiVersion" (Scalar TNone SPlain v) n with Ok (n', _) => n' | _ => n end.
  Definition patch_copy_for (patch target : node) : node :=
    let pr := load patch in
    let p1 := match copy_merge_meta pr pr with Ok x => r_node x | _ => patch end in
    let tg := cur_gvk pipe_cs target in
    let p2 := Merge2Identity.set_kind nonstr (g_kind tg) p1 in
    let p3 := set_api_version (Namespace.gvk_api_version (g_group tg) (g_version tg)) p2 in
    Merge2Identity.set_kind nonstr (get_kind patch) p3.

  Definition sel_cs (g : Selector.gvk) : bool :=
    pipe_cs (Namespace.gvk_api_version (Selector.g_group g) (Selector.g_version g)) (Selector.g_kind g).

  (* resWrangler.ApplySmPatch(selectedSet, patch): the id set is compared with CurId; what is nil or empty afterwards
     is dropped and the rest re-appended (id conflicts are errors) *)
  Fixpoint apply_selected (sch : SchemaTable.sroots) (ids : list resid) (patch : node) (m : list resource) : res (list resource) :=
    match m with
    | [] => Ok []
    | r :: t =>
        do r' <- (if existsb (resid_raw_eqb (cur_id pipe_cs r)) ids
                  then apply_sm sch (patch_copy_for patch (r_node r)) r else Ok r);
        do t' <- apply_selected sch ids patch t;
        Ok (if nil_or_empty (r_node r') then t' else r' :: t')
    end.
  Definition apply_to_set (sch : SchemaTable.sroots) (ids : list resid) (patch : node) (m : list resource) : res (list resource) :=
    do l <- apply_selected sch ids patch m;
    append_all pipe_cs [] l.

  (* no target: every document of the patch goes to the unique resource one of whose ids equals the patch's id
     (GetById(patch.OrgId())), directly (no copy, nothing dropped here) *)
  Fixpoint patch_by_id (sch : SchemaTable.sroots) (docs : list node) (m : list resource) : res (list resource) :=
    match docs with
    | [] => Ok m
    | p :: t =>
        do ms <- matching_any (cur_id pipe_cs (load p)) 0 m;
        match ms with
        | [i] =>
            match nth_error m i with
            | Some r => do r' <- apply_sm sch p r; patch_by_id sch t (replace_nth i r' m)
            | None => Err
            end
        | _ => Err
        end
    end.

  Definition patch_transform (p : ppatch) (m : list resource) : res (list resource) :=
    match pp_target p with
    | Some s =>
        match pp_docs p with
        | [patch] =>
            do idx <- Selector.select RegexParse.re_parse sel_cs Selector.simple_lsel s (map materialize m);
            let ids := flat_map (fun i => match nth_error m i with Some r => [cur_id pipe_cs r] | None => [] end) idx in
            apply_to_set (pp_schema p) ids patch m
        | _ => Err
        end
    | None => patch_by_id (pp_schema p) (pp_docs p) m
    end.

  (* one transformer per entry; the multiTransformer drops the empties after each *)
  Fixpoint patches_transform (ps : list ppatch) (m : list resource) : res (list resource) :=
    match ps with
    | [] => Ok m
    | p :: t => do m' <- patch_transform p m; patches_transform t (drop_empties m')
    end.

  (* one builtin transformer kind of the generated order, as configured from the directives of [d] *)
  Definition run_kind (k : string) (d : pdirs) (m : list resource) : res (list resource) :=
    if String.eqb k "PatchTransformer" then patches_transform (pd_patches d) m
    else if String.eqb k "NamespaceTransformer" then namespace_transform (pd_ns d) m
    else if String.eqb k "PrefixTransformer" then
      prefix_transform pipe_cs gen_name_prefix_fs gen_prefix_skip (pd_prefix d) m
    else if String.eqb k "SuffixTransformer" then
      suffix_transform pipe_cs gen_name_suffix_fs gen_suffix_skip (pd_suffix d) m
    else if String.eqb k "LabelTransformer" then
      do lts <- Labels.label_transformers LabelsDefaults.default_tc (label_dirs d); label_transforms lts m
    else if String.eqb k "AnnotationsTransformer" then
      label_transform (pd_common_annos d) gen_common_annotations_fs m
    else if String.eqb k "ReplicaCountTransformer" then replicas_transform (pd_replicas d) m
    else if String.eqb k "ImageTagTransformer" then images_transform (pd_images d) m
    else Ok m.

  (* runTransformers: configureBuiltinTransformers (every configurator runs first: a label field-spec merge
     conflict fails the build before any transformer ran) then the multiTransformer *)
  Fixpoint run_order (ks : list string) (d : pdirs) (m : list resource) : res (list resource) :=
    match ks with
    | [] => Ok m
    | k :: t => do m' <- run_kind k d m; run_order t d (drop_empties m')
    end.

  Definition run_transformers (d : pdirs) (m : list resource) : res (list resource) :=
    do _ <- Labels.label_transformers LabelsDefaults.default_tc (label_dirs d);
    run_order gen_transformer_order d m.

  (* ---------- accumulation ---------- *)

  (* Kustomization.CheckEmpty: a kustomization file without any field is rejected (the harness writes a
     field exactly when it is non-empty) *)
  Definition dirs_empty (d : pdirs) : bool :=
    String.eqb (pd_ns d) "" && String.eqb (pd_prefix d) "" && String.eqb (pd_suffix d) "" &&
    match pd_labels d, pd_common_labels d, pd_common_annos d with [], [], [] => true | _, _, _ => false end &&
    match pd_cmgens d, pd_secgens d with [], [] => true | _, _ => false end &&
    match pd_genopts d with None => true | Some _ => false end &&
    match pd_replicas d, pd_images d with [], [] => true | _, _ => false end &&
    match pd_patches d with [] => true | _ => false end.
  Definition is_empty_kust (d : pdirs) (ents : list ptree) : bool :=
    match ents with [] => dirs_empty d | _ => false end.

  (* accumulateResources: entries in order, each result appended with the id-collision check
     (AppendAll for a file, MergeAccumulator for a directory) *)
  Definition acc_list (f : ptree -> res (list resource))
    : list ptree -> list resource -> res (list resource) :=
    fix go (l : list ptree) (acc : list resource) : res (list resource) :=
      match l with
      | [] => Ok acc
      | e :: t => do sub <- f e; do acc' <- append_all pipe_cs acc sub; go t acc'
      end.

  (* accumulateFile (rFactory.FromFile builds a ResMap: same check) / accumulateTarget of a directory *)
  Fixpoint accumulate (t : ptree) : res (list resource) :=
    match t with
    | PFile docs => append_all pipe_cs [] (map load docs)
    | PDir _ d ents =>
        if is_empty_kust d ents then Err else
        do m0 <- acc_list accumulate ents [];
        do m1 <- run_generators d m0;
        run_transformers d m1
    end.

  (* ---------- the steps done once, at the top ---------- *)

  (* what api/hasher reads of a ConfigMap / Secret document *)
  Definition node_dict (o : option node) : option Generators.dict :=
    match o with
    | Some (Map kvs) => Some (Generators.dict_of_pairs (map (fun kv => (fst kv, node_value (snd kv))) kvs))
    | _ => None
    end.
  Definition content_of_node (n : node) : Hash.content :=
    Hash.mkContent (String.eqb (get_kind n) "Secret")
                   (node_dict (map_field_value "data" n))
                   (match node_dict (map_field_value "binaryData" n) with Some b => b | None => [] end)
                   (match map_field_value "type" n with Some t => node_value t | None => "" end).

  (* HashTransformerPlugin.Transform on one resource (only generated ConfigMaps / Secrets ask for a hash) *)
  Definition hash_res (r : resource) : res resource :=
    if r_needs_hash r then
      if String.eqb (get_kind (r_node r)) "ConfigMap" || String.eqb (get_kind (r_node r)) "Secret" then
        do h <- Hash.hash_content (content_of_node (r_node r));
        hash_one pipe_cs nonstr h r
      else Err
    else Ok r.

  (* the re-check at the end of HashTransformerPlugin.Transform (fix "HashTransformer checks that the hash-suffixed names
     do not collide with the id of another resource"): the id of every renamed resource occurs exactly once *)
  Definition hash_check (m1 : list resource) : res unit :=
    if forallb (fun r => negb (r_needs_hash r) || Nat.eqb (count_id pipe_cs (cur_id pipe_cs r) m1) 1) m1
    then Ok tt else Err.

  (* SortOrderTransformerPlugin.Transform: legacy = sort by (gvk rank, gvk, namespace, name) then re-Append *)
  Definition rid_of (r : resource) : LegacySort.rid :=
    let id := cur_id pipe_cs r in
    LegacySort.mkId (LegacySort.mkGvk (g_group (id_gvk id)) (g_version (id_gvk id)) (g_kind (id_gvk id)))
                    (id_ns id) (id_name id).
  Definition res_less (first last : list string) (a b : resource) : bool :=
    LegacySort.legacy_less_g LegacyOrder.gen_ns_reversal_guarded first last (rid_of a) (rid_of b).
  Definition sort_resources (o : psort) (m : list resource) : res (list resource) :=
    match o with
    | PSortNone | PSortFifo => Ok m
    | PSortLegacy first last => append_all pipe_cs [] (@SortFacts.isort resource (res_less first last) m)
    end.

  (* Resource.RemoveBuildAnnotations (+ origin / transformer annotations, nothing requested): the build
     annotations of this model live beside the document; what is left in the document is rewritten by
     SetAnnotations: keys sorted, values !!str, the field dropped when nothing remains *)
  Definition annos_of (n : node) : pairs :=
    match get_meta n with
    | Some (Map mkvs) =>
        match find_field "annotations" mkvs with
        | Some (Map a) => map (fun kv => (fst kv, node_value (snd kv))) a
        | _ => []
        end
    | _ => []
    end.
  Definition strip_node (n : node) : node :=
    match annos_of n with
    | [] => n
    | a =>
        match n with
        | Map kvs =>
            match find_field "metadata" kvs with
            | Some (Map mkvs) =>
                let m' := remove_first "annotations" mkvs in
                let kept := Hygiene.strip_run [] a in
                Map (set_first "metadata" (Map (m' ++ meta_map_field "annotations" kept)%list) kvs)
            | _ => n
            end
        | _ => n
        end
    end.

  (* KustTarget.IgnoreLocal: DropLocalNodes (GetValidatedMetadata of every non-empty document, then the
     local-config annotation), Append of what is kept to a fresh ResMap - an id collision is an ERROR
     (/repo 66fde0c; it was a panic in Factory.FromResourceSlice) - and ResAccumulator.Intersection: every resource whose id (compared with ==) is not among the kept ones is
     Removed, and Remove fails unless exactly one resource carries that id *)
  Definition validated_meta_ok (n : node) : bool :=
    negb (String.eqb (get_kind n) "") &&
    (has_suffix "List" (get_kind n) || negb (String.eqb (get_name n) "")).

  Definition is_local (n : node) : bool :=
    match Generators.dict_get "config.kubernetes.io/local-config" (node_pairs (meta_field "annotations" n)) with
    | Some v => negb (String.eqb v "false")
    | None => false
    end.

  Fixpoint remove_loop (ids kept : list resid) (cur : list resource) : res (list resource) :=
    match ids with
    | [] => Ok cur
    | id :: t =>
        if existsb (resid_raw_eqb id) kept then remove_loop t kept cur
        else
          let cur' := filter (fun r => negb (resid_raw_eqb (cur_id pipe_cs r) id)) cur in
          if Nat.eqb (S (List.length cur')) (List.length cur) then remove_loop t kept cur' else Err
    end.

  Definition ignore_local (m : list resource) : res (list resource) :=
    let nonempty := filter (fun r => negb (nil_or_empty (r_node r))) m in
    if negb (forallb (fun r => validated_meta_ok (r_node r)) nonempty) then Err else
    let kept := filter (fun r => negb (is_local (r_node r))) nonempty in
    match append_all pipe_cs [] kept with
    | Ok _ => remove_loop (map (cur_id pipe_cs) m) (map (cur_id pipe_cs) kept) m
    | Diverge => Diverge
    | _ => Err                                     (* Append of the kept resources: the id conflict is an error
                                                      (/repo 66fde0c; Factory.FromResourceSlice used to panic) *)
    end.

  (* krusty.Run (default options, no buildMetadata, default openapi) *)
  Definition build (o : psort) (t : ptree) : res (list node) :=
    match t with
    | PFile _ => Err                                   (* a build target is a kustomization directory *)
    | PDir _ _ _ =>
        do m <- accumulate t;
        do m1 <- mapM hash_res m;                      (* addHashesToNames *)
        do _ <- hash_check m1;                         (*   ... and its id re-check *)
        do rules <- pipe_rules;
        do m2 <- nameref_transform pipe_cs nonstr rules m1;      (* FixBackReferences *)
        do m2l <- ignore_local m2;                     (* IgnoreLocal *)
        do m3 <- sort_resources o m2l;                 (* applySortOrder *)
        Ok (map (fun r => strip_node (r_node r)) m3)   (* RemoveBuildAnnotations *)
    end.
  (* ---------- the name-reference pass under an arbitrary map-iteration order ----------
     nameReferenceTransformer.Transform ranges over a POINTER-KEYED map (filterMap): Go visits the referrers
     in an unspecified order.  [nameref_transform] (Res/NameRef.v) visits them in list order; this is the
     same pass with the visiting order as a parameter: positions of the resource list, each visit reading the
     CURRENT map (candidates are live pointers) and replacing only the referrer it visits.  The filters
     (determineFilters: the original ids) are computed before the first visit, as in Go. *)
  Definition visit_core (rules : list nbr) (orgs : list resid) (m : list resource) (i : nat)
    : res (option resource) :=
    match nth_error m i, nth_error orgs i with
    | Some r, Some org =>
        match filters_for rules org with
        | [] => Ok None
        | fl =>
            do flags <- referencable pipe_cs m r;
            do r' <- apply_rules pipe_cs nonstr (firstn i m) (skipn (S i) m) flags fl r;
            Ok (Some r')
        end
    | _, _ => Ok None
    end.

  Definition visit_at (rules : list nbr) (orgs : list resid) (m : list resource) (i : nat)
    : res (list resource) :=
    do o <- visit_core rules orgs m i;
    Ok (match o with Some r' => replace_nth i r' m | None => m end).

  Fixpoint visit_order (rules : list nbr) (orgs : list resid) (order : list nat) (m : list resource)
    : res (list resource) :=
    match order with
    | [] => Ok m
    | i :: t => do m' <- visit_at rules orgs m i; visit_order rules orgs t m'
    end.

  Definition nameref_in_order (rules : list nbr) (order : list nat) (m : list resource) : res (list resource) :=
    do orgs <- mapM (org_id pipe_cs) m;
    visit_order rules orgs order m.
End Pipeline.

(* ---------- the metamorphic transformations of the whole-build theorems ---------- *)

(* an overlay that merely lists the kustomization as its only resource *)
Definition wrap (name : string) (t : ptree) : ptree := PDir name no_dirs [t].

(* renaming of kustomization directories *)
Fixpoint rename_dirs (f : string -> string) (t : ptree) : ptree :=
  match t with
  | PFile docs => PFile docs
  | PDir n d ents => PDir (f n) d (map (rename_dirs f) ents)
  end.

(* the documents read by a build, in accumulation order *)
Fixpoint inputs (t : ptree) : list node :=
  match t with
  | PFile docs => docs
  | PDir _ _ ents => flat_map inputs ents
  end.
