(* The legacy comparator, exactly (C11):
   - on valid ids legacyIDSorter.Less is a strict total order on an id set  <->  no kind other than Namespace
     that shares Namespace's rank "straddles" a reversed pair of Namespace kinds ([straddle_free_b]);
   - for arbitrary ids the decidable guard [total_on_b] is exact (<-> pairwise distinct and strictly totally
     ordered), and under it the sorted output is independent of the input order and of the algorithm;
   - the comparator with the rank guard of the proposed repair ([legacy_less_g true]) is a strict total order
     on valid ids for ALL order lists. *)
From KV Require Import Res.LegacySort Res.LegacySortProofs.
From Coq Require Import Sorting.Permutation Sorting.Sorted.
Open Scope string_scope.

(* ---------- the rank table is injective on listed kinds ---------- *)

Lemma last_index_spec : forall k l s i, last_index k l s = Some i ->
  (s <= i)%Z /\ (i < s + Z.of_nat (List.length l))%Z /\ nth_error l (Z.to_nat (i - s)) = Some k.
Proof.
  induction l as [|x t IH]; intros s i H; simpl in H; try discriminate.
  destruct (last_index k t (s + 1)%Z) eqn:E.
  - inversion H; subst. destruct (IH _ _ E) as (A & B & C).
    cbn [List.length]. rewrite Nat2Z.inj_succ. repeat split; try lia.
    replace (Z.to_nat (i - s)) with (S (Z.to_nat (i - (s + 1)))) by lia. exact C.
  - destruct (String.eqb_spec x k); try discriminate. inversion H; subst.
    cbn [List.length]. rewrite Nat2Z.inj_succ. repeat split; try lia.
    replace (Z.to_nat (i - i)) with O by lia. reflexivity.
Qed.

Lemma type_order_listed_inj : forall first last k1 k2,
  type_order first last k1 = type_order first last k2 -> type_order first last k1 <> 0%Z -> k1 = k2.
Proof.
  intros first last k1 k2 E N. unfold type_order in *.
  destruct (last_index k1 last 0) as [i1|] eqn:L1; destruct (last_index k2 last 0) as [i2|] eqn:L2.
  - apply last_index_spec in L1, L2. destruct L1 as (_ & _ & A), L2 as (_ & _ & B).
    assert (i1 = i2) by lia. subst. congruence.
  - exfalso. apply last_index_spec in L1. destruct L1 as (A & _ & _).
    destruct (last_index k2 first 0) as [j|] eqn:F2; [apply last_index_spec in F2; lia | lia].
  - exfalso. apply last_index_spec in L2. destruct L2 as (A & _ & _).
    destruct (last_index k1 first 0) as [j|] eqn:F1; [apply last_index_spec in F1; lia | lia].
  - destruct (last_index k1 first 0) as [j1|] eqn:F1; [|congruence].
    destruct (last_index k2 first 0) as [j2|] eqn:F2.
    + apply last_index_spec in F1, F2. destruct F1 as (_ & _ & A), F2 as (_ & _ & B).
      assert (j1 = j2) by lia. subst. congruence.
    + exfalso. apply last_index_spec in F1. lia.
Qed.

Section Exact.
  Variable first last : list string.

  Notation rank := (type_order first last).
  Notation gless := (gvk_less_than first last).
  Notation less := (legacy_less first last).
  Notation G := legacy_gvk_sort_string.
  Notation strad := (straddles first last).

  Lemma ns_special_eq : forall a b, ns_special a b = special a b.
  Proof. reflexivity. Qed.

  Lemma G_neq : forall a b, valid_groups a = true -> valid_groups b = true -> a <> b -> G a <> G b.
  Proof. intros a b Va Vb N X. apply N. apply gvk_sort_string_inj; auto. Qed.

  Lemma sltb_cases : forall a b, a <> b -> sltb a b = false -> sltb b a = true.
  Proof. intros a b N F. destruct (sltb_total a b N); congruence. Qed.

  (* transitivity for a triple of gvks none of whose members straddles a reversed pair of the other two *)
  Lemma gless_trans_sf : forall a b c,
    valid_groups a = true -> valid_groups b = true -> valid_groups c = true ->
    strad b c a = false -> strad c b a = false ->
    strad a c b = false -> strad c a b = false ->
    strad a b c = false -> strad b a c = false ->
    gless a b = true -> gless b c = true -> gless a c = true.
  Proof.
    intros a b c Va Vb Vc Sbca Scba Sacb Scab Sabc Sbac. rewrite !gless_unfold.
    destruct (Z.eqb (rank (g_kind a)) (rank (g_kind b))) eqn:Eab; simpl.
    2:{ intros H1. apply Z.ltb_lt in H1.
        destruct (Z.eqb (rank (g_kind b)) (rank (g_kind c))) eqn:Ebc; simpl.
        - apply Z.eqb_eq in Ebc. intros _.
          replace (Z.eqb (rank (g_kind a)) (rank (g_kind c))) with false by (symmetry; apply Z.eqb_neq; lia).
          simpl. apply Z.ltb_lt. lia.
        - intros H2. apply Z.ltb_lt in H2.
          replace (Z.eqb (rank (g_kind a)) (rank (g_kind c))) with false by (symmetry; apply Z.eqb_neq; lia).
          simpl. apply Z.ltb_lt. lia. }
    apply Z.eqb_eq in Eab.
    destruct (Z.eqb (rank (g_kind b)) (rank (g_kind c))) eqn:Ebc; simpl.
    2:{ intros _ H2. apply Z.ltb_lt in H2.
        replace (Z.eqb (rank (g_kind a)) (rank (g_kind c))) with false by (symmetry; apply Z.eqb_neq; lia).
        simpl. apply Z.ltb_lt. lia. }
    apply Z.eqb_eq in Ebc.
    replace (Z.eqb (rank (g_kind a)) (rank (g_kind c))) with true by (symmetry; apply Z.eqb_eq; lia).
    simpl.
    unfold straddles in *. rewrite !ns_special_eq in *.
    destruct (String.eqb_spec (g_kind a) namespace_kind) as [Ka|Ka];
      destruct (String.eqb_spec (g_kind b) namespace_kind) as [Kb|Kb];
      destruct (String.eqb_spec (g_kind c) namespace_kind) as [Kc|Kc].
    - (* all three are Namespace kinds *)
      unfold special. rewrite Ka, Kb, Kc, String.eqb_refl. simpl.
      destruct (String.eqb_spec (g_group a) "") as [Ga|Ga];
        destruct (String.eqb_spec (g_group b) "") as [Gb|Gb];
        destruct (String.eqb_spec (g_group c) "") as [Gc|Gc]; simpl; intros H1 H2.
      + eapply sltb_trans; eauto.
      + apply G_grouped_below_core; auto.
      + rewrite (sltb_asym _ _ (G_grouped_below_core c b Vb Gc Gb)) in H2. discriminate.
      + apply G_grouped_below_core; auto.
      + rewrite (sltb_asym _ _ (G_grouped_below_core b a Va Gb Ga)) in H1. discriminate.
      + rewrite (sltb_asym _ _ (G_grouped_below_core b a Va Gb Ga)) in H1. discriminate.
      + rewrite (sltb_asym _ _ (G_grouped_below_core c b Vb Gc Gb)) in H2. discriminate.
      + eapply sltb_trans; eauto.
    - (* c is the other kind *)
      assert (Nac : a <> c) by (intros X; subst; contradiction).
      assert (Nbc : b <> c) by (intros X; subst; contradiction).
      assert (Rc : Z.eqb (rank (g_kind c)) (rank namespace_kind) = true)
        by (apply Z.eqb_eq; rewrite <- Ebc, Kb; reflexivity).
      replace (special a c) with false by (unfold special; rewrite (proj2 (String.eqb_neq _ _) Kc), andb_false_r; auto).
      replace (special b c) with false by (unfold special; rewrite (proj2 (String.eqb_neq _ _) Kc), andb_false_r; auto).
      rewrite Rc in Sabc, Sbac. simpl in Sabc, Sbac.
      destruct (special a b) eqn:Sp; intros H1 H2.
      + (* G b < G a, G b < G c; if G c < G a then c straddles (a, b) *)
        destruct (sltb (G a) (G c)) eqn:L; auto.
        apply sltb_cases in L; [|apply G_neq; auto].
        try rewrite Sp in Sabc. rewrite H2, L in Sabc. discriminate.
      + eapply sltb_trans; eauto.
    - (* b is the other kind: it would straddle (c, a) *)
      assert (Rb : Z.eqb (rank (g_kind b)) (rank namespace_kind) = true)
        by (apply Z.eqb_eq; rewrite <- Eab, Ka; reflexivity).
      replace (special a b) with false by (unfold special; rewrite (proj2 (String.eqb_neq _ _) Kb), andb_false_r; auto).
      replace (special b c) with false by (unfold special; rewrite (proj2 (String.eqb_neq _ _) Kb); auto).
      rewrite Rb in Sacb, Scab. simpl in Sacb, Scab.
      destruct (special a c) eqn:Sp; intros H1 H2.
      + try rewrite special_sym in Scab. try rewrite Sp in Scab. rewrite H1, H2 in Scab. discriminate.
      + eapply sltb_trans; eauto.
    - (* b, c other kinds *)
      replace (special a b) with false by (unfold special; rewrite (proj2 (String.eqb_neq _ _) Kb), andb_false_r; auto).
      replace (special b c) with false by (unfold special; rewrite (proj2 (String.eqb_neq _ _) Kb); auto).
      replace (special a c) with false by (unfold special; rewrite (proj2 (String.eqb_neq _ _) Kc), andb_false_r; auto).
      apply sltb_trans.
    - (* a is the other kind *)
      assert (Nab : a <> b) by (intros X; subst; contradiction).
      assert (Nac : a <> c) by (intros X; subst; contradiction).
      assert (Ra : Z.eqb (rank (g_kind a)) (rank namespace_kind) = true)
        by (apply Z.eqb_eq; rewrite Eab, Kb; reflexivity).
      replace (special a b) with false by (unfold special; rewrite (proj2 (String.eqb_neq _ _) Ka); auto).
      replace (special a c) with false by (unfold special; rewrite (proj2 (String.eqb_neq _ _) Ka); auto).
      rewrite Ra in Sbca, Scba. simpl in Sbca, Scba.
      destruct (special b c) eqn:Sp; intros H1 H2.
      + (* G a < G b, G c < G b; if G c < G a then a straddles (b, c) *)
        destruct (sltb (G a) (G c)) eqn:L; auto.
        apply sltb_cases in L; [|apply G_neq; auto].
        try rewrite Sp in Sbca. rewrite L, H1 in Sbca. discriminate.
      + eapply sltb_trans; eauto.
    - replace (special a b) with false by (unfold special; rewrite (proj2 (String.eqb_neq _ _) Ka); auto).
      replace (special b c) with false by (unfold special; rewrite (proj2 (String.eqb_neq _ _) Kc), andb_false_r; auto).
      replace (special a c) with false by (unfold special; rewrite (proj2 (String.eqb_neq _ _) Ka); auto).
      apply sltb_trans.
    - replace (special a b) with false by (unfold special; rewrite (proj2 (String.eqb_neq _ _) Ka); auto).
      replace (special b c) with false by (unfold special; rewrite (proj2 (String.eqb_neq _ _) Kb); auto).
      replace (special a c) with false by (unfold special; rewrite (proj2 (String.eqb_neq _ _) Ka); auto).
      apply sltb_trans.
    - replace (special a b) with false by (unfold special; rewrite (proj2 (String.eqb_neq _ _) Ka); auto).
      replace (special b c) with false by (unfold special; rewrite (proj2 (String.eqb_neq _ _) Kb); auto).
      replace (special a c) with false by (unfold special; rewrite (proj2 (String.eqb_neq _ _) Ka); auto).
      apply sltb_trans.
  Qed.

  Lemma straddle_free_spec : forall l, straddle_free_b first last l = true ->
    forall x y o, In x l -> In y l -> In o l -> strad (id_gvk x) (id_gvk y) (id_gvk o) = false.
  Proof.
    unfold straddle_free_b. intros l H x y o Ix Iy Io.
    rewrite forallb_forall in H. specialize (H _ Ix).
    rewrite forallb_forall in H. specialize (H _ Iy).
    rewrite forallb_forall in H. specialize (H _ Io).
    apply negb_true_iff in H. exact H.
  Qed.

  Lemma less_trans_sf : forall l a b c,
    valid_ids l -> straddle_free_b first last l = true -> In a l -> In b l -> In c l ->
    less a b = true -> less b c = true -> less a c = true.
  Proof.
    intros l a b c V SF Ia Ib Ic. unfold valid_ids in V. rewrite Forall_forall in V.
    pose proof (proj1 (valid_id_spec _ (V _ Ia))) as Ga.
    pose proof (proj1 (valid_id_spec _ (V _ Ib))) as Gb.
    pose proof (proj1 (valid_id_spec _ (V _ Ic))) as Gc.
    pose proof (straddle_free_spec l SF) as S.
    unfold legacy_less.
    destruct (gvk_eqb (id_gvk a) (id_gvk b)) eqn:Eab; simpl.
    - apply gvk_eqb_eq in Eab. rewrite Eab.
      destruct (gvk_eqb (id_gvk b) (id_gvk c)) eqn:Ebc; simpl; auto.
      apply sltb_trans.
    - destruct (gvk_eqb (id_gvk b) (id_gvk c)) eqn:Ebc; simpl.
      + apply gvk_eqb_eq in Ebc. rewrite <- Ebc. rewrite Eab. simpl. auto.
      + destruct (gvk_eqb (id_gvk a) (id_gvk c)) eqn:Eac; simpl.
        * apply gvk_eqb_eq in Eac. rewrite <- Eac. intros H1 H2.
          rewrite (gless_asym _ _ _ _ H1) in H2. discriminate.
        * apply gless_trans_sf; auto.
  Qed.

  (* sufficiency *)
  Theorem straddle_free_total : forall l,
    valid_ids l -> straddle_free_b first last l = true -> total_on less l.
  Proof.
    intros l V SF. pose proof V as V'. unfold valid_ids in V'. rewrite Forall_forall in V'.
    constructor; intros.
    - apply less_irrefl.
    - apply (less_asym first last); auto.
    - apply (less_trans_sf l a b c); auto.
    - apply less_total; auto.
  Qed.

  (* necessity: a straddler closes a cycle *)
  Lemma straddle_cycle : forall x y o,
    valid_id x = true -> valid_id y = true -> valid_id o = true ->
    strad (id_gvk x) (id_gvk y) (id_gvk o) = true ->
    less x y = true /\ less y o = true /\ less o x = true.
  Proof.
    intros x y o Vx Vy Vo H. unfold straddles in H.
    apply andb_true_iff in H; destruct H as [H L2].
    apply andb_true_iff in H; destruct H as [H L1].
    apply andb_true_iff in H; destruct H as [H R].
    apply andb_true_iff in H; destruct H as [Sp Ko].
    apply negb_true_iff in Ko. apply Z.eqb_eq in R.
    pose proof Sp as Sp'. unfold ns_special in Sp'. apply andb_true_iff in Sp'. destruct Sp' as [Kxy _].
    apply andb_true_iff in Kxy. destruct Kxy as [Kx Ky]. apply String.eqb_eq in Kx, Ky.
    assert (Lxy : sltb (G (id_gvk y)) (G (id_gvk x)) = true) by (eapply sltb_trans; eauto).
    assert (Nxy : gvk_eqb (id_gvk x) (id_gvk y) = false).
    { destruct (gvk_eqb (id_gvk x) (id_gvk y)) eqn:E; auto. apply gvk_eqb_eq in E. rewrite E, sltb_irrefl in Lxy. discriminate. }
    assert (Nyo : gvk_eqb (id_gvk y) (id_gvk o) = false).
    { destruct (gvk_eqb (id_gvk y) (id_gvk o)) eqn:E; auto. apply gvk_eqb_eq in E. rewrite E, sltb_irrefl in L1. discriminate. }
    assert (Nox : gvk_eqb (id_gvk o) (id_gvk x) = false).
    { destruct (gvk_eqb (id_gvk o) (id_gvk x)) eqn:E; auto. apply gvk_eqb_eq in E. rewrite E, sltb_irrefl in L2. discriminate. }
    unfold legacy_less. rewrite Nxy, Nyo, Nox. simpl. rewrite !gless_unfold.
    rewrite Kx, Ky, R, !Z.eqb_refl. simpl.
    replace (special (id_gvk x) (id_gvk y)) with true by (symmetry; exact Sp).
    replace (special (id_gvk y) (id_gvk o)) with false
      by (unfold special; rewrite Ko, andb_false_r; auto).
    replace (special (id_gvk o) (id_gvk x)) with false by (unfold special; rewrite Ko; auto).
    auto.
  Qed.

  Theorem total_straddle_free : forall l,
    valid_ids l -> total_on less l -> straddle_free_b first last l = true.
  Proof.
    intros l V T. unfold valid_ids in V. rewrite Forall_forall in V.
    unfold straddle_free_b.
    apply forallb_forall. intros x Ix. apply forallb_forall. intros y Iy. apply forallb_forall. intros o Io.
    apply negb_true_iff. destruct (strad (id_gvk x) (id_gvk y) (id_gvk o)) eqn:S; auto. exfalso.
    destruct (straddle_cycle x y o (V _ Ix) (V _ Iy) (V _ Io) S) as (A & B & C).
    destruct T as [_ As Tr _].
    pose proof (Tr x y o Ix Iy Io A B) as D.
    rewrite (As x o Ix Io D) in C. discriminate.
  Qed.

  (* C11_legacy_total_exact *)
  Theorem legacy_total_exact : forall l, valid_ids l ->
    (total_on less l <-> straddle_free_b first last l = true).
  Proof. intros l V. split; [apply total_straddle_free | apply straddle_free_total]; auto. Qed.

  (* the old sufficient condition is a special case: lists that isolate Namespace admit no straddler *)
  Lemma isolated_straddle_free : forall l,
    namespace_isolated first last = true -> straddle_free_b first last l = true.
  Proof.
    intros l Iso. unfold straddle_free_b.
    apply forallb_forall. intros x _. apply forallb_forall. intros y _. apply forallb_forall. intros o _.
    apply negb_true_iff. unfold straddles.
    destruct (String.eqb_spec (g_kind (id_gvk o)) namespace_kind) as [K|K]; simpl.
    - rewrite andb_false_r. auto.
    - destruct (Z.eqb_spec (rank (g_kind (id_gvk o))) (rank namespace_kind)) as [R|R].
      + exfalso. apply K. eapply namespace_isolated_spec; eauto.
      + rewrite !andb_false_r. auto.
  Qed.

  (* C11_legacy_canonical at full strength under the structural guard *)
  Theorem legacy_canonical_exact : forall (sort : list rid -> list rid) l l',
    sort_spec less sort -> valid_ids l -> NoDup l -> straddle_free_b first last l = true ->
    Permutation l l' -> sort l = sort l' /\ sort l = sort_legacy first last l.
  Proof.
    intros sort l l' Sp V N SF P.
    pose proof (straddle_free_total l V SF) as T. split.
    - apply (sort_canonical _ less sort sort l l'); auto.
    - apply (isort_canonical _ less sort l l); auto.
  Qed.

  (* ... and under the exact guard for ARBITRARY ids (no validity, no condition on the lists) *)
  Lemma pairs_increasing_eq : forall l, pairs_increasing first last l = pairs_inc less l.
  Proof. induction l; simpl; auto; try (rewrite IHl; auto). Qed.

  Lemma total_on_b_eq : forall l, total_on_b first last l = total_b less l.
  Proof. intros. unfold total_on_b, total_b, sort_legacy. apply pairs_increasing_eq. Qed.

  Theorem total_on_b_exact : forall l, total_on_b first last l = true <-> NoDup l /\ total_on less l.
  Proof. intros. rewrite total_on_b_eq. apply total_b_iff. Qed.

  Theorem legacy_canonical_guarded : forall (sort : list rid -> list rid) l l',
    sort_spec less sort -> total_on_b first last l = true -> Permutation l l' ->
    sort l = sort l' /\ sort l = sort_legacy first last l.
  Proof. intros sort l l' Sp H P. rewrite total_on_b_eq in H. apply (sort_canonical_b _ less sort l l'); auto. Qed.

  (* outside the guard the output genuinely depends on the input order, whatever conforming sort is used:
     if two conforming results for two arrangements of a duplicate-free l always agreed ... (converse, for the
     insertion sort of the model): a duplicate-free id set on which the comparator is not a strict total order has
     two arrangements that the model sorts differently OR an arrangement whose result is not strictly sorted *)
  Theorem guard_perm_invariant : forall l l', Permutation l l' -> total_on_b first last l = total_on_b first last l'.
  Proof. intros. rewrite !total_on_b_eq. apply total_b_perm; auto. Qed.
End Exact.

(* ---------- lifting a comparator of GVKs to ids (the shape of legacyIDSorter.Less) ---------- *)
Section Lift.
  Variable gl : gvk -> gvk -> bool.
  Hypothesis gl_asym : forall a b, gl a b = true -> gl b a = false.
  Hypothesis gl_trans : forall a b c, valid_groups a = true -> valid_groups b = true -> valid_groups c = true ->
    gl a b = true -> gl b c = true -> gl a c = true.
  Hypothesis gl_total : forall a b, valid_groups a = true -> valid_groups b = true -> a <> b ->
    gl a b = true \/ gl b a = true.

  Definition lift (a b : rid) : bool :=
    if negb (gvk_eqb (id_gvk a) (id_gvk b)) then gl (id_gvk a) (id_gvk b)
    else sltb (legacy_resid_sort_string a) (legacy_resid_sort_string b).

  Lemma lift_total_on : forall l, valid_ids l -> total_on lift l.
  Proof.
    intros l V. unfold valid_ids in V. rewrite Forall_forall in V.
    assert (VG : forall a, In a l -> valid_groups (id_gvk a) = true)
      by (intros a Ia; apply (proj1 (valid_id_spec _ (V _ Ia)))).
    constructor.
    - intros a _. unfold lift. rewrite gvk_eqb_refl. simpl. apply sltb_irrefl.
    - intros a b _ _. unfold lift. rewrite (gvk_eqb_sym (id_gvk b)).
      destruct (gvk_eqb (id_gvk a) (id_gvk b)); simpl; [apply sltb_asym|apply gl_asym].
    - intros a b c Ia Ib Ic. unfold lift.
      destruct (gvk_eqb (id_gvk a) (id_gvk b)) eqn:Eab; simpl.
      + apply gvk_eqb_eq in Eab. rewrite Eab.
        destruct (gvk_eqb (id_gvk b) (id_gvk c)) eqn:Ebc; simpl; auto. apply sltb_trans.
      + destruct (gvk_eqb (id_gvk b) (id_gvk c)) eqn:Ebc; simpl.
        * apply gvk_eqb_eq in Ebc. rewrite <- Ebc. rewrite Eab. simpl. auto.
        * destruct (gvk_eqb (id_gvk a) (id_gvk c)) eqn:Eac; simpl.
          -- apply gvk_eqb_eq in Eac. rewrite <- Eac. intros H1 H2.
             rewrite (gl_asym _ _ H1) in H2. discriminate.
          -- apply gl_trans; auto.
    - intros a b Ia Ib N. unfold lift. rewrite (gvk_eqb_sym (id_gvk b)).
      destruct (gvk_eqb (id_gvk a) (id_gvk b)) eqn:E; simpl.
      + apply gvk_eqb_eq in E. apply sltb_total. intros X. apply N. apply resid_sort_string_inj; auto.
      + apply gl_total; auto. intros X. rewrite X, gvk_eqb_refl in E. discriminate.
  Qed.
End Lift.

(* ---------- the comparator with the rank guard (proposed repair) ---------- *)
Section Guarded.
  Variable first last : list string.
  Notation rank := (type_order first last).
  Notation G := legacy_gvk_sort_string.

  (* without the guard it is the comparator of the current source *)
  Lemma legacy_less_g_false : forall a b, legacy_less_g false first last a b = legacy_less first last a b.
  Proof. reflexivity. Qed.

  Lemma sort_legacy_g_false : forall l, sort_legacy_g false first last l = sort_legacy first last l.
  Proof. reflexivity. Qed.

  (* plain order: rank, then the group_version_kind string *)
  Definition gless_plain (a b : gvk) : bool :=
    if negb (Z.eqb (rank (g_kind a)) (rank (g_kind b))) then Z.ltb (rank (g_kind a)) (rank (g_kind b))
    else sltb (G a) (G b).

  Lemma listed_isolated : rank namespace_kind <> 0%Z -> namespace_isolated first last = true.
  Proof.
    intros N. unfold namespace_isolated. apply andb_true_iff. split.
    - apply negb_true_iff. apply Z.eqb_neq. auto.
    - apply forallb_forall. intros k _.
      destruct (String.eqb_spec k namespace_kind); simpl; auto.
      apply negb_true_iff. apply Z.eqb_neq. intros E. apply n. symmetry.
      apply (type_order_listed_inj first last namespace_kind k); auto.
  Qed.

  Lemma gless_g_true_cases : forall a b,
    gvk_less_than_g true first last a b =
    if Z.eqb (rank namespace_kind) 0 then gless_plain a b else gvk_less_than first last a b.
  Proof.
    intros a b. unfold gvk_less_than_g, gless_plain, gvk_less_than. simpl.
    destruct (Z.eqb (rank (g_kind a)) (rank (g_kind b))) eqn:E; simpl.
    2:{ destruct (Z.eqb (rank namespace_kind) 0); auto. }
    destruct (String.eqb_spec (g_kind a) namespace_kind) as [Ka|Ka]; simpl.
    - rewrite Ka. destruct (Z.eqb (rank namespace_kind) 0); simpl; auto.
    - rewrite andb_false_r. destruct (Z.eqb (rank namespace_kind) 0); auto.
  Qed.

  Lemma gless_plain_asym : forall a b, gless_plain a b = true -> gless_plain b a = false.
  Proof.
    intros a b. unfold gless_plain. rewrite (Z.eqb_sym (rank (g_kind b))).
    destruct (Z.eqb (rank (g_kind a)) (rank (g_kind b))) eqn:E; simpl.
    - apply sltb_asym.
    - intros H. apply Z.ltb_lt in H. apply Z.ltb_ge. lia.
  Qed.

  Lemma gless_plain_trans : forall a b c, gless_plain a b = true -> gless_plain b c = true -> gless_plain a c = true.
  Proof.
    intros a b c. unfold gless_plain.
    destruct (Z.eqb_spec (rank (g_kind a)) (rank (g_kind b))) as [Eab|Eab];
      destruct (Z.eqb_spec (rank (g_kind b)) (rank (g_kind c))) as [Ebc|Ebc];
      destruct (Z.eqb_spec (rank (g_kind a)) (rank (g_kind c))) as [Eac|Eac]; simpl;
      rewrite ?Z.ltb_lt; try lia; try apply sltb_trans.
  Qed.

  Lemma gless_plain_total : forall a b, valid_groups a = true -> valid_groups b = true -> a <> b ->
    gless_plain a b = true \/ gless_plain b a = true.
  Proof.
    intros a b Va Vb N. unfold gless_plain. rewrite (Z.eqb_sym (rank (g_kind b))).
    destruct (Z.eqb_spec (rank (g_kind a)) (rank (g_kind b))) as [E|E]; simpl.
    - apply sltb_total. intros X. apply N. apply gvk_sort_string_inj; auto.
    - rewrite !Z.ltb_lt. lia.
  Qed.

  (* with the guard: a strict total order on valid ids for EVERY pair of order lists *)
  Theorem guarded_total_on : forall l, valid_ids l -> total_on (legacy_less_g true first last) l.
  Proof.
    intros l V.
    destruct (Z.eqb_spec (rank namespace_kind) 0) as [E|E].
    - assert (X : forall a b, legacy_less_g true first last a b = lift gless_plain a b).
      { intros. unfold legacy_less_g, lift. rewrite gless_g_true_cases, E. reflexivity. }
      pose proof (lift_total_on gless_plain gless_plain_asym
                    (fun a b c _ _ _ => gless_plain_trans a b c) gless_plain_total l V) as [I As T Tot].
      constructor; intros; rewrite ?X in *.
      + apply I; auto.
      + apply As; auto.
      + apply (T a b c); auto.
      + apply Tot; auto.
    - assert (X : forall a b, legacy_less_g true first last a b = legacy_less first last a b).
      { intros. unfold legacy_less_g, legacy_less. rewrite gless_g_true_cases.
        rewrite (proj2 (Z.eqb_neq _ _) E). reflexivity. }
      pose proof (less_total_on first last (listed_isolated E) l V) as [I As T Tot].
      constructor; intros; rewrite ?X in *.
      + apply I; auto.
      + apply As; auto.
      + apply (T a b c); auto.
      + apply Tot; auto.
  Qed.

  Theorem guarded_canonical : forall (sort : list rid -> list rid) l l',
    sort_spec (legacy_less_g true first last) sort -> valid_ids l -> NoDup l -> Permutation l l' ->
    sort l = sort l' /\ sort l = sort_legacy_g true first last l.
  Proof.
    intros sort l l' Sp V N P. pose proof (guarded_total_on l V) as T. split.
    - apply (sort_canonical _ (legacy_less_g true first last) sort sort l l'); auto.
    - apply (isort_canonical _ (legacy_less_g true first last) sort l l); auto.
  Qed.

  (* for either version of the source: total on valid ids when the flag is set or the lists isolate Namespace *)
  Theorem legacy_g_total_on : forall guarded l,
    guarded = true \/ namespace_isolated first last = true -> valid_ids l ->
    total_on (legacy_less_g guarded first last) l.
  Proof.
    intros guarded l H V. destruct guarded.
    - apply guarded_total_on; auto.
    - destruct H as [H|H]; [discriminate|]. apply (less_total_on first last H l V).
  Qed.

  (* the exact guard, for either version *)
  Lemma total_on_g_b_eq : forall guarded l,
    total_on_g_b guarded first last l = total_b (legacy_less_g guarded first last) l.
  Proof.
    intros. unfold total_on_g_b, total_b, sort_legacy_g.
    generalize (isort (legacy_less_g guarded first last) l). induction l0; simpl; auto; try (rewrite IHl0; auto).
  Qed.

  Theorem legacy_g_canonical_guarded : forall guarded (sort : list rid -> list rid) l l',
    sort_spec (legacy_less_g guarded first last) sort -> total_on_g_b guarded first last l = true ->
    Permutation l l' -> sort l = sort l' /\ sort l = sort_legacy_g guarded first last l.
  Proof.
    intros guarded sort l l' Sp H P. rewrite total_on_g_b_eq in H.
    apply (sort_canonical_b _ (legacy_less_g guarded first last) sort l l'); auto.
  Qed.

  Theorem total_on_g_b_exact : forall guarded l,
    total_on_g_b guarded first last l = true <-> NoDup l /\ total_on (legacy_less_g guarded first last) l.
  Proof. intros. rewrite total_on_g_b_eq. apply total_b_iff. Qed.
End Guarded.
