(* Bridge between the document-level generators of the pipeline (Res/Pipeline.gen_node) and the abstract
   generated objects of the C06 slice (Res/Generators.make_generated): the projection of the document the
   pipeline generates IS the object C06 reasons about - same name, namespace and hashed content - so the hash
   suffix the pipeline computes from the document is the one C06's theorems are about. *)
From KV Require Import Res.Pipeline Base.StrOrder.
From KV Require Res.Generators Res.Hash.
Local Open Scope string_scope.

Ltac inv H := inversion H; subst; clear H.

(* the pipeline's generator entry as C06's GeneratorArgs (literal sources only) *)
Definition genargs_of (secret : bool) (g : pgen) : Generators.genargs :=
  Generators.mkGenArgs secret (pg_name g) (pg_ns g) (pg_behavior g) [] (pg_literals g) [] (pg_type g)
                       (pg_has_opts g) (Generators.dict_of_pairs (pg_labels g)) (Generators.dict_of_pairs (pg_annos g))
                       (pg_disable_hash g) false.

(* ---------- dictionaries built by dict_set are sorted by key, and re-reading a sorted one is the identity ---------- *)

Fixpoint all_below (k : string) (d : Generators.dict) : Prop :=
  match d with
  | [] => True
  | (k', _) :: t => String.compare k' k = Lt /\ all_below k t
  end.

Fixpoint dsorted (d : Generators.dict) : Prop :=
  match d with
  | [] => True
  | (k, _) :: t => (forall k' v', In (k', v') t -> String.compare k k' = Lt) /\ dsorted t
  end.

Lemma cmp_gt_lt a b : String.compare a b = Gt -> String.compare b a = Lt.
Proof. intros H. rewrite String.compare_antisym, H. reflexivity. Qed.

Lemma dict_set_in k v d k' v' :
  In (k', v') (Generators.dict_set k v d) -> (k' = k /\ v' = v) \/ In (k', v') d.
Proof.
  induction d as [|[k0 v0] t IH]; cbn.
  - intros [H|[]]. inv H. auto.
  - destruct (String.compare k k0) eqn:E; cbn.
    + intros [H|H]; [inv H; auto|auto].
    + intros [H|H]; [inv H; auto|auto].
    + intros [H|H]; [auto|]. destruct (IH H); auto.
Qed.

Lemma dict_set_sorted k v d : dsorted d -> dsorted (Generators.dict_set k v d).
Proof.
  induction d as [|[k0 v0] t IH]; cbn; [intros _; split; [intros ? ? []|exact I]|].
  intros [H1 H2]. destruct (String.compare k k0) eqn:E; cbn.
  - apply str_cmp_eq in E. subst. split; assumption.
  - split; [|split; assumption]. intros k' v' [H|H]; [inv H; exact E|].
    eapply str_cmp_lt_trans; [exact E|eapply H1; exact H].
  - split; [|apply IH; exact H2]. intros k' v' H. apply dict_set_in in H as [[-> ->]|H]; [apply cmp_gt_lt; exact E|eauto].
Qed.

Lemma validated_map_sorted l : forall acc m, dsorted acc -> Generators.validated_map l acc = Ok m -> dsorted m.
Proof.
  induction l as [|[k v] t IH]; intros acc m Ha H; cbn in H; [inv H; exact Ha|].
  destruct (Generators.dict_get k acc); [discriminate|]. eapply IH; [|exact H]. apply dict_set_sorted. exact Ha.
Qed.

(* appending a key above all others *)
Lemma dict_set_above k v d :
  (forall k' v', In (k', v') d -> String.compare k' k = Lt) -> Generators.dict_set k v d = (d ++ [(k, v)])%list.
Proof.
  induction d as [|[k0 v0] t IH]; intros H; cbn; [reflexivity|].
  assert (E : String.compare k k0 = Gt).
  { rewrite String.compare_antisym. rewrite (H k0 v0 (or_introl eq_refl)). reflexivity. }
  rewrite E. f_equal. apply IH. intros k' v' Hin. eapply H. right. exact Hin.
Qed.

Lemma dict_override_sorted l : forall acc,
  dsorted (acc ++ l)%list -> Generators.dict_override acc l = (acc ++ l)%list.
Proof.
  unfold Generators.dict_override.
  induction l as [|[k v] t IH]; intros acc H; cbn [fold_left]; [now rewrite app_nil_r|].
  cbn [fst snd]. rewrite dict_set_above.
  - rewrite IH; rewrite <- app_assoc; [reflexivity|exact H].
  - clear IH. induction acc as [|[k0 v0] u IHu]; [intros ? ? []|].
    cbn in H. destruct H as [H1 H2]. intros k' v' [Hin|Hin].
    + inv Hin. eapply H1. apply in_or_app. right. left. reflexivity.
    + eapply IHu; eauto.
Qed.

Lemma dict_of_pairs_sorted l : dsorted l -> Generators.dict_of_pairs l = l.
Proof. intros H. unfold Generators.dict_of_pairs. now rewrite dict_override_sorted. Qed.

Lemma dsorted_map (f : string -> string) d : dsorted d -> dsorted (map (fun kv => (fst kv, f (snd kv))) d).
Proof.
  induction d as [|[k v] t IH]; cbn; [auto|]. intros [H1 H2]. split; [|auto].
  intros k' v' Hin. apply in_map_iff in Hin as ([k2 v2] & E & Hin). inv E. eauto.
Qed.

Lemma split_data_utf8 m :
  forallb (fun kv => Hash.valid_utf8 (snd kv)) m = true -> Generators.split_data m = (m, []).
Proof.
  induction m as [|[k v] t IH]; cbn [forallb Generators.split_data snd]; [reflexivity|].
  intros H. apply andb_true_iff in H as [H1 H2].
  rewrite (IH H2), H1. reflexivity.
Qed.

(* ---------- the projection commutes ---------- *)
Definition literal_only (secret : bool) (g : pgen) : Prop :=
  pg_envs g = [] /\ pg_files g = [] /\
  (secret = false -> forall kvs m, mapM Generators.parse_literal (pg_literals g) = Ok kvs ->
                     Generators.validated_map kvs [] = Ok m -> forallb (fun kv => Hash.valid_utf8 (snd kv)) m = true).

Theorem gen_node_projects secret g n :
  literal_only secret g ->
  gen_node secret g = Ok n ->
  exists o, Generators.make_generated [] None (genargs_of secret g) = Ok o /\
            content_of_node n = Generators.content_of o /\
            get_name n = Generators.g_name o /\ get_namespace n = Generators.g_ns o /\
            get_kind n = (if Generators.g_secret o then "Secret" else "ConfigMap").
Proof.
  intros (Henv & Hfil & Hutf).
  unfold gen_node, gen_pairs. rewrite Henv, Hfil. cbn [map Generators.concat_res mapM bind app].
  destruct (pg_name g) as [|c0 nm] eqn:EN; [discriminate|].
  cbn [String.eqb].
  destruct (mapM Generators.parse_literal (pg_literals g)) as [kvs| | |] eqn:EL; cbn [bind]; try discriminate.
  rewrite app_nil_r.
  destruct (Generators.validated_map kvs []) as [m| | |] eqn:EV; cbn [bind]; try discriminate.
  pose proof (validated_map_sorted kvs [] m I EV) as Hs.
  unfold Generators.make_generated, genargs_of. cbn [Generators.ga_name]. rewrite EN.
  unfold Generators.kv_load. cbn [Generators.ga_envs Generators.ga_literals Generators.ga_files map Generators.concat_res mapM bind].
  rewrite EL. cbn [bind app]. rewrite app_nil_r, EV. cbn [bind Generators.ga_secret].
  destruct secret.
  - intros H. inv H. eexists. split; [reflexivity|].
    unfold content_of_node, Generators.content_of, get_kind, obj_kind, map_field_value, get_name, get_namespace, meta_string, get_meta.
    cbn [find_field String.eqb Ascii.eqb Bool.eqb node_value app Generators.g_secret Generators.g_data Generators.g_bin
         Generators.g_type Generators.g_name Generators.g_ns Generators.ga_type Generators.ga_name Generators.ga_ns].
    split; [|split; [|split]].
    + f_equal; unfold data_field; destruct (pg_type g);
        cbn [find_field String.eqb Ascii.eqb Bool.eqb app node_dict node_value str_node];
        rewrite ?map_map; cbn [fst snd node_value str_node];
        rewrite ?dict_of_pairs_sorted by (apply (dsorted_map Hash.encode_base64); exact Hs); reflexivity.
    + destruct (String.eqb (pg_ns g) ""); cbn; reflexivity.
    + destruct (String.eqb (pg_ns g) "") eqn:E; cbn [app find_field String.eqb Ascii.eqb Bool.eqb nil_or_empty node_value str_node].
      * apply String.eqb_eq in E. rewrite E.
        destruct (meta_map_field "labels" _) as [|[k1 v1] t1] eqn:E1; [|unfold meta_map_field in E1; destruct (if pg_has_opts g then pg_labels g else []); inv E1; cbn].
        all: destruct (meta_map_field "annotations" _) as [|[k2 v2] t2] eqn:E2; [|unfold meta_map_field in E2; destruct (if pg_has_opts g then pg_annos g else []); inv E2; cbn]; reflexivity.
      * cbn. apply String.eqb_neq in E. destruct (pg_ns g); [congruence|reflexivity].
    + reflexivity.
  - pose proof (Hutf eq_refl kvs m eq_refl EV) as EU.
    unfold data_field. rewrite (split_data_utf8 _ EU). rewrite app_nil_r.
    intros H. inv H. eexists. split; [reflexivity|].
    unfold content_of_node, Generators.content_of, get_kind, obj_kind, map_field_value, get_name, get_namespace, meta_string, get_meta.
    cbn [find_field String.eqb Ascii.eqb Bool.eqb node_value app Generators.g_secret Generators.g_data Generators.g_bin
         Generators.g_type Generators.g_name Generators.g_ns Generators.ga_type Generators.ga_name Generators.ga_ns].
    split; [|split; [|split]].
    + unfold map_field. destruct m as [|kv0 mt]; cbn [find_field String.eqb Ascii.eqb Bool.eqb app node_dict]; [reflexivity|].
      f_equal. rewrite map_map. cbn [fst snd node_value str_node].
      rewrite dict_of_pairs_sorted by (apply (dsorted_map (fun x => x)); exact Hs).
      f_equal. clear. induction (kv0 :: mt) as [|[k v] t IH]; cbn; [reflexivity|now rewrite IH].
    + destruct (String.eqb (pg_ns g) ""); cbn; reflexivity.
    + destruct (String.eqb (pg_ns g) "") eqn:E; cbn [app find_field String.eqb Ascii.eqb Bool.eqb nil_or_empty node_value str_node].
      * apply String.eqb_eq in E. rewrite E.
        destruct (meta_map_field "labels" _) as [|[k1 v1] t1] eqn:E1; [|unfold meta_map_field in E1; destruct (if pg_has_opts g then pg_labels g else []); inv E1; cbn].
        all: destruct (meta_map_field "annotations" _) as [|[k2 v2] t2] eqn:E2; [|unfold meta_map_field in E2; destruct (if pg_has_opts g then pg_annos g else []); inv E2; cbn]; reflexivity.
      * cbn. apply String.eqb_neq in E. destruct (pg_ns g); [congruence|reflexivity].
    + reflexivity.
Qed.

(* hence: the hash the pipeline computes from the generated document is C06's hash of the abstract object *)
Corollary gen_hash_projects secret g n :
  literal_only secret g ->
  gen_node secret g = Ok n ->
  exists o, Generators.make_generated [] None (genargs_of secret g) = Ok o /\
            Hash.hash_content (content_of_node n) = Hash.hash_content (Generators.content_of o).
Proof.
  intros HL H. destruct (gen_node_projects _ _ _ HL H) as (o & H1 & H2 & _). exists o. split; [exact H1|now rewrite H2].
Qed.
