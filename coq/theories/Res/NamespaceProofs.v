(* Proofs about KV.Res.Namespace. *)
From KV Require Import Res.Labels Res.LabelsProofs Res.Namespace.

(* ------------------------------------------------------------------ *)
(* the field-spec filter with an arbitrary setter, create kind and tag  *)
(* ------------------------------------------------------------------ *)
Section G.
  Variable ck : kind.
  Variable ct : tag.
  Variable sv : node -> res node.
  Notation F := (fs_filter (Some ck) ct sv).

  Definition promoG (create isq : bool) (rest : list string) (x : node) : node :=
    if negb create || isq then (if isq then promote KSeq TNone x else x)
    else match rest with [] => promote ck ct x | _ => promote KMap TOther x end.
  Definition newG (rest : list string) : node :=
    match rest with [] => empty_of ck | _ => Map [] end.

  Lemma G_nil create obj : F create [] obj = sv obj.
  Proof. reflexivity. Qed.

  Lemma G_null create p rest obj : is_null obj = true -> F create (p :: rest) obj = Ok obj.
  Proof. intros H. destruct obj; cbn in *; try discriminate. rewrite H. reflexivity. Qed.

  Lemma G_scalar create p rest t s x :
    is_null (Scalar t s x) = false -> F create (p :: rest) (Scalar t s x) = Err.
  Proof. intros H. cbn [fs_filter]. rewrite H. reflexivity. Qed.

  Lemma G_seq create p rest es obj' :
    F create (p :: rest) (Seq es) = Ok obj' -> exists es', obj' = Seq es'.
  Proof.
    cbn [fs_filter is_null]. intros H.
    match type of H with (do es' <- ?X; _) = _ => destruct X as [es'| | |] end; cbn in H; inv H.
    eexists; reflexivity.
  Qed.

  Lemma promote_empty_of k t k' : promote k t (empty_of k') = empty_of k'.
  Proof. destruct k'; reflexivity. Qed.

  Lemma G_map_step create p rest kvs :
    seg_ok p = true ->
    F create (p :: rest) (Map kvs) =
    match find_field (seg_name p) kvs with
    | Some x => do f' <- F create rest (promoG create (seg_seq p) rest x); Ok (Map (set_first (seg_name p) f' kvs))
    | None => if negb create || seg_seq p then Ok (Map kvs)
              else do f' <- F create rest (newG rest); Ok (Map (kvs ++ [(seg_name p, f')])%list)
    end.
  Proof.
    intros Hs. apply seg_ok_spec in Hs as [Hne Hpp].
    cbn [fs_filter]. cbn [is_null]. rewrite is_sequence_field_eta. rewrite Hne. rewrite Hpp.
    rewrite orb_false_r. unfold promoG, newG.
    destruct (negb create || seg_seq p) eqn:Enc; cbn [walk].
    - destruct (find_field (seg_name p) kvs) as [x|] eqn:Ff; [|reflexivity].
      destruct (seg_seq p) eqn:Eq;
      (destruct (fs_filter (Some ck) ct sv create rest _) as [f'| | |] eqn:EF; reflexivity).
    - destruct (find_field (seg_name p) kvs) as [x|] eqn:Ff.
      + destruct rest as [|s0 rest'].
        * cbn [fs_filter]. destruct (sv _) as [f'| | |] eqn:EF; reflexivity.
        * destruct (fs_filter (Some ck) ct sv create (s0 :: rest') _) as [f'| | |] eqn:EF; reflexivity.
      + destruct rest as [|s0 rest'].
        * cbn [fs_filter kind_before hd_error]. rewrite promote_empty_of.
          destruct (sv _) as [f'| | |] eqn:EF; reflexivity.
        * cbn [kind_before hd_error empty_of].
          destruct (fs_filter (Some ck) ct sv create (s0 :: rest') _) as [f'| | |] eqn:EF; reflexivity.
  Qed.

  Lemma get_at_promoG create isq rest x q qs :
    get_at (q :: qs) (promoG create isq rest x) = get_at (q :: qs) x.
  Proof.
    unfold promoG. destruct x as [t s y| |]; try (destruct create, isq, rest; reflexivity).
    destruct t; destruct create, isq, rest, ck; reflexivity.
  Qed.

  Lemma get_at_newG rest q qs : get_at (q :: qs) (newG rest) = None.
  Proof. unfold newG. destruct rest, ck; reflexivity. Qed.

  (* frame, for any setter *)
  Lemma G_frame : forall ps qs create obj obj',
    forallb seg_ok ps = true -> path_rel ps qs = RDiverge ->
    F create ps obj = Ok obj' -> get_at qs obj' = get_at qs obj.
  Proof.
    induction ps as [|p rest IH]; intros qs create obj obj' Hs Hr H.
    - destruct qs; discriminate.
    - destruct qs as [|q qrest]; [discriminate|].
      cbn in Hs; apply andb_true_iff in Hs as [Hp Hs].
      destruct (is_null obj) eqn:En; [rewrite G_null in H by auto; inv H; reflexivity|].
      destruct obj as [t s x|kvs|es].
      + rewrite G_scalar in H by auto; discriminate.
      + rewrite G_map_step in H by auto. cbn [path_rel] in Hr.
        destruct (String.eqb (seg_name p) q) eqn:Eq.
        * apply String.eqb_eq in Eq; subst q. destruct (seg_seq p) eqn:Esq; [discriminate|].
          pose proof (path_rel_diverge_nonempty _ _ Hr) as Hne.
          destruct qrest as [|q2 qrest]; [congruence|].
          destruct (find_field (seg_name p) kvs) as [x|] eqn:Ff.
          -- destruct (F create rest (promoG create false rest x)) as [f'| | |] eqn:EF; cbn in H; inv H.
             cbn [get_at]. rewrite (find_field_set_first_same _ _ _ x) by auto. rewrite Ff.
             change (get_at (q2 :: qrest) f' = get_at (q2 :: qrest) x).
             rewrite (IH _ _ _ _ Hs Hr EF). apply get_at_promoG.
          -- rewrite orb_false_r in H. destruct create; cbn [negb] in H.
             ++ destruct (F true rest (newG rest)) as [f'| | |] eqn:EF; cbn in H; inv H.
                cbn [get_at]. rewrite find_field_app_new, Ff, String.eqb_refl.
                change (get_at (q2 :: qrest) f' = None).
                rewrite (IH _ _ _ _ Hs Hr EF). apply get_at_newG.
             ++ inv H. reflexivity.
        * apply String.eqb_neq in Eq.
          destruct (find_field (seg_name p) kvs) as [x|] eqn:Ff.
          -- match type of H with (do f' <- ?X; _) = _ => destruct X as [f'| | |] end; cbn in H; inv H.
             cbn [get_at]. rewrite find_field_set_first_other by (intros E3; apply Eq; auto). reflexivity.
          -- destruct (negb create || seg_seq p); [inv H; reflexivity|].
             match type of H with (do f' <- ?X; _) = _ => destruct X as [f'| | |] end; cbn in H; inv H.
             cbn [get_at]. rewrite find_field_app_new.
             destruct (find_field q kvs); [reflexivity|].
             destruct (String.eqb (seg_name p) q) eqn:E2; [apply String.eqb_eq in E2; congruence|reflexivity].
      + apply G_seq in H as [es' ->]. reflexivity.
  Qed.

  (* a whole field-spec list, every matching row of which leaves each of the read paths *)
  Definition rows_diverge (qss : list (list string)) (fss : list fieldspec) (obj : node) : bool :=
    forallb (fun fs => negb (is_match_gvk fs obj) ||
                       (forallb seg_ok (row_path fs) &&
                        forallb (fun qs => rel_eqb (path_rel (row_path fs) qs) RDiverge) qss)) fss.

  Lemma slice_frame qss : forall fss obj obj',
    In ["kind"] qss -> In ["apiVersion"] qss ->
    rows_diverge qss fss obj = true ->
    fsslice_apply (Some ck) ct sv fss obj = Ok obj' ->
    forall qs, In qs qss -> get_at qs obj' = get_at qs obj.
  Proof.
    induction fss as [|fs t IH]; intros obj obj' Hk Ha Hok H qs Hq.
    - cbn in H. inv H. reflexivity.
    - cbn [fsslice_apply] in H. cbn [rows_diverge forallb] in Hok. apply andb_true_iff in Hok as [Hfs Hok].
      destruct (fs_apply (Some ck) ct sv fs obj) as [o1| | |] eqn:EA; cbn [bind] in H; try discriminate.
      assert (Hstep : forall qs, In qs qss -> get_at qs o1 = get_at qs obj).
      { intros qs' Hq'. unfold fs_apply in EA. destruct (is_match_gvk fs obj) eqn:Em; [|inv EA; reflexivity].
        cbn [negb orb] in Hfs. apply andb_true_iff in Hfs as [Hseg Hall].
        rewrite forallb_forall in Hall. specialize (Hall _ Hq'). apply rel_eqb_eq in Hall.
        eapply G_frame; eauto. }
      assert (Hg : gvk_same obj o1) by (split; apply Hstep; auto).
      assert (Hok1 : rows_diverge qss t o1 = true).
      { unfold rows_diverge in *. rewrite forallb_forall in *. intros fs' Hin.
        rewrite (gvk_same_match _ _ _ Hg). apply Hok; auto. }
      rewrite (IH o1 obj' Hk Ha Hok1 H qs Hq). apply Hstep; auto.
  Qed.
End G.

(* ------------------------------------------------------------------ *)
(* the namespace filter                                                 *)
(* ------------------------------------------------------------------ *)

Definition meta_ns_path : list string := ["metadata"; "namespace"].

Lemma meta_str_get_at f obj x :
  get_at ["metadata"; f] obj = Some x -> meta_str f obj = if is_null x then "" else node_value x.
Proof.
  unfold meta_str. destruct obj as [| kvs |]; cbn; try discriminate.
  destruct (find_field "metadata" kvs) as [[| mk |]|]; cbn; try discriminate.
  destruct (find_field f mk); intros H; inv H. reflexivity.
Qed.

Lemma set_scalar_str ns n n' :
  set_scalar (Some (Scalar TStr SPlain ns)) n = Ok n' -> exists s, n' = Scalar TStr s ns.
Proof.
  unfold set_scalar. destruct n as [t s v| |]; try discriminate.
  destruct (is_null (Scalar t s v)); cbn; intros H; inv H; eexists; reflexivity.
Qed.

Definition meta_not_seq (obj : node) : bool :=
  match obj with
  | Map kvs => match find_field "metadata" kvs with Some (Seq _) => false | _ => true end
  | _ => false
  end.

Section NsFilter.
  Variable t : scope_table.
  Variable c : ns_config.
  Hypothesis Hunset : ns_unset_only c = false.

  Lemma ns_setter_plain n : ns_setter c n = set_scalar (Some (Scalar TStr SPlain (ns_value c))) n.
  Proof. unfold ns_setter. rewrite Hunset. reflexivity. Qed.

  Notation hack := (fsslice_apply (Some KScalar) TNone (ns_setter c) [mkFs "" "" "" "metadata/namespace" true]).

  (* metaNamespaceHack on a mapping whose metadata is not a sequence puts the namespace there *)
  Lemma meta_hack_hit obj o1 :
    meta_not_seq obj = true -> hack obj = Ok o1 ->
    exists s, get_at meta_ns_path o1 = Some (Scalar TStr s (ns_value c)).
  Proof.
    intros Hm H. cbn [fsslice_apply] in H.
    destruct (fs_apply (Some KScalar) TNone (ns_setter c) (mkFs "" "" "" "metadata/namespace" true) obj) as [o| | |] eqn:EA;
      cbn [bind] in H; inv H.
    unfold fs_apply in EA.
    assert (Hw : is_match_gvk (mkFs "" "" "" "metadata/namespace" true) obj = true).
    { unfold is_match_gvk. destruct (parse_group_version (obj_api_version obj)). reflexivity. }
    rewrite Hw in EA. cbn [fs_create fs_path] in EA.
    change (path_splitter "metadata/namespace") with ["metadata"; "namespace"] in EA.
    destruct obj as [| kvs |]; try discriminate. cbn [meta_not_seq] in Hm.
    rewrite G_map_step in EA by reflexivity.
    change (seg_name "metadata") with "metadata" in EA. change (seg_seq "metadata") with false in EA.
    assert (Hin : forall m o', is_seq m = false ->
              fs_filter (Some KScalar) TNone (ns_setter c) true ["namespace"] m = Ok o' ->
              is_null m = false ->
              exists s, get_at ["namespace"] o' = Some (Scalar TStr s (ns_value c))).
    { intros m o' Hs Hf Hn. destruct m as [tg st v| mk |]; try discriminate.
      - rewrite G_scalar in Hf by auto. discriminate.
      - rewrite G_map_step in Hf by reflexivity.
        change (seg_name "namespace") with "namespace" in Hf. change (seg_seq "namespace") with false in Hf.
        destruct (find_field "namespace" mk) as [x|] eqn:Fx.
        + rewrite G_nil in Hf. destruct (ns_setter c _) as [f'| | |] eqn:ES; cbn [bind] in Hf; inv Hf.
          rewrite ns_setter_plain in ES. apply set_scalar_str in ES as [s ->].
          exists s. cbn [get_at]. rewrite (find_field_set_first_same _ _ _ x) by auto. reflexivity.
        + cbn [negb orb] in Hf. rewrite G_nil in Hf.
          destruct (ns_setter c _) as [f'| | |] eqn:ES; cbn [bind] in Hf; inv Hf.
          rewrite ns_setter_plain in ES. apply set_scalar_str in ES as [s ->].
          exists s. cbn [get_at]. rewrite find_field_app_new, Fx. cbn. reflexivity. }
    destruct (find_field "metadata" kvs) as [m|] eqn:Fm.
    - destruct (fs_filter (Some KScalar) TNone (ns_setter c) true ["namespace"] _) as [f'| | |] eqn:EF;
        cbn [bind] in EA; inv EA.
      unfold promoG in EF. cbn [negb orb] in EF.
      assert (Hs' : exists s, get_at ["namespace"] f' = Some (Scalar TStr s (ns_value c))).
      { destruct m as [tg st v| mk |es]; [| |discriminate].
        - destruct tg; (eapply Hin; [|exact EF|]; reflexivity).
        - eapply Hin; [|exact EF|]; reflexivity. }
      destruct Hs' as [s Hs].
      exists s. unfold meta_ns_path. cbn [get_at]. rewrite (find_field_set_first_same _ _ _ m) by auto.
      exact Hs.
    - cbn [negb orb] in EA.
      destruct (fs_filter (Some KScalar) TNone (ns_setter c) true ["namespace"] _) as [f'| | |] eqn:EF;
        cbn [bind] in EA; inv EA.
      destruct (Hin (Map []) f' eq_refl EF eq_refl) as [s Hs].
      exists s. unfold meta_ns_path. cbn [get_at]. rewrite find_field_app_new, Fm. cbn. exact Hs.
  Qed.
End NsFilter.

(* ---------- roleBindingHack: only [subjects] is touched; what happens to each subject ---------- *)

Lemma mapM_Forall2 {A B} (f : A -> res B) : forall l l', mapM f l = Ok l' -> Forall2 (fun a b => f a = Ok b) l l'.
Proof.
  induction l as [|a t IH]; intros l' H; cbn in H.
  - inv H. constructor.
  - destruct (f a) as [b| | |] eqn:E; cbn in H; try discriminate.
    destruct (mapM f t) as [t'| | |] eqn:E2; cbn in H; try discriminate. inv H.
    constructor; auto.
Qed.

Lemma Forall2_impl {A B} (P Q : A -> B -> Prop) l l' :
  (forall a b, P a b -> Q a b) -> Forall2 P l l' -> Forall2 Q l l'.
Proof. intros H HF. induction HF; constructor; auto. Qed.

Lemma rb_hack_frame c obj obj' q rest :
  role_binding_hack c obj = Ok obj' -> q <> "subjects" -> get_at (q :: rest) obj' = get_at (q :: rest) obj.
Proof.
  unfold role_binding_hack. intros H Hq.
  destruct (ns_mode c); try (inv H; reflexivity); try discriminate.
  all: match type of H with (do r <- ?W; _) = _ => destruct W as [[o r]| | |] eqn:EW end; cbn [bind fst] in H; inv H.
  all: cbn [walk] in EW; destruct obj as [tg st v| kvs |es];
       try (destruct (is_null _); inv EW; reflexivity).
  all: destruct (find_field "subjects" kvs) as [x|] eqn:Fs; [|inv EW; reflexivity].
  all: match type of EW with (do r <- (do r <- ?K; _); _) = _ => destruct K as [[x' u]| | |] end; cbn in EW; inv EW.
  all: cbn [get_at]; rewrite find_field_set_first_other by auto; reflexivity.
Qed.

(* a subject is a mapping whose [name] is the non-null scalar "default" *)
Definition named (field value : string) (o : node) : bool :=
  match o with
  | Map kvs => match find_field field kvs with
               | Some (Scalar tg st v) => negb (is_null (Scalar tg st v)) && String.eqb v value
               | _ => false
               end
  | _ => false
  end.

Lemma visit_subject_effect c field value o o' :
  ns_unset_only c = false -> field <> "namespace" ->
  visit_subject c field value o = Ok o' ->
  if named field value o
  then (exists s, get_at ["namespace"] o' = Some (Scalar TStr s (ns_value c))) /\
       (forall q, q <> "namespace" -> get_at [q] o' = get_at [q] o)
  else o' = o.
Proof.
  intros Hu Hf H. unfold visit_subject in H.
  destruct o as [tg st v| kvs |es].
  - cbn [walk] in H. destruct (is_null (Scalar tg st v)); cbn in H; inv H. reflexivity.
  - cbn [walk] in H. cbn [named]. destruct (find_field field kvs) as [x|] eqn:Fx.
    + cbn in H. destruct (is_null x) eqn:Enx.
      * inv H. destruct x as [[] ? ?| |]; try discriminate; reflexivity.
      * destruct x as [tg st v| |]; try discriminate. rewrite Enx. cbn [negb andb].
        destruct (String.eqb v value) eqn:Ev; [|inv H; reflexivity].
        match type of H with (do r2 <- ?W; _) = _ => destruct W as [[o2 u]| | |] eqn:EW end; cbn [bind fst] in H; inv H.
        cbn [walk] in EW.
        destruct (find_field "namespace" kvs) as [y|] eqn:Fy.
        -- cbn in EW. destruct (ns_setter c y) as [y'| | |] eqn:ES; cbn in EW; inv EW.
           unfold ns_setter in ES. rewrite Hu in ES. cbn [andb] in ES. apply set_scalar_str in ES as [s ->].
           split.
           ++ exists s. cbn [get_at]. rewrite (find_field_set_first_same _ _ _ y) by auto. reflexivity.
           ++ intros q Hq. cbn [get_at]. rewrite find_field_set_first_other by auto. reflexivity.
        -- cbn in EW. destruct (ns_setter c (Scalar TNone SPlain "")) as [y'| | |] eqn:ES; cbn in EW; inv EW.
           unfold ns_setter in ES. rewrite Hu in ES. cbn [andb] in ES. apply set_scalar_str in ES as [s ->].
           split.
           ++ exists s. cbn [get_at]. rewrite find_field_app_new, Fy. cbn. reflexivity.
           ++ intros q Hq. cbn [get_at]. rewrite find_field_app_new.
              destruct (find_field q kvs); [reflexivity|].
              destruct (String.eqb "namespace" q) eqn:E; [apply String.eqb_eq in E; congruence|reflexivity].
    + cbn in H. inv H. reflexivity.
  - cbn [walk] in H. cbn in H. discriminate.
Qed.

(* ---------- the whole filter ---------- *)

(* the field specs of the filter keep clear of kind, apiVersion, metadata/namespace and subjects
   (rows for metadata/namespace itself are pruned by the filter and are allowed) *)
Definition read_paths : list (list string) := [["kind"]; ["apiVersion"]; meta_ns_path; ["subjects"]].

Definition fss_clear (fss : list fieldspec) : bool :=
  forallb (fun fs => String.eqb (fs_path fs) "metadata/namespace" ||
                     (forallb seg_ok (row_path fs) &&
                      forallb (fun qs => rel_eqb (path_rel (row_path fs) qs) RDiverge) read_paths)) fss.

Lemma fss_clear_diverge fss av obj :
  fss_clear fss = true -> rows_diverge read_paths (prune_meta av fss) obj = true.
Proof.
  unfold fss_clear, rows_diverge, prune_meta. rewrite !forallb_forall. intros H fs Hin.
  apply filter_In in Hin as [Hin Hf]. specialize (H fs Hin).
  apply andb_true_iff in Hf as [Hf _]. destruct (String.eqb (fs_path fs) "metadata/namespace"); [discriminate|].
  cbn [orb] in H. rewrite H. apply orb_true_r.
Qed.

Lemma rows_diverge_filter qss f fss obj :
  rows_diverge qss fss obj = true -> rows_diverge qss (filter f fss) obj = true.
Proof.
  unfold rows_diverge. rewrite !forallb_forall. intros H fs Hin. apply filter_In in Hin as [Hin _]. auto.
Qed.

Lemma rows_diverge_same qss fss obj obj' :
  gvk_same obj obj' -> rows_diverge qss fss obj = true -> rows_diverge qss fss obj' = true.
Proof.
  intros Hg. unfold rows_diverge. rewrite !forallb_forall. intros H fs Hin.
  rewrite (gvk_same_match _ _ _ Hg). auto.
Qed.

Section NsFilterThms.
  Variable t : scope_table.
  Variable c : ns_config.
  Hypothesis Hclear : fss_clear (ns_fss c) = true.

  Lemma in_read q : In q read_paths -> In q read_paths. Proof. auto. Qed.

  (* everything after metaNamespaceHack keeps kind, apiVersion and metadata/namespace; the data-driven
     specs also keep [subjects] *)
  Lemma ns_filter_tail obj o1 obj' :
    gvk_same obj o1 ->
    (if is_role_binding (obj_kind obj) then
       do o2 <- role_binding_hack c o1;
       fsslice_apply (Some KScalar) TStr (ns_setter c) (prune_subjects (prune_meta (obj_api_version obj) (ns_fss c))) o2
     else fsslice_apply (Some KScalar) TStr (ns_setter c) (prune_meta (obj_api_version obj) (ns_fss c)) o1) = Ok obj' ->
    get_at ["kind"] obj' = get_at ["kind"] o1 /\ get_at ["apiVersion"] obj' = get_at ["apiVersion"] o1 /\
    get_at meta_ns_path obj' = get_at meta_ns_path o1.
  Proof.
    intros Hg H.
    pose proof (fss_clear_diverge _ (obj_api_version obj) obj Hclear) as Hd.
    destruct (is_role_binding (obj_kind obj)).
    - destruct (role_binding_hack c o1) as [o2| | |] eqn:ER; cbn [bind] in H; try discriminate.
      assert (Hk : get_at ["kind"] o2 = get_at ["kind"] o1) by (eapply rb_hack_frame; eauto; discriminate).
      assert (Ha : get_at ["apiVersion"] o2 = get_at ["apiVersion"] o1) by (eapply rb_hack_frame; eauto; discriminate).
      assert (Hn : get_at meta_ns_path o2 = get_at meta_ns_path o1) by (eapply rb_hack_frame; eauto; discriminate).
      assert (Hg2 : gvk_same obj o2) by (destruct Hg; split; congruence).
      assert (Hd2 : rows_diverge read_paths (prune_subjects (prune_meta (obj_api_version obj) (ns_fss c))) o2 = true).
      { apply (rows_diverge_same _ _ _ _ Hg2). unfold prune_subjects. apply rows_diverge_filter. exact Hd. }
      pose proof (slice_frame KScalar TStr (ns_setter c) read_paths _ o2 obj'
                    ltac:(cbn; auto) ltac:(cbn; auto) Hd2 H) as Hf.
      rewrite <- Hk, <- Ha, <- Hn. repeat split; apply Hf; cbn; auto.
    - pose proof (rows_diverge_same _ _ _ _ Hg Hd) as Hd1.
      pose proof (slice_frame KScalar TStr (ns_setter c) read_paths _ o1 obj'
                    ltac:(cbn; auto) ltac:(cbn; auto) Hd1 H) as Hf.
      repeat split; apply Hf; cbn; auto.
  Qed.

  (* cluster-scoped objects: the node at metadata/namespace is the one that was there (or none) *)
  Theorem cluster_untouched obj obj' :
    obj_cluster_scoped t obj = true -> ns_filter t c obj = Ok obj' ->
    get_at meta_ns_path obj' = get_at meta_ns_path obj /\ gvk_same obj obj'.
  Proof.
    intros Hc H. unfold ns_filter in H. rewrite Hc in H. cbn [bind] in H.
    destruct (ns_filter_tail obj obj obj' (gvk_same_refl obj) H) as (Hk & Ha & Hn).
    split; [exact Hn|split; auto].
  Qed.

  (* namespaced (or unknown) objects end in the namespace of the directive *)
  Theorem moved obj obj' :
    ns_unset_only c = false -> meta_not_seq obj = true ->
    obj_cluster_scoped t obj = false -> ns_filter t c obj = Ok obj' ->
    obj_namespace obj' = ns_value c /\ gvk_same obj obj'.
  Proof.
    intros Hu Hm Hc H. unfold ns_filter in H. rewrite Hc in H.
    match type of H with (do o1 <- ?X; _) = _ => destruct X as [o1| | |] eqn:E1 end; cbn [bind] in H; try discriminate.
    destruct (meta_hack_hit c Hu obj o1 Hm E1) as [s Hs].
    assert (Hg : gvk_same obj o1).
    { assert (Hd : rows_diverge [["kind"]; ["apiVersion"]] [mkFs "" "" "" "metadata/namespace" true] obj = true).
      { unfold rows_diverge. cbn [forallb]. rewrite andb_true_r. apply orb_true_iff. right. reflexivity. }
      pose proof (slice_frame KScalar TNone (ns_setter c) [["kind"]; ["apiVersion"]] _ obj o1
                    ltac:(cbn; auto) ltac:(cbn; auto) Hd E1) as Hf.
      split; apply Hf; cbn; auto. }
    destruct (ns_filter_tail obj o1 obj' Hg H) as (Hk & Ha & Hn).
    split.
    - unfold obj_namespace. rewrite (meta_str_get_at "namespace" obj' (Scalar TStr s (ns_value c))).
      + reflexivity.
      + unfold meta_ns_path in *. congruence.
    - destruct Hg. split; congruence.
  Qed.
End NsFilterThms.

(* ---------- subjects (default mode) ---------- *)
Section Subjects.
  Variable t : scope_table.
  Variable c : ns_config.
  Hypothesis Hclear : fss_clear (ns_fss c) = true.
  Hypothesis Hunset : ns_unset_only c = false.

  Definition subject_rel (field value : string) (o o' : node) : Prop :=
    if named field value o
    then (exists s, get_at ["namespace"] o' = Some (Scalar TStr s (ns_value c))) /\
         (forall q, q <> "namespace" -> get_at [q] o' = get_at [q] o)
    else o' = o.

  Lemma rb_hack_subjects field value obj obj' es :
    (ns_mode c = RBDefault /\ field = "name" /\ value = "default") \/
    (ns_mode c = RBAll /\ field = "kind" /\ value = "ServiceAccount") ->
    get_at ["subjects"] obj = Some (Seq es) ->
    role_binding_hack c obj = Ok obj' ->
    exists es', get_at ["subjects"] obj' = Some (Seq es') /\ Forall2 (subject_rel field value) es es'.
  Proof.
    intros Hmode Hs H. unfold role_binding_hack in H.
    destruct obj as [| kvs |]; try discriminate. cbn [get_at] in Hs.
    destruct (find_field "subjects" kvs) as [x|] eqn:Fs; inv Hs.
    assert (G : forall f v,
              (do r <- walk None [PKey "subjects"]
                 (fun subj => if is_null subj then Ok (subj, tt)
                              else match subj with
                                   | Seq es0 => do es' <- mapM (visit_subject c f v) es0; Ok (Seq es', tt)
                                   | _ => Err
                                   end) (Map kvs); Ok (fst r)) = Ok obj' ->
              f <> "namespace" ->
              exists es', get_at ["subjects"] obj' = Some (Seq es') /\ Forall2 (subject_rel f v) es es').
    { intros f v HW Hf. cbn [walk] in HW. rewrite Fs in HW. cbn [is_null] in HW.
      destruct (mapM (visit_subject c f v) es) as [es'| | |] eqn:EM; cbn in HW; inv HW.
      exists es'. split.
      - cbn [get_at]. rewrite (find_field_set_first_same _ _ _ (Seq es)) by auto. reflexivity.
      - apply mapM_Forall2 in EM. eapply Forall2_impl; [|exact EM].
        intros a b Hab. unfold subject_rel. apply (visit_subject_effect c f v); auto. }
    destruct Hmode as [(Hm & -> & ->)|(Hm & -> & ->)]; rewrite Hm in H; apply G; auto; discriminate.
  Qed.

  (* the whole filter on a (Cluster)RoleBinding in default mode: subjects named "default" receive the
     namespace, every other subject is left exactly as it was *)
  Theorem subjects_default obj obj' es :
    ns_mode c = RBDefault -> is_role_binding (obj_kind obj) = true ->
    get_at ["subjects"] obj = Some (Seq es) ->
    ns_filter t c obj = Ok obj' ->
    exists es', get_at ["subjects"] obj' = Some (Seq es') /\ Forall2 (subject_rel "name" "default") es es'.
  Proof.
    intros Hmode Hrb Hs H. unfold ns_filter in H. rewrite Hrb in H.
    match type of H with (do o1 <- ?X; _) = _ => destruct X as [o1| | |] eqn:E1 end; cbn [bind] in H; try discriminate.
    assert (Hf1 : forall qs, In qs [["kind"]; ["apiVersion"]; ["subjects"]] -> get_at qs o1 = get_at qs obj).
    { destruct (obj_cluster_scoped t obj); [inv E1; reflexivity|].
      assert (Hd : rows_diverge [["kind"]; ["apiVersion"]; ["subjects"]] [mkFs "" "" "" "metadata/namespace" true] obj = true).
      { unfold rows_diverge. cbn [forallb]. rewrite andb_true_r. apply orb_true_iff. right. reflexivity. }
      apply (slice_frame KScalar TNone (ns_setter c) [["kind"]; ["apiVersion"]; ["subjects"]] _ obj o1
               ltac:(cbn; auto) ltac:(cbn; auto) Hd E1). }
    assert (Hg : gvk_same obj o1) by (split; apply Hf1; cbn; auto).
    destruct (role_binding_hack c o1) as [o2| | |] eqn:ER; cbn [bind] in H; try discriminate.
    assert (Hs1 : get_at ["subjects"] o1 = Some (Seq es)) by (rewrite Hf1; cbn; auto).
    destruct (rb_hack_subjects "name" "default" o1 o2 es (or_introl (conj Hmode (conj eq_refl eq_refl))) Hs1 ER)
      as (es' & Hs2 & HF).
    exists es'. split; [|exact HF].
    assert (Hk : get_at ["kind"] o2 = get_at ["kind"] o1) by (eapply rb_hack_frame; eauto; discriminate).
    assert (Ha : get_at ["apiVersion"] o2 = get_at ["apiVersion"] o1) by (eapply rb_hack_frame; eauto; discriminate).
    assert (Hg2 : gvk_same obj o2) by (destruct Hg; split; congruence).
    pose proof (fss_clear_diverge _ (obj_api_version obj) obj Hclear) as Hd.
    assert (Hd2 : rows_diverge read_paths (prune_subjects (prune_meta (obj_api_version obj) (ns_fss c))) o2 = true).
    { apply (rows_diverge_same _ _ _ _ Hg2). unfold prune_subjects. apply rows_diverge_filter. exact Hd. }
    rewrite <- Hs2.
    apply (slice_frame KScalar TStr (ns_setter c) read_paths _ o2 obj' ltac:(cbn; auto) ltac:(cbn; auto) Hd2 H).
    cbn; auto.
  Qed.
End Subjects.

(* ---------- the transformer: one filter run per resource, distinct ids afterwards ---------- *)
Section Transformer.
  Variable t : scope_table.
  Variable c : ns_config.

  Definition ids_distinct (l : list node) : Prop :=
    forall i j a b, i <> j -> nth_error l i = Some a -> nth_error l j = Some b ->
                    id_eqb (cur_id t a) (cur_id t b) = false.

  Lemma count_id_app id l1 l2 : count_id t id (l1 ++ l2) = count_id t id l1 + count_id t id l2.
  Proof. unfold count_id. rewrite filter_app, app_length. reflexivity. Qed.

  Lemma id_eqb_refl id : id_eqb id id = true.
  Proof. destruct id as [[[[g v] k] n] ns]. cbn. rewrite !String.eqb_refl. reflexivity. Qed.

  Lemma id_eqb_sym a b : id_eqb a b = id_eqb b a.
  Proof.
    destruct a as [[[[g v] k] n] ns], b as [[[[g' v'] k'] n'] ns']. cbn.
    rewrite (String.eqb_sym g), (String.eqb_sym v), (String.eqb_sym k), (String.eqb_sym n), (String.eqb_sym ns).
    reflexivity.
  Qed.

  Lemma count_zero_all id l : count_id t id l = 0 -> forall x, In x l -> id_eqb (cur_id t x) id = false.
  Proof.
    unfold count_id. induction l as [|y l IH]; cbn; intros H x []; subst.
    - destruct (id_eqb (cur_id t x) id); [discriminate|reflexivity].
    - destruct (id_eqb (cur_id t y) id); [discriminate|]. auto.
  Qed.

  (* loop invariant: [done] has distinct ids; result = done ++ images of todo *)
  Lemma ns_loop_spec : forall todo done out,
    ids_distinct done ->
    ns_loop t c done todo = Ok out ->
    exists imgs, out = (done ++ imgs)%list /\ Forall2 (fun r r' => ns_filter t c r = Ok r') todo imgs /\
                 ids_distinct out.
  Proof.
    induction todo as [|r rest IH]; intros done out Hd H; cbn [ns_loop] in H.
    - inv H. exists []. rewrite app_nil_r. repeat split; auto.
    - destruct (ns_filter t c r) as [r'| | |] eqn:EF; cbn [bind] in H; try discriminate.
      destruct (Nat.eqb (count_id t (cur_id t r') (done ++ r' :: rest)) 1) eqn:EC; [|discriminate].
      apply Nat.eqb_eq in EC.
      assert (Hd' : ids_distinct (done ++ [r'])).
      { rewrite count_id_app in EC. unfold count_id at 2 in EC. cbn [filter] in EC.
        rewrite id_eqb_refl in EC. cbn [List.length] in EC.
        assert (Hz : count_id t (cur_id t r') done = 0) by lia.
        pose proof (count_zero_all _ _ Hz) as Hall.
        intros i j a b Hij Ha Hb.
        destruct (Nat.lt_ge_cases i (List.length done)) as [Hi|Hi];
        destruct (Nat.lt_ge_cases j (List.length done)) as [Hj|Hj].
        - rewrite nth_error_app1 in Ha, Hb by auto. eapply Hd; eauto.
        - rewrite nth_error_app1 in Ha by auto. rewrite nth_error_app2 in Hb by auto.
          destruct (j - List.length done) as [|[|?]]; cbn in Hb; inv Hb.
          apply Hall. eapply nth_error_In; eauto.
        - rewrite nth_error_app2 in Ha by auto. rewrite nth_error_app1 in Hb by auto.
          destruct (i - List.length done) as [|[|?]]; cbn in Ha; inv Ha.
          rewrite id_eqb_sym. apply Hall. eapply nth_error_In; eauto.
        - rewrite nth_error_app2 in Ha, Hb by auto.
          destruct (i - List.length done) as [|[|?]] eqn:Ei; cbn in Ha; inv Ha.
          destruct (j - List.length done) as [|[|?]] eqn:Ej; cbn in Hb; inv Hb. lia. }
      destruct (IH _ _ Hd' H) as (imgs & -> & HF & Hdist).
      exists (r' :: imgs). rewrite <- app_assoc in *. cbn [app] in *.
      split; [reflexivity|]. split; [constructor; auto|exact Hdist].
  Qed.

  Theorem ns_transform_spec rs out :
    String.eqb (ns_value c) "" = false -> ns_transform t c rs = Ok out ->
    Forall2 (fun r r' => ns_filter t c r = Ok r') rs out /\ ids_distinct out /\ List.length out = List.length rs.
  Proof.
    intros Hn H. unfold ns_transform in H. rewrite Hn in H.
    destruct (ns_loop_spec rs [] out) as (imgs & -> & HF & Hd); auto.
    - intros i j a b _ Ha. destruct i; discriminate.
    - cbn [app]. repeat split; auto. clear - HF. induction HF; cbn; auto.
  Qed.
End Transformer.

(* ---------- chains: the outermost directive wins ---------- *)
Lemma gvk_same_cluster t obj obj' : gvk_same obj obj' -> obj_cluster_scoped t obj' = obj_cluster_scoped t obj.
Proof.
  intros [Hk Ha]. unfold obj_cluster_scoped, obj_kind, obj_api_version.
  rewrite !map_field_value_get_at, Hk, Ha. reflexivity.
Qed.

Lemma meta_not_seq_of_ns obj x : get_at meta_ns_path obj = Some x -> meta_not_seq obj = true.
Proof.
  unfold meta_ns_path, meta_not_seq. destruct obj as [| kvs |]; cbn; try discriminate.
  destruct (find_field "metadata" kvs) as [[| mk |]|]; cbn; try discriminate; reflexivity.
Qed.

Section Chain.
  Variable t : scope_table.
  Variable fss : list fieldspec.
  Hypothesis Hclear : fss_clear fss = true.

  Lemma chain_no_directive : forall ds obj, outermost ds = "" -> ns_chain t fss ds obj = Ok obj.
  Proof.
    induction ds as [|d rest IH]; intros obj H; cbn in *; [reflexivity|].
    destruct (String.eqb (outermost rest) "") eqn:E.
    - subst d. cbn. apply IH. apply String.eqb_eq; auto.
    - rewrite H in E. discriminate.
  Qed.

  Theorem outermost_wins : forall ds obj obj',
    meta_not_seq obj = true -> obj_cluster_scoped t obj = false ->
    outermost ds <> "" -> ns_chain t fss ds obj = Ok obj' ->
    obj_namespace obj' = outermost ds.
  Proof.
    induction ds as [|d rest IH]; intros obj obj' Hm Hc Ho H; cbn in Ho; [congruence|].
    cbn [ns_chain outermost] in *.
    destruct (String.eqb d "") eqn:Ed.
    - apply String.eqb_eq in Ed; subst d.
      destruct (String.eqb (outermost rest) "") eqn:E; [congruence|]. apply (IH obj obj'); auto.
    - destruct (ns_filter t (mkNs d fss false RBDefault) obj) as [o| | |] eqn:EF; cbn [bind] in H; try discriminate.
      destruct (moved t (mkNs d fss false RBDefault) Hclear obj o eq_refl Hm Hc EF) as [Hns Hg].
      destruct (String.eqb (outermost rest) "") eqn:E.
      + apply String.eqb_eq in E. rewrite (chain_no_directive _ _ E) in H. inv H. exact Hns.
      + assert (Hm' : meta_not_seq o = true).
        { unfold ns_filter in EF. rewrite Hc in EF.
          match type of EF with (do o1 <- ?X; _) = _ => destruct X as [o1| | |] eqn:E1 end; cbn [bind] in EF; try discriminate.
          destruct (meta_hack_hit (mkNs d fss false RBDefault) eq_refl obj o1 Hm E1) as [s Hs].
          assert (Hg1 : gvk_same obj o1).
          { assert (Hd : rows_diverge [["kind"]; ["apiVersion"]] [mkFs "" "" "" "metadata/namespace" true] obj = true).
            { unfold rows_diverge. cbn [forallb]. rewrite andb_true_r. apply orb_true_iff. right. reflexivity. }
            pose proof (slice_frame KScalar TNone (ns_setter (mkNs d fss false RBDefault)) [["kind"]; ["apiVersion"]] _ obj o1
                          ltac:(cbn; auto) ltac:(cbn; auto) Hd E1) as Hf.
            split; apply Hf; cbn; auto. }
          destruct (ns_filter_tail (mkNs d fss false RBDefault) Hclear obj o1 o Hg1 EF) as (_ & _ & Hn).
          eapply meta_not_seq_of_ns. rewrite Hn. exact Hs. }
        assert (Hc' : obj_cluster_scoped t o = false) by (rewrite (gvk_same_cluster t _ _ Hg); exact Hc).
        assert (Ho' : outermost rest <> "") by (intros E2; rewrite E2 in E; discriminate).
        exact (IH o obj' Hm' Hc' Ho' H).
  Qed.
End Chain.
