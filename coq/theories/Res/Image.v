(* Model of api/internal/image (IsImageMatched, Split), api/filters/imagetag (updater.go,
   legacy.go, imagetag.go) and the ImageTagTransformer plugin's Transform.
   The regular expression is the one THE CODE builds: the pattern text is assembled from the pieces
   the translator reads out of image.go (Gen/C10Patterns.v) — since /repo d3b6ede the entry name goes
   through regexp.QuoteMeta —
   and compiled by Go's regexp package, which enters as the oracle [parse] (pattern text -> AST,
   None = compile error). *)
From KV Require Export Base.Regex Yaml.FieldSpec.
From KV Require Export Gen.C10Patterns Gen.FieldSpecs.

(* types.Image *)
Record image := mkImage {
  im_name : string;
  im_new_name : string;
  im_tag_suffix : string;
  im_new_tag : string;
  im_digest : string
}.

(* ---------- image.Split ---------- *)
Fixpoint index_of (c : ascii) (s : string) : option nat :=
  match s with
  | EmptyString => None
  | String a s' => if Ascii.eqb a c then Some O else option_map S (index_of c s')
  end.

Definition split_image (s : string) : string * string * string :=
  let slash := match index_of "/"%char s with Some (S k) => S k | _ => O end in
  let search := drop slash s in
  let id := index_of "@"%char search in
  let ic := index_of ":"%char search in
  match id, ic with
  | None, None => (s, "", "")
  | Some d, None =>
      let d' := d + slash in (take d' s, "", trim_prefix "@" (drop d' s))
  | Some d, Some c =>
      if Nat.ltb d c then
        let d' := d + slash in (take d' s, "", trim_prefix "@" (drop d' s))
      else
        let d' := d + slash in
        let c' := c + slash in
        (take c' s, trim_prefix ":" (take (d' - c') (drop c' s)), trim_prefix "@" (drop d' s))
  | None, Some c =>
      let c' := c + slash in (take c' s, trim_prefix ":" (drop c' s), "")
  end.

(* the final assembly in SetImageValue *)
Definition build_image (name tag digest : string) : string :=
  name ++ (if String.eqb tag "" then "" else ":" ++ tag)
       ++ (if String.eqb digest "" then "" else "@" ++ digest).

(* ---------- image.IsImageMatched ---------- *)
Definition img_pattern (t : string) : option string := render gen_image_match_pattern t.

(* node by node: the legacy result [l] where it differs from the input [o], else the field-spec result [f] *)
Fixpoint combine (o l f : node) {struct o} : node :=
  match o, l, f with
  | Scalar _ _ _, _, _ => if node_eqb l o then f else l
  | Map ko, Map kl, Map kf =>
      Map ((fix go (a : list (string * node)) (b c : list (string * node)) : list (string * node) :=
              match a, b, c with
              | (k, x) :: a', (_, y) :: b', (_, z) :: c' => (k, combine x y z) :: go a' b' c'
              | _, _, _ => b
              end) ko kl kf)
  | Seq eo, Seq el, Seq ef =>
      Seq ((fix go (a b c : list node) : list node :=
              match a, b, c with
              | x :: a', y :: b', z :: c' => combine x y z :: go a' b' c'
              | _, _, _ => b
              end) eo el ef)
  | _, _, _ => l
  end.
Fixpoint combine_list (o l f : list node) : list node :=
  match o, l, f with
  | x :: o', y :: l', z :: f' => combine x y z :: combine_list o' l' f'
  | _, _, _ => l
  end.

Section WithRegexp.
  (* regexp.Compile on the pattern texts that occur: None = compile error *)
  Variable parse : string -> option re.

  Definition is_matched (s t : string) : res bool :=
    match img_pattern t with
    | None => Err   (* the source no longer has the modelled shape: Gen obligation fails first *)
    | Some p =>
        match parse p with
        | Some r => Ok (matches r s)
        | None =>
            if gen_image_compile_error_ignored then Panic       (* nil *Regexp dereferenced *)
            else if gen_image_compile_error_returns_false then Ok false   (* if err != nil { return false } *)
            else Err
        end
    end.

  (* name/tag/digest composition of imageTagUpdater.SetImageValue after a successful match *)
  Definition compose (im : image) (value : string) : string :=
    let '(name, tag, digest) := split_image value in
    let name := if String.eqb (im_new_name im) "" then name else im_new_name im in
    let '(tag, digest) :=
      if negb (String.eqb (im_new_tag im) "") && negb (String.eqb (im_digest im) "")
      then (im_new_tag im, im_digest im)
      else if negb (String.eqb (im_new_tag im) "") then (im_new_tag im, "")
      else if negb (String.eqb (im_digest im) "") then ("", im_digest im)
      else if negb (String.eqb (im_tag_suffix im) "") then (tag ++ im_tag_suffix im, "")
      else (tag, digest) in
    build_image name tag digest.

  (* the new text of an image value; None = not matched, left alone *)
  Definition update_value (im : image) (value : string) : res (option string) :=
    do m <- is_matched value (im_name im);
    if m then Ok (Some (compose im value)) else Ok None.

  (* imageTagUpdater.SetImageValue on the node found at an image field.
     FieldSetter{Name: ""} keeps the style of the old node and installs the (empty) tag of the new one. *)
  Definition set_image_value (im : image) (n : node) : res node :=
    match n with
    | Scalar _ st v =>
        do r <- update_value im v;
        match r with
        | Some v' => Ok (Scalar TNone st v')
        | None => Ok n
        end
    | _ => Err      (* ErrorIfInvalid(rn, ScalarNode) *)
    end.

  (* ---------- legacy.go ---------- *)
  (* checkImageTagsFn: n.PipeE(yaml.Get("image"), imageTagUpdater{...}) on one list element *)
  Definition legacy_elem (im : image) (e : node) : res node :=
    if is_null e then Ok e else
    match e with
    | Map kvs =>
        match find_field "image" kvs with
        | Some x => do x' <- set_image_value im x; Ok (Map (set_first "image" x' kvs))
        | None => Ok e
        end
    | _ => Err
    end.

  Definition legacy_callback (im : image) (v : node) : res node :=
    match v with
    | Seq es => do es' <- mapM (legacy_elem im) es; Ok (Seq es')
    | _ => Ok v
    end.

  (* findFieldsFilter.walk: domain restriction — mappings without duplicate keys (VisitFields looks
     every key up by name, so a repeated key would visit the first occurrence twice). *)
  Fixpoint legacy_walk (im : image) (n : node) {struct n} : res node :=
    match n with
    | Scalar _ _ _ => Ok n
    | Map kvs =>
        do kvs' <- (fix go (l : list (string * node)) : res (list (string * node)) :=
                      match l with
                      | [] => Ok []
                      | (k, v) :: t =>
                          do v1 <- legacy_walk im v;
                          do v2 <- (if str_in k gen_legacy_image_fields then legacy_callback im v1 else Ok v1);
                          do t' <- go t;
                          Ok ((k, v2) :: t')
                      end) kvs;
        Ok (Map kvs')
    | Seq es =>
        do es' <- (fix go (l : list node) : res (list node) :=
                     match l with
                     | [] => Ok []
                     | e :: t => do e' <- legacy_walk im e; do t' <- go t; Ok (e' :: t')
                     end) es;
        Ok (Seq es')
    end.

  (* LegacyFilter.filter on one resource *)
  Definition legacy_filter (im : image) (obj : node) : res node :=
    if str_in (obj_kind obj) gen_legacy_skip_kinds then Ok obj else legacy_walk im obj.

  (* imagetag.Filter.filter on one resource *)
  Definition image_fs_filter (im : image) (fss : list fieldspec) (obj : node) : res node :=
    if str_in (obj_kind obj) gen_fsfilter_skip_kinds then Ok obj
    else fsslice_apply None TNone (set_image_value im) fss obj.

  (* ImageTagTransformerPlugin.Transform: LegacyFilter over every resource, then Filter over every resource.
     Since the repair of the double update ([gen_image_transform_shares_visited]) the two filters
     share the set of fields already updated: the second filter skips them.  A field the legacy scan
     matched but left textually and structurally unchanged is updated to the same node again by the
     second filter, so "skipped" can be read as "changed by the legacy scan": the result is, node by
     node, the legacy result where it differs from the input and otherwise the field-spec result
     computed on the input (neither filter changes the shape of a document: image field specs never
     create). *)
  Definition image_transform (im : image) (fss : list fieldspec) (rs : list node) : res (list node) :=
    do rs1 <- mapM (legacy_filter im) rs;
    if gen_image_transform_shares_visited then
      do rsf <- mapM (image_fs_filter im fss) rs;
      Ok (combine_list rs rs1 rsf)
    else mapM (image_fs_filter im fss) rs1.
End WithRegexp.

(* ---------- the expected shape of the compiled image pattern for a literal entry name ---------- *)
Definition tag_cls : list (N * N) := [(45, 46); (48, 57); (65, 90); (95, 95); (97, 123); (125, 125)]%N.

Definition img_re (t : string) : re :=
  Cat Bol (Cat (lit t)
    (Cat (Opt (Group (Cat (lit ":") (Star (Cls tag_cls)))))
      (Cat (Opt (Group (Cat (lit "@sha256:") (Star (Cls tag_cls))))) Eol))).

(* normal form used to compare the AST Go's parser produced with [img_re] (concatenations
   flattened to the right, empty matches dropped) *)
Fixpoint flat (r : re) : list re :=
  match r with
  | Cat a b => flat a ++ flat b
  | Eps => []
  | Alt a b => [Alt (cat_of_list (flat a)) (cat_of_list (flat b))]
  | Star a => [Star (cat_of_list (flat a))]
  | _ => [r]
  end.
Definition norm (r : re) : re := cat_of_list (flat r).
