(* C06 — proofs about Res/Hash.v: SHA-256 test vectors, shape of the suffix, injectivity of the encodings. *)
From KV Require Import Res.Hash.
From KV Require Import Gen.HasherTables.
From Coq Require Import ZifyNat ZifyN ZifyBool.
Local Open Scope string_scope.

(* ------------------------------------------------------------------ SHA-256: FIPS 180-4 / NIST example vectors *)

Example sha256_vector_empty :
  hex256 "" = "e3b0c44298fc1c149afbf4c8996fb92427ae41e4649b934ca495991b7852b855".
Proof. vm_compute. reflexivity. Qed.

Example sha256_vector_abc :
  hex256 "abc" = "ba7816bf8f01cfea414140de5dae2223b00361a396177a9cb410ff61f20015ad".
Proof. vm_compute. reflexivity. Qed.

Example sha256_vector_448 :
  hex256 "abcdbcdecdefdefgefghfghighijhijkijkljklmklmnlmnomnopnopq"
  = "248d6a61d20638b8e5c026930c3e6039a33ce45964ff2167f6ecedd419db06c1".
Proof. vm_compute. reflexivity. Qed.

Example sha256_vector_896 :
  hex256 "abcdefghbcdefghicdefghijdefghijkefghijklfghijklmghijklmnhijklmnoijklmnopjklmnopqklmnopqrlmnopqrsmnopqrstnopqrstu"
  = "cf5b16a778af8380036ce59e7b0492370b249b11e8f07a51afac45037afee9d1".
Proof. vm_compute. reflexivity. Qed.

Lemma mask32_ones : mask32 = N.ones 32.
Proof. reflexivity. Qed.

(* the words are reduced modulo 2^32 *)
Lemma mod32_spec : forall x, mod32 x = (x mod 2 ^ 32)%N.
Proof. intro x. unfold mod32. rewrite mask32_ones. apply N.land_ones. Qed.

(* ------------------------------------------------------------------ shape of hex256 and of the suffix *)

Fixpoint str_all (p : ascii -> bool) (s : string) : bool :=
  match s with EmptyString => true | String c r => p c && str_all p r end.

Definition is_hexchar (c : ascii) : bool :=
  let n := N_of_ascii c in (in_rng 48 57 n || in_rng 97 102 n).

Lemma hexdigit_hex : forall n, is_hexchar (hexdigit n) = true.
Proof.
  intro n. unfold hexdigit.
  assert (H : (N.land n 15 < 16)%N).
  { change 15%N with (N.ones 4). rewrite N.land_ones. apply N.mod_lt. discriminate. }
  set (d := N.land n 15) in *. clearbody d.
  assert (d = 0 \/ d = 1 \/ d = 2 \/ d = 3 \/ d = 4 \/ d = 5 \/ d = 6 \/ d = 7 \/ d = 8 \/ d = 9 \/
          d = 10 \/ d = 11 \/ d = 12 \/ d = 13 \/ d = 14 \/ d = 15)%N as Hc by lia.
  repeat (destruct Hc as [-> | Hc]; [reflexivity |]). subst d. reflexivity.
Qed.

Lemma hex_word_all : forall w rest, str_all is_hexchar rest = true -> str_all is_hexchar (hex_word w rest) = true.
Proof. intros w rest H. unfold hex_word. cbn [str_all]. rewrite !hexdigit_hex, H. reflexivity. Qed.

Lemma hex_word_length : forall w rest, String.length (hex_word w rest) = (8 + String.length rest)%nat.
Proof. reflexivity. Qed.

Lemma hex256_length : forall s, String.length (hex256 s) = 64%nat.
Proof.
  intro s. unfold hex256, hex_state.
  destruct (sha256_words (bytes_of_string s)) as [[[[[[[a b] c] d] e] f] g] h].
  rewrite !hex_word_length. reflexivity.
Qed.

Lemma hex256_hex : forall s, str_all is_hexchar (hex256 s) = true.
Proof.
  intro s. unfold hex256, hex_state.
  destruct (sha256_words (bytes_of_string s)) as [[[[[[[a b] c] d] e] f] g] h].
  repeat apply hex_word_all. reflexivity.
Qed.

Lemma map_str_length : forall f s, String.length (map_str f s) = String.length s.
Proof. induction s; cbn; congruence. Qed.

Lemma take_length : forall n s, (n <= String.length s)%nat -> String.length (take n s) = n.
Proof. induction n; intros [|c s] H; cbn in *; try lia. f_equal. apply IHn. lia. Qed.

Lemma str_all_take : forall p n s, str_all p s = true -> str_all p (take n s) = true.
Proof.
  induction n; intros [|c s] H; cbn in *; try reflexivity.
  apply andb_true_iff in H as [H1 H2]. rewrite H1. cbn. apply IHn, H2.
Qed.

Lemma str_all_map : forall (p q : ascii -> bool) f s,
  (forall c, p c = true -> q (f c) = true) -> str_all p s = true -> str_all q (map_str f s) = true.
Proof.
  intros p q f s Hf. induction s; cbn; intro H; [reflexivity|].
  apply andb_true_iff in H as [H1 H2]. rewrite (Hf _ H1), (IHs H2). reflexivity.
Qed.

(* the suffix alphabet: hex digits without 0 1 3 a e, plus g h k m t — no vowels, no digits that read as letters *)
Definition suffix_alphabet : string := "2456789bcdfghkmt".

Fixpoint str_mem (c : ascii) (s : string) : bool :=
  match s with EmptyString => false | String a r => Ascii.eqb a c || str_mem c r end.

Definition in_suffix_alphabet (c : ascii) : bool := str_mem c suffix_alphabet.

Lemma subst_hex_in_alphabet : forall c, is_hexchar c = true -> in_suffix_alphabet (subst_char c) = true.
Proof.
  intros c H. unfold is_hexchar, in_rng in H.
  assert (Hn : (N_of_ascii c < 256)%N) by apply N_ascii_bounded.
  set (n := N_of_ascii c) in *.
  assert (Hc : (n = 48 \/ n = 49 \/ n = 50 \/ n = 51 \/ n = 52 \/ n = 53 \/ n = 54 \/ n = 55 \/ n = 56 \/ n = 57 \/
                n = 97 \/ n = 98 \/ n = 99 \/ n = 100 \/ n = 101 \/ n = 102)%N) by lia.
  unfold subst_char. fold n.
  repeat (destruct Hc as [-> | Hc]; [vm_compute; reflexivity |]). rewrite Hc. vm_compute. reflexivity.
Qed.

(* hasher.encode never fails on a SHA-256 digest; the result has 10 characters of the suffix alphabet *)
Lemma encode_suffix_hex256 : forall x,
  exists s, encode_suffix (hex256 x) = Ok s /\ String.length s = 10%nat /\ str_all in_suffix_alphabet s = true.
Proof.
  intro x. unfold encode_suffix. rewrite hex256_length. cbn [N.of_nat N.ltb].
  change (N.of_nat 64 <? hash_prefix_len)%N with false. cbn iota.
  eexists. split; [reflexivity|]. split.
  - rewrite map_str_length. apply take_length. rewrite hex256_length. vm_compute. lia.
  - apply str_all_map with (p := is_hexchar); [apply subst_hex_in_alphabet|].
    apply str_all_take, hex256_hex.
Qed.

Lemma hash_content_shape : forall c s,
  hash_content c = Ok s -> String.length s = 10%nat /\ str_all in_suffix_alphabet s = true.
Proof.
  intros c s. unfold hash_content. destruct (content_rt_fails c); [discriminate|].
  destruct (encode_suffix_hex256 (encode_content c)) as [s' [E [L A]]]. rewrite E.
  intro H. inversion H. subst. auto.
Qed.

(* the hash is defined exactly when the YAML text of the maps can be read back *)
Lemma hash_content_total : forall c, content_rt_fails c = false -> exists s, hash_content c = Ok s.
Proof.
  intros c H. unfold hash_content. rewrite H.
  destruct (encode_suffix_hex256 (encode_content c)) as [s [E _]]. eauto.
Qed.

Lemma hash_content_err : forall c, content_rt_fails c = true -> hash_content c = Err.
Proof. intros c H. unfold hash_content. rewrite H. reflexivity. Qed.

(* a key kustomize accepts and cannot hash (finding hash-yaml-roundtrip-merge-key) *)
Lemma hash_total_refuted :
  exists c, ct_secret c = false /\ ct_data c = Some [("<<", "v")] /\ hash_content c = Err.
Proof. exists (mkContent false (Some [("<<", "v")]) [] ""). repeat split. Qed.

(* regression (was the witness of hash-yaml-roundtrip-leading-tab until the repair baa93c5 of makeConfigMapValueRNode):
   a value that starts with a TAB and has two lines is hashed *)
Example hash_leading_tab_regression :
  yaml_rt_fails (sb [9; 120; 10; 121]%N) = true /\
  exists s, hash_content (mkContent false (Some [("k", sb [9; 120; 10; 121]%N)]) [] "") = Ok s.
Proof. split; [reflexivity|]. eexists. vm_compute. reflexivity. Qed.

Lemma sapp_assoc : forall a b c : string, (a ++ b) ++ c = a ++ (b ++ c).
Proof. induction a; cbn; intros; [reflexivity | f_equal; apply IHa]. Qed.

Definition unhex (c : ascii) : option N :=
  let n := N_of_ascii c in
  if in_rng 48 57 n then Some (n - 48)%N else if in_rng 97 102 n then Some (n - 87)%N else None.

Definition cons1 (c : ascii) (p : option (string * string)) : option (string * string) :=
  match p with Some (b, r) => Some (String c b, r) | None => None end.

(* decoder of the body of a JSON string written by [json_esc]: (decoded, text after the closing quote) *)
Fixpoint unesc (s : string) : option (string * string) :=
  match s with
  | EmptyString => None
  | String c r =>
      let n := N_of_ascii c in
      if (n =? 34)%N then Some (EmptyString, r)
      else if (n =? 92)%N then
        match r with
        | String e r1 =>
            let m := N_of_ascii e in
            if (m =? 117)%N then
              match r1 with
              | String h1 (String h2 (String h3 (String h4 r2))) =>
                  match unhex h1, unhex h2, unhex h3, unhex h4 with
                  | Some a, Some b, Some c', Some d =>
                      let code := (a * 4096 + b * 256 + c' * 16 + d)%N in
                      if (code <? 256)%N then cons1 (ascii_of_N code) (unesc r2)
                      else if (code =? 8232)%N then
                        cons1 (ascii_of_N 226) (cons1 (ascii_of_N 128) (cons1 (ascii_of_N 168) (unesc r2)))
                      else if (code =? 8233)%N then
                        cons1 (ascii_of_N 226) (cons1 (ascii_of_N 128) (cons1 (ascii_of_N 169) (unesc r2)))
                      else None
                  | _, _, _, _ => None
                  end
              | _ => None
              end
            else if (m =? 34)%N then cons1 (ascii_of_N 34) (unesc r1)
            else if (m =? 92)%N then cons1 (ascii_of_N 92) (unesc r1)
            else if (m =? 98)%N then cons1 (ascii_of_N 8) (unesc r1)
            else if (m =? 102)%N then cons1 (ascii_of_N 12) (unesc r1)
            else if (m =? 110)%N then cons1 (ascii_of_N 10) (unesc r1)
            else if (m =? 114)%N then cons1 (ascii_of_N 13) (unesc r1)
            else if (m =? 116)%N then cons1 (ascii_of_N 9) (unesc r1)
            else None
        | EmptyString => None
        end
      else cons1 c (unesc r)
  end.

Lemma unesc_ascii : forall c X, (N_of_ascii c <? 128)%N = true ->
  unesc (json_ascii (N_of_ascii c) c X) = cons1 c (unesc X).
Proof.
  intros c X H. destruct c as [b0 b1 b2 b3 b4 b5 b6 b7].
  destruct b7; [destruct b0, b1, b2, b3, b4, b5, b6; discriminate H|].
  destruct b0, b1, b2, b3, b4, b5, b6; reflexivity.
Qed.


Fixpoint conts (k : nat) (s : string) : bool :=
  match k with
  | O => true
  | S k' => match s with String c r => is_cont (N_of_ascii c) && conts k' r | EmptyString => false end
  end.

Lemma utf8_tail_conts : forall n r, conts (utf8_tail n r) r = true.
Proof.
  intros n r. unfold utf8_tail.
  destruct r as [|c1 r1]; [reflexivity|].
  destruct (in_rng 194 223 n).
  { destruct (is_cont (N_of_ascii c1)) eqn:E; cbn; [rewrite E|]; reflexivity. }
  match goal with |- context [negb ?b] => destruct b eqn:E1 end; cbn [negb]; [|reflexivity].
  assert (C1 : is_cont (N_of_ascii c1) = true).
  { revert E1. unfold is_cont, in_rng. repeat match goal with |- context [if ?b then _ else _] => destruct b end; lia. }
  destruct r1 as [|c2 r2]; [reflexivity|].
  destruct (is_cont (N_of_ascii c2)) eqn:E2; cbn [negb]; [|reflexivity].
  destruct (n <? 240)%N.
  { cbn. rewrite C1, E2. reflexivity. }
  destruct r2 as [|c3 r3]; [reflexivity|].
  destruct (is_cont (N_of_ascii c3)) eqn:E3; [|reflexivity].
  cbn. rewrite C1, E2, E3. reflexivity.
Qed.

Lemma cont_not_special : forall c, is_cont (N_of_ascii c) = true ->
  (N_of_ascii c =? 34)%N = false /\ (N_of_ascii c =? 92)%N = false.
Proof. intros c H. unfold is_cont, in_rng in H. lia. Qed.

Lemma high_not_special : forall c, (N_of_ascii c <? 128)%N = false ->
  (N_of_ascii c =? 34)%N = false /\ (N_of_ascii c =? 92)%N = false.
Proof. intros c H. lia. Qed.

Lemma unesc_raw : forall c X, (N_of_ascii c =? 34)%N = false -> (N_of_ascii c =? 92)%N = false ->
  unesc (String c X) = cons1 c (unesc X).
Proof. intros c X H1 H2. cbn [unesc]. rewrite H1, H2. reflexivity. Qed.

Lemma unesc_u2028 : forall X, unesc (u202 "8" X) =
  cons1 (ascii_of_N 226) (cons1 (ascii_of_N 128) (cons1 (ascii_of_N 168) (unesc X))).
Proof. reflexivity. Qed.
Lemma unesc_u2029 : forall X, unesc (u202 "9" X) =
  cons1 (ascii_of_N 226) (cons1 (ascii_of_N 128) (cons1 (ascii_of_N 169) (unesc X))).
Proof. reflexivity. Qed.

Lemma ascii_of_N_of : forall c n, N_of_ascii c = n -> c = ascii_of_N n.
Proof. intros c n H. rewrite <- H. symmetry. apply ascii_N_embedding. Qed.

Lemma json_esc_unesc_len : forall len s k rest, (String.length s <= len)%nat ->
  conts k s = true -> valid_utf8_from k s = true ->
  unesc (json_esc k s ++ String dq rest) = Some (s, rest).
Proof.
  induction len as [|len IH]; intros s k rest Hlen Hc Hv.
  { destruct s; [|cbn in Hlen; lia]. reflexivity. }
  destruct s as [|c r]; [reflexivity|].
  cbn [String.length] in Hlen.
  destruct k as [|k'].
  2:{ cbn [conts] in Hc. apply andb_true_iff in Hc as [Hc1 Hc2]. cbn [valid_utf8_from] in Hv.
      cbn [json_esc append]. destruct (cont_not_special _ Hc1) as [A B].
      rewrite (unesc_raw _ _ A B). rewrite (IH r k' rest); [reflexivity|lia|assumption|assumption]. }
  cbn [json_esc]. cbn [valid_utf8_from] in Hv.
  destruct (N_of_ascii c <? 128)%N eqn:Hn.
  { (* ASCII *)
    assert (Happ : forall X Y, json_ascii (N_of_ascii c) c X ++ Y = json_ascii (N_of_ascii c) c (X ++ Y)).
    { intros X Y. unfold json_ascii.
      repeat match goal with |- context [if ?b then _ else _] => destruct b end; reflexivity. }
    rewrite Happ, (unesc_ascii _ _ Hn), (IH r O rest); [reflexivity|lia|reflexivity|assumption]. }
  (* multi-byte *)
  destruct (high_not_special _ Hn) as [A B].
  assert (Hgen : match utf8_tail (N_of_ascii c) r with
                 | O => ufffd (json_esc 0 r)
                 | S m => String c (json_esc (S m) r)
                 end ++ String dq rest = String c (json_esc (utf8_tail (N_of_ascii c) r) r) ++ String dq rest
                 /\ unesc (String c (json_esc (utf8_tail (N_of_ascii c) r) r) ++ String dq rest) = Some (String c r, rest)).
  { destruct (utf8_tail (N_of_ascii c) r) as [|m] eqn:Ht; [discriminate Hv|]. split; [reflexivity|].
    cbn [append]. rewrite (unesc_raw _ _ A B).
    rewrite (IH r (S m) rest); [reflexivity|lia| |assumption].
    rewrite <- Ht. apply utf8_tail_conts. }
  destruct Hgen as [G1 G2].
  destruct r as [|c1 [|c2 r2]]; try (rewrite G1; exact G2).
  destruct ((N_of_ascii c =? 226)%N && (N_of_ascii c1 =? 128)%N && (N_of_ascii c2 =? 168)%N) eqn:L8.
  { apply andb_true_iff in L8 as [L8 L3]. apply andb_true_iff in L8 as [L1 L2].
    apply N.eqb_eq in L1, L2, L3.
    assert (Hv2 : valid_utf8_from 0 r2 = true).
    { rewrite L1 in Hv. unfold utf8_tail in Hv. rewrite L2, L3 in Hv. vm_compute in Hv. exact Hv. }
    unfold u202. cbn [append]. change (String "\" (String "u" (String "2" (String "0" (String "2" (String "8" (json_esc 0 r2 ++ String dq rest)))))))
      with (u202 "8" (json_esc 0 r2 ++ String dq rest)).
    rewrite unesc_u2028, (IH r2 O rest); [|cbn in Hlen; lia|reflexivity|assumption].
    cbn [cons1]. rewrite (ascii_of_N_of _ _ L1), (ascii_of_N_of _ _ L2), (ascii_of_N_of _ _ L3). reflexivity. }
  destruct ((N_of_ascii c =? 226)%N && (N_of_ascii c1 =? 128)%N && (N_of_ascii c2 =? 169)%N) eqn:L9.
  { apply andb_true_iff in L9 as [L9 L3]. apply andb_true_iff in L9 as [L1 L2].
    apply N.eqb_eq in L1, L2, L3.
    assert (Hv2 : valid_utf8_from 0 r2 = true).
    { rewrite L1 in Hv. unfold utf8_tail in Hv. rewrite L2, L3 in Hv. vm_compute in Hv. exact Hv. }
    unfold u202. cbn [append]. change (String "\" (String "u" (String "2" (String "0" (String "2" (String "9" (json_esc 0 r2 ++ String dq rest)))))))
      with (u202 "9" (json_esc 0 r2 ++ String dq rest)).
    rewrite unesc_u2029, (IH r2 O rest); [|cbn in Hlen; lia|reflexivity|assumption].
    cbn [cons1]. rewrite (ascii_of_N_of _ _ L1), (ascii_of_N_of _ _ L2), (ascii_of_N_of _ _ L3). reflexivity. }
  rewrite G1. exact G2.
Qed.


Lemma json_string_app : forall s R, json_string s ++ R = String dq (json_esc O s ++ String dq R).
Proof. intros. unfold json_string. cbn [append]. rewrite sapp_assoc. reflexivity. Qed.

(* a JSON string literal can be read back from the front of any text *)
Lemma json_string_inj : forall a b ra rb, valid_utf8 a = true -> valid_utf8 b = true ->
  json_string a ++ ra = json_string b ++ rb -> a = b /\ ra = rb.
Proof.
  intros a b ra rb Ha Hb H. rewrite !json_string_app in H. injection H as H.
  assert (E : unesc (json_esc 0 a ++ String dq ra) = unesc (json_esc 0 b ++ String dq rb)) by (rewrite H; reflexivity).
  rewrite (json_esc_unesc_len (String.length a) a O ra), (json_esc_unesc_len (String.length b) b O rb) in E;
    try reflexivity; try assumption; try lia.
  inversion E. auto.
Qed.

Local Opaque json_string.

Definition pair_utf8 (kv : string * string) : bool := valid_utf8 (fst kv) && valid_utf8 (snd kv).
Definition dict_utf8 (d : list (string * string)) : bool := forallb pair_utf8 d.

Lemma sapp_nil : forall s : string, s ++ "" = s.
Proof. induction s; cbn; congruence. Qed.

Lemma sapp_nil_l : forall s : string, "" ++ s = s.
Proof. reflexivity. Qed.

Lemma sapp_inv_head : forall p a b : string, p ++ a = p ++ b -> a = b.
Proof. induction p; cbn; intros a0 b0 H; [assumption|]. injection H as H. auto. Qed.

Lemma json_members_cons : forall k v t,
  json_members ((k, v) :: t) =
  json_string k ++ ":" ++ json_string v ++ match t with [] => "" | _ => "," ++ json_members t end.
Proof.
  intros k v [|p t]; cbn [json_members].
  - rewrite sapp_nil. reflexivity.
  - reflexivity.
Qed.

Lemma json_members_inj : forall d d' R R', dict_utf8 d = true -> dict_utf8 d' = true ->
  json_members d ++ "}" ++ R = json_members d' ++ "}" ++ R' -> d = d' /\ R = R'.
Proof.
  induction d as [|[k v] t IH]; intros [|[k' v'] t'] R R' Hd Hd' H.
  - cbn in H. injection H as H. auto.
  - exfalso. rewrite json_members_cons, !sapp_assoc, json_string_app in H. cbn in H. discriminate H.
  - exfalso. rewrite json_members_cons, !sapp_assoc, json_string_app in H. cbn in H. discriminate H.
  - cbn [dict_utf8 forallb] in Hd, Hd'. apply andb_true_iff in Hd as [Hp Hd], Hd' as [Hp' Hd'].
    unfold pair_utf8 in Hp, Hp'. cbn [fst snd] in Hp, Hp'.
    apply andb_true_iff in Hp as [Hk Hv], Hp' as [Hk' Hv'].
    rewrite !json_members_cons, !sapp_assoc in H.
    apply json_string_inj in H as [-> H]; try assumption.
    apply sapp_inv_head in H.
    apply json_string_inj in H as [-> H]; try assumption.
    destruct t as [|p t1], t' as [|p' t1'].
    + cbn in H. injection H as H. auto.
    + exfalso. cbn in H. discriminate H.
    + exfalso. cbn in H. discriminate H.
    + rewrite !sapp_assoc in H. apply sapp_inv_head in H.
      destruct (IH (p' :: t1') R R' Hd Hd' H) as [E1 E2]. rewrite E1. auto.
Qed.

Lemma json_obj_inj : forall d d' R R', dict_utf8 d = true -> dict_utf8 d' = true ->
  json_obj d ++ R = json_obj d' ++ R' -> d = d' /\ R = R'.
Proof.
  intros d d' R R' Hd Hd' H. unfold json_obj in H. rewrite !sapp_assoc in H.
  apply sapp_inv_head in H. eapply json_members_inj; eassumption.
Qed.

Lemma dict_utf8_view : forall d, dict_utf8 d = true -> dict_utf8 (hash_view d) = true.
Proof.
  unfold dict_utf8, hash_view. induction d as [|p t IH]; cbn; intro H; [reflexivity|].
  apply andb_true_iff in H as [H1 H2]. destruct (negb (yaml_null_key (fst p))); cbn; [rewrite H1|]; auto.
Qed.

Definition view_opt (d : option (list (string * string))) := option_map hash_view d.
Definition opt_utf8 (d : option (list (string * string))) : bool :=
  match d with None => true | Some m => dict_utf8 m end.

Lemma enc_data_inj : forall d d' R R', opt_utf8 d = true -> opt_utf8 d' = true ->
  enc_data d ++ R = enc_data d' ++ R' -> view_opt d = view_opt d' /\ R = R'.
Proof.
  intros [m|] [m'|] R R' Hd Hd' H; cbn [enc_data view_opt option_map] in *.
  - apply json_obj_inj in H as [E1 E2]; try (apply dict_utf8_view; assumption). rewrite E1. auto.
  - exfalso. unfold json_obj in H. cbn in H. discriminate H.
  - exfalso. unfold json_obj in H. cbn in H. discriminate H.
  - cbn in H. injection H as H. auto.
Qed.

(* what the ConfigMap encoding determines: presence of binaryData, and the entries that reach the hasher *)
Definition cm_view (c : content) :=
  (match ct_bin c with [] => None | b => Some (hash_view b) end, view_opt (ct_data c)).

Definition content_utf8 (c : content) : bool :=
  opt_utf8 (ct_data c) && dict_utf8 (ct_bin c) && valid_utf8 (ct_type c).

Lemma encode_cm_inj : forall c c', content_utf8 c = true -> content_utf8 c' = true ->
  encode_cm c = encode_cm c' -> cm_view c = cm_view c'.
Proof.
  intros c c' Hc Hc' H. unfold content_utf8 in *.
  apply andb_true_iff in Hc as [Hc Ht], Hc' as [Hc' Ht'].
  apply andb_true_iff in Hc as [Hd Hb], Hc' as [Hd' Hb'].
  unfold encode_cm, cm_view in *.
  destruct (ct_bin c) as [|p b] eqn:Eb, (ct_bin c') as [|p' b'] eqn:Eb'.
  - apply sapp_inv_head in H. rewrite !sapp_nil_l in H. apply sapp_inv_head in H.
    apply enc_data_inj in H as [E _]; try assumption. rewrite E. reflexivity.
  - exfalso. cbn [append] in H. discriminate H.
  - exfalso. cbn [append] in H. discriminate H.
  - rewrite !sapp_assoc in H. apply sapp_inv_head in H. apply sapp_inv_head in H.
    apply json_obj_inj in H as [E1 H]; try (apply dict_utf8_view; assumption).
    apply sapp_inv_head in H. apply sapp_inv_head in H.
    apply enc_data_inj in H as [E2 _]; try assumption. rewrite E1, E2. reflexivity.
Qed.

Lemma encode_secret_inj : forall c c', content_utf8 c = true -> content_utf8 c' = true ->
  encode_secret c = encode_secret c' -> view_opt (ct_data c) = view_opt (ct_data c') /\ ct_type c = ct_type c'.
Proof.
  intros c c' Hc Hc' H. unfold content_utf8 in *.
  apply andb_true_iff in Hc as [Hc Ht], Hc' as [Hc' Ht'].
  apply andb_true_iff in Hc as [Hd Hb], Hc' as [Hd' Hb'].
  unfold encode_secret in H. apply sapp_inv_head in H.
  apply enc_data_inj in H as [E1 H]; try assumption.
  apply sapp_inv_head in H.
  apply json_string_inj in H as [E2 _]; try assumption. auto.
Qed.

(* ------------------------------------------------------------------ injectivity of the content encoding *)

Definition no_null_keys (d : list (string * string)) : bool :=
  forallb (fun kv => negb (yaml_null_key (fst kv))) d.

Lemma hash_view_id : forall d, no_null_keys d = true -> hash_view d = d.
Proof.
  unfold no_null_keys, hash_view. induction d as [|p t IH]; cbn; intro H; [reflexivity|].
  apply andb_true_iff in H as [H1 H2]. rewrite H1, (IH H2). reflexivity.
Qed.

Definition content_no_null (c : content) : bool :=
  match ct_data c with None => true | Some m => no_null_keys m end && no_null_keys (ct_bin c).

(* fields the kind does not have are empty (as [content_of] builds them) *)
Definition content_norm (c : content) : Prop :=
  if ct_secret c then ct_bin c = [] else ct_type c = "".

Lemma view_opt_id : forall d d', match d with None => true | Some m => no_null_keys m end = true ->
  match d' with None => true | Some m => no_null_keys m end = true -> view_opt d = view_opt d' -> d = d'.
Proof.
  intros [m|] [m'|] H H' E; cbn in E; try discriminate; [|reflexivity].
  rewrite (hash_view_id _ H), (hash_view_id _ H') in E. exact E.
Qed.

Lemma encode_kind_differs : forall c c', content_utf8 c = true -> content_utf8 c' = true ->
  encode_cm c = encode_secret c' -> False.
Proof.
  intros c c' Hc Hc' H. unfold content_utf8 in *.
  apply andb_true_iff in Hc as [Hc Ht], Hc' as [Hc' Ht'].
  apply andb_true_iff in Hc as [Hd Hb], Hc' as [Hd' Hb'].
  assert (Es : encode_secret c' = "{" ++ """data"":" ++ enc_data (ct_data c') ++
               ",""kind"":""Secret"",""name"":"""",""type"":" ++ json_string (ct_type c') ++ "}") by reflexivity.
  rewrite Es in H. clear Es. unfold encode_cm in H.
  destruct (ct_bin c) as [|p b].
  - rewrite sapp_nil_l in H. apply sapp_inv_head in H. apply sapp_inv_head in H.
    apply enc_data_inj in H as [_ H]; try assumption. cbn in H. discriminate H.
  - apply sapp_inv_head in H. rewrite !sapp_assoc in H. cbn [append] in H. discriminate H.
Qed.

(* C06_encode_injective (partial): on contents none of whose keys is a YAML null spelling, equal encodings mean
   equal contents — a name collision under a content change is then a collision of the truncated SHA-256 *)
Lemma encode_content_inj : forall c c',
  content_utf8 c = true -> content_utf8 c' = true ->
  content_norm c -> content_norm c' ->
  content_no_null c = true -> content_no_null c' = true ->
  encode_content c = encode_content c' -> c = c'.
Proof.
  intros c c' Hu Hu' Hn Hn' Hk Hk' H.
  unfold content_no_null in Hk, Hk'. apply andb_true_iff in Hk as [Kd Kb], Hk' as [Kd' Kb'].
  unfold encode_content, content_norm in *.
  destruct c as [s d b t], c' as [s' d' b' t']. cbn [ct_secret ct_data ct_bin ct_type] in *.
  destruct s, s'.
  - apply encode_secret_inj in H as [E1 E2]; try assumption. cbn [ct_data ct_type] in E1, E2.
    apply view_opt_id in E1; try assumption. subst. reflexivity.
  - exfalso. symmetry in H. eapply encode_kind_differs; [| |exact H]; assumption.
  - exfalso. eapply encode_kind_differs; [| |exact H]; assumption.
  - apply encode_cm_inj in H; try assumption. unfold cm_view in H. cbn [ct_data ct_bin] in H.
    injection H as E1 E2. apply view_opt_id in E2; try assumption. subst.
    assert (Eb : b = b').
    { destruct b as [|p b], b' as [|p' b']; try discriminate E1; [reflexivity|].
      change (Some (hash_view (p :: b)) = Some (hash_view (p' :: b'))) in E1.
      rewrite (hash_view_id _ Kb), (hash_view_id _ Kb') in E1. injection E1 as E1 E1'. congruence. }
    subst. reflexivity.
Qed.

(* C06_encode_injective (refuted in full): entries under a key spelled null do not reach the encoding *)
Lemma encode_content_inj_refuted : exists c c',
  content_utf8 c = true /\ content_utf8 c' = true /\ content_norm c /\ content_norm c' /\ c <> c' /\ encode_content c = encode_content c'.
Proof.
  exists (mkContent false (Some [("null", "a")]) [] ""), (mkContent false (Some [("null", "b")]) [] "").
  repeat split; try reflexivity. discriminate.
Qed.
