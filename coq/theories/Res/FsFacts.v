(* Facts about the field spec filter model (Yaml/FieldSpec.v) used by the C03 proofs:
   unfolding equations for plain path segments, concrete addresses, "what the filter does at an
   address its path reaches" and frame facts on the root mapping. *)
From KV Require Import Yaml.FieldSpec.
From KV Require Export Res.Addr.

Ltac inv H := inversion H; subst; clear H.

(* ---------- plain path segments ---------- *)

(* a segment that is an ordinary field name: no "[]" hint, not an index / selector / wild card *)
Definition plain_key (p : string) : bool :=
  negb (has_suffix "[]" p) &&
  match parse_path [p] with
  | [PKey q] => String.eqb q p
  | _ => false
  end.

Lemma plain_key_spec p :
  plain_key p = true ->
  parse_path [p] = [PKey p] /\ is_sequence_field p = (p, false) /\ p <> "".
Proof.
  unfold plain_key. intros H. apply andb_true_iff in H as [Hs Hp].
  apply negb_true_iff in Hs.
  destruct (parse_path [p]) as [|[q| | | | | |] [|? ?]] eqn:E; try discriminate.
  apply String.eqb_eq in Hp; subst q.
  repeat split.
  - unfold is_sequence_field, trim_suffix. rewrite Hs. now rewrite String.eqb_refl.
  - intros ->. vm_compute in E. discriminate.
Qed.

(* ---------- small list / map facts ---------- *)

Lemma find_set_first_same name v kvs x :
  find_field name kvs = Some x -> find_field name (set_first name v kvs) = Some v.
Proof.
  induction kvs as [|[k y] t IH]; cbn; [discriminate|].
  destruct (String.eqb k name) eqn:E; cbn; rewrite E; auto.
Qed.

Lemma find_set_first_other name k v kvs :
  k <> name -> find_field k (set_first name v kvs) = find_field k kvs.
Proof.
  intros Hne. induction kvs as [|[k0 y] t IH]; cbn; [reflexivity|].
  destruct (String.eqb k0 name) eqn:E; cbn.
  - apply String.eqb_eq in E; subst k0.
    destruct (String.eqb name k) eqn:E2; [apply String.eqb_eq in E2; congruence|reflexivity].
  - destruct (String.eqb k0 k); auto.
Qed.

Lemma find_app_other k name v kvs :
  k <> name -> find_field k (kvs ++ [(name, v)])%list = find_field k kvs.
Proof.
  intros Hne. induction kvs as [|[k0 y] t IH]; cbn.
  - destruct (String.eqb name k) eqn:E; [apply String.eqb_eq in E; congruence|reflexivity].
  - destruct (String.eqb k0 k); auto.
Qed.

Lemma find_app_new name v kvs :
  find_field name kvs = None -> find_field name (kvs ++ [(name, v)])%list = Some v.
Proof.
  induction kvs as [|[k0 y] t IH]; cbn.
  - now rewrite String.eqb_refl.
  - destruct (String.eqb k0 name); [discriminate|auto].
Qed.

Lemma mapM_nth {A B} (f : A -> res B) l l' i x :
  mapM f l = Ok l' -> nth_error l i = Some x ->
  exists y, f x = Ok y /\ nth_error l' i = Some y.
Proof.
  revert l' i. induction l as [|a t IH]; intros l' i H Hn; [destruct i; discriminate|].
  cbn in H. destruct (f a) as [b| | |] eqn:Fa; cbn in H; try discriminate.
  destruct (mapM f t) as [t'| | |] eqn:Ft; cbn in H; try discriminate. inv H.
  destruct i as [|i]; cbn in *.
  - inv Hn. eauto.
  - eapply IH; eauto.
Qed.

Lemma mapM_id {A} (f : A -> res A) l l' :
  Forall (fun e => forall e', f e = Ok e' -> e' = e) l -> mapM f l = Ok l' -> l' = l.
Proof.
  intros HF. revert l'. induction HF as [|e t He Ht IH]; intros l' H; cbn [mapM] in H.
  - now inv H.
  - destruct (f e) as [e'| | |] eqn:Fe; cbn [bind] in H; try discriminate.
    destruct (mapM f t) as [t'| | |] eqn:Ft; cbn [bind] in H; try discriminate.
    inv H. f_equal; auto.
Qed.

Lemma mapM_length {A B} (f : A -> res B) l l' :
  mapM f l = Ok l' -> List.length l' = List.length l.
Proof.
  revert l'. induction l as [|a t IH]; intros l' H; cbn in H.
  - inv H. reflexivity.
  - destruct (f a); cbn in H; try discriminate.
    destruct (mapM f t) eqn:E; cbn in H; try discriminate. inv H. cbn. f_equal. auto.
Qed.

(* ---------- unfolding equations of fs_filter ---------- *)

Section Unfold.
  Variable ck : option kind.
  Variable ct : tag.
  Variable set : node -> res node.
  Notation F := (fs_filter ck ct set).

  Lemma fs_filter_nil create n : F create [] n = set n.
  Proof. reflexivity. Qed.

  Lemma fs_filter_null create p rest n :
    is_null n = true -> F create (p :: rest) n = Ok n.
  Proof. intros H. destruct n; cbn in *; rewrite ?H; try reflexivity; discriminate. Qed.

  Lemma fs_filter_scalar create p rest t s v :
    is_null (Scalar t s v) = false -> F create (p :: rest) (Scalar t s v) = Err.
  Proof. intros H. cbn in *. rewrite H. reflexivity. Qed.

  Lemma fs_filter_seq create p rest es :
    F create (p :: rest) (Seq es) = do es' <- mapM (F create (p :: rest)) es; Ok (Seq es').
  Proof.
    cbn [fs_filter is_null].
    match goal with |- (do _ <- ?g es; _) = _ => assert (H: forall l, g l = mapM (F create (p :: rest)) l) end.
    { induction l as [|e t IH]; [reflexivity|]. cbn [mapM]. rewrite <- IH. reflexivity. }
    rewrite H. reflexivity.
  Qed.

  (* a mapping, plain segment, nothing is ever created *)
  Lemma fs_filter_map_nocreate create p rest kvs :
    plain_key p = true -> (create = false \/ ck = None) ->
    F create (p :: rest) (Map kvs) =
    match find_field p kvs with
    | Some x => do x' <- F create rest x; Ok (Map (set_first p x' kvs))
    | None => Ok (Map kvs)
    end.
  Proof.
    intros Hp Hc. destruct (plain_key_spec p Hp) as (Hpp & Hsf & Hne).
    cbn [fs_filter is_null]. rewrite Hsf.
    destruct (String.eqb p "") eqn:E; [apply String.eqb_eq in E; contradiction|].
    assert (Hnc: (negb create || match ck with None => true | Some _ => false end || false) = true).
    { destruct Hc as [-> | ->]; [reflexivity|]. destruct create; reflexivity. }
    rewrite Hnc. rewrite Hpp. cbn [walk].
    destruct (find_field p kvs) as [x|] eqn:Ff; [|reflexivity].
    cbn [bind]. destruct (F create rest x) as [x'| | |]; reflexivity.
  Qed.

  (* a mapping, plain segment, creation enabled *)
  Lemma fs_filter_map_create p rest kvs k0 :
    plain_key p = true -> ck = Some k0 ->
    F true (p :: rest) (Map kvs) =
    let kt := match rest with [] => (k0, ct) | _ => (KMap, TOther) end in
    match find_field p kvs with
    | Some x => do x' <- F true rest (promote (fst kt) (snd kt) x); Ok (Map (set_first p x' kvs))
    | None => do x' <- F true rest (empty_of (fst kt)); Ok (Map (kvs ++ [(p, x')])%list)
    end.
  Proof.
    intros Hp Hc. destruct (plain_key_spec p Hp) as (Hpp & Hsf & Hne).
    cbn [fs_filter is_null]. rewrite Hsf.
    destruct (String.eqb p "") eqn:E; [apply String.eqb_eq in E; contradiction|].
    rewrite Hc. cbn [negb orb]. rewrite Hpp. cbn [walk].
    destruct (find_field p kvs) as [x|] eqn:Ff.
    - destruct rest as [|r rest']; cbn [fst snd bind];
        match goal with |- context [fs_filter ?a ?b ?c ?d ?e ?f] =>
          destruct (fs_filter a b c d e f) as [x'| | |] end; reflexivity.
    - destruct rest as [|r rest']; cbn [hd_error kind_before fst snd bind].
      + assert (Hpr: promote k0 ct (empty_of k0) = empty_of k0) by (destruct k0; reflexivity).
        rewrite Hpr.
        match goal with |- context [fs_filter ?a ?b ?c ?d ?e ?f] =>
          destruct (fs_filter a b c d e f) as [x'| | |] end; reflexivity.
      + cbn [empty_of promote].
        match goal with |- context [fs_filter ?a ?b ?c ?d ?e ?f] =>
          destruct (fs_filter a b c d e f) as [x'| | |] end; reflexivity.
  Qed.
End Unfold.

(* ---------- concrete addresses ---------- *)

(* the field spec path [path] reaches the address [a] of [n] (and calls SetValue there) *)
Fixpoint reaches (path : list string) (a : list astep) (n : node) : bool :=
  match a with
  | [] => match path with [] => true | _ => false end
  | st :: a' =>
      match path with
      | [] => false
      | p :: rest =>
          if is_null n then false else
          match st, n with
          | AKey k, Map kvs =>
              String.eqb k p &&
              match find_field p kvs with Some x => reaches rest a' x | None => false end
          | AIdx i, Seq es =>
              match nth_error es i with Some e => reaches (p :: rest) a' e | None => false end
          | _, _ => false
          end
      end
  end.

Section AtAddress.
  Variable ck : option kind.
  Variable ct : tag.
  Variable set : node -> res node.
  Notation F := (fs_filter ck ct set).

  (* SetValue is applied exactly to the node at a reached address, and its result is found there afterwards *)
  Lemma fs_filter_at create path a :
    Forall (fun p => plain_key p = true) path -> (create = false \/ ck = None) ->
    forall n n' leaf,
      reaches path a n = true -> get_addr a n = Some leaf -> F create path n = Ok n' ->
      exists leaf', set leaf = Ok leaf' /\ get_addr a n' = Some leaf'.
  Proof.
    intros Hplain Hc. revert path Hplain.
    induction a as [|st a IH]; intros path Hplain n n' leaf Hr Hg HF.
    - destruct path; [|discriminate]. cbn in *. inv Hg. eauto.
    - destruct path as [|p rest]; [discriminate|].
      cbn [reaches] in Hr. destruct (is_null n) eqn:Hnull; [discriminate|].
      inversion Hplain as [|? ? Hp Hrest]; subst.
      destruct st as [k|i].
      + destruct n as [| kvs |]; try discriminate.
        apply andb_true_iff in Hr as [Hk Hr]. apply String.eqb_eq in Hk; subst k.
        destruct (find_field p kvs) as [x|] eqn:Ff; [|discriminate].
        rewrite fs_filter_map_nocreate in HF by assumption. rewrite Ff in HF.
        destruct (F create rest x) as [x'| | |] eqn:Fx; cbn in HF; try discriminate. inv HF.
        cbn [get_addr] in Hg. rewrite Ff in Hg.
        destruct (IH rest Hrest x x' leaf Hr Hg Fx) as (leaf' & Hs & Hg').
        exists leaf'. split; [assumption|].
        cbn [get_addr]. erewrite find_set_first_same by eassumption. assumption.
      + destruct n as [| |es]; try discriminate.
        destruct (nth_error es i) as [e|] eqn:Hn; [|discriminate].
        rewrite fs_filter_seq in HF.
        destruct (mapM (F create (p :: rest)) es) as [es'| | |] eqn:Hm; cbn in HF; try discriminate. inv HF.
        destruct (mapM_nth _ _ _ _ _ Hm Hn) as (e' & Fe & Hn').
        cbn [get_addr] in Hg. rewrite Hn in Hg.
        destruct (IH (p :: rest) Hplain e e' leaf Hr Hg Fe) as (leaf' & Hs & Hg').
        exists leaf'. split; [assumption|]. cbn [get_addr]. rewrite Hn'. assumption.
  Qed.

  (* when SetValue never changes a node, the filter changes nothing *)
  Lemma fs_filter_pure create path :
    Forall (fun p => plain_key p = true) path -> (create = false \/ ck = None) ->
    (forall x y, set x = Ok y -> y = x) ->
    forall n n', F create path n = Ok n' -> n' = n.
  Proof.
    intros Hplain Hc Hset. induction path as [|p rest IH]; intros n.
    - intros n' HF. cbn in HF. auto.
    - inversion Hplain as [|? ? Hp Hrest]; subst. specialize (IH Hrest).
      induction n as [t s v|kvs IHk|es IHe] using node_ind'; intros n' HF.
      + destruct (is_null (Scalar t s v)) eqn:E.
        * rewrite fs_filter_null in HF by assumption. now inv HF.
        * rewrite fs_filter_scalar in HF by assumption. discriminate.
      + rewrite fs_filter_map_nocreate in HF by assumption.
        destruct (find_field p kvs) as [x|] eqn:Ff; [|now inv HF].
        destruct (F create rest x) as [x'| | |] eqn:Fx; cbn in HF; try discriminate. inv HF.
        apply IH in Fx; subst x'. f_equal.
        clear -Ff. induction kvs as [|[k y] t IHt]; cbn in *; [discriminate|].
        destruct (String.eqb k p); [now inv Ff|]. f_equal. auto.
      + rewrite fs_filter_seq in HF.
        destruct (mapM (F create (p :: rest)) es) as [es'| | |] eqn:Hm; cbn in HF; try discriminate. inv HF.
        f_equal. eapply mapM_id; eauto.
  Qed.
End AtAddress.
