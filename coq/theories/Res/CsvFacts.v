(* String facts behind the CSV build annotations: strings.Split / strings.Join round trips. *)
From KV Require Import Base.Prelude.

Ltac inv H := inversion H; subst; clear H.

Lemma sapp_assoc (a b c : string) : (a ++ b) ++ c = a ++ (b ++ c).
Proof. induction a as [|x a IH]; cbn; [reflexivity|now rewrite IH]. Qed.

Lemma sapp_nil_r (a : string) : a ++ "" = a.
Proof. induction a as [|x a IH]; cbn; [reflexivity|now rewrite IH]. Qed.

(* the byte c does not occur in s *)
Fixpoint no_char (c : ascii) (s : string) : bool :=
  match s with
  | EmptyString => true
  | String a s' => negb (Ascii.eqb a c) && no_char c s'
  end.

Lemma no_char_app c a b : no_char c (a ++ b) = no_char c a && no_char c b.
Proof. induction a as [|x a IH]; cbn; [reflexivity|]. rewrite IH. now rewrite andb_assoc. Qed.

Lemma split_on_nonempty c s : split_on c s <> [].
Proof.
  destruct s as [|a s]; cbn; [discriminate|].
  destruct (split_on c s); [discriminate|]. destruct (Ascii.eqb a c); discriminate.
Qed.

Lemma split_on_cons c a s :
  split_on c (String a s) =
  match split_on c s with
  | [] => [""]
  | h :: t => if Ascii.eqb a c then "" :: h :: t else String a h :: t
  end.
Proof. reflexivity. Qed.

Lemma split_on_no c s : no_char c s = true -> split_on c s = [s].
Proof.
  induction s as [|a s IH]; [reflexivity|]. cbn [no_char]. intros H.
  apply andb_true_iff in H as [Ha Hs]. apply negb_true_iff in Ha.
  rewrite split_on_cons, (IH Hs), Ha. reflexivity.
Qed.

Lemma split_on_app c a b :
  split_on c (a ++ String c b) = (split_on c a ++ split_on c b)%list.
Proof.
  induction a as [|x a IH].
  - cbn [append]. rewrite split_on_cons, Ascii.eqb_refl.
    destruct (split_on c b) eqn:E; [exfalso; eapply split_on_nonempty; eauto|reflexivity].
  - cbn [append]. rewrite !split_on_cons, IH.
    destruct (split_on c a) as [|h t] eqn:E; [exfalso; eapply split_on_nonempty; eauto|].
    cbn [app]. destruct (Ascii.eqb x c); reflexivity.
Qed.

Lemma join_with_cons2 sep x y l : join_with sep (x :: y :: l) = x ++ sep ++ join_with sep (y :: l).
Proof. reflexivity. Qed.

Lemma join_split c s : join_with (String c "") (split_on c s) = s.
Proof.
  induction s as [|a s IH]; [reflexivity|].
  rewrite split_on_cons.
  destruct (split_on c s) as [|h t] eqn:E; [exfalso; eapply split_on_nonempty; eauto|].
  destruct (Ascii.eqb a c) eqn:Ea.
  - apply Ascii.eqb_eq in Ea; subst a. rewrite join_with_cons2, IH. reflexivity.
  - destruct t as [|y t].
    + cbn in IH |- *. now rewrite IH.
    + rewrite join_with_cons2 in IH |- *. cbn [append] in IH |- *. now rewrite IH.
Qed.

Lemma join_snoc sep l v :
  l <> [] -> join_with sep (l ++ [v])%list = join_with sep l ++ sep ++ v.
Proof.
  induction l as [|x l IH]; [congruence|]. intros _.
  destruct l as [|y l].
  - reflexivity.
  - cbn [app]. rewrite !join_with_cons2. cbn [app] in IH. rewrite IH by discriminate.
    now rewrite !sapp_assoc.
Qed.

(* strings.Split(strings.Join(append(strings.Split(s, ","), v), ","), ",") for a comma free v *)
Lemma split_join_snoc c s v :
  no_char c v = true ->
  split_on c (join_with (String c "") (split_on c s ++ [v])%list) = (split_on c s ++ [v])%list.
Proof.
  intros Hv. rewrite join_snoc by apply split_on_nonempty.
  rewrite join_split. cbn [append]. rewrite split_on_app, (split_on_no _ _ Hv). reflexivity.
Qed.
