(* makeCustomizedResMap up to and including FixBackReferences: the rename model followed by the
   name reference model, over the rule table merged and ordered as an accumulator does. Definitions only. *)
From KV Require Export Res.NameRef Res.Rename.

Section Build.
  Variable cs : string -> string -> bool.
  Variable nonstr : string -> bool.
  Variable prefix_fs suffix_fs namespace_fs : list fieldspec.
  Variable prefix_skip suffix_skip : list gvk.
  Variable order_first order_last : list string.
  Variable raw_rules : list nbr.

  Definition build_refs (l : layer) (hashes : list string) : res (list resource) :=
    do m <- build_names cs nonstr prefix_fs suffix_fs namespace_fs prefix_skip suffix_skip l hashes;
    do rules <- effective_rules order_first order_last raw_rules;
    nameref_transform cs nonstr rules m.
End Build.

(* the leaves of a layering, in accumulation order *)
Fixpoint layer_leaves (l : layer) : list resource :=
  match l with
  | Layer _ _ _ _ items =>
      (fix go (its : list (item layer)) : list resource :=
         match its with
         | [] => []
         | IRes r :: t => r :: go t
         | IGen r :: t => r :: go t
         | ISub sub :: t => (layer_leaves sub ++ go t)%list
         end) items
  end.

(* no two leaves share kind and original name *)
Fixpoint distinct_kind_name (l : list resource) : bool :=
  match l with
  | [] => true
  | r :: t =>
      forallb (fun r' => negb (String.eqb (get_kind (r_node r)) (get_kind (r_node r')) &&
                               String.eqb (get_name (r_node r)) (get_name (r_node r')))) t
      && distinct_kind_name t
  end.
