(* C11 over the integrated pipeline model (Res/Pipeline.v): the names of the documents `Pipeline.build` emits
   are the ones the layering prescribes.  Joins C11_prefix_nesting (Res/Compose.v, ids only) with the
   [renamed] relation of Res/PipelineWfProofs.v (whole documents): for kustomization trees of well-formed
   documents without generators, replicas, images and without a namespace directive (labels and annotations allowed), a resource
   that lies below the layers (p1,s1) ... (pk,sk) leaves the build as
        p1 ++ ... ++ pk ++ name ++ sk ++ ... ++ s1
   with its apiVersion, kind and namespace unchanged (a side being left out for kinds on that side's skip list). *)
From KV Require Import Res.Pipeline Res.PipelineProofs Res.PipelineFrameProofs Res.PipelinePermProofs Res.PipelineWfProofs
                       Res.RenameProofs Res.C03Facts Res.NameRefProofs Res.CsvFacts Base.StrOrder.
Ltac inv H := inversion H; subst; clear H.
From KV Require Res.Labels Res.LabelsDefaults.
From Coq Require Import Sorting.Permutation.
Local Open Scope string_scope.

Notation cs := pipe_cs.

(* identity of a document: (apiVersion, kind, name, namespace) = NameRefProofs.ident *)
Definition idt := (string * string * string * string)%type.

Fixpoint rep (k : nat) (s : string) : string := match k with O => "" | S k' => s ++ rep k' s end.

Definition skip_idt (skip : list gvk) (i : idt) : bool :=
  let '(api, kind, _, _) := i in let (g, v) := parse_group_version api in skipf skip g v kind.

(* the name transformers of one layer on an identity: prefix applied a times, suffix b times *)
Definition affix_idt (a b : nat) (p s : string) (i : idt) : idt :=
  let '(api, kind, name, ns) := i in
  (api, kind,
   (if skip_idt gen_prefix_skip i then "" else rep a p) ++ name ++ (if skip_idt gen_suffix_skip i then "" else rep b s),
   ns).

Lemma rep_add a b s : rep (a + b) s = rep a s ++ rep b s.
Proof. induction a; cbn; [reflexivity|]. rewrite IHa. symmetry. apply app_assoc_s. Qed.

Lemma rep_comm_one b s : rep b s ++ s = s ++ rep b s.
Proof. induction b; cbn; [now rewrite app_nil_r_s|]. rewrite app_assoc_s, IHb. reflexivity. Qed.

Lemma affix_idt_compose a b a' b' p s i :
  affix_idt a b p s (affix_idt a' b' p s i) = affix_idt (a + a') (b' + b) p s i.
Proof.
  destruct i as [[[api kind] name] ns]. unfold affix_idt, skip_idt.
  destruct (parse_group_version api) as [g v].
  destruct (skipf gen_prefix_skip g v kind); destruct (skipf gen_suffix_skip g v kind); cbn;
    rewrite ?rep_add, ?app_nil_r_s, ?app_assoc_s; reflexivity.
Qed.

Lemma affix_idt_zero p s i : affix_idt 0 0 p s i = i.
Proof.
  destruct i as [[[api kind] name] ns]. unfold affix_idt. cbn [rep].
  destruct (skip_idt gen_prefix_skip (api, kind, name, ns)); destruct (skip_idt gen_suffix_skip (api, kind, name, ns));
    cbn; now rewrite app_nil_r_s.
Qed.

Definition idr (r : resource) : idt := ident (r_node r).

(* one step: the identity moves as prescribed, the hash request stays *)
Definition moves (a b : nat) (p s : string) (r r' : resource) : Prop :=
  idr r' = affix_idt a b p s (idr r) /\ r_needs_hash r' = r_needs_hash r.

Lemma skip_of_idt skip r : skip_of skip r = skip_idt skip (idr r).
Proof. reflexivity. Qed.

Lemma renamed_prefix_moves p s r r' :
  renamed (fun v => p ++ v) gen_prefix_skip r r' -> r_needs_hash r' = r_needs_hash r -> moves 1 0 p s r r'.
Proof.
  intros (K & A & N & M) H. split; [|exact H].
  unfold idr, ident, affix_idt. rewrite K, A, N, M. rewrite skip_of_idt. unfold idr, ident.
  destruct (skip_idt gen_prefix_skip _); destruct (skip_idt gen_suffix_skip _); cbn; now rewrite ?app_nil_r_s.
Qed.

Lemma renamed_suffix_moves p s r r' :
  renamed (fun v => v ++ s) gen_suffix_skip r r' -> r_needs_hash r' = r_needs_hash r -> moves 0 1 p s r r'.
Proof.
  intros (K & A & N & M) H. split; [|exact H].
  unfold idr, ident, affix_idt. rewrite K, A, N, M. rewrite skip_of_idt. unfold idr, ident.
  destruct (skip_idt gen_prefix_skip _); destruct (skip_idt gen_suffix_skip _); cbn; now rewrite ?app_nil_r_s.
Qed.

Lemma same_identity_moves p s r r' : same_identity r r' -> moves 0 0 p s r r'.
Proof.
  intros [I (_ & _ & _ & _ & _ & H)]. split; [|exact H]. unfold idr. rewrite I. symmetry. apply affix_idt_zero.
Qed.

Lemma moves_trans a b a' b' p s r1 r2 r3 :
  moves a' b' p s r1 r2 -> moves a b p s r2 r3 -> moves (a + a') (b' + b) p s r1 r3.
Proof.
  intros [I1 H1] [I2 H2]. split; [|congruence]. rewrite I2, I1. apply affix_idt_compose.
Qed.

Lemma Forall2_trans_gen {A} (P Q R : A -> A -> Prop) l1 l2 l3 :
  (forall x y z, P x y -> Q y z -> R x z) -> Forall2 P l1 l2 -> Forall2 Q l2 l3 -> Forall2 R l1 l3.
Proof.
  intros H F. revert l3. induction F; intros l3 G; inversion G; subst; constructor; eauto.
Qed.

Lemma Forall2_conj {A B} (P Q : A -> B -> Prop) l l' :
  Forall2 P l l' -> Forall2 Q l l' -> Forall2 (fun a b => P a b /\ Q a b) l l'.
Proof. intros F. induction F; intros G; inversion G; subst; constructor; auto. Qed.

Lemma Forall2_refl_on {A} (R : A -> A -> Prop) l : (forall x, R x x) -> Forall2 R l l.
Proof. intros H. induction l; constructor; auto. Qed.

Lemma affix_idt_empty_prefix a s i : affix_idt a 0 "" s i = i.
Proof.
  destruct i as [[[api kind] name] ns]. unfold affix_idt.
  assert (R : rep a "" = "") by (induction a; cbn; auto).
  rewrite R. cbn [rep].
  destruct (skip_idt gen_prefix_skip (api, kind, name, ns)); destruct (skip_idt gen_suffix_skip (api, kind, name, ns));
    cbn; now rewrite app_nil_r_s.
Qed.

Lemma affix_idt_empty_suffix b p i : affix_idt 0 b p "" i = i.
Proof.
  destruct i as [[[api kind] name] ns]. unfold affix_idt.
  assert (R : rep b "" = "") by (induction b; cbn; auto).
  rewrite R. cbn [rep].
  destruct (skip_idt gen_prefix_skip (api, kind, name, ns)); destruct (skip_idt gen_suffix_skip (api, kind, name, ns));
    cbn; now rewrite app_nil_r_s.
Qed.

Section Steps.
  Variable nonstr : string -> bool.

  Lemma prefix_transform_moves p s m m' :
    no_char ","%char p = true -> Forall W m ->
    prefix_transform cs gen_name_prefix_fs gen_prefix_skip p m = Ok m' ->
    Forall W m' /\ Forall2 (moves 1 0 p s) m m'.
  Proof.
    intros Hp HW H. pose proof (prefix_transform_keeps _ _ _ H) as HK.
    unfold prefix_transform in H. destruct (String.eqb p "") eqn:Ep.
    { inv H. split; [exact HW|]. apply String.eqb_eq in Ep. subst p.
      apply Forall2_refl_on. intros r. split; [|reflexivity]. symmetry. apply affix_idt_empty_prefix. }
    apply mapM_Forall2P in H.
    assert (HF : Forall2 (fun r r' => W r' /\ renamed (fun v => p ++ v) gen_prefix_skip r r') m m').
    { clear -H HW Hp Ep. induction H as [|r r' t t' Hr _ IH]; [constructor|].
      inversion HW as [|? ? Wr Wt]; subst. constructor; [|auto].
      destruct (prefix_one_hist cs _ _ gen_prefix_table p r r' Hp (proj1 Wr) Hr) as [Wf _].
      unfold prefix_one in Hr. rewrite gen_prefix_table in Hr.
      destruct (affix_effect p add_name_prefix (fun v => p ++ v) gen_prefix_skip r r' Ep
                  (fun r0 => ltac:(repeat split)) (fun v Hv => good_app_l p v Hp Hv) Wr Hr)
        as (Wn & Kc & E1 & E2 & E3 & E4).
      split; [split; [exact Wf|exact Kc]|repeat split; assumption]. }
    split.
    - clear -HF. induction HF as [|? ? ? ? [Hw _]]; constructor; auto.
    - pose proof (Forall2_conj _ _ _ _ HF HK) as HC.
      eapply Forall2_impl2; [|exact HC]. intros a b [[_ Hr] [_ Hn]]. apply renamed_prefix_moves; auto.
  Qed.

  Lemma suffix_transform_moves p s m m' :
    no_char ","%char s = true -> Forall W m ->
    suffix_transform cs gen_name_suffix_fs gen_suffix_skip s m = Ok m' ->
    Forall W m' /\ Forall2 (moves 0 1 p s) m m'.
  Proof.
    intros Hp HW H. pose proof (suffix_transform_keeps _ _ _ H) as HK.
    unfold suffix_transform in H. destruct (String.eqb s "") eqn:Ep.
    { inv H. split; [exact HW|]. apply String.eqb_eq in Ep. subst s.
      apply Forall2_refl_on. intros r. split; [|reflexivity]. symmetry. apply affix_idt_empty_suffix. }
    apply mapM_Forall2P in H.
    assert (HF : Forall2 (fun r r' => W r' /\ renamed (fun v => v ++ s) gen_suffix_skip r r') m m').
    { clear -H HW Hp Ep. induction H as [|r r' t t' Hr _ IH]; [constructor|].
      inversion HW as [|? ? Wr Wt]; subst. constructor; [|auto].
      destruct (suffix_one_hist cs _ _ gen_suffix_table s r r' Hp (proj1 Wr) Hr) as [Wf _].
      unfold suffix_one in Hr. rewrite gen_suffix_table in Hr.
      destruct (affix_effect s add_name_suffix (fun v => v ++ s) gen_suffix_skip r r' Ep
                  (fun r0 => ltac:(repeat split)) (fun v Hv => good_app_r v s Hv Hp) Wr Hr)
        as (Wn & Kc & E1 & E2 & E3 & E4).
      split; [split; [exact Wf|exact Kc]|repeat split; assumption]. }
    split.
    - clear -HF. induction HF as [|? ? ? ? [Hw _]]; constructor; auto.
    - pose proof (Forall2_conj _ _ _ _ HF HK) as HC.
      eapply Forall2_impl2; [|exact HC]. intros a b [[_ Hr] [_ Hn]]. apply renamed_suffix_moves; auto.
  Qed.

  Definition b2n (b : bool) : nat := if b then 1 else 0.
  Definition cnt (k : string) (ks : list string) : nat := List.length (filter (String.eqb k) ks).

  (* one builtin transformer kind *)
  Lemma run_kind_moves k d m m' :
    dirs_wf d -> pd_ns d = "" -> Forall W m -> run_kind nonstr k d m = Ok m' ->
    Forall W m' /\
    Forall2 (moves (b2n (String.eqb "PrefixTransformer" k)) (b2n (String.eqb "SuffixTransformer" k))
                   (pd_prefix d) (pd_suffix d)) m m'.
  Proof.
    intros ([Hrp Him] & _ & Hn & _ & _ & _ & Hp & Hs) Hns HW. unfold run_kind. rewrite Hns, Hrp, Him, (proj2 Hn).
    assert (Z : forall m0, Forall2 (moves 0 0 (pd_prefix d) (pd_suffix d)) m0 m0).
    { intros m0. apply Forall2_refl_on. intros r. apply same_identity_moves, same_identity_refl. }
    destruct (String.eqb_spec k "PatchTransformer") as [->|N0].
    { cbn. intros H; inv H. split; [assumption|apply Z]. }
    destruct (String.eqb_spec k "NamespaceTransformer") as [->|N1].
    { cbn. intros H; inv H. split; [assumption|apply Z]. }
    destruct (String.eqb_spec k "PrefixTransformer") as [->|N2].
    { cbn. intros H. apply prefix_transform_moves; auto. }
    rewrite (proj2 (String.eqb_neq "PrefixTransformer" k)) by congruence.
    destruct (String.eqb_spec k "SuffixTransformer") as [->|N3].
    { cbn. intros H. apply suffix_transform_moves; auto. }
    rewrite (proj2 (String.eqb_neq "SuffixTransformer" k)) by congruence. cbn [b2n].
    destruct (String.eqb k "LabelTransformer").
    { destruct (Labels.label_transformers LabelsDefaults.default_tc (label_dirs d)) as [lts| | |] eqn:E; cbn [bind]; try discriminate.
      intros H. destruct (label_transforms_W nonstr lts _ _ (label_transformers_in_tbl _ _ Hn E) HW H) as [W' S'].
      split; [exact W'|]. eapply Forall2_impl2; [|exact S']. intros a b. apply same_identity_moves. }
    destruct (String.eqb k "AnnotationsTransformer").
    { intros H. destruct (label_transform_W nonstr _ _ _ _ common_annos_in_tbl HW H) as [W' S'].
      split; [exact W'|]. eapply Forall2_impl2; [|exact S']. intros a b. apply same_identity_moves. }
    destruct (String.eqb k "ReplicaCountTransformer"); [cbn; intros H; inv H; split; [assumption|apply Z]|].
    destruct (String.eqb k "ImageTagTransformer"); cbn; intros H; inv H; (split; [assumption|apply Z]).
  Qed.

  Lemma cnt_cons k x t : cnt k (x :: t) = b2n (String.eqb k x) + cnt k t.
  Proof. unfold cnt. cbn. destruct (String.eqb k x); reflexivity. Qed.

  Lemma run_order_moves ks d : forall m m',
    dirs_wf d -> pd_ns d = "" -> Forall W m -> run_order nonstr ks d m = Ok m' ->
    Forall W m' /\
    Forall2 (moves (cnt "PrefixTransformer" ks) (cnt "SuffixTransformer" ks) (pd_prefix d) (pd_suffix d)) m m'.
  Proof.
    induction ks as [|k t IH]; intros m m' Hd Hns HW H; cbn [run_order] in H.
    - inv H. split; [exact HW|]. apply Forall2_refl_on. intros r. apply same_identity_moves, same_identity_refl.
    - destruct (run_kind nonstr k d m) as [m1| | |] eqn:E; cbn [bind] in H; try discriminate.
      destruct (run_kind_moves _ _ _ _ Hd Hns HW E) as [W1 M1].
      rewrite (drop_empties_W _ W1) in H. destruct (IH _ _ Hd Hns W1 H) as [W2 M2].
      split; [exact W2|]. rewrite !cnt_cons.
      eapply (Forall2_trans_gen _ _ _ _ _ _ (fun x y z P Q => _) M1 M2).
      Unshelve. cbv beta. intros. 
      replace (b2n ("PrefixTransformer" =? k) + cnt "PrefixTransformer" t) with (cnt "PrefixTransformer" t + b2n ("PrefixTransformer" =? k)) by apply Nat.add_comm.
      eapply moves_trans; eauto.
  Qed.
End Steps.

(* ================= the names a tree prescribes ================= *)

Fixpoint pnames (t : ptree) : list idt :=
  match t with
  | PFile docs => map ident docs
  | PDir _ d ents => map (affix_idt 1 1 (pd_prefix d) (pd_suffix d)) (List.concat (map pnames ents))
  end.

(* the class: well-formed documents; per layer no namespace directive, no generators, replicas or images, no custom label fields,
   comma-free prefix and suffix (labels, commonLabels, commonAnnotations are allowed) *)
Inductive nest_wf : ptree -> Prop :=
| nw_file docs : Forall wf_node docs -> nest_wf (PFile docs)
| nw_dir n d ents : dirs_wf d -> pd_ns d = "" -> pd_cmgens d = [] -> pd_secgens d = [] -> Forall nest_wf ents ->
                    nest_wf (PDir n d ents).

Section Acc.
  Variable nonstr : string -> bool.

  Lemma run_generators_none d m : pd_cmgens d = [] -> pd_secgens d = [] -> run_generators nonstr d m = Ok m.
  Proof.
    intros H1 H2. unfold run_generators. generalize gen_generator_order. intros ks.
    induction ks as [|k t IH]; cbn [run_generator_kinds]; [reflexivity|].
    rewrite H1, H2. cbn [run_gens].
    destruct (String.eqb k "ConfigMapGenerator"); [cbn [bind]; exact IH|].
    destruct (String.eqb k "SecretGenerator"); cbn [bind]; exact IH.
  Qed.

  Lemma gen_order_counts :
    cnt "PrefixTransformer" gen_transformer_order = 1 /\ cnt "SuffixTransformer" gen_transformer_order = 1.
  Proof. split; reflexivity. Qed.

  Definition NH (m : list resource) : Prop := Forall (fun r => r_needs_hash r = false) m.

  Lemma moves_map a b p s m m' : Forall2 (moves a b p s) m m' -> map idr m' = map (affix_idt a b p s) (map idr m).
  Proof. induction 1 as [|x y l l' [I _] _ IH]; cbn; [reflexivity|]. rewrite I, IH. reflexivity. Qed.

  Lemma moves_NH a b p s m m' : Forall2 (moves a b p s) m m' -> NH m -> NH m'.
  Proof.
    unfold NH. induction 1 as [|x y l l' [_ H] _ IH]; intros N; [constructor|].
    inversion N; subst. constructor; [congruence|auto].
  Qed.

  Theorem accumulate_names t : forall m,
    nest_wf t -> accumulate nonstr t = Ok m -> Forall W m /\ NH m /\ map idr m = pnames t.
  Proof.
    induction t as [docs|n d ents IH] using ptree_ind'; intros m Hwf H.
    - inversion Hwf as [? Hd|]; subst. cbn [accumulate] in H. apply append_all_spec in H as [-> _]. cbn [app pnames].
      split; [|split].
      + clear -Hd. induction Hd; cbn; constructor; auto using W_load.
      + unfold NH. clear. induction docs; cbn; constructor; auto.
      + rewrite map_map. reflexivity.
    - inversion Hwf as [|? ? ? Hd Hns Hg1 Hg2 He]; subst. rewrite accumulate_dir in H.
      destruct (is_empty_kust d ents); [discriminate|].
      destruct (acc_list (accumulate nonstr) ents []) as [m0| | |] eqn:E0; cbn [bind] in H; try discriminate.
      rewrite (run_generators_none d m0 Hg1 Hg2) in H. cbn [bind] in H.
      destruct (acc_list_char _ _ _ _ E0) as (subs & F0 & -> & _). cbn [app] in *.
      assert (X : Forall W (List.concat subs) /\ NH (List.concat subs) /\
                  map idr (List.concat subs) = List.concat (map pnames ents)).
      { clear -IH He F0. revert subs F0. induction ents as [|e t IHe]; intros subs F0; inv F0.
        - cbn. repeat split; constructor.
        - inversion IH; subst. inversion He; subst.
          match goal with Hx : forall m, nest_wf e -> _ |- _ =>
            destruct (Hx _ ltac:(assumption) ltac:(eassumption)) as (Wx & Nx & Ix) end.
          destruct (IHe ltac:(assumption) ltac:(assumption) _ ltac:(eassumption)) as (Wt & Nt & It).
          cbn [List.concat map]. split; [apply Forall_app; auto|]. split; [apply Forall_app; auto|].
          rewrite map_app. congruence. }
      destruct X as (W0 & N0 & I0).
      unfold run_transformers in H.
      destruct (Labels.label_transformers _ _); cbn [bind] in H; try discriminate.
      destruct (run_order_moves nonstr _ _ _ _ Hd Hns W0 H) as [W1 M1].
      destruct gen_order_counts as [C1 C2]. rewrite C1, C2 in M1.
      split; [exact W1|]. split; [eapply moves_NH; eauto|].
      cbn [pnames]. rewrite (moves_map _ _ _ _ _ _ M1), I0. reflexivity.
  Qed.
End Acc.

(* ================= the whole build ================= *)

Section Build.
  Variable nonstr : string -> bool.

  Lemma mapM_hash_NH m : NH m -> mapM (hash_res nonstr) m = Ok m.
  Proof.
    unfold NH. induction 1 as [|r t Hr _ IH]; cbn [mapM]; [reflexivity|].
    unfold hash_res at 1. rewrite Hr. cbn [bind]. rewrite IH. reflexivity.
  Qed.

  Lemma same_identity_map m m' : Forall2 same_identity m m' -> map idr m' = map idr m.
  Proof. induction 1 as [|x y l l' [I _] _ IH]; cbn; [reflexivity|]. unfold idr at 1 3. rewrite I, IH. reflexivity. Qed.

  Lemma subrel_eq_map {A B} (g : A -> B) l l' : subrel eq l l' -> subrel eq (map g l) (map g l').
  Proof. induction 1; cbn; [constructor|subst; constructor; auto|apply sr_drop; auto]. Qed.

  (* PIPE_prefix_nesting: what `build` emits, by identity.  [kept] = the prescribed identities minus the resources
     IgnoreLocal drops (config.kubernetes.io/local-config), in load order; the output is [kept] itself for
     fifo / no sortOptions and a permutation of it under the legacy order. *)
  Theorem build_names o n d ents outs :
    nest_wf (PDir n d ents) -> build nonstr o (PDir n d ents) = Ok outs ->
    exists kept, subrel eq (pnames (PDir n d ents)) kept /\ Permutation (map ident outs) kept /\
                 (match o with PSortLegacy _ _ => True | _ => map ident outs = kept end).
  Proof.
    intros Hwf H. unfold build in H.
    destruct (accumulate nonstr (PDir n d ents)) as [m| | |] eqn:EA; cbn [bind] in H; try discriminate.
    destruct (accumulate_names nonstr _ _ Hwf EA) as (HW & HN & HI).
    rewrite (mapM_hash_NH m HN) in H. cbn [bind] in H.
    (* robust against a unit-valued check step between the hash step and the rules (w-pipe: hash_check) *)
    try match type of H with
        | bind ?e _ = _ =>
            lazymatch e with
            | pipe_rules => fail
            | _ => destruct e as [[]| | |]; cbn [bind] in H; try discriminate
            end
        end.
    destruct pipe_rules as [rules| | |] eqn:ER; cbn [bind] in H; try discriminate.
    destruct (nameref_transform cs nonstr rules m) as [m2| | |] eqn:E2; cbn [bind] in H; try discriminate.
    destruct (ignore_local m2) as [m2l| | |] eqn:EL; cbn [bind] in H; try discriminate.
    destruct (sort_resources o m2l) as [m3| | |] eqn:ES; cbn [bind] in H; try discriminate.
    inv H.
    assert (Hok : forall b f, In b rules -> In f (nb_referrers b) -> rule_ok f).
    { intros b f. apply gen_rule_ok. rewrite <- pipe_rules_eq. exact ER. }
    pose proof (nameref_transform_identity cs nonstr rules m m2 Hok E2) as S2.
    pose proof (same_identity_map _ _ S2) as I2.
    pose proof (ignore_local_subrel _ _ EL) as SL.
    assert (Ho : map ident (map (fun r => strip_node (r_node r)) m3) = map idr m3).
    { rewrite map_map. apply map_ext. intros r. apply strip_node_ident. }
    exists (map idr m2l). split; [|split].
    - rewrite <- HI, <- I2. apply subrel_eq_map. exact SL.
    - rewrite Ho. apply Permutation_map. eapply sort_perm; eauto.
    - destruct o; auto; cbn [sort_resources] in ES; inv ES; exact Ho.
  Qed.

  (* every output document carries one of the prescribed identities *)
  Corollary build_names_in o n d ents outs :
    nest_wf (PDir n d ents) -> build nonstr o (PDir n d ents) = Ok outs ->
    forall x, In x outs -> In (ident x) (pnames (PDir n d ents)).
  Proof.
    intros Hwf H x Hx. destruct (build_names _ _ _ _ _ Hwf H) as (kept & SK & P & _).
    assert (Ik : In (ident x) kept) by (eapply Permutation_in; [exact P|apply in_map; exact Hx]).
    clear -SK Ik. induction SK as [|a b t t' -> _ IH|a t t' _ IH]; [destruct Ik| |right; auto].
    destruct Ik as [<-|Ik]; [left; reflexivity|right; auto].
  Qed.
End Build.

(* ================= the chain form: overlays around one file ================= *)

(* (prefix, suffix) layers, outermost first, around an innermost tree *)
Fixpoint pchain (layers : list (string * string)) (inner : ptree) : ptree :=
  match layers with
  | [] => inner
  | (p, s) :: rest => PDir "" (mkPDirs "" p s [] [] [] [] []) [pchain rest inner]
  end.

Fixpoint pcat (l : list string) : string := match l with [] => "" | x :: t => x ++ pcat t end.

(* P_outer ++ ... ++ P_inner ++ name ++ S_inner ++ ... ++ S_outer *)
Definition nested_idt (layers : list (string * string)) (i : idt) : idt :=
  let '(api, kind, name, ns) := i in
  (api, kind,
   (if skip_idt gen_prefix_skip i then "" else pcat (map fst layers)) ++ name ++
   (if skip_idt gen_suffix_skip i then "" else pcat (rev (map snd layers))),
   ns).

Lemma pcat_app a b : pcat (a ++ b) = pcat a ++ pcat b.
Proof. induction a; cbn; [reflexivity|]. rewrite IHa. symmetry. apply app_assoc_s. Qed.

Lemma pnames_pchain layers docs :
  pnames (pchain layers (PFile docs)) = map (nested_idt layers) (map ident docs).
Proof.
  induction layers as [|[p s] rest IH]; cbn [pchain pnames].
  - rewrite <- (map_id (map ident docs)) at 1. apply map_ext. intros [[[api kind] name] ns].
    unfold nested_idt. cbn [map fst snd rev pcat].
    destruct (skip_idt gen_prefix_skip (api, kind, name, ns)); destruct (skip_idt gen_suffix_skip (api, kind, name, ns));
      cbn [append]; now rewrite app_nil_r_s.
  - cbn [map List.concat]. rewrite app_nil_r, IH, map_map. apply map_ext. intros [[[api kind] name] ns].
    unfold nested_idt, affix_idt, skip_idt. cbn [pd_prefix pd_suffix mkPDirs map fst snd rev].
    destruct (parse_group_version api) as [g v].
    destruct (skipf gen_prefix_skip g v kind); destruct (skipf gen_suffix_skip g v kind); cbn [rep pcat];
      rewrite ?pcat_app; cbn [pcat]; rewrite ?app_nil_r_s, ?app_assoc_s; reflexivity.
Qed.

Lemma pchain_nest_wf layers docs :
  Forall wf_node docs ->
  Forall (fun ps => no_char ","%char (fst ps) = true /\ no_char ","%char (snd ps) = true) layers ->
  nest_wf (pchain layers (PFile docs)).
Proof.
  intros Hd. induction 1 as [|[p s] rest [Hp Hs] _ IH]; cbn [pchain]; [constructor; exact Hd|].
  constructor; [|reflexivity|reflexivity|reflexivity|constructor; [exact IH|constructor]].
  repeat split; cbn; auto; constructor.
Qed.

(* C11_prefix_nesting_chain over Pipeline.build: every document the build of the chain emits is a document of the
   file, with the name P_outer ++ ... ++ P_inner ++ name ++ S_inner ++ ... ++ S_outer *)
Theorem build_chain_names nonstr o p s rest docs outs :
  Forall wf_node docs ->
  Forall (fun ps => no_char ","%char (fst ps) = true /\ no_char ","%char (snd ps) = true) ((p, s) :: rest) ->
  build nonstr o (pchain ((p, s) :: rest) (PFile docs)) = Ok outs ->
  forall x, In x outs -> exists n, In n docs /\ ident x = nested_idt ((p, s) :: rest) (ident n).
Proof.
  intros Hd Hl H x Hx.
  pose proof (pchain_nest_wf _ _ Hd Hl) as Hwf. cbn [pchain] in Hwf, H.
  pose proof (build_names_in nonstr _ _ _ _ _ Hwf H x Hx) as I.
  change (PDir "" (mkPDirs "" p s [] [] [] [] []) [pchain rest (PFile docs)]) with (pchain ((p, s) :: rest) (PFile docs)) in I.
  rewrite pnames_pchain in I. apply in_map_iff in I. destruct I as (i & E & Ii).
  apply in_map_iff in Ii. destruct Ii as (n0 & <- & In0). exists n0. split; [exact In0|symmetry; exact E].
Qed.

(* non-vacuity: three layers around a Deployment, a Namespace and an APIService, built by the pipeline model *)
Definition nest_example_docs : list node :=
  [ Map [("apiVersion", str_node "apps/v1"); ("kind", str_node "Deployment"); ("metadata", Map [("name", str_node "d")])];
    Map [("apiVersion", str_node "v1"); ("kind", str_node "Namespace"); ("metadata", Map [("name", str_node "n")])];
    Map [("apiVersion", str_node "example.com/v1"); ("kind", str_node "APIService"); ("metadata", Map [("name", str_node "api")])] ].

Example nest_example :
  match build (fun _ => false) PSortFifo (pchain [("o-", "-O"); ("m-", "-M"); ("i-", "-I")] (PFile nest_example_docs)) with
  | Ok outs => map get_name outs
  | _ => []
  end = ["o-m-i-d-I-M-O"; "n"; "o-m-i-api-I-M-O"].
Proof. vm_compute. reflexivity. Qed.
