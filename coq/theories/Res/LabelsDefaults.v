(* The default transformer configuration (builtinconfig.MakeDefaultConfig) restricted to the label and
   annotation tables, from the GENERATED field-spec tables. Definitions only. *)
From KV Require Export Res.Labels.
From KV Require Export Gen.FieldSpecs.

Definition default_tc : tconfig :=
  mkTc gen_common_labels_fs [] gen_template_labels_fs gen_common_annotations_fs.
