(* The whole name reference transformer, seen from any scalar of any document: what it may turn a
   scalar's text into.  [rw R n n'] says: n' is n with the text of some scalars changed according to R,
   possibly with entries appended to mappings, and with no constraint on entries keyed "namespace"
   (setMapping writes the referent's namespace there). *)
From KV Require Import Res.NameRef Res.FsFacts Res.NameRefProofs.

Section Rel.
  Variable R : string -> string -> Prop.
  Hypothesis R_refl : forall v, R v v.
  Hypothesis R_trans : forall a b c, R a b -> R b c -> R a c.

  Fixpoint rw (n n' : node) {struct n} : Prop :=
    match n with
    | Scalar t _ v =>
        (* the text moves along R; a null tag never appears on a scalar that did not have it *)
        match n' with Scalar t' _ v' => R v v' /\ (t' = TNull -> t = TNull) | _ => False end
    | Map kvs =>
        match n' with
        | Map kvs' =>
            (fix go (l l' : list (string * node)) {struct l} : Prop :=
               match l with
               | [] => True
               | (k, x) :: t =>
                   match l' with
                   | (k', x') :: t' => k' = k /\ (rw x x' \/ k = "namespace") /\ go t t'
                   | [] => False
                   end
               end) kvs kvs'
        | _ => False
        end
    | Seq es =>
        match n' with
        | Seq es' =>
            (fix go (l l' : list node) {struct l} : Prop :=
               match l, l' with
               | [], [] => True
               | x :: t, x' :: t' => rw x x' /\ go t t'
               | _, _ => False
               end) es es'
        | _ => False
        end
    end.

  (* the two inner loops, named *)
  Fixpoint rw_kvs (l l' : list (string * node)) : Prop :=
    match l with
    | [] => True
    | (k, x) :: t =>
        match l' with
        | (k', x') :: t' => k' = k /\ (rw x x' \/ k = "namespace") /\ rw_kvs t t'
        | [] => False
        end
    end.
  Fixpoint rw_list (l l' : list node) : Prop :=
    match l, l' with
    | [], [] => True
    | x :: t, x' :: t' => rw x x' /\ rw_list t t'
    | _, _ => False
    end.

  Lemma rw_map_eq kvs kvs' : rw (Map kvs) (Map kvs') = rw_kvs kvs kvs'.
  Proof. reflexivity. Qed.
  Lemma rw_seq_eq es es' : rw (Seq es) (Seq es') = rw_list es es'.
  Proof. reflexivity. Qed.

  Lemma rw_refl n : rw n n.
  Proof.
    induction n as [t s v|kvs IH|es IH] using node_ind'.
    - cbn. split; [apply R_refl|auto].
    - rewrite rw_map_eq. induction IH as [|[k x] t Hx Ht IHt]; cbn; auto.
    - rewrite rw_seq_eq. induction IH as [|x t Hx Ht IHt]; cbn; auto.
  Qed.

  Lemma rw_kvs_refl kvs : rw_kvs kvs kvs.
  Proof. induction kvs as [|[k x] t IH]; cbn; auto using rw_refl. Qed.

  Lemma rw_trans a : forall b c, rw a b -> rw b c -> rw a c.
  Proof.
    induction a as [t s v|kvs IH|es IH] using node_ind'; intros b c Hab Hbc.
    - destruct b; cbn in Hab; try contradiction. destruct c; cbn in Hbc; try contradiction.
      cbn. destruct Hab, Hbc. split; eauto.
    - destruct b as [| kb |]; try (cbn in Hab; contradiction).
      destruct c as [| kc |]; try (cbn in Hbc; destruct kb as [|[? ?] ?]; contradiction).
      rewrite rw_map_eq in *. revert kb kc Hab Hbc.
      induction IH as [|[k x] t Hx Ht IHt]; intros kb kc Hab Hbc; cbn in *; [exact I|].
      destruct kb as [|[k1 x1] t1]; [contradiction|]. destruct Hab as (-> & H1 & Hab).
      cbn in Hbc. destruct kc as [|[k2 x2] t2]; [contradiction|]. destruct Hbc as (-> & H2 & Hbc).
      split; [reflexivity|]. split; [|eapply IHt; eauto].
      destruct H1 as [H1|H1]; [|right; assumption].
      destruct H2 as [H2|H2]; [left; eapply Hx; eauto|right; assumption].
    - destruct b as [| |eb]; try (cbn in Hab; contradiction).
      destruct c as [| |ec]; try (cbn in Hbc; destruct eb; contradiction).
      rewrite rw_seq_eq in *. revert eb ec Hab Hbc.
      induction IH as [|x t Hx Ht IHt]; intros eb ec Hab Hbc.
      + destruct eb; [|contradiction]. destruct ec; [exact I|contradiction].
      + destruct eb as [|x1 t1]; [contradiction|]. destruct Hab as [H1 Hab].
        destruct ec as [|x2 t2]; [contradiction|]. destruct Hbc as [H2 Hbc].
        split; [eapply Hx; eauto|eapply IHt; eauto].
  Qed.

  Lemma rw_set_first k x x' kvs :
    find_field k kvs = Some x -> (rw x x' \/ k = "namespace") ->
    rw (Map kvs) (Map (set_first k x' kvs)).
  Proof.
    rewrite rw_map_eq. intros Hf Hx. induction kvs as [|[k0 y] t IH]; cbn in *; [discriminate|].
    destruct (String.eqb k0 k) eqn:E.
    - apply String.eqb_eq in E; subst k0. inv Hf. cbn. split; [reflexivity|]. split; [assumption|].
      apply rw_kvs_refl.
    - cbn. split; [reflexivity|]. split; [left; apply rw_refl|auto].
  Qed.

  Lemma rw_app kvs ext : rw (Map kvs) (Map (kvs ++ ext)%list).
  Proof. rewrite rw_map_eq. induction kvs as [|[k x] t IH]; cbn; auto using rw_refl. Qed.

  Lemma rw_mapM f es es' :
    Forall (fun e => forall e', f e = Ok e' -> rw e e') es -> mapM f es = Ok es' ->
    rw (Seq es) (Seq es').
  Proof.
    rewrite rw_seq_eq. intros HF. revert es'. induction HF as [|e t He Ht IH]; intros es' H; cbn [mapM] in H.
    - inv H. exact I.
    - destruct (f e) as [e'| | |] eqn:Fe; cbn [bind] in H; try discriminate.
      destruct (mapM f t) as [t'| | |] eqn:Ft; cbn [bind] in H; try discriminate. inv H.
      cbn. auto.
  Qed.

  (* the field spec filter lifts the relation from SetValue to the whole document *)
  Lemma fs_filter_rw set create path :
    Forall (fun p => plain_key p = true) path ->
    (forall x y, set x = Ok y -> rw x y) ->
    forall n n', fs_filter None TNone set create path n = Ok n' -> rw n n'.
  Proof.
    intros Hplain Hset. induction path as [|p rest IH]; intros n.
    - intros n' HF. cbn in HF. auto.
    - inversion Hplain as [|? ? Hp Hrest]; subst. specialize (IH Hrest).
      induction n as [t s v|kvs IHk|es IHe] using node_ind'; intros n' HF.
      + destruct (is_null (Scalar t s v)) eqn:E.
        * rewrite fs_filter_null in HF by assumption. inv HF. apply rw_refl.
        * rewrite fs_filter_scalar in HF by assumption. discriminate.
      + rewrite fs_filter_map_nocreate in HF by auto.
        destruct (find_field p kvs) as [x|] eqn:Ff; [|inv HF; apply rw_refl].
        destruct (fs_filter None TNone set create rest x) as [x'| | |] eqn:Fx; cbn in HF; try discriminate.
        inv HF. apply rw_set_first with (x := x); auto.
      + rewrite fs_filter_seq in HF.
        destruct (mapM (fs_filter None TNone set create (p :: rest)) es) as [es'| | |] eqn:Hm;
          cbn in HF; try discriminate. inv HF.
        eapply rw_mapM; eauto.
  Qed.

  (* ---------- addresses ---------- *)

  Definition no_ns_key (a : list astep) : Prop :=
    Forall (fun st => match st with AKey k => k <> "namespace" | AIdx _ => True end) a.

  Lemma rw_kvs_find kvs kvs' k x :
    rw_kvs kvs kvs' -> find_field k kvs = Some x ->
    exists x', find_field k kvs' = Some x' /\ (rw x x' \/ k = "namespace").
  Proof.
    revert kvs'. induction kvs as [|[k0 y] t IH]; intros kvs' H Hf; cbn in *; [discriminate|].
    destruct kvs' as [|[k1 y1] t1]; [contradiction|]. destruct H as (-> & H1 & H2). cbn.
    destruct (String.eqb k0 k) eqn:E.
    - inv Hf. apply String.eqb_eq in E; subst. eauto.
    - eauto.
  Qed.

  Lemma rw_list_nth es es' i x :
    rw_list es es' -> nth_error es i = Some x -> exists x', nth_error es' i = Some x' /\ rw x x'.
  Proof.
    revert es' i. induction es as [|y t IH]; intros [|y1 t1] i H Hn; cbn in H; try contradiction;
      try (destruct i; discriminate).
    destruct H as [H1 H2]. destruct i as [|i]; cbn in *; [inv Hn; eauto|eauto].
  Qed.

  (* a scalar found at an address (not through a "namespace" key) is still a scalar at that address,
     with a text related by R *)
  Lemma rw_at a : forall n n' t s v,
    rw n n' -> no_ns_key a -> get_addr a n = Some (Scalar t s v) ->
    exists t' s' v', get_addr a n' = Some (Scalar t' s' v') /\ R v v' /\ (t' = TNull -> t = TNull).
  Proof.
    induction a as [|st a IH]; intros n n' t s v Hrw Hns Hg.
    - cbn in Hg. inv Hg. destruct n'; cbn in Hrw; try contradiction. cbn. destruct Hrw. eauto 6.
    - inversion Hns as [|? ? Hst Hrest]; subst.
      destruct st as [k|i]; cbn [get_addr] in Hg.
      + destruct n as [| kvs |]; try discriminate.
        destruct (find_field k kvs) as [x|] eqn:Ff; [|discriminate].
        destruct n' as [| kvs' |]; try (cbn in Hrw; destruct kvs as [|[? ?] ?]; contradiction).
        rewrite rw_map_eq in Hrw.
        destruct (rw_kvs_find _ _ _ _ Hrw Ff) as (x' & Ff' & [Hx|Hx]); [|contradiction].
        cbn [get_addr]. rewrite Ff'. eapply IH; eauto.
      + destruct n as [| |es]; try discriminate.
        destruct (nth_error es i) as [x|] eqn:Hn; [|discriminate].
        destruct n' as [| |es']; try (cbn in Hrw; destruct es; contradiction).
        rewrite rw_seq_eq in Hrw.
        destruct (rw_list_nth _ _ _ _ Hrw Hn) as (x' & Hn' & Hx).
        cbn [get_addr]. rewrite Hn'. eapply IH; eauto.
  Qed.
  (* ... and an address a field spec path reaches (not through a "namespace" key) is still reached *)
  Lemma rw_reaches a : forall path n n',
    rw n n' -> no_ns_key a -> reaches path a n = true -> reaches path a n' = true.
  Proof.
    induction a as [|st a IH]; intros path n n' Hrw Hns Hr.
    - destruct path; exact Hr.
    - destruct path as [|p rest]; [discriminate|]. cbn [reaches] in Hr |- *.
      destruct (is_null n) eqn:En; [discriminate|].
      inversion Hns as [|? ? Hst Hrest]; subst.
      destruct st as [k|i].
      + destruct n as [| kvs |]; try discriminate.
        apply andb_true_iff in Hr as [Hk Hr]. apply String.eqb_eq in Hk; subst k.
        destruct (find_field p kvs) as [x|] eqn:Ff; [|discriminate].
        destruct n' as [| kvs' |]; try (cbn in Hrw; destruct kvs as [|[? ?] ?]; contradiction).
        rewrite rw_map_eq in Hrw.
        destruct (rw_kvs_find _ _ _ _ Hrw Ff) as (x' & Ff' & [Hx|Hx]); [|contradiction].
        cbn [is_null]. rewrite String.eqb_refl, Ff'. cbn [andb]. eapply IH; eauto.
      + destruct n as [| |es]; try discriminate.
        destruct (nth_error es i) as [x|] eqn:Hn; [|discriminate].
        destruct n' as [| |es']; try (cbn in Hrw; destruct es; contradiction).
        rewrite rw_seq_eq in Hrw.
        destruct (rw_list_nth _ _ _ _ Hrw Hn) as (x' & Hn' & Hx).
        cbn [is_null]. rewrite Hn'. eapply IH; eauto.
  Qed.
End Rel.

(* ================= the relation of the name reference transformer ================= *)

Section Chain.
  (* every resource of the map, as selectReferral sees it *)
  Variable C : list cand.

  (* one rewrite of a name: some resource once had the old text as its name, and is called [v'] now *)
  Definition renamed (v v' : string) : Prop :=
    exists c, In c C /\ prev_name_matches v c = true /\ c_name c = v'.

  Inductive chain : string -> string -> Prop :=
  | chain_refl v : chain v v
  | chain_step v w v' : renamed v w -> chain w v' -> chain v v'.

  Lemma chain_trans a b c : chain a b -> chain b c -> chain a c.
  Proof. induction 1; eauto using chain_step. Qed.

  Lemma chain_one v v' : renamed v v' -> chain v v'.
  Proof. intros H. eapply chain_step; eauto using chain_refl. Qed.

  (* references to names nobody ever had go nowhere *)
  Lemma chain_external v v' :
    (forall c, In c C -> prev_name_matches v c = false) -> chain v v' -> v' = v.
  Proof.
    intros Hno H. destruct H as [|v w v' (c & Hc & Hm & _) _]; [reflexivity|].
    rewrite (Hno c Hc) in Hm. discriminate.
  Qed.

  (* a closed pair: everything once called [old] is called [new] now, and so is everything once called [new] *)
  Lemma chain_closed old new v' :
    (forall c, In c C -> prev_name_matches old c = true -> c_name c = new) ->
    (forall c, In c C -> prev_name_matches new c = true -> c_name c = new) ->
    chain old v' -> v' = old \/ v' = new.
  Proof.
    intros H1 H2 H. inversion H as [|v w v'' (c & Hc & Hm & Hn) Hrest]; subst; [left; reflexivity|].
    right. rewrite (H1 c Hc Hm) in Hrest.
    clear -H2 Hrest. remember new as nw eqn:E in Hrest at 1.
    induction Hrest as [|v w v' (c & Hc & Hm & Hn) Hr IH]; [congruence|].
    subst v. rewrite (H2 c Hc Hm) in Hn. subst w. auto.
  Qed.

  Hypothesis no_empty_name : forall c, In c C -> prev_name_matches "" c = false.

  Notation RW := (rw chain).

  Lemma mapping_cands_incl kvs cands c : In c (mapping_cands kvs cands) -> In c cands.
  Proof.
    unfold mapping_cands, by_namespace. destruct (find_field "namespace" kvs) as [nsn|]; [|auto].
    destruct (is_null nsn || String.eqb (node_value nsn) ""); [auto|].
    destruct (String.eqb _ _); [contradiction|].
    destruct (filter _ cands) eqn:E.
    - intros H. apply filter_In in H. tauto.
    - rewrite <- E. intros H. apply filter_In in H. tauto.
  Qed.

  Section OneRule.
    Variable nonstr : string -> bool.
    Variable x : referrer_ctx.
    Variable cands : list cand.
    Hypothesis cands_in : forall c, In c cands -> In c C.

    Lemma nr_set_scalar_rw n n' : nr_set_scalar x cands n = Ok n' -> RW n n'.
    Proof.
      intros H. destruct n as [t s v| |].
      - unfold nr_set_scalar in H. cbn [node_value] in H.
        destruct (select_referral x v cands all_names_same) as [[c|]| | |] eqn:E; cbn [bind] in H;
          try discriminate; [|inv H; apply (rw_refl chain chain_refl)].
        destruct (String.eqb (c_name c) v); [inv H; apply (rw_refl chain chain_refl)|].
        unfold set_string_scalar in H. destruct (String.eqb (c_name c) ""); [discriminate|].
        unfold set_scalar, str_scalar in H.
        apply select_referral_sound in E as (Hin & Hm & _).
        assert (Hc: chain v (c_name c)) by (apply chain_one; exists c; auto).
        destruct (is_null (Scalar t s v)); cbn in H; inv H; cbn; (split; [assumption|discriminate]).
      - unfold nr_set_scalar in H. cbn [node_value] in H.
        rewrite select_none in H by (intros c Hc; apply no_empty_name; auto).
        cbn in H. inv H. apply (rw_refl chain chain_refl).
      - unfold nr_set_scalar in H. cbn [node_value] in H.
        rewrite select_none in H by (intros c Hc; apply no_empty_name; auto).
        cbn in H. inv H. apply (rw_refl chain chain_refl).
    Qed.

    Lemma set_string_field_name_rw kvs name_node v n1 :
      find_field "name" kvs = Some name_node -> chain (node_value name_node) v ->
      (node_value name_node = "" -> False) \/ is_scalar name_node = true ->
      set_string_field nonstr "name" v (Map kvs) = Ok n1 ->
      is_scalar name_node = true -> RW (Map kvs) n1.
    Proof.
      intros Hf Hc _ H Hs. unfold set_string_field in H. destruct (String.eqb v ""); [discriminate|].
      unfold set_field, str_scalar in H. cbn [is_null andb] in H. rewrite Hf in H. inv H.
      apply (rw_set_first chain chain_refl "name" name_node); auto.
      left. destruct name_node; try discriminate. cbn. split; [assumption|discriminate].
    Qed.

    Lemma set_string_field_ns_rw kvs v n2 :
      set_string_field nonstr "namespace" v (Map kvs) = Ok n2 -> RW (Map kvs) n2.
    Proof.
      intros H. unfold set_string_field in H. destruct (String.eqb v ""); [discriminate|].
      unfold set_field, str_scalar in H. cbn [is_null andb] in H.
      destruct (find_field "namespace" kvs) as [old|] eqn:Hf; inv H.
      - apply (rw_set_first chain chain_refl "namespace" old); auto.
      - apply (rw_app chain chain_refl).
    Qed.

    Lemma nr_set_mapping_rw n n' : nr_set_mapping nonstr x cands n = Ok n' -> RW n n'.
    Proof.
      intros H. destruct n as [| kvs |]; try discriminate. cbn [nr_set_mapping] in H.
      destruct (find_field "name" kvs) as [name_node|] eqn:Hf; [|discriminate].
      destruct (select_referral x (node_value name_node) (mapping_cands kvs cands)
                                all_names_and_namespaces_same) as [[c|]| | |] eqn:E;
        cbn [bind] in H; try discriminate; [|inv H; apply (rw_refl chain chain_refl)].
      destruct (String.eqb (c_name c) (node_value name_node) && String.eqb (c_ns c) "");
        [inv H; apply (rw_refl chain chain_refl)|].
      apply select_referral_sound in E as (Hin & Hm & _).
      apply mapping_cands_incl in Hin.
      assert (Hsc: is_scalar name_node = true).
      { destruct name_node; try reflexivity; cbn [node_value] in Hm;
          rewrite (no_empty_name c (cands_in c Hin)) in Hm; discriminate. }
      assert (Hc: chain (node_value name_node) (c_name c))
        by (apply chain_one; exists c; auto).
      destruct (set_string_field nonstr "name" (c_name c) (Map kvs)) as [n1| | |] eqn:E1;
        cbn [bind] in H; try discriminate.
      pose proof (set_string_field_name_rw kvs name_node (c_name c) n1 Hf Hc (or_intror Hsc) E1 Hsc) as R1.
      destruct (String.eqb (c_ns c) ""); [inv H; exact R1|].
      destruct n1 as [| kvs1 |]; try (exfalso; destruct kvs as [|[? ?] ?]; exact R1).
      eapply (rw_trans chain chain_trans); [exact R1|].
      eapply set_string_field_ns_rw; eauto.
    Qed.

    Lemma nr_set_rw n n' : nr_set nonstr x cands n = Ok n' -> RW n n'.
    Proof.
      intros H. unfold nr_set in H.
      destruct (is_null n) eqn:En; [inv H; apply (rw_refl chain chain_refl)|].
      destruct n as [t s v|kvs|es].
      - apply nr_set_scalar_rw. assumption.
      - apply nr_set_mapping_rw. assumption.
      - destruct (mapM (nr_set_elem nonstr x cands) es) as [es'| | |] eqn:Hm; cbn [bind] in H; try discriminate.
        inv H. eapply rw_mapM; eauto.
        apply Forall_forall. intros e _ e' He. unfold nr_set_elem in He.
        destruct (is_null e); [inv He; apply (rw_refl chain chain_refl)|].
        destruct e; [apply nr_set_scalar_rw|apply nr_set_mapping_rw|discriminate]; assumption.
    Qed.
  End OneRule.
End Chain.

(* ================= from one rule to the whole transformer ================= *)

Section Whole.
  Variable cs : string -> string -> bool.
  Variable nonstr : string -> bool.

  Lemma view_ext r r' : same_identity r r' -> view cs r' = view cs r.
  Proof.
    intros [Hi (B1 & B2 & B3 & B4 & B5 & B6)]. unfold ident in Hi. inversion Hi as [[Ha Hk Hn Hns]].
    unfold view, prev_ids, cur_id, cur_gvk, name_prefixes, name_suffixes.
    rewrite B1, B2, B3, B4, B5, Ha, Hk, Hn, Hns. reflexivity.
  Qed.

  Lemma mapM_view_ext l l' : Forall2 same_identity l l' -> mapM (view cs) l' = mapM (view cs) l.
  Proof.
    induction 1 as [|r r' t t' Hr Ht IH]; [reflexivity|]. cbn [mapM].
    rewrite (view_ext _ _ Hr), IH. reflexivity.
  Qed.

  Lemma mapM_select_incl {A B} (f : A -> res B) flags l all sub :
    mapM f l = Ok all -> mapM f (select_by flags l) = Ok sub -> incl sub all.
  Proof.
    revert l all sub. induction flags as [|b flags IH]; intros l all sub Hall Hsub.
    - cbn in Hsub. inv Hsub. intros ? [].
    - destruct l as [|a l]; [destruct b; cbn in Hsub; inv Hsub; intros ? []|].
      cbn [mapM] in Hall. destruct (f a) as [y| | |] eqn:Fa; cbn [bind] in Hall; try discriminate.
      destruct (mapM f l) as [ys| | |] eqn:Fl; cbn [bind] in Hall; try discriminate. inv Hall.
      destruct b; cbn [select_by] in Hsub.
      + cbn [mapM] in Hsub. rewrite Fa in Hsub. cbn [bind] in Hsub.
        destruct (mapM f (select_by flags l)) as [zs| | |] eqn:Fs; cbn [bind] in Hsub; try discriminate.
        inv Hsub. intros z [<-|Hz]; [left; reflexivity|right; eapply IH; eauto].
      + intros z Hz. right. eapply IH; eauto.
  Qed.

  Lemma Forall2_same_refl l : Forall2 same_identity l l.
  Proof. induction l; constructor; auto using same_identity_refl. Qed.

  Lemma Forall2_mid mb ma (r r' : resource) :
    same_identity r r' -> Forall2 same_identity (mb ++ r :: ma)%list (mb ++ r' :: ma)%list.
  Proof.
    intros H. induction mb as [|x mb IH]; cbn.
    - constructor; [assumption|apply Forall2_same_refl].
    - constructor; [apply same_identity_refl|assumption].
  Qed.

  Section WithC.
    Variable C : list cand.
    Hypothesis no_empty_name : forall c, In c C -> prev_name_matches "" c = false.
    Notation RW := (rw (chain C)).

    Lemma apply_rule_rw cands fs tg r r' :
      rule_path_plain fs -> incl cands C ->
      apply_rule cs nonstr cands fs tg r = Ok r' -> RW (r_node r) (r_node r').
    Proof.
      intros Hp Hin H. unfold apply_rule in H.
      match type of H with (do n' <- ?e; _) = _ => destruct e as [n'| | |] eqn:HF end;
        cbn [bind] in H; try discriminate. inv H. cbn [r_node with_node].
      eapply (fs_filter_rw (chain C) (chain_refl C)); eauto.
      intros a b Hab. eapply nr_set_rw; eauto.
    Qed.

    Lemma apply_rules_rw mb ma flags fl r0 :
      mapM (view cs) (mb ++ r0 :: ma)%list = Ok C ->
      Forall (fun p => rule_ok (fst p)) fl ->
      forall r r', same_identity r0 r ->
        apply_rules cs nonstr mb ma flags fl r = Ok r' -> RW (r_node r) (r_node r').
    Proof.
      intros HC Hok. induction fl as [|[fs tg] t IH]; intros r r' Hid H; cbn [apply_rules] in H.
      - inv H. apply (rw_refl (chain C) (chain_refl C)).
      - inversion Hok as [|? ? H1 H2]; subst. cbn [fst] in H1.
        destruct (mapM (view cs) (select_by flags (mb ++ r :: ma)%list)) as [cands| | |] eqn:Hc;
          cbn [bind] in H; try discriminate.
        destruct (apply_rule cs nonstr cands fs tg r) as [r1| | |] eqn:E; cbn [bind] in H; try discriminate.
        assert (Hall: mapM (view cs) (mb ++ r :: ma)%list = Ok C).
        { rewrite (mapM_view_ext _ _ (Forall2_mid mb ma r0 r Hid)). exact HC. }
        pose proof (mapM_select_incl _ _ _ _ _ Hall Hc) as Hincl.
        pose proof (apply_rule_rw _ _ _ _ _ (proj1 H1) Hincl E) as R1.
        pose proof (apply_rule_identity cs nonstr _ _ _ _ _ H1 E) as I1.
        eapply (rw_trans (chain C) (chain_trans C)); [exact R1|].
        eapply IH; eauto. eapply same_identity_trans; eauto.
    Qed.

    Definition related (r r' : resource) : Prop :=
      same_identity r r' /\ RW (r_node r) (r_node r').

    Lemma related_refl r : related r r.
    Proof. split; [apply same_identity_refl|apply (rw_refl (chain C) (chain_refl C))]. Qed.

    Lemma transform_loop_rw filters :
      Forall (Forall (fun p => rule_ok (fst p))) filters ->
      forall done todo out,
        mapM (view cs) (done ++ todo)%list = Ok C ->
        transform_loop cs nonstr filters done todo = Ok out ->
        exists tail, out = (done ++ tail)%list /\ Forall2 related todo tail.
    Proof.
      induction filters as [|fl filters IH]; intros Hok done todo out HC H.
      - destruct todo; cbn in H; inv H.
        + exists []. split; [now rewrite app_nil_r|constructor].
        + eexists. split; [reflexivity|].
          clear. induction (r :: todo); constructor; auto using related_refl.
      - inversion Hok as [|? ? Hfl Hrest]; subst.
        destruct todo as [|r t]; cbn [transform_loop] in H.
        + inv H. exists []. split; [now rewrite app_nil_r|constructor].
        + destruct fl as [|f0 fl'].
          * assert (HC': mapM (view cs) ((done ++ [r]) ++ t)%list = Ok C) by (now rewrite <- app_assoc).
            destruct (IH Hrest _ _ _ HC' H) as (tail & -> & HF).
            exists (r :: tail). split; [now rewrite <- app_assoc|].
            constructor; [apply related_refl|assumption].
          * destruct (referencable cs _ r) as [flags| | |]; cbn [bind] in H; try discriminate.
            destruct (apply_rules cs nonstr done t flags (f0 :: fl') r) as [r'| | |] eqn:E;
              cbn [bind] in H; try discriminate.
            pose proof (apply_rules_identity cs nonstr _ _ _ _ _ _ Hfl E) as I1.
            pose proof (apply_rules_rw done t flags (f0 :: fl') r HC Hfl r r' (same_identity_refl r) E) as R1.
            assert (HC': mapM (view cs) ((done ++ [r']) ++ t)%list = Ok C).
            { rewrite <- app_assoc. cbn [app].
              rewrite (mapM_view_ext _ _ (Forall2_mid done t r r' I1)). exact HC. }
            destruct (IH Hrest _ _ _ HC' H) as (tail & -> & HF).
            exists (r' :: tail). split; [now rewrite <- app_assoc|].
            constructor; [split; assumption|assumption].
    Qed.

    (* The whole of nameReferenceTransformer.Transform: every scalar of every document keeps its text or
       follows a chain of renames -- each link goes from a text to the CURRENT name of a resource that
       once had exactly that text as its name. *)
    Theorem nameref_transform_rw rules m m' :
      (forall b f, In b rules -> In f (nb_referrers b) -> rule_ok f) ->
      mapM (view cs) m = Ok C ->
      nameref_transform cs nonstr rules m = Ok m' -> Forall2 related m m'.
    Proof.
      intros Hok HC H. unfold nameref_transform in H.
      destruct (mapM (org_id cs) m) as [orgs| | |]; cbn [bind] in H; try discriminate.
      assert (HF: Forall (Forall (fun p => rule_ok (fst p))) (map (filters_for rules) orgs)).
      { apply Forall_forall. intros fl Hin. apply in_map_iff in Hin as (org & <- & _).
        apply filters_for_ok. assumption. }
      destruct (transform_loop_rw _ HF [] m m' HC H) as (tail & -> & H2). exact H2.
    Qed.

    (* ... read at one address of one document *)
    Corollary nameref_transform_at rules m m' i r r' a t s v :
      (forall b f, In b rules -> In f (nb_referrers b) -> rule_ok f) ->
      mapM (view cs) m = Ok C ->
      nameref_transform cs nonstr rules m = Ok m' ->
      nth_error m i = Some r -> nth_error m' i = Some r' ->
      no_ns_key a -> get_addr a (r_node r) = Some (Scalar t s v) ->
      exists t' s' v', get_addr a (r_node r') = Some (Scalar t' s' v') /\ chain C v v'.
    Proof.
      intros Hok HC H Hn Hn' Hns Hg.
      cut (exists t' s' v', get_addr a (r_node r') = Some (Scalar t' s' v') /\ chain C v v' /\ (t' = TNull -> t = TNull));
        [intros (t' & s' & v' & A1 & A2 & _); eauto|].
      pose proof (nameref_transform_rw rules m m' Hok HC H) as HF.
      assert (Hrel: related r r').
      { clear -HF Hn Hn'. revert i Hn Hn'. induction HF as [|x y l l' Hxy Hl IH]; intros [|i] Hn Hn';
          cbn in *; try discriminate; [inv Hn; inv Hn'; assumption|eauto]. }
      destruct Hrel as [_ Hrw]. eapply rw_at; eauto.
    Qed.
  End WithC.
End Whole.
