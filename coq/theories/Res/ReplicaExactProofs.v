(* The replicas transformer at full strength: the result is computed resource by resource.
   ReplicaCountTransformer walks field spec by field spec over the whole map (match all, then apply);
   [replica_one] is what happens to ONE resource under all field specs in turn.  The transformer
   succeeds with rs' exactly when every resource's own run succeeds, the results are rs', and at
   least one (resource, field spec) pair matched.  (Only success is characterised: when several
   resources fail, WHICH failure is reported depends on the field-spec-major order.) *)
From KV Require Import Res.Replica Res.ReplicaProofs.

Ltac inv H := inversion H; subst; clear H.

(* one resource under one field spec: matched by any of its ids? then the count is written *)
Definition replica_step (rp : replica) (fs : fieldspec) (obj : node) : res (bool * node) :=
  do h <- replica_hits rp fs obj;
  do o' <- (if h then replica_filter rp fs obj else Ok obj);
  Ok (h, o').

(* one resource under all field specs, in order; the flag says whether any of them matched *)
Fixpoint replica_one (rp : replica) (fss : list fieldspec) (obj : node) : res (bool * node) :=
  match fss with
  | [] => Ok (false, obj)
  | fs :: t =>
      do p <- replica_step rp fs obj;
      do q <- replica_one rp t (snd p);
      Ok (fst p || fst q, snd q)
  end.

Definition with_found (found : bool) (r : res (bool * list node)) : res (bool * list node) :=
  match r with
  | Ok (f, x) => Ok (found || f, x)
  | Err => Err
  | Panic => Panic
  | Diverge => Diverge
  end.

(* the "found" flag only accumulates *)
Lemma replica_loop_found rp : forall fss found rs,
  replica_loop rp fss found rs = with_found found (replica_loop rp fss false rs).
Proof.
  induction fss as [|fs t IH]; intros found rs; cbn.
  - rewrite Bool.orb_false_r. reflexivity.
  - destruct (replica_hit_list rp fs rs) as [hits| | |]; cbn; auto.
    destruct (apply_hits rp fs rs hits) as [rs1| | |]; cbn; auto.
    rewrite (IH (found || existsb (fun b => b) hits)), (IH (existsb (fun b => b) hits)).
    destruct (replica_loop rp t false rs1) as [[f x]| | |]; cbn; auto.
    rewrite Bool.orb_assoc. reflexivity.
Qed.

(* the head resource and the rest of the map do not interact *)
Lemma replica_loop_cons rp : forall fss found r rs f' l,
  replica_loop rp fss found (r :: rs) = Ok (f', l) <->
  exists f1 r' f2 rs',
    replica_one rp fss r = Ok (f1, r') /\ replica_loop rp fss false rs = Ok (f2, rs') /\
    l = r' :: rs' /\ f' = found || (f1 || f2).
Proof.
  induction fss as [|fs t IH]; intros found r rs f' l.
  - cbn. split.
    + intros H; inv H. exists false, r, false, rs. rewrite Bool.orb_false_r. auto.
    + intros (f1 & r' & f2 & rs' & H1 & H2 & -> & ->). inv H1. inv H2. rewrite Bool.orb_false_r. reflexivity.
  - cbn [replica_loop replica_one]. unfold replica_hit_list, replica_step. cbn [mapM].
    destruct (replica_hits rp fs r) as [h| | |]; cbn [bind];
      try (split; [discriminate|intros (? & ? & ? & ? & H & _); discriminate]).
    destruct (mapM (replica_hits rp fs) rs) as [hs| | |]; cbn [bind apply_hits];
      try (split; [discriminate|intros (? & ? & ? & ? & _ & H & _); discriminate]).
    destruct (if h then replica_filter rp fs r else Ok r) as [r1| | |]; cbn [bind];
      try (split; [discriminate|intros (? & ? & ? & ? & H & _); discriminate]).
    destruct (apply_hits rp fs rs hs) as [rs1| | |]; cbn [bind];
      try (split; [discriminate|intros (? & ? & ? & ? & _ & H & _); discriminate]).
    cbn [existsb fst snd]. rewrite IH. rewrite (replica_loop_found rp t (false || _) rs1).
    split.
    + intros (f1 & r' & f2 & rs' & H1 & H2 & -> & ->).
      exists (h || f1), r', (existsb (fun b => b) hs || f2), rs'.
      rewrite H1, H2. cbn. repeat split; auto.
      destruct found, h, f1, f2, (existsb (fun b => b) hs); reflexivity.
    + intros (f1 & r' & f2 & rs' & H1 & H2 & -> & ->).
      destruct (replica_one rp t r1) as [[g1 x1]| | |]; cbn in H1; inv H1.
      destruct (replica_loop rp t false rs1) as [[g2 x2]| | |]; cbn in H2; inv H2.
      exists g1, r', g2, rs'. repeat split; auto.
      destruct found, h, g1, g2, (existsb (fun b => b) hs); reflexivity.
Qed.

Lemma replica_loop_nil rp : forall fss found, replica_loop rp fss found [] = Ok (found, []).
Proof.
  induction fss as [|fs t IH]; intros found; cbn; auto. rewrite IH, Bool.orb_false_r. reflexivity.
Qed.

Lemma replica_loop_pointwise rp fss : forall rs f' rs',
  replica_loop rp fss false rs = Ok (f', rs') <->
  exists ps, mapM (replica_one rp fss) rs = Ok ps /\ rs' = map snd ps /\ f' = existsb fst ps.
Proof.
  induction rs as [|r rs IH]; intros f' rs'.
  - rewrite replica_loop_nil. cbn. split.
    + intros H; inv H. exists []. auto.
    + intros (ps & H & -> & ->). inv H. reflexivity.
  - rewrite replica_loop_cons. cbn [mapM]. split.
    + intros (f1 & r' & f2 & rs1 & H1 & H2 & -> & ->).
      apply IH in H2. destruct H2 as (ps & Hm & -> & ->).
      exists ((f1, r') :: ps). rewrite H1, Hm. cbn. auto.
    + intros (ps & H & -> & ->).
      destruct (replica_one rp fss r) as [[f1 r']| | |]; cbn in H; try discriminate.
      destruct (mapM (replica_one rp fss) rs) as [ps'| | |] eqn:Hm; cbn in H; inv H.
      exists f1, r', (existsb fst ps'), (map snd ps'). repeat split; auto.
      apply IH. exists ps'. auto.
Qed.

(* ---------- the transformer, pointwise ---------- *)
Theorem replica_transform_pointwise rp fss rs rs' :
  replica_transform rp fss rs = Ok rs' <->
  exists ps, mapM (replica_one rp fss) rs = Ok ps /\ rs' = map snd ps /\ existsb fst ps = true.
Proof.
  unfold replica_transform. split.
  - intros H. destruct (replica_loop rp fss false rs) as [[f x]| | |] eqn:L; cbn in H; try discriminate.
    destruct f; inv H. apply replica_loop_pointwise in L. destruct L as (ps & Hm & -> & Hf). eauto.
  - intros (ps & Hm & -> & Hf).
    assert (L : replica_loop rp fss false rs = Ok (true, map snd ps)).
    { apply replica_loop_pointwise. exists ps. auto. }
    rewrite L. reflexivity.
Qed.

(* every resource of the result is the result of its own run, whatever the other resources are *)
Corollary replica_transform_nth rp fss rs rs' :
  replica_transform rp fss rs = Ok rs' ->
  forall i obj, nth_error rs i = Some obj ->
    exists f obj', replica_one rp fss obj = Ok (f, obj') /\ nth_error rs' i = Some obj'.
Proof.
  intros H i obj Ho. apply replica_transform_pointwise in H. destruct H as (ps & Hm & -> & _).
  destruct (mapM_nth _ _ _ Hm) as [_ N]. destruct (N i obj Ho) as ([f o'] & H1 & H2).
  exists f, o'. split; auto. rewrite nth_error_map, H2. reflexivity.
Qed.

(* ---------- what one run does ---------- *)
(* a field spec that does not match any id of the resource is skipped *)
Lemma replica_one_skip rp fs t obj :
  replica_hits rp fs obj = Ok false -> replica_one rp (fs :: t) obj = replica_one rp t obj.
Proof.
  intros H. cbn. unfold replica_step. rewrite H. cbn.
  destruct (replica_one rp t obj) as [[f x]| | |]; reflexivity.
Qed.

(* no field spec matches: the resource is returned as it is, not counted as found *)
Lemma replica_one_none rp : forall fss obj,
  (forall fs, In fs fss -> replica_hits rp fs obj = Ok false) -> replica_one rp fss obj = Ok (false, obj).
Proof.
  induction fss as [|fs t IH]; intros obj H; [reflexivity|].
  rewrite replica_one_skip; [|apply H; left; auto]. apply IH. intros; apply H; right; auto.
Qed.

(* the one field spec that matches applies the replicacount filter, and the run continues on its result *)
Lemma replica_one_hit rp fs t obj obj' :
  replica_hits rp fs obj = Ok true -> replica_filter rp fs obj = Ok obj' ->
  replica_one rp (fs :: t) obj =
  (do q <- replica_one rp t obj'; Ok (true, snd q)).
Proof.
  intros H F. cbn. unfold replica_step. rewrite H. cbn. rewrite F. cbn. reflexivity.
Qed.

(* ---------- the replicacount filter on the shapes of spec / spec.replicas ---------- *)
Section FilterShapes.
  Variables (rp : replica) (fs : fieldspec).
  Hypothesis Hp : fs_path fs = "spec/replicas".

  (* a resource of another kind is not touched by the filter *)
  Lemma replica_filter_other_gvk obj : is_match_gvk fs obj = false -> replica_filter rp fs obj = Ok obj.
  Proof. intros H. unfold replica_filter, fs_apply. rewrite H. reflexivity. Qed.

  (* replicas present but not a scalar: error *)
  Lemma replica_filter_non_scalar kvs skvs x :
    is_match_gvk fs (Map kvs) = true ->
    find_field "spec" kvs = Some (Map skvs) -> find_field "replicas" skvs = Some x ->
    is_null x = false -> (forall t st v, x <> Scalar t st v) ->
    replica_filter rp fs (Map kvs) = Err.
  Proof.
    intros Hg Hs Hr Hn Hx. unfold replica_filter, fs_apply. rewrite Hg, Hp.
    change (path_splitter "spec/replicas") with ["spec"; "replicas"].
    destruct x as [t st v|m|s]; [exfalso; eapply Hx; reflexivity| |];
      destruct (fs_create fs);
      cbn -[find_field set_first]; rewrite Hs; cbn -[find_field set_first]; rewrite Hr;
      cbn; reflexivity.
  Qed.
End FilterShapes.

(* creation (every replicas field spec has create: true): spec without replicas gets the field
   appended; a resource without spec gets spec: {replicas: n}; a null replicas is promoted to the int *)
Example replica_filter_create_examples :
  let fs := mkFs "" "" "Deployment" "spec/replicas" true in
  let rp := mkReplica "x" "5" in
  let hd := [("kind", Scalar TStr SPlain "Deployment"); ("metadata", Map [("name", Scalar TStr SPlain "x")])] in
  replica_filter rp fs (Map (hd ++ [("spec", Map [("paused", Scalar TBool SPlain "true")])])) =
    Ok (Map (hd ++ [("spec", Map [("paused", Scalar TBool SPlain "true"); ("replicas", Scalar TInt SPlain "5")])])) /\
  replica_filter rp fs (Map hd) =
    Ok (Map (hd ++ [("spec", Map [("replicas", Scalar TInt SPlain "5")])])) /\
  replica_filter rp fs (Map (hd ++ [("spec", Map [("replicas", Scalar TNull SPlain "null")])])) =
    Ok (Map (hd ++ [("spec", Map [("replicas", Scalar TInt SPlain "5")])])) /\
  replica_filter rp fs (Map (hd ++ [("spec", Map [("replicas", Seq [])])])) = Err /\
  replica_filter rp fs (Map (hd ++ [("spec", Scalar TStr SPlain "s")])) = Err.
Proof. repeat split; vm_compute; reflexivity. Qed.

(* non-vacuity of the pointwise theorem: two matched resources (one by its previous name) and a
   near miss; each result is the resource's own run *)
Example replica_pointwise_example :
  let mk := fun name n => Map [("apiVersion", Scalar TStr SPlain "apps/v1"); ("kind", Scalar TStr SPlain "Deployment");
                               ("metadata", Map [("name", Scalar TStr SPlain name)]);
                               ("spec", Map [("replicas", Scalar TInt SPlain n)])] in
  let rp := mkReplica "x" "5" in
  replica_one rp gen_replicas_fs (mk "x" "1") = Ok (true, mk "x" "5") /\
  replica_one rp gen_replicas_fs (mk "ax" "1") = Ok (false, mk "ax" "1") /\
  replica_transform rp gen_replicas_fs [mk "ax" "1"; mk "x" "1"] = Ok [mk "ax" "1"; mk "x" "5"] /\
  replica_transform rp gen_replicas_fs [mk "ax" "1"] = Err.
Proof. repeat split; vm_compute; reflexivity. Qed.
