(* Model of the name reference machinery:
     api/internal/plugins/builtinconfig (nbrSlice.mergeAll / sort, FsSlice.MergeAll),
     api/internal/accumulator/namereferencetransformer.go (determineFilters, Transform),
     api/resmap/reswrangler.go (SubsetThatCouldBeReferencedByResource, getNamespacesForRoleBinding,
       GroupedByOriginalNamespace / GroupedByCurrentNamespace),
     api/filters/nameref/{nameref.go,seqfilter.go} (Filter.set / setScalar / setMapping / selectReferral).
   Definitions only.  Not modelled: the refBy annotation (recordTheReferral) -- it is written, never read,
   by a build and is stripped from the output. *)
From KV Require Export Res.Resource.

(* ================= rule table: merge and order ================= *)

Definition fs_gvk (f : fieldspec) : gvk := gvk_lit (fs_group f) (fs_version f) (fs_kind f).
Definition nb_gvk (b : nbr) : gvk := gvk_lit (nb_group b) (nb_version b) (nb_kind b).

(* FsSlice.index: x.effectivelyEquals(fs) = x.Gvk.IsSelected(&fs.Gvk) && x.Path == fs.Path *)
Fixpoint fs_index (s : list fieldspec) (f : fieldspec) : option fieldspec :=
  match s with
  | [] => None
  | x :: t =>
      if gvk_is_selected (fs_gvk x) (fs_gvk f) && String.eqb (fs_path x) (fs_path f)
      then Some x else fs_index t f
  end.

(* FsSlice.MergeOne / MergeAll *)
Definition fs_merge_one (s : list fieldspec) (f : fieldspec) : res (list fieldspec) :=
  match fs_index s f with
  | Some x => if Bool.eqb (fs_create x) (fs_create f) then Ok s else Err
  | None => Ok (s ++ [f])%list
  end.
Fixpoint fs_merge_all (s incoming : list fieldspec) : res (list fieldspec) :=
  match incoming with
  | [] => Ok s
  | f :: t => do s' <- fs_merge_one s f; fs_merge_all s' t
  end.

(* nbrSlice.mergeOne: EVERY row with an equal Gvk absorbs the referrers; appended when none has *)
Fixpoint nbr_merge_into (s : list nbr) (o : nbr) : res (list nbr * bool) :=
  match s with
  | [] => Ok ([], false)
  | c :: t =>
      do r <- nbr_merge_into t o;
      if gvk_equals (nb_gvk c) (nb_gvk o) then
        do refs <- fs_merge_all (nb_referrers c) (nb_referrers o);
        Ok (mkNbr (nb_group c) (nb_version c) (nb_kind c) refs :: fst r, true)
      else Ok (c :: fst r, snd r)
  end.
Definition nbr_merge_one (s : list nbr) (o : nbr) : res (list nbr) :=
  do r <- nbr_merge_into s o;
  if snd r then Ok (fst r) else Ok (fst r ++ [o])%list.
Fixpoint nbr_merge_all (s o : list nbr) : res (list nbr) :=
  match o with
  | [] => Ok s
  | r :: t => do s' <- nbr_merge_one s r; nbr_merge_all s' t
  end.

Section RuleOrder.
  Variable order_first order_last : list string.

  Definition nbr_less (a b : nbr) : bool := gvk_less order_first order_last (nb_gvk a) (nb_gvk b).

  (* sort.Sort(nbrSlice): insertion sort; the result does not depend on the algorithm when no two rows
     are equivalent for the order (obligation Gen_nameref_table_wf) *)
  Fixpoint nbr_insert (x : nbr) (l : list nbr) : list nbr :=
    match l with
    | [] => [x]
    | y :: t => if nbr_less y x then y :: nbr_insert x t else x :: y :: t
    end.
  Definition nbr_sort (l : list nbr) : list nbr := fold_right nbr_insert [] l.

  (* what ResAccumulator.tConfig.NameReference holds after MergeConfig(default config):
     TransformerConfig.Merge = mergeAll into the empty slice, then sortFields *)
  Definition effective_rules (raw : list nbr) : res (list nbr) :=
    do m <- nbr_merge_all [] raw; Ok (nbr_sort m).

  (* no two rows are equivalent for the order *)
  Fixpoint nbr_keys_distinct (l : list nbr) : bool :=
    match l with
    | [] => true
    | x :: t => forallb (fun y => nbr_less x y || nbr_less y x) t && nbr_keys_distinct t
    end.
End RuleOrder.

(* ================= candidates ================= *)

(* what selectReferral reads of a resource *)
Record cand := mkCand {
  c_prev : list resid;        (* PrevIds *)
  c_cur : resid;              (* CurId *)
  c_name : string;            (* GetName *)
  c_ns : string;              (* GetNamespace *)
  c_kind : string;            (* GetKind *)
  c_prefixes : list string;
  c_suffixes : list string
}.

Definition prev_name_matches (name : string) (c : cand) : bool :=
  existsb (fun id => String.eqb (id_name id) name) (c_prev c).
Definition prev_id_selected_by (g : gvk) (c : cand) : bool :=
  existsb (fun id => gvk_is_selected (id_gvk id) g) (c_prev c).

Definition all_names_same (l : list cand) : bool :=
  match l with
  | [] => true
  | x :: t => forallb (fun y => String.eqb (c_name x) (c_name y)) t
  end.
Definition all_names_and_namespaces_same (l : list cand) : bool :=
  match l with
  | [] => true
  | x :: t => forallb (fun y => String.eqb (c_name x) (c_name y) && String.eqb (c_ns x) (c_ns y)) t
  end.

(* the referrer as selectReferral sees it *)
Record referrer_ctx := mkCtx {
  x_cur : resid;                (* Referrer.CurId() *)
  x_prefixes : list string;
  x_suffixes : list string;
  x_roleref : option gvk;       (* getRoleRefGvk, None = error *)
  x_path : string;              (* NameFieldToUpdate.Path *)
  x_target : gvk                (* ReferralTarget *)
}.

(* roleRefFilter *)
Definition roleref_sieve (x : referrer_ctx) (c : cand) : bool :=
  if has_suffix "roleRef/name" (x_path x) then
    match x_roleref x with
    | Some g => prev_id_selected_by g c
    | None => true
    end
  else true.

(* sameCurrentNamespaceAsReferrer *)
Definition namespace_sieve (x : referrer_ctx) (c : cand) : bool :=
  if id_cluster_scoped (x_cur x) then true
  else if id_cluster_scoped (c_cur c) then true
  else if String.eqb (c_kind c) "ServiceAccount" then true
  else id_ns_equals (x_cur x) (c_cur c).

Definition prefix_suffix_sieve (x : referrer_ctx) (allow_empty : bool) (c : cand) : bool :=
  prefixes_suffixes_equals (c_prefixes c) (c_suffixes c) (x_prefixes x) (x_suffixes x) allow_empty.

(* the first four sieves *)
Definition sieve4 (x : referrer_ctx) (old : string) (l : list cand) : list cand :=
  filter (namespace_sieve x)
    (filter (roleref_sieve x)
       (filter (prev_id_selected_by (x_target x))
          (filter (prev_name_matches old) l))).

(* Filter.selectReferral *)
Definition select_referral (x : referrer_ctx) (old : string) (l : list cand)
           (identical : list cand -> bool) : res (option cand) :=
  let l4 := sieve4 x old l in
  match l4 with
  | [c] => Ok (Some c)
  | _ =>
      let l5 := filter (prefix_suffix_sieve x true) l4 in
      let l6 := match l5 with
                | _ :: _ :: _ => filter (prefix_suffix_sieve x false) l5
                | _ => l5
                end in
      match l6 with
      | [c] => Ok (Some c)
      | [] => Ok None
      | c :: _ => if identical l6 then Ok (Some c) else Err
      end
  end.

(* ================= the field rewrite ================= *)

Section Rewrite.
  Variable cs : string -> string -> bool.
  Variable nonstr : string -> bool.

  Definition view (r : resource) : res cand :=
    do p <- prev_ids r;
    Ok (mkCand p (cur_id cs r) (get_name (r_node r)) (get_namespace (r_node r)) (get_kind (r_node r))
               (name_prefixes r) (name_suffixes r)).

  (* the StringValue scalar FieldSetter builds: NewScalarRNode *)
  Definition str_scalar (v : string) : node := Scalar TNone SPlain v.

  (* FieldSetter{StringValue: v} dereferences a nil Value when v is empty *)
  Definition set_string_scalar (v : string) (n : node) : res node :=
    if String.eqb v "" then Panic else set_scalar (Some (str_scalar v)) n.
  Definition set_string_field (name v : string) (n : node) : res node :=
    if String.eqb v "" then Panic else set_field nonstr name (Some (str_scalar v)) false n.

  (* Filter.setScalar *)
  Definition nr_set_scalar (x : referrer_ctx) (cands : list cand) (n : node) : res node :=
    do r <- select_referral x (node_value n) cands all_names_same;
    match r with
    | None => Ok n
    | Some c => if String.eqb (c_name c) (node_value n) then Ok n else set_string_scalar (c_name c) n
    end.

  (* GroupedByOriginalNamespace / GroupedByCurrentNamespace restricted to one key *)
  Definition org_effective_ns (c : cand) : string :=
    match c_prev c with
    | id :: _ => effective_ns id
    | [] => effective_ns (c_cur c)
    end.
  Definition by_namespace (ns : string) (cands : list cand) : list cand :=
    if String.eqb ns totally_not_a_namespace then [] else
    match filter (fun c => String.eqb (org_effective_ns c) ns) cands with
    | (_ :: _) as l => l
    | [] => filter (fun c => String.eqb (effective_ns (c_cur c)) ns) cands
    end.

  (* filterMapCandidatesByNamespace.  After the repair R-nameref-empty-namespace-subject a null or
     empty `namespace` in the referring mapping is treated like an absent one (all candidates). *)
  Definition mapping_cands (kvs : list (string * node)) (cands : list cand) : list cand :=
    match find_field "namespace" kvs with
    | None => cands
    | Some ns_node =>
        if is_null ns_node || String.eqb (node_value ns_node) "" then cands
        else by_namespace (node_value ns_node) cands
    end.

  (* Filter.setMapping *)
  Definition nr_set_mapping (x : referrer_ctx) (cands : list cand) (n : node) : res node :=
    match n with
    | Map kvs =>
        match find_field "name" kvs with
        | None => Err
        | Some name_node =>
            let cands' := mapping_cands kvs cands in
            let old := node_value name_node in
            do r <- select_referral x old cands' all_names_and_namespaces_same;
            match r with
            | None => Ok n
            | Some c =>
                if String.eqb (c_name c) old && String.eqb (c_ns c) "" then Ok n
                else
                  do n1 <- set_string_field "name" (c_name c) n;
                  if String.eqb (c_ns c) "" then Ok n1
                  else set_string_field "namespace" (c_ns c) n1
            end
        end
    | _ => Err
    end.

  (* seqFilter.Filter on one element *)
  Definition nr_set_elem (x : referrer_ctx) (cands : list cand) (e : node) : res node :=
    if is_null e then Ok e else
    match e with
    | Scalar _ _ _ => nr_set_scalar x cands e
    | Map _ => nr_set_mapping x cands e
    | Seq _ => Err
    end.

  (* Filter.set *)
  Definition nr_set (x : referrer_ctx) (cands : list cand) (n : node) : res node :=
    if is_null n then Ok n else
    match n with
    | Scalar _ _ _ => nr_set_scalar x cands n
    | Map _ => nr_set_mapping x cands n
    | Seq es => do es' <- mapM (nr_set_elem x cands) es; Ok (Seq es')
    end.

  (* ================= SubsetThatCouldBeReferencedByResource ================= *)

  (* a scalar that decodes to a Go string *)
  Definition is_string_scalar (n : node) : bool :=
    match n with
    | Scalar TStr _ _ => true
    | Scalar TNone _ _ => true
    | _ => false
    end.

  (* getNamespacesForRoleBinding *)
  Fixpoint rb_subject_namespaces (es : list node) : res (list string) :=
    match es with
    | [] => Ok []
    | e :: t =>
        match e with
        | Map kvs =>
            do here <- match find_field "namespace" kvs, find_field "kind" kvs with
                       | Some ns, Some k =>
                           (* a kind that is not a string is simply "not a ServiceAccount" (fix bd5a4cf) *)
                           if is_string_scalar k && String.eqb (node_value k) "ServiceAccount" then
                             (if is_string_scalar ns then Ok [node_value ns] else Err)
                           else Ok []
                       | _, _ => Ok []
                       end;
            do rest <- rb_subject_namespaces t;
            Ok (here ++ rest)%list
        | _ => Err   (* a subject that is not a mapping: an error since fix bd5a4cf (it used to panic) *)
        end
    end.
  Definition rolebinding_namespaces (n : node) : res (list string) :=
    if negb (String.eqb (get_kind n) "RoleBinding") then Ok [] else
    match map_field_value "subjects" n with
    | Some (Seq es) => rb_subject_namespaces es
    | _ => Ok []
    end.

  (* positions (in the resource list) of the resources the referrer may refer to *)
  Definition referencable (m : list resource) (referrer : resource) : res (list bool) :=
    let rid := cur_id cs referrer in
    if id_cluster_scoped rid then Ok (map (fun _ => true) m) else
    do rbns <- rolebinding_namespaces (r_node referrer);
    Ok (map (fun t =>
               let id := cur_id cs t in
               id_cluster_scoped id || id_ns_equals id rid || str_in (get_namespace (r_node t)) rbns) m).

  Fixpoint select_by {A} (flags : list bool) (l : list A) : list A :=
    match flags, l with
    | true :: f', x :: l' => x :: select_by f' l'
    | false :: f', _ :: l' => select_by f' l'
    | _, _ => []
    end.

  (* ================= one filter, one referrer, the whole transformer ================= *)

  (* getRoleRefGvk *)
  Definition roleref_gvk (n : node) : option gvk :=
    match lookup [PKey "roleRef"] n with
    | Ok (Some rr) =>
        match lookup [PKey "apiGroup"] rr, lookup [PKey "kind"] rr with
        | Ok (Some g), Ok (Some k) => Some (gvk_lit (node_value g) "" (node_value k))
        | _, _ => None
        end
    | _ => None
    end.

  Definition make_ctx (referrer : resource) (path : string) (target : gvk) : referrer_ctx :=
    mkCtx (cur_id cs referrer) (name_prefixes referrer) (name_suffixes referrer)
          (roleref_gvk (r_node referrer)) path target.

  (* nameref.Filter.run: the field spec's own Gvk is overwritten with the referrer's, so only the path
     and the create flag of the rule matter (CreateKind is 0: nothing is ever created) *)
  Definition apply_rule (cands : list cand) (fs : fieldspec) (target : gvk) (referrer : resource)
    : res resource :=
    let x := make_ctx referrer (fs_path fs) target in
    do n' <- fs_filter None TNone (nr_set x cands) (fs_create fs) (path_splitter (fs_path fs)) (r_node referrer);
    Ok (with_node referrer n').

  (* determineFilters for one resource: rows in table order, referrers in row order *)
  Definition filters_for (rules : list nbr) (org : resid) : list (fieldspec * gvk) :=
    flat_map (fun b =>
                flat_map (fun fs => if gvk_is_selected (id_gvk org) (fs_gvk fs) then [(fs, nb_gvk b)] else [])
                         (nb_referrers b)) rules.

  Fixpoint apply_rules (m_before m_after : list resource) (flags : list bool)
           (fl : list (fieldspec * gvk)) (referrer : resource) : res resource :=
    match fl with
    | [] => Ok referrer
    | (fs, tg) :: t =>
        (* the candidates are live pointers: they see the referrer's own latest state *)
        do cands <- mapM view (select_by flags (m_before ++ referrer :: m_after)%list);
        do r' <- apply_rule cands fs tg referrer;
        apply_rules m_before m_after flags t r'
    end.

  (* nameReferenceTransformer.Transform, referrers visited in list order (Go ranges over a map:
     any order; the visit of one referrer only writes that referrer's document) *)
  Fixpoint transform_loop (filters : list (list (fieldspec * gvk)))
           (done todo : list resource) : res (list resource) :=
    match todo, filters with
    | [], _ => Ok done
    | r :: t, fl :: filters' =>
        match fl with
        | [] => transform_loop filters' (done ++ [r])%list t
        | _ =>
            do flags <- referencable (done ++ r :: t)%list r;
            do r' <- apply_rules done t flags fl r;
            transform_loop filters' (done ++ [r'])%list t
        end
    | _ :: _, [] => Ok (done ++ todo)%list
    end.

  Definition nameref_transform (rules : list nbr) (m : list resource) : res (list resource) :=
    do orgs <- mapM (org_id cs) m;
    transform_loop (map (filters_for rules) orgs) [] m.
End Rewrite.
