(* C07 over the integrated pipeline model (Res/Pipeline.v):
   A. identity uniqueness of the outputs of [build] for trees of well-formed documents, through the steps done
      once at the top (hash suffixes, IgnoreLocal, sort order), on top of PIPE_accumulate_ids_distinct;
   B. the fixpoint: building the output of a build again, as one resources file without directives, returns it
      unchanged - with exactly the guards the C07 findings force. *)
From KV Require Import Res.Pipeline Res.PipelineProofs Res.PipelineFrameProofs Res.PipelinePermProofs Res.RenameProofs
                       Res.C03Facts Res.NameRefProofs Res.CsvFacts Res.PipelineWfProofs Res.HashProofs Base.SortFacts.
From KV Require Res.Labels Res.LabelsDefaults Res.Namespace Res.Generators Res.Hash Res.Hygiene Res.HygieneProofs
                Res.LegacySort Res.LegacySortProofs.
From Coq Require Import Sorting.Permutation Sorting.Sorted.
Local Open Scope string_scope.

Ltac inv H := inversion H; subst; clear H.

Notation cs := pipe_cs.

(* ================= strings ================= *)

Lemma sapp_length (a b : string) : String.length (a ++ b) = String.length a + String.length b.
Proof. induction a as [|c a IH]; cbn; auto. Qed.

(* a ++ b = c ++ d with |b| = |d| splits at the same place *)
Lemma sapp_eq_len (a c b d : string) :
  a ++ b = c ++ d -> String.length b = String.length d -> a = c /\ b = d.
Proof.
  revert c. induction a as [|x a IH]; intros [|y c] H L; cbn in *.
  - auto.
  - exfalso. subst b. cbn in L. rewrite sapp_length in L. lia.
  - exfalso. subst d. cbn in L. rewrite sapp_length in L. lia.
  - inv H. destruct (IH c H2 L) as [-> ->]. auto.
Qed.

Lemma comma_not_in_alphabet : in_suffix_alphabet ","%char = false.
Proof. vm_compute. reflexivity. Qed.

Lemma str_all_alphabet_no_comma s : str_all in_suffix_alphabet s = true -> no_char ","%char s = true.
Proof.
  induction s as [|c s IH]; cbn [str_all no_char]; [reflexivity|]. intros H. apply andb_true_iff in H as [Hc Hs].
  rewrite (IH Hs), andb_true_r. apply negb_true_iff.
  destruct (Ascii.eqb c ","%char) eqn:E; [|reflexivity].
  apply Ascii.eqb_eq in E. subst c. rewrite comma_not_in_alphabet in Hc. discriminate.
Qed.

(* ================= A. ids through the hash step ================= *)

Section Ids.
  Variable nonstr : string -> bool.

  (* HashTransformer on a well-formed resource: unchanged unless it asks for a hash; otherwise kind, apiVersion and
     namespace stay and the name gets "-" and a 10-character hash *)
  Lemma hash_res_effect r r' :
    W r -> hash_res nonstr r = Ok r' ->
    W r' /\ r_needs_hash r' = r_needs_hash r /\
    get_kind (r_node r') = get_kind (r_node r) /\ get_api_version (r_node r') = get_api_version (r_node r) /\
    get_namespace (r_node r') = get_namespace (r_node r) /\
    (if r_needs_hash r
     then exists h, String.length h = 10 /\ get_name (r_node r') = get_name (r_node r) ++ "-" ++ h
     else r' = r).
  Proof.
    intros HW H. unfold hash_res in H. destruct (r_needs_hash r) eqn:EN; [|inv H; rewrite EN; auto 10].
    destruct (_ || _); [|discriminate].
    destruct (Hash.hash_content (content_of_node (r_node r))) as [h| | |] eqn:EH; cbn [bind] in H; try discriminate.
    destruct (hash_content_shape _ _ EH) as [HL HA].
    pose proof (str_all_alphabet_no_comma _ HA) as Hc.
    destruct HW as [Hwf Hk].
    destruct (hash_one_hist cs nonstr h r r' Hc Hwf H) as (Wf' & _ & _).
    unfold hash_one in H. rewrite EN in H.
    assert (Hnode: r_node (store_previous_id cs r) = r_node r) by (rewrite store_previous_id_eq; reflexivity).
    rewrite Hnode in H.
    destruct (set_name nonstr _ (r_node r)) as [n'| | |] eqn:Hs; cbn [bind] in H; try discriminate. inv H.
    destruct Hwf as [Hho Hw]. destruct (wf_node_good _ Hw) as (G1 & Gk & _).
    assert (Hg: good (get_name (r_node r) ++ "-" ++ h) = true).
    { apply good_app_r; [assumption|]. cbn [append no_char]. rewrite Hc. reflexivity. }
    destruct (set_name_spec nonstr _ _ _ Hw Hg Hs) as (Wn & N1 & N2 & N3 & N4).
    split; [split; [exact Wf'|]|].
    - unfold kinds_const. cbn [r_node r_pkinds with_node]. rewrite N2, store_previous_id_eq. cbn [r_pkinds].
      rewrite get_csv_append by exact Gk. apply Forall_app. split; [exact Hk|constructor; [reflexivity|constructor]].
    - cbn [r_node with_node r_needs_hash]. rewrite store_previous_id_eq. cbn [r_needs_hash].
      repeat split; auto. exists h. auto.
  Qed.

  (* no resource that keeps its name already carries the name a hashed resource got *)
  Definition no_plain_clash (m1 : list resource) : Prop :=
    forall a b, In a m1 -> In b m1 -> r_needs_hash a = true -> r_needs_hash b = false ->
                id_equals (rid a) (rid b) = false.

  Lemma distinct_ids_pairs (R : resource -> resource -> Prop) m m1 :
    Forall2 R m m1 ->
    (forall a a' b b', In a m -> In b m -> In a' m1 -> In b' m1 -> R a a' -> R b b' ->
                       id_equals (rid a) (rid b) = false -> id_equals (rid a') (rid b') = false) ->
    distinct_ids m -> distinct_ids m1.
  Proof.
    intros HF. induction HF as [|r r' t t' Hr Ht IH]; cbn [distinct_ids]; [auto|].
    intros HP [H1 H2]. split.
    - intros x' Hx'.
      assert (exists x, In x t /\ R x x') as (x & Hx & Hxx).
      { clear -Ht Hx'. induction Ht as [|a b ta tb Hab _ IHt]; [destruct Hx'|].
        destruct Hx' as [<-|Hx']; [exists a; split; [left; reflexivity|exact Hab]|].
        destruct (IHt Hx') as (x & Hx & Hxx). exists x. split; [right; exact Hx|exact Hxx]. }
      apply (HP r r' x x'); cbn; auto.
    - apply IH; [|exact H2]. intros a a' b b' Ha Hb Ha' Hb'. apply HP; cbn; auto.
  Qed.

  Lemma id_equals_fields a b :
    get_kind (r_node a) = get_kind (r_node b) -> get_api_version (r_node a) = get_api_version (r_node b) ->
    get_namespace (r_node a) = get_namespace (r_node b) -> get_name (r_node a) = get_name (r_node b) ->
    rid a = rid b.
  Proof. intros K A N M. unfold cur_id, cur_gvk. rewrite K, A, N, M. reflexivity. Qed.

  Lemma id_equals_names a b : id_equals (rid a) (rid b) = true -> get_name (r_node a) = get_name (r_node b).
  Proof.
    unfold id_equals, id_gvkn_equals. cbn [id_name cur_id]. intros H.
    apply andb_true_iff in H as [_ H]. apply andb_true_iff in H as [H _]. apply String.eqb_eq. exact H.
  Qed.

  (* the id with another name *)
  Lemma id_equals_rename a b a' b' :
    get_kind (r_node a') = get_kind (r_node a) -> get_api_version (r_node a') = get_api_version (r_node a) ->
    get_namespace (r_node a') = get_namespace (r_node a) ->
    get_kind (r_node b') = get_kind (r_node b) -> get_api_version (r_node b') = get_api_version (r_node b) ->
    get_namespace (r_node b') = get_namespace (r_node b) ->
    (get_name (r_node a') = get_name (r_node b') -> get_name (r_node a) = get_name (r_node b)) ->
    id_equals (rid a) (rid b) = false -> id_equals (rid a') (rid b') = false.
  Proof.
    intros Ka Aa Na Kb Ab Nb Hn H.
    destruct (id_equals (rid a') (rid b')) eqn:E; [|reflexivity]. exfalso.
    pose proof (id_equals_names _ _ E) as En. specialize (Hn En).
    revert H E. unfold id_equals, id_ns_equals, id_gvkn_equals, effective_ns, id_cluster_scoped, cur_id.
    cbn [id_gvk id_name id_ns].
    rewrite (cur_gvk_getters _ _ Ka Aa), (cur_gvk_getters _ _ Kb Ab), Na, Nb, En, Hn, !String.eqb_refl.
    intros H E. congruence.
  Qed.

  Lemma hash_step_distinct m m1 :
    Forall W m -> distinct_ids m -> mapM (hash_res nonstr) m = Ok m1 -> no_plain_clash m1 ->
    Forall W m1 /\ distinct_ids m1.
  Proof.
    intros HW Hd H NC. apply mapM_Forall2P in H.
    assert (HF : Forall2 (fun r r' => W r /\ hash_res nonstr r = Ok r') m m1).
    { clear -H HW. induction H; [constructor|]. inv HW. constructor; auto. }
    split.
    - clear -HF. induction HF as [|r r' t t' [Wr Hr] _ IH]; constructor; auto.
      destruct (hash_res_effect _ _ Wr Hr) as [X _]. exact X.
    - apply (distinct_ids_pairs _ _ _ HF); [|exact Hd].
      intros a a' b b' Ha Hb Ha' Hb' [Wa Ea] [Wb Eb] Hab.
      destruct (hash_res_effect _ _ Wa Ea) as (_ & Fa & Ka & Aa & Na & Ca).
      destruct (hash_res_effect _ _ Wb Eb) as (_ & Fb & Kb & Ab & Nb & Cb).
      destruct (r_needs_hash a) eqn:Ha1, (r_needs_hash b) eqn:Hb1.
      + destruct Ca as (ha & La & Ma). destruct Cb as (hb & Lb & Mb).
        apply (id_equals_rename a b a' b'); auto.
        rewrite Ma, Mb. intros X. apply sapp_eq_len in X as [X _]; [exact X|]. cbn. congruence.
      + subst b'. apply NC; auto; congruence.
      + subst a'. rewrite id_equals_sym. apply NC; auto; congruence.
      + subst a' b'. exact Hab.
  Qed.

  (* C07_ids_unique over Pipeline.build: for trees of well-formed documents the outputs of a successful build
     have pairwise distinct ids - under the legacy order always, otherwise when no plain resource already carries a
     hashed name (the C07 finding: the HashTransformer does not re-check, and without the re-Append of the legacy sort
     nothing does) *)
  Theorem build_ids_unique_guarded o t outs :
    tree_wf t -> build nonstr o t = Ok outs ->
    (match o with
     | PSortLegacy _ _ => True
     | _ => forall m m1, accumulate nonstr t = Ok m -> mapM (hash_res nonstr) m = Ok m1 -> no_plain_clash m1
     end) ->
    distinct_node_ids outs.
  Proof.
    intros Hwf Hb G. destruct o as [| |first last].
    - apply (build_ids_unique_fifo_partial nonstr PSortNone t outs (or_introl eq_refl) Hb).
      intros m m1 Ha Hh. destruct (accumulate_Inv nonstr t m Hwf Ha) as [HW Hd].
      apply (hash_step_distinct m m1 HW Hd Hh (G m m1 Ha Hh)).
    - apply (build_ids_unique_fifo_partial nonstr PSortFifo t outs (or_intror eq_refl) Hb).
      intros m m1 Ha Hh. destruct (accumulate_Inv nonstr t m Hwf Ha) as [HW Hd].
      apply (hash_step_distinct m m1 HW Hd Hh (G m m1 Ha Hh)).
    - eapply build_ids_unique_legacy; eauto.
  Qed.
End Ids.

(* ================= B. the fixpoint ================= *)

From KV Require Import Res.LabelsChain Base.StrOrder.

(* ----- sorted key / value lists ----- *)

Fixpoint keys_increasing (l : Labels.pairs) : Prop :=
  match l with
  | [] => True
  | x :: t => match t with
              | [] => True
              | y :: _ => String.ltb (fst x) (fst y) = true
              end /\ keys_increasing t
  end.

Lemma sort_pairs_increasing_id l : keys_increasing l -> Labels.sort_pairs l = l.
Proof.
  induction l as [|x t IH]; cbn [Labels.sort_pairs fold_right keys_increasing]; [reflexivity|].
  intros [Hx Ht]. change (fold_right Labels.insert_kv [] t) with (Labels.sort_pairs t). rewrite (IH Ht).
  destruct t as [|y t']; [reflexivity|]. cbn [Labels.insert_kv]. rewrite Hx. reflexivity.
Qed.

Lemma insert_kv_increasing kv l :
  keys_increasing l -> ~ In (fst kv) (map fst l) -> keys_increasing (Labels.insert_kv kv l).
Proof.
  induction l as [|x t IH]; cbn [Labels.insert_kv keys_increasing]; intros Hl Hn; [auto|].
  destruct Hl as [Hx Ht].
  destruct (String.ltb (fst kv) (fst x)) eqn:E.
  - cbn [keys_increasing]. auto.
  - assert (Hlt : String.ltb (fst x) (fst kv) = true).
    { destruct (sltb_total (fst x) (fst kv)) as [H|H]; [intros X; apply Hn; cbn; auto|exact H|unfold sltb in H; congruence]. }
    assert (Hn' : ~ In (fst kv) (map fst t)) by (intros X; apply Hn; cbn; auto).
    specialize (IH Ht Hn').
    cbn [keys_increasing]. split; [|exact IH].
    destruct t as [|y t']; cbn [Labels.insert_kv]; [exact Hlt|].
    destruct (String.ltb (fst kv) (fst y)); [exact Hlt|exact Hx].
Qed.

Lemma sort_pairs_increasing l : NoDup (map fst l) -> keys_increasing (Labels.sort_pairs l).
Proof.
  induction l as [|x t IH]; cbn [Labels.sort_pairs fold_right]; [cbn; auto|].
  intros N. inv N. change (fold_right Labels.insert_kv [] t) with (Labels.sort_pairs t).
  apply insert_kv_increasing; [auto|].
  intros X. apply H1. apply in_map_iff in X as (kv & E & Hkv). apply in_map_iff. exists kv. split; [exact E|].
  eapply Permutation_in; [apply sort_pairs_perm|exact Hkv].
Qed.

Lemma sort_pairs_idem l : NoDup (map fst l) -> Labels.sort_pairs (Labels.sort_pairs l) = Labels.sort_pairs l.
Proof. intros N. apply sort_pairs_increasing_id. apply sort_pairs_increasing. exact N. Qed.

Lemma NoDup_keys_perm (a b : Labels.pairs) : Permutation a b -> NoDup (map fst a) -> NoDup (map fst b).
Proof. intros P. apply Permutation_NoDup. apply Permutation_map. exact P. Qed.

Lemma NoDup_keys_filter (f : string * string -> bool) (a : Labels.pairs) :
  NoDup (map fst a) -> NoDup (map fst (filter f a)).
Proof.
  induction a as [|x t IH]; cbn; intros N; [constructor|]. inv N.
  destruct (f x); cbn; [constructor; auto|auto].
  intros X. apply H1. apply in_map_iff in X as (kv & E & Hkv). apply filter_In in Hkv as [Hkv _].
  apply in_map_iff. exists kv. auto.
Qed.

(* ----- the final strip ----- *)

(* metadata carries one `annotations` field at most and its keys are pairwise distinct (true of every document a
   YAML parser accepts; representable otherwise) *)
Definition meta_clean (n : node) : Prop := annos_once n /\ NoDup (map fst (annos_of n)).

Definition strip_keys : list string := Hygiene.run_stripped_keys [].

Lemma strip_run_filter a :
  Hygiene.strip_run [] a = filter (fun kv => negb (str_in (fst kv) strip_keys)) a.
Proof. rewrite HygieneProofs.strip_run_eq. reflexivity. Qed.

Lemma strip_run_stable a : Hygiene.strip_run [] (Hygiene.strip_run [] a) = Hygiene.strip_run [] a.
Proof. apply HygieneProofs.strip_run_idem. Qed.

Lemma filter_all_true {A} (p : A -> bool) l : (forall a, In a l -> p a = true) -> filter p l = l.
Proof.
  induction l as [|x t IH]; cbn; intros H; auto.
  rewrite (H x (or_introl eq_refl)). rewrite IH; auto.
Qed.

Lemma strip_run_sorted_kept a :
  Hygiene.strip_run [] (Labels.sort_pairs (Hygiene.strip_run [] a)) = Labels.sort_pairs (Hygiene.strip_run [] a).
Proof.
  rewrite (strip_run_filter (Labels.sort_pairs _)). apply filter_all_true.
  intros kv Hkv. apply sort_pairs_in in Hkv. rewrite strip_run_filter in Hkv.
  apply filter_In in Hkv as [_ H]. exact H.
Qed.

Lemma remove_first_app_none k (l l2 : list (string * node)) :
  find_field k l = None -> remove_first k (l ++ l2) = (l ++ remove_first k l2)%list.
Proof.
  induction l as [|[k' x] t IH]; cbn; [reflexivity|].
  destruct (String.eqb k' k); [discriminate|]. intros H. rewrite IH by exact H. reflexivity.
Qed.

Lemma set_first_twice k (v w : node) kvs : set_first k v (set_first k w kvs) = set_first k v kvs.
Proof.
  induction kvs as [|[k' x] t IH]; cbn; [reflexivity|].
  destruct (String.eqb k' k) eqn:E; cbn; rewrite E; [reflexivity|]. rewrite IH. reflexivity.
Qed.

(* the two shapes of strip_node *)
Lemma strip_node_shape n :
  (annos_of n = [] /\ strip_node n = n) \/
  (exists kvs mkvs, n = Map kvs /\ find_field "metadata" kvs = Some (Map mkvs) /\ annos_of n <> [] /\
     strip_node n = Map (set_first "metadata"
                           (Map (remove_first "annotations" mkvs ++
                                 meta_map_field "annotations" (Hygiene.strip_run [] (annos_of n)))%list) kvs)).
Proof.
  unfold strip_node. destruct (annos_of n) as [|a0 at_] eqn:EA; [left; auto|]. right.
  destruct n as [t s v|kvs|es]; try (unfold annos_of in EA; cbn in EA; discriminate).
  destruct (find_field "metadata" kvs) as [md|] eqn:EM.
  2:{ unfold annos_of, get_meta in EA. rewrite EM in EA. discriminate. }
  destruct md as [t s v|mkvs|es].
  1,3: unfold annos_of, get_meta in EA; rewrite EM in EA; cbn in EA;
       repeat match type of EA with context [if ?c then _ else _] => destruct c end; discriminate.
  exists kvs, mkvs. repeat split; auto. discriminate.
Qed.

Lemma annos_of_stripped n :
  annos_once n -> annos_of (strip_node n) = Labels.sort_pairs (Hygiene.strip_run [] (annos_of n)).
Proof.
  intros Honce. destruct (strip_node_shape n) as [[EA ->]|(kvs & mkvs & -> & EM & NE & ->)].
  - rewrite EA. rewrite strip_run_filter. reflexivity.
  - cbn [annos_once] in Honce. rewrite EM in Honce.
    set (kept := Hygiene.strip_run [] (annos_of (Map kvs))).
    unfold annos_of at 1. unfold get_meta. rewrite (pp_find_set_first_same _ _ _ _ EM).
    destruct (nil_or_empty (Map (remove_first "annotations" mkvs ++ meta_map_field "annotations" kept))) eqn:EN.
    + (* metadata became empty: nothing was kept *)
      destruct (remove_first "annotations" mkvs) as [|e0 et]; [|discriminate].
      cbn [app] in EN. unfold meta_map_field in EN. destruct kept; [reflexivity|discriminate].
    + rewrite pp_find_app, Honce. unfold meta_map_field. destruct kept as [|k0 kt] eqn:EK; [reflexivity|].
      cbn [find_field String.eqb Ascii.eqb Bool.eqb]. apply annos_of_meta_map_field.
Qed.

(* stripping is idempotent on documents *)
Lemma strip_node_idem n : meta_clean n -> strip_node (strip_node n) = strip_node n.
Proof.
  intros [Honce Hnd].
  pose proof (annos_of_stripped n Honce) as EA1.
  destruct (strip_node_shape n) as [[EA E]|(kvs & mkvs & -> & EM & NE & E)].
  - rewrite E. exact E.
  - cbn [annos_once] in Honce. rewrite EM in Honce.
    set (kept := Hygiene.strip_run [] (annos_of (Map kvs))) in *.
    destruct (strip_node_shape (strip_node (Map kvs))) as [[_ E2]|(kvs2 & mkvs2 & E2a & EM2 & NE2 & E2)]; [exact E2|].
    rewrite E2. rewrite E in E2a. inv E2a.
    rewrite (pp_find_set_first_same _ _ _ _ EM) in EM2. inv EM2.
    rewrite EA1. rewrite set_first_twice.
    rewrite (remove_first_app_none _ _ _ Honce).
    assert (RF : remove_first "annotations" (meta_map_field "annotations" kept) = []).
    { unfold meta_map_field. destruct kept; reflexivity. }
    rewrite RF, app_nil_r. unfold kept. rewrite strip_run_sorted_kept. fold kept.
    assert (MM : meta_map_field "annotations" (Labels.sort_pairs kept) = meta_map_field "annotations" kept).
    { unfold meta_map_field. destruct kept as [|k0 kt] eqn:EK; [reflexivity|].
      destruct (Labels.sort_pairs (k0 :: kt)) as [|s0 st] eqn:ES.
      - exfalso. pose proof (sort_pairs_perm (k0 :: kt)) as P. rewrite ES in P.
        apply Permutation_nil in P. discriminate.
      - rewrite <- ES. rewrite sort_pairs_idem; [reflexivity|].
        rewrite <- EK. unfold kept. rewrite strip_run_filter. apply NoDup_keys_filter. exact Hnd. }
    rewrite MM, E. reflexivity.
Qed.

(* ----- local-config and validation read through the strip ----- *)

From KV Require Import Res.GeneratorsProofs.

Lemma dict_get_some_in k v (a : Generators.dict) : Generators.dict_get k a = Some v -> In (k, v) a.
Proof.
  induction a as [|[k' v'] t IH]; cbn; [discriminate|].
  destruct (String.eqb k k') eqn:E; [|auto]. apply String.eqb_eq in E. subst. intros H. inv H. auto.
Qed.

Lemma dict_get_in k v (a : Generators.dict) : NoDup (map fst a) -> In (k, v) a -> Generators.dict_get k a = Some v.
Proof.
  induction a as [|[k' v'] t IH]; cbn; intros N H; [destruct H|]. inv N.
  destruct H as [H|H].
  - inv H. rewrite String.eqb_refl. reflexivity.
  - destruct (String.eqb k k') eqn:E; [|auto]. apply String.eqb_eq in E. subst.
    exfalso. apply H2. apply in_map_iff. exists (k', v). auto.
Qed.

Lemma dict_get_same_members k (a b : Generators.dict) :
  NoDup (map fst a) -> NoDup (map fst b) -> (forall v, In (k, v) a <-> In (k, v) b) ->
  Generators.dict_get k a = Generators.dict_get k b.
Proof.
  intros Na Nb H. destruct (Generators.dict_get k a) as [v|] eqn:Ea.
  - symmetry. apply dict_get_in; [exact Nb|]. apply H. apply dict_get_some_in. exact Ea.
  - destruct (Generators.dict_get k b) as [v|] eqn:Eb; [|reflexivity].
    apply dict_get_some_in in Eb. apply H in Eb. rewrite (dict_get_in _ _ _ Na Eb) in Ea. discriminate.
Qed.

Lemma local_pairs n : node_pairs (meta_field "annotations" n) = Generators.dict_of_pairs (annos_of n).
Proof.
  unfold meta_field, annos_of. destruct (get_meta n) as [md|]; [|reflexivity].
  destruct md as [t s v|mkvs|es]; try reflexivity.
  destruct (find_field "annotations" mkvs) as [x|]; [|reflexivity].
  destruct x; reflexivity.
Qed.

Definition local_key : string := "config.kubernetes.io/local-config".

Lemma local_key_kept : str_in local_key strip_keys = false.
Proof. vm_compute. reflexivity. Qed.

Lemma is_local_stripped n : meta_clean n -> is_local (strip_node n) = is_local n.
Proof.
  intros [Honce Hnd]. unfold is_local. rewrite !local_pairs, (annos_of_stripped n Honce).
  unfold Generators.dict_of_pairs. rewrite !dict_get_override. cbn [Generators.dict_get].
  fold local_key.
  replace (Generators.dict_get local_key (rev (Labels.sort_pairs (Hygiene.strip_run [] (annos_of n)))))
    with (Generators.dict_get local_key (rev (annos_of n))); [reflexivity|].
  assert (Nf : NoDup (map fst (Hygiene.strip_run [] (annos_of n)))).
  { rewrite strip_run_filter. apply NoDup_keys_filter. exact Hnd. }
  apply dict_get_same_members.
  - eapply NoDup_keys_perm; [apply Permutation_rev|exact Hnd].
  - eapply NoDup_keys_perm; [apply Permutation_rev|].
    eapply NoDup_keys_perm; [apply Permutation_sym, sort_pairs_perm|exact Nf].
  - intros v. rewrite <- !in_rev. split.
    + intros H. eapply Permutation_in; [apply Permutation_sym, sort_pairs_perm|].
      rewrite strip_run_filter. apply filter_In. split; [exact H|]. cbn [fst]. rewrite local_key_kept. reflexivity.
    + intros H. apply sort_pairs_in in H. rewrite strip_run_filter in H. apply filter_In in H. tauto.
Qed.

Lemma ident_fields n n' : ident n' = ident n ->
  get_name n' = get_name n /\ get_kind n' = get_kind n /\ get_namespace n' = get_namespace n /\
  get_api_version n' = get_api_version n.
Proof. unfold ident. intros H. inversion H. auto. Qed.

Lemma validated_stripped n : validated_meta_ok (strip_node n) = validated_meta_ok n.
Proof.
  destruct (ident_fields _ _ (strip_node_ident n)) as (N & K & _). unfold validated_meta_ok. rewrite N, K. reflexivity.
Qed.

Lemma validated_not_empty n : validated_meta_ok n = true -> nil_or_empty n = false.
Proof.
  unfold validated_meta_ok. intros H. apply andb_true_iff in H as [H _]. apply negb_true_iff in H.
  destruct n as [t s v|kvs|es]; try reflexivity.
  - destruct t; try reflexivity. cbn in H. discriminate.
  - destruct kvs; [cbn in H; discriminate|reflexivity].
  - destruct es; [cbn in H; discriminate|reflexivity].
Qed.

Lemma strip_not_empty n : validated_meta_ok n = true -> nil_or_empty (strip_node n) = false.
Proof. intros H. apply validated_not_empty. rewrite validated_stripped. exact H. Qed.

(* ----- what IgnoreLocal leaves ----- *)

Lemma raw_eqb_eq a b : resid_raw_eqb a b = true -> a = b.
Proof.
  destruct a as [[g v k c] n s], b as [[g' v' k' c'] n' s']. unfold resid_raw_eqb. cbn.
  rewrite !andb_true_iff, !String.eqb_eq. intros [[[[[N S] G] V] K] C]. apply Bool.eqb_prop in C. congruence.
Qed.

Lemma raw_eqb_refl a : resid_raw_eqb a a = true.
Proof. unfold resid_raw_eqb. rewrite !String.eqb_refl. destruct (g_cs (id_gvk a)); reflexivity. Qed.

Lemma rid_kind r : g_kind (id_gvk (rid r)) = get_kind (r_node r).
Proof. unfold cur_id, cur_gvk. cbn. destruct (parse_group_version _). reflexivity. Qed.

Lemma rid_validated a b : rid a = rid b -> validated_meta_ok (r_node a) = validated_meta_ok (r_node b).
Proof.
  intros E. unfold validated_meta_ok. rewrite <- !rid_kind, E.
  assert (N : get_name (r_node a) = get_name (r_node b)) by (change (id_name (rid a) = id_name (rid b)); rewrite E; reflexivity).
  rewrite N. reflexivity.
Qed.

Lemma remove_loop_spec ids kept : forall cur out,
  remove_loop ids kept cur = Ok out ->
  (forall r, In r out -> In r cur) /\
  (forall r, In r out -> In (rid r) ids -> existsb (resid_raw_eqb (rid r)) kept = true) /\
  (forall r, In r cur -> existsb (resid_raw_eqb (rid r)) kept = true -> In r out).
Proof.
  induction ids as [|id t IH]; intros cur out H; cbn [remove_loop] in H.
  - inv H. repeat split; auto; try (intros r _ []).
  - destruct (existsb (resid_raw_eqb id) kept) eqn:E.
    + destruct (IH _ _ H) as (A & B & C). repeat split; auto.
      intros r Hr [<-|Hi]; [exact E|auto].
    + destruct (Nat.eqb _ _); [|discriminate].
      destruct (IH _ _ H) as (A & B & C). repeat split.
      * intros r Hr. apply A in Hr. apply filter_In in Hr. tauto.
      * intros r Hr [Hid|Hi]; [|auto].
        apply A in Hr. apply filter_In in Hr as [_ Hr]. rewrite Hid, raw_eqb_refl in Hr. discriminate.
      * intros r Hr Hk. apply C; [|exact Hk]. apply filter_In. split; [exact Hr|].
        apply negb_true_iff. destruct (resid_raw_eqb (rid r) id) eqn:X; [|reflexivity].
        apply raw_eqb_eq in X. subst id. congruence.
Qed.

(* every resource that survives IgnoreLocal has the id of a kept (non-empty, validated, non-local) resource,
   and every kept resource survives *)
Lemma ignore_local_spec m out :
  ignore_local m = Ok out ->
  (forall r, In r out -> In r m) /\
  (forall r, In r out -> exists k, In k m /\ rid k = rid r /\ validated_meta_ok (r_node k) = true /\
                                   is_local (r_node k) = false /\ In k out) .
Proof.
  unfold ignore_local. intros H.
  destruct (forallb _ _) eqn:V; cbn [negb] in H; [|discriminate].
  destruct (append_all cs [] _) as [x| | |]; try discriminate.
  destruct (remove_loop_spec _ _ _ _ H) as (A & B & C). split; [exact A|].
  intros r Hr.
  assert (Hid : In (rid r) (map rid m)) by (apply in_map; auto).
  pose proof (B r Hr Hid) as E. apply existsb_exists in E as (kid & Hk & Ek).
  apply in_map_iff in Hk as (k & <- & Hk). apply raw_eqb_eq in Ek.
  apply filter_In in Hk as [Hk L]. apply filter_In in Hk as [Hk Em].
  rewrite forallb_forall in V.
  exists k. repeat split; auto.
  - apply V. apply filter_In. auto.
  - apply negb_true_iff in L. exact L.
  - apply C; [exact Hk|]. apply existsb_exists. exists (rid k). split; [|apply raw_eqb_refl].
    apply in_map. apply filter_In. split; [apply filter_In; auto|exact L].
Qed.

Lemma distinct_in_eq m a b :
  distinct_ids m -> In a m -> In b m -> id_equals (rid a) (rid b) = true -> a = b.
Proof.
  induction m as [|x t IH]; cbn; intros D Ha Hb E; [destruct Ha|]. destruct D as [D1 D2].
  destruct Ha as [<-|Ha], Hb as [<-|Hb]; auto.
  - rewrite (D1 _ Hb) in E. discriminate.
  - rewrite id_equals_sym, (D1 _ Ha) in E. discriminate.
Qed.

Lemma id_equals_refl_rid r : id_equals (rid r) (rid r) = true.
Proof.
  unfold id_equals, id_ns_equals, id_gvkn_equals, gvk_equals. rewrite !String.eqb_refl. reflexivity.
Qed.

(* with distinct ids IgnoreLocal leaves validated, non-local resources only *)
Lemma ignore_local_clean m out :
  ignore_local m = Ok out ->
  (forall r, In r out -> validated_meta_ok (r_node r) = true) /\
  (distinct_ids out -> forall r, In r out -> is_local (r_node r) = false).
Proof.
  intros H. destruct (ignore_local_spec _ _ H) as [A B]. split.
  - intros r Hr. destruct (B r Hr) as (k & _ & E & V & _). rewrite <- (rid_validated k r E). exact V.
  - intros D r Hr. destruct (B r Hr) as (k & _ & E & _ & L & Hk).
    assert (k = r). { apply (distinct_in_eq out); auto. rewrite E. apply id_equals_refl_rid. }
    subst k. exact L.
Qed.

(* ----- the legacy sort on an already sorted list ----- *)

Fixpoint adj_less {A} (less : A -> A -> bool) (l : list A) : Prop :=
  match l with
  | [] => True
  | x :: t => match t with
              | [] => True
              | y :: _ => less x y = true
              end /\ adj_less less t
  end.

Lemma isort_adj_id {A} (less : A -> A -> bool) l : adj_less less l -> isort less l = l.
Proof.
  induction l as [|x t IH]; cbn [isort adj_less]; [reflexivity|]. intros [Hx Ht]. rewrite (IH Ht).
  destruct t as [|y t']; [reflexivity|]. cbn [insert]. rewrite Hx. reflexivity.
Qed.

Lemma res_less_rid first last a b a' b' :
  rid a' = rid a -> rid b' = rid b -> res_less first last a' b' = res_less first last a b.
Proof. intros Ea Eb. unfold res_less, rid_of. rewrite Ea, Eb. reflexivity. Qed.

(* the legacy order decides every pair of resources with different ids (true when the ids are valid for the order:
   LegacySortProofs.less_total) *)
Definition order_total (first last : list string) (m : list resource) : Prop :=
  forall a b, In a m -> In b m -> id_equals (rid a) (rid b) = false ->
              res_less first last a b = true \/ res_less first last b a = true.

Lemma weakly_adj first last m :
  weakly_sorted (res_less first last) m -> distinct_ids m -> order_total first last m ->
  adj_less (res_less first last) m.
Proof.
  unfold weakly_sorted. induction m as [|x t IH]; cbn [adj_less]; [auto|].
  intros S [D1 D2] T. inversion S as [|? ? St Hd]; subst. split.
  - destruct t as [|y t']; [exact I|]. inversion Hd as [|? ? Hyx]; subst. cbv beta in Hyx.
    assert (Hxy : id_equals (rid x) (rid y) = false) by (apply D1; cbn; auto).
    destruct (T x y (or_introl eq_refl) (or_intror (or_introl eq_refl)) Hxy) as [H|H]; [exact H|congruence].
  - apply IH; auto. intros a b Ha Hb. apply T; cbn; auto.
Qed.

Lemma adj_less_map first last (g : resource -> resource) m :
  (forall r, rid (g r) = rid r) -> adj_less (res_less first last) m -> adj_less (res_less first last) (map g m).
Proof.
  intros Hg. induction m as [|x t IH]; cbn [map adj_less]; [auto|]. intros [Hx Ht]. split; [|auto].
  destruct t as [|y t']; cbn [map]; [exact I|]. rewrite (res_less_rid first last x y (g x) (g y)); auto.
Qed.

(* asymmetry of the comparator with the rank guard of /repo fc14842 (either value of the flag) *)
Lemma legacy_less_g_asym g first last a b :
  LegacySort.legacy_less_g g first last a b = true -> LegacySort.legacy_less_g g first last b a = false.
Proof.
  unfold LegacySort.legacy_less_g. rewrite (LegacySortProofs.gvk_eqb_sym (LegacySort.id_gvk b)).
  destruct (LegacySort.gvk_eqb (LegacySort.id_gvk a) (LegacySort.id_gvk b)); cbn [negb].
  - apply StrOrder.sltb_asym.
  - unfold LegacySort.gvk_less_than_g.
    set (i1 := LegacySort.type_order first last (LegacySort.g_kind (LegacySort.id_gvk a))).
    set (i2 := LegacySort.type_order first last (LegacySort.g_kind (LegacySort.id_gvk b))).
    rewrite (Z.eqb_sym i2 i1).
    destruct (Z.eqb i1 i2) eqn:E; cbn [negb].
    + apply Z.eqb_eq in E. rewrite <- E.
      rewrite (andb_comm (String.eqb (LegacySort.g_kind (LegacySort.id_gvk b)) _)).
      rewrite (orb_comm (String.eqb (LegacySort.g_group (LegacySort.id_gvk b)) _)).
      match goal with |- (if ?c then _ else _) = true -> _ => destruct c end; apply StrOrder.sltb_asym.
    + intros H. apply Z.ltb_lt in H. apply Z.ltb_ge. lia.
Qed.

Lemma sorted_after_legacy first last m2l m3 :
  sort_resources (PSortLegacy first last) m2l = Ok m3 -> order_total first last m3 ->
  distinct_ids m3 /\ Permutation m3 m2l /\ adj_less (res_less first last) m3.
Proof.
  cbn [sort_resources]. intros H T. apply append_all_spec in H as [E D]. cbn [app] in E.
  specialize (D I). split; [exact D|]. split; [rewrite E; apply isort_perm|].
  apply weakly_adj; auto. rewrite E. apply isort_sorted.
  intros a b _ _. unfold res_less. apply legacy_less_g_asym.
Qed.

(* ----- the second build ----- *)

Section Fix.
  Variable nonstr : string -> bool.

  (* a kustomization without directives whose only resources entry is one file with these documents *)
  Definition leaf (name : string) (docs : list node) : ptree := PDir name no_dirs [PFile docs].

  (* the documents handed to the final annotation removal *)
  Definition build_pre (o : psort) (t : ptree) : res (list node) :=
    match t with
    | PFile _ => Err
    | PDir _ _ _ =>
        do m <- accumulate nonstr t;
        do m1 <- mapM (hash_res nonstr) m;
        do _ <- hash_check m1;
        do rules <- pipe_rules;
        do m2 <- nameref_transform pipe_cs nonstr rules m1;
        do m2l <- ignore_local m2;
        do m3 <- sort_resources o m2l;
        Ok (map r_node m3)
    end.

  Lemma build_pre_spec o t : build nonstr o t = do pre <- build_pre o t; Ok (map strip_node pre).
  Proof.
    unfold build, build_pre. destruct t as [docs|n d ents]; [reflexivity|].
    destruct (accumulate nonstr (PDir n d ents)) as [m| | |]; cbn [bind]; try reflexivity.
    destruct (mapM (hash_res nonstr) m) as [m1| | |]; cbn [bind]; try reflexivity.
    destruct (hash_check m1) as [[]| | |]; cbn [bind]; try reflexivity.
    destruct pipe_rules as [rules| | |]; cbn [bind]; try reflexivity.
    destruct (nameref_transform pipe_cs nonstr rules m1) as [m2| | |]; cbn [bind]; try reflexivity.
    destruct (ignore_local m2) as [m2l| | |]; cbn [bind]; try reflexivity.
    destruct (sort_resources o m2l) as [m3| | |]; cbn [bind]; try reflexivity.
    rewrite map_map. reflexivity.
  Qed.

  Lemma distinct_loaded docs : distinct_node_ids docs -> distinct_ids (map load docs).
  Proof.
    induction docs as [|n t IH]; cbn; [auto|]. intros [H1 H2]. split; [|auto].
    intros x Hx. apply in_map_iff in Hx as (y & <- & Hy). apply (H1 y Hy).
  Qed.

  Lemma drop_empties_loaded docs :
    (forall n, In n docs -> nil_or_empty n = false) -> drop_empties (map load docs) = map load docs.
  Proof.
    intros H. unfold drop_empties. apply filter_all_true. intros r Hr. apply in_map_iff in Hr as (n & <- & Hn).
    cbn [r_node load]. rewrite (H n Hn). reflexivity.
  Qed.

  Lemma accumulate_leaf name docs :
    distinct_node_ids docs -> (forall n, In n docs -> nil_or_empty n = false) ->
    accumulate nonstr (leaf name docs) = Ok (map load docs).
  Proof.
    intros D NE. unfold leaf. rewrite (accumulate_dir nonstr name no_dirs). cbn [is_empty_kust].
    rewrite acc_list_cons. cbn [accumulate].
    pose proof (append_all_ok (map load docs) [] (distinct_loaded docs D)) as A. cbn [app] in A.
    rewrite A. cbn [bind]. rewrite A. cbn [bind acc_list].
    rewrite run_generators_none. cbn [bind]. rewrite run_transformers_none.
    rewrite drop_empties_loaded by exact NE. reflexivity.
  Qed.

  Lemma hash_loaded docs : mapM (hash_res nonstr) (map load docs) = Ok (map load docs).
  Proof. induction docs as [|n t IH]; cbn [map mapM]; [reflexivity|]. cbn. cbn in IH. rewrite IH. reflexivity. Qed.
  Lemma hash_check_loaded docs : hash_check (map load docs) = Ok tt.
  Proof.
    unfold hash_check.
    replace (forallb _ (map load docs)) with true; [reflexivity|].
    symmetry. apply forallb_forall. intros r Hr. apply in_map_iff in Hr as (n & <- & _). reflexivity.
  Qed.

  Lemma remove_loop_all_kept ids kept cur :
    (forall id, In id ids -> existsb (resid_raw_eqb id) kept = true) -> remove_loop ids kept cur = Ok cur.
  Proof.
    induction ids as [|id t IH]; cbn [remove_loop]; intros H; [reflexivity|].
    rewrite (H id (or_introl eq_refl)). apply IH. intros i Hi. apply H. right. exact Hi.
  Qed.

  Lemma ignore_local_loaded docs :
    distinct_node_ids docs ->
    (forall n, In n docs -> validated_meta_ok n = true) ->
    (forall n, In n docs -> is_local n = false) ->
    ignore_local (map load docs) = Ok (map load docs).
  Proof.
    intros D V L. unfold ignore_local.
    assert (F1 : filter (fun r => negb (nil_or_empty (r_node r))) (map load docs) = map load docs).
    { apply filter_all_true. intros r Hr. apply in_map_iff in Hr as (n & <- & Hn). cbn [r_node load].
      rewrite (validated_not_empty n (V n Hn)). reflexivity. }
    rewrite F1.
    assert (F2 : forallb (fun r => validated_meta_ok (r_node r)) (map load docs) = true).
    { apply forallb_forall. intros r Hr. apply in_map_iff in Hr as (n & <- & Hn). cbn [r_node load]. auto. }
    rewrite F2. cbn [negb].
    assert (F3 : filter (fun r => negb (is_local (r_node r))) (map load docs) = map load docs).
    { apply filter_all_true. intros r Hr. apply in_map_iff in Hr as (n & <- & Hn). cbn [r_node load].
      rewrite (L n Hn). reflexivity. }
    rewrite F3.
    pose proof (append_all_ok (map load docs) [] (distinct_loaded docs D)) as A. cbn [app] in A. rewrite A.
    apply remove_loop_all_kept. intros id Hid. apply existsb_exists. exists id. split; [exact Hid|apply raw_eqb_refl].
  Qed.

  (* what the first build guarantees about the documents it hands to the final strip *)
  Lemma build_pre_facts o t pre :
    build_pre o t = Ok pre ->
    exists m3, pre = map r_node m3 /\
      (forall r, In r m3 -> validated_meta_ok (r_node r) = true) /\
      (distinct_ids m3 -> forall r, In r m3 -> is_local (r_node r) = false) /\
      (forall first last, o = PSortLegacy first last -> order_total first last m3 ->
         distinct_ids m3 /\ adj_less (res_less first last) m3).
  Proof.
    unfold build_pre. destruct t as [docs|n d ents]; [discriminate|].
    destruct (accumulate nonstr (PDir n d ents)) as [m| | |]; cbn [bind]; try discriminate.
    destruct (mapM (hash_res nonstr) m) as [m1| | |]; cbn [bind]; try discriminate.
    destruct (hash_check m1) as [[]| | |]; cbn [bind]; try discriminate.
    destruct pipe_rules as [rules| | |]; cbn [bind]; try discriminate.
    destruct (nameref_transform pipe_cs nonstr rules m1) as [m2| | |]; cbn [bind]; try discriminate.
    destruct (ignore_local m2) as [m2l| | |] eqn:EI; cbn [bind]; try discriminate.
    destruct (sort_resources o m2l) as [m3| | |] eqn:ES; cbn [bind]; try discriminate.
    intros H. inv H. exists m3. split; [reflexivity|].
    destruct (ignore_local_clean _ _ EI) as [V L].
    assert (P : Permutation m3 m2l).
    { destruct o as [| |first last]; cbn [sort_resources] in ES; try (inv ES; apply Permutation_refl).
      apply append_all_spec in ES as [E _]. cbn [app] in E. rewrite E. apply isort_perm. }
    repeat split.
    - intros r Hr. apply V. eapply Permutation_in; eauto.
    - intros D r Hr. apply L; [|eapply Permutation_in; eauto].
      eapply distinct_ids_perm; eauto.
    - subst o. destruct (sorted_after_legacy _ _ _ _ ES H0) as (D & _ & _). exact D.
    - subst o. destruct (sorted_after_legacy _ _ _ _ ES H0) as (_ & _ & A). exact A.
  Qed.

  (* the guards, all stated on what the first build hands to its final strip ([pre]) and on its output:
     - [meta_clean]: metadata has one annotations field with distinct keys (every parsed YAML document);
     - legacy order: the order decides every pair of distinct output ids (C11's valid ids);
       other orders: the output ids are pairwise distinct - EXACTLY what the C07 finding (a local-config resource
       named like a hashed generated one) violates; that no output carries local-config then follows;
     - the name-reference pass of the second build leaves the loaded documents alone. *)
  Definition node_order_total (first last : list string) (docs : list node) : Prop :=
    order_total first last (map load docs).

  Theorem build_fixpoint o t pre rules name :
    build_pre o t = Ok pre ->
    Forall meta_clean pre ->
    let outs := map strip_node pre in
    (match o with
     | PSortLegacy first last => node_order_total first last outs
     | _ => distinct_node_ids outs
     end) ->
    pipe_rules = Ok rules ->
    nameref_transform pipe_cs nonstr rules (map load outs) = Ok (map load outs) ->
    build nonstr o (leaf name outs) = Ok outs.
  Proof.
    intros Hpre Hclean outs G ER Hnr.
    destruct (build_pre_facts _ _ _ Hpre) as (m3 & -> & V & L & Hleg).
    rewrite Forall_forall in Hclean.
    assert (Eouts : outs = map (fun r => strip_node (r_node r)) m3) by (unfold outs; rewrite map_map; reflexivity).
    assert (Eload : map load outs = map (fun r => load (strip_node (r_node r))) m3)
      by (rewrite Eouts, map_map; reflexivity).
    assert (Hg : forall r, rid (load (strip_node (r_node r))) = rid r) by (intros r; apply node_rid_strip).
    (* the first build's map, as far as needed *)
    assert (T3 : forall first last, o = PSortLegacy first last -> order_total first last m3).
    { intros first last ->. intros a b Ha Hb Hab. unfold node_order_total in G.
      rewrite <- (res_less_rid first last a b _ _ (Hg a) (Hg b)), <- (res_less_rid first last b a _ _ (Hg b) (Hg a)).
      apply G; [rewrite Eload; apply (in_map (fun r => load (strip_node (r_node r)))); exact Ha
               |rewrite Eload; apply (in_map (fun r => load (strip_node (r_node r)))); exact Hb|].
      rewrite !Hg. exact Hab. }
    assert (D3 : distinct_ids m3).
    { destruct o as [| |first last].
      - rewrite Eouts in G. clear -G Hg.
        induction m3 as [|x t IH]; cbn in *; [auto|]. destruct G as [G1 G2]. split; [|auto].
        intros y Hy. specialize (G1 (strip_node (r_node y)) (in_map _ _ _ Hy)). unfold node_rid in G1.
        rewrite !Hg in G1. exact G1.
      - rewrite Eouts in G. clear -G Hg.
        induction m3 as [|x t IH]; cbn in *; [auto|]. destruct G as [G1 G2]. split; [|auto].
        intros y Hy. specialize (G1 (strip_node (r_node y)) (in_map _ _ _ Hy)). unfold node_rid in G1.
        rewrite !Hg in G1. exact G1.
      - destruct (Hleg first last eq_refl (T3 _ _ eq_refl)) as [D _]. exact D. }
    assert (Douts : distinct_node_ids outs) by (rewrite Eouts; apply distinct_ids_strip; exact D3).
    assert (Vouts : forall n, In n outs -> validated_meta_ok n = true).
    { intros n Hn. rewrite Eouts in Hn. apply in_map_iff in Hn as (r & <- & Hr). rewrite validated_stripped. auto. }
    assert (Louts : forall n, In n outs -> is_local n = false).
    { intros n Hn. rewrite Eouts in Hn. apply in_map_iff in Hn as (r & <- & Hr).
      rewrite is_local_stripped; [apply (L D3 r Hr)|]. apply Hclean. apply in_map. exact Hr. }
    assert (NEouts : forall n, In n outs -> nil_or_empty n = false) by (intros n Hn; apply validated_not_empty; auto).
    (* the second build, step by step *)
    unfold build. unfold leaf at 1.
    change (PDir name no_dirs [PFile outs]) with (leaf name outs).
    rewrite (accumulate_leaf name outs Douts NEouts). cbn [bind].
    rewrite hash_loaded. cbn [bind]. rewrite hash_check_loaded. cbn [bind]. rewrite ER. cbn [bind]. rewrite Hnr. cbn [bind].
    rewrite (ignore_local_loaded outs Douts Vouts Louts). cbn [bind].
    assert (Hsort : sort_resources o (map load outs) = Ok (map load outs)).
    { destruct o as [| |first last]; cbn [sort_resources]; try reflexivity.
      destruct (Hleg first last eq_refl (T3 _ _ eq_refl)) as [_ A].
      rewrite (isort_adj_id (res_less first last) (map load outs)).
      - pose proof (append_all_ok (map load outs) [] (distinct_loaded outs Douts)) as X. cbn [app] in X. exact X.
      - rewrite Eload. apply adj_less_map; [exact Hg|exact A]. }
    rewrite Hsort. cbn [bind]. f_equal.
    rewrite map_map. cbn [r_node load]. unfold outs. rewrite map_map.
    apply map_ext_in. intros n Hn. apply strip_node_idem. apply Hclean. exact Hn.
  Qed.

  (* for trees of well-formed documents the guard on the output ids is discharged: since the HashTransformer
     re-checks (hash_check), every successful build has distinct output ids (PipelineWfProofs.build_ids_unique_wf) *)
  Theorem build_fixpoint_wf o t pre rules name :
    tree_wf t ->
    build_pre o t = Ok pre ->
    Forall meta_clean pre ->
    let outs := map strip_node pre in
    (match o with
     | PSortLegacy first last => node_order_total first last outs
     | _ => True
     end) ->
    pipe_rules = Ok rules ->
    nameref_transform pipe_cs nonstr rules (map load outs) = Ok (map load outs) ->
    build nonstr o (leaf name outs) = Ok outs.
  Proof.
    intros Hwf Hpre Hclean outs G ER Hnr.
    assert (Hb : build nonstr o t = Ok outs) by (rewrite build_pre_spec, Hpre; reflexivity).
    pose proof (PipelineWfProofs.build_ids_unique_wf nonstr o t outs Hwf Hb) as D.
    apply (build_fixpoint o t pre rules name Hpre Hclean); [|exact ER|exact Hnr].
    destruct o; [exact D|exact D|exact G].
  Qed.
End Fix.


(* ================= why the name-reference hypothesis of the fixpoint is mild =================
   Resources loaded from a file have an empty rename history; selectReferral only ever selects a candidate one of
   whose PREVIOUS ids carries the referenced name, so against history-free candidates no reference is rewritten:
   Filter.set returns the node it was given (or fails on a malformed reference, exactly as in the first build). *)
Definition history_free (cands : list cand) : Prop := forall c, In c cands -> c_prev c = [].

Lemma select_referral_history_free x old cands idf :
  history_free cands -> select_referral x old cands idf = Ok None.
Proof.
  intros H. unfold select_referral, sieve4.
  assert (E : filter (prev_name_matches old) cands = []).
  { induction cands as [|c t IH]; cbn; [reflexivity|].
    unfold prev_name_matches at 1. rewrite (H c (or_introl eq_refl)). cbn.
    apply IH. intros c' Hc'. apply H. right. exact Hc'. }
  rewrite E. reflexivity.
Qed.

Lemma by_namespace_history_free ns cands : history_free cands -> history_free (by_namespace ns cands).
Proof.
  intros H c Hc. unfold by_namespace in Hc. destruct (String.eqb ns totally_not_a_namespace); [destruct Hc|].
  destruct (filter _ cands) as [|c0 l0] eqn:E.
  - apply filter_In in Hc. apply H. tauto.
  - rewrite <- E in Hc. apply filter_In in Hc. apply H. tauto.
Qed.

Section NrPure.
  Variable nonstr : string -> bool.

  Lemma nr_set_history_free x cands n n' :
    history_free cands -> nr_set nonstr x cands n = Ok n' -> n' = n.
  Proof.
    intros H.
    assert (S : forall e e', nr_set_scalar x cands e = Ok e' -> e' = e).
    { intros e e' E. unfold nr_set_scalar in E. rewrite (select_referral_history_free _ _ _ _ H) in E.
      cbn [bind] in E. inv E. reflexivity. }
    assert (M : forall e e', nr_set_mapping nonstr x cands e = Ok e' -> e' = e).
    { intros e e' E. unfold nr_set_mapping in E. destruct e as [t s v|kvs|es]; try discriminate.
      destruct (find_field "name" kvs); [|discriminate].
      rewrite select_referral_history_free in E.
      - cbn [bind] in E. inv E. reflexivity.
      - unfold mapping_cands. destruct (find_field "namespace" kvs) as [nsn|]; [|exact H].
        destruct (is_null nsn || String.eqb (node_value nsn) ""); [exact H|].
        apply by_namespace_history_free. exact H. }
    unfold nr_set. destruct (is_null n); [intros E; inv E; reflexivity|].
    destruct n as [t s v|kvs|es]; [apply S|apply M|].
    intros E. destruct (mapM (nr_set_elem nonstr x cands) es) as [es'| | |] eqn:EM; cbn [bind] in E; try discriminate.
    inv E. f_equal. clear -EM S M. revert es' EM. induction es as [|e t IH]; cbn; intros es' EM.
    - inv EM. reflexivity.
    - destruct (nr_set_elem nonstr x cands e) as [e'| | |] eqn:Ee; cbn [bind] in EM; try discriminate.
      destruct (mapM (nr_set_elem nonstr x cands) t) as [t'| | |] eqn:Et; cbn [bind] in EM; try discriminate.
      inv EM. rewrite (IH t' eq_refl). f_equal.
      unfold nr_set_elem in Ee. destruct (is_null e); [inv Ee; reflexivity|].
      destruct e as [t0 s0 v0|kvs0|es0]; [apply S|apply M|discriminate]; exact Ee.
  Qed.

  (* a resource read from a file presents itself as a history-free candidate *)
  Lemma view_loaded n c : view cs (load n) = Ok c -> c_prev c = [].
  Proof. unfold view, prev_ids, load. cbn. intros H. inv H. reflexivity. Qed.
End NrPure.
