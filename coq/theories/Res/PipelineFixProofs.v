(* C07 over the integrated pipeline model (Res/Pipeline.v):
   A. identity uniqueness of the outputs of [build] for trees of well-formed documents, through the steps done
      once at the top (hash suffixes, IgnoreLocal, sort order), on top of PIPE_accumulate_ids_distinct;
   B. the fixpoint: building the output of a build again, as one resources file without directives, returns it
      unchanged - with exactly the guards the C07 findings force. *)
From KV Require Import Res.Pipeline Res.PipelineProofs Res.PipelineFrameProofs Res.PipelinePermProofs Res.RenameProofs
                       Res.C03Facts Res.NameRefProofs Res.CsvFacts Res.PipelineWfProofs Res.HashProofs Base.SortFacts.
From KV Require Res.Labels Res.LabelsDefaults Res.Namespace Res.Generators Res.Hash Res.Hygiene Res.HygieneProofs
                Res.LegacySort Res.LegacySortProofs.
From Coq Require Import Sorting.Permutation Sorting.Sorted.
Local Open Scope string_scope.

Ltac inv H := inversion H; subst; clear H.

Notation cs := pipe_cs.

(* ================= strings ================= *)

Lemma sapp_length (a b : string) : String.length (a ++ b) = String.length a + String.length b.
Proof. induction a as [|c a IH]; cbn; auto. Qed.

(* a ++ b = c ++ d with |b| = |d| splits at the same place *)
Lemma sapp_eq_len (a c b d : string) :
  a ++ b = c ++ d -> String.length b = String.length d -> a = c /\ b = d.
Proof.
  revert c. induction a as [|x a IH]; intros [|y c] H L; cbn in *.
  - auto.
  - exfalso. subst b. cbn in L. rewrite sapp_length in L. lia.
  - exfalso. subst d. cbn in L. rewrite sapp_length in L. lia.
  - inv H. destruct (IH c H2 L) as [-> ->]. auto.
Qed.

Lemma comma_not_in_alphabet : in_suffix_alphabet ","%char = false.
Proof. vm_compute. reflexivity. Qed.

Lemma str_all_alphabet_no_comma s : str_all in_suffix_alphabet s = true -> no_char ","%char s = true.
Proof.
  induction s as [|c s IH]; cbn [str_all no_char]; [reflexivity|]. intros H. apply andb_true_iff in H as [Hc Hs].
  rewrite (IH Hs), andb_true_r. apply negb_true_iff.
  destruct (Ascii.eqb c ","%char) eqn:E; [|reflexivity].
  apply Ascii.eqb_eq in E. subst c. rewrite comma_not_in_alphabet in Hc. discriminate.
Qed.

(* ================= A. ids through the hash step ================= *)

Section Ids.
  Variable nonstr : string -> bool.

  (* HashTransformer on a well-formed resource: unchanged unless it asks for a hash; otherwise kind, apiVersion and
     namespace stay and the name gets "-" and a 10-character hash *)
  Lemma hash_res_effect r r' :
    W r -> hash_res nonstr r = Ok r' ->
    W r' /\ r_needs_hash r' = r_needs_hash r /\
    get_kind (r_node r') = get_kind (r_node r) /\ get_api_version (r_node r') = get_api_version (r_node r) /\
    get_namespace (r_node r') = get_namespace (r_node r) /\
    (if r_needs_hash r
     then exists h, String.length h = 10 /\ get_name (r_node r') = get_name (r_node r) ++ "-" ++ h
     else r' = r).
  Proof.
    intros HW H. unfold hash_res in H. destruct (r_needs_hash r) eqn:EN; [|inv H; rewrite EN; auto 10].
    destruct (_ || _); [|discriminate].
    destruct (Hash.hash_content (content_of_node (r_node r))) as [h| | |] eqn:EH; cbn [bind] in H; try discriminate.
    destruct (hash_content_shape _ _ EH) as [HL HA].
    pose proof (str_all_alphabet_no_comma _ HA) as Hc.
    destruct HW as [Hwf Hk].
    destruct (hash_one_hist cs nonstr h r r' Hc Hwf H) as (Wf' & _ & _).
    unfold hash_one in H. rewrite EN in H.
    assert (Hnode: r_node (store_previous_id cs r) = r_node r) by (rewrite store_previous_id_eq; reflexivity).
    rewrite Hnode in H.
    destruct (set_name nonstr _ (r_node r)) as [n'| | |] eqn:Hs; cbn [bind] in H; try discriminate. inv H.
    destruct Hwf as [Hho Hw]. destruct (wf_node_good _ Hw) as (G1 & Gk & _).
    assert (Hg: good (get_name (r_node r) ++ "-" ++ h) = true).
    { apply good_app_r; [assumption|]. cbn [append no_char]. rewrite Hc. reflexivity. }
    destruct (set_name_spec nonstr _ _ _ Hw Hg Hs) as (Wn & N1 & N2 & N3 & N4).
    split; [split; [exact Wf'|]|].
    - unfold kinds_const. cbn [r_node r_pkinds with_node]. rewrite N2, store_previous_id_eq. cbn [r_pkinds].
      rewrite get_csv_append by exact Gk. apply Forall_app. split; [exact Hk|constructor; [reflexivity|constructor]].
    - cbn [r_node with_node r_needs_hash]. rewrite store_previous_id_eq. cbn [r_needs_hash].
      repeat split; auto. exists h. auto.
  Qed.

  (* no resource that keeps its name already carries the name a hashed resource got *)
  Definition no_plain_clash (m1 : list resource) : Prop :=
    forall a b, In a m1 -> In b m1 -> r_needs_hash a = true -> r_needs_hash b = false ->
                id_equals (rid a) (rid b) = false.

  Lemma distinct_ids_pairs (R : resource -> resource -> Prop) m m1 :
    Forall2 R m m1 ->
    (forall a a' b b', In a m -> In b m -> In a' m1 -> In b' m1 -> R a a' -> R b b' ->
                       id_equals (rid a) (rid b) = false -> id_equals (rid a') (rid b') = false) ->
    distinct_ids m -> distinct_ids m1.
  Proof.
    intros HF. induction HF as [|r r' t t' Hr Ht IH]; cbn [distinct_ids]; [auto|].
    intros HP [H1 H2]. split.
    - intros x' Hx'.
      assert (exists x, In x t /\ R x x') as (x & Hx & Hxx).
      { clear -Ht Hx'. induction Ht as [|a b ta tb Hab _ IHt]; [destruct Hx'|].
        destruct Hx' as [<-|Hx']; [exists a; split; [left; reflexivity|exact Hab]|].
        destruct (IHt Hx') as (x & Hx & Hxx). exists x. split; [right; exact Hx|exact Hxx]. }
      apply (HP r r' x x'); cbn; auto.
    - apply IH; [|exact H2]. intros a a' b b' Ha Hb Ha' Hb'. apply HP; cbn; auto.
  Qed.

  Lemma id_equals_fields a b :
    get_kind (r_node a) = get_kind (r_node b) -> get_api_version (r_node a) = get_api_version (r_node b) ->
    get_namespace (r_node a) = get_namespace (r_node b) -> get_name (r_node a) = get_name (r_node b) ->
    rid a = rid b.
  Proof. intros K A N M. unfold cur_id, cur_gvk. rewrite K, A, N, M. reflexivity. Qed.

  Lemma id_equals_names a b : id_equals (rid a) (rid b) = true -> get_name (r_node a) = get_name (r_node b).
  Proof.
    unfold id_equals, id_gvkn_equals. cbn [id_name cur_id]. intros H.
    apply andb_true_iff in H as [_ H]. apply andb_true_iff in H as [H _]. apply String.eqb_eq. exact H.
  Qed.

  (* the id with another name *)
  Lemma id_equals_rename a b a' b' :
    get_kind (r_node a') = get_kind (r_node a) -> get_api_version (r_node a') = get_api_version (r_node a) ->
    get_namespace (r_node a') = get_namespace (r_node a) ->
    get_kind (r_node b') = get_kind (r_node b) -> get_api_version (r_node b') = get_api_version (r_node b) ->
    get_namespace (r_node b') = get_namespace (r_node b) ->
    (get_name (r_node a') = get_name (r_node b') -> get_name (r_node a) = get_name (r_node b)) ->
    id_equals (rid a) (rid b) = false -> id_equals (rid a') (rid b') = false.
  Proof.
    intros Ka Aa Na Kb Ab Nb Hn H.
    destruct (id_equals (rid a') (rid b')) eqn:E; [|reflexivity]. exfalso.
    pose proof (id_equals_names _ _ E) as En. specialize (Hn En).
    revert H E. unfold id_equals, id_ns_equals, id_gvkn_equals, effective_ns, id_cluster_scoped, cur_id.
    cbn [id_gvk id_name id_ns].
    rewrite (cur_gvk_getters _ _ Ka Aa), (cur_gvk_getters _ _ Kb Ab), Na, Nb, En, Hn, !String.eqb_refl.
    intros H E. congruence.
  Qed.

  Lemma hash_step_distinct m m1 :
    Forall W m -> distinct_ids m -> mapM (hash_res nonstr) m = Ok m1 -> no_plain_clash m1 ->
    Forall W m1 /\ distinct_ids m1.
  Proof.
    intros HW Hd H NC. apply mapM_Forall2P in H.
    assert (HF : Forall2 (fun r r' => W r /\ hash_res nonstr r = Ok r') m m1).
    { clear -H HW. induction H; [constructor|]. inv HW. constructor; auto. }
    split.
    - clear -HF. induction HF as [|r r' t t' [Wr Hr] _ IH]; constructor; auto.
      destruct (hash_res_effect _ _ Wr Hr) as [X _]. exact X.
    - apply (distinct_ids_pairs _ _ _ HF); [|exact Hd].
      intros a a' b b' Ha Hb Ha' Hb' [Wa Ea] [Wb Eb] Hab.
      destruct (hash_res_effect _ _ Wa Ea) as (_ & Fa & Ka & Aa & Na & Ca).
      destruct (hash_res_effect _ _ Wb Eb) as (_ & Fb & Kb & Ab & Nb & Cb).
      destruct (r_needs_hash a) eqn:Ha1, (r_needs_hash b) eqn:Hb1.
      + destruct Ca as (ha & La & Ma). destruct Cb as (hb & Lb & Mb).
        apply (id_equals_rename a b a' b'); auto.
        rewrite Ma, Mb. intros X. apply sapp_eq_len in X as [X _]; [exact X|]. cbn. congruence.
      + subst b'. apply NC; auto; congruence.
      + subst a'. rewrite id_equals_sym. apply NC; auto; congruence.
      + subst a' b'. exact Hab.
  Qed.

  (* C07_ids_unique over Pipeline.build: for trees of well-formed documents the outputs of a successful build
     have pairwise distinct ids - under the legacy order always, otherwise when no plain resource already carries a
     hashed name (the C07 finding: the HashTransformer does not re-check, and without the re-Append of the legacy sort
     nothing does) *)
  Theorem build_ids_unique_wf o t outs :
    tree_wf t -> build nonstr o t = Ok outs ->
    (match o with
     | PSortLegacy _ _ => True
     | _ => forall m m1, accumulate nonstr t = Ok m -> mapM (hash_res nonstr) m = Ok m1 -> no_plain_clash m1
     end) ->
    distinct_node_ids outs.
  Proof.
    intros Hwf Hb G. destruct o as [| |first last].
    - apply (build_ids_unique_fifo_partial nonstr PSortNone t outs (or_introl eq_refl) Hb).
      intros m m1 Ha Hh. destruct (accumulate_Inv nonstr t m Hwf Ha) as [HW Hd].
      apply (hash_step_distinct m m1 HW Hd Hh (G m m1 Ha Hh)).
    - apply (build_ids_unique_fifo_partial nonstr PSortFifo t outs (or_intror eq_refl) Hb).
      intros m m1 Ha Hh. destruct (accumulate_Inv nonstr t m Hwf Ha) as [HW Hd].
      apply (hash_step_distinct m m1 HW Hd Hh (G m m1 Ha Hh)).
    - eapply build_ids_unique_legacy; eauto.
  Qed.
End Ids.

(* ================= B. the fixpoint ================= *)

From KV Require Import Res.LabelsChain Base.StrOrder.

(* ----- sorted key / value lists ----- *)

Fixpoint keys_increasing (l : Labels.pairs) : Prop :=
  match l with
  | [] => True
  | x :: t => match t with
              | [] => True
              | y :: _ => String.ltb (fst x) (fst y) = true
              end /\ keys_increasing t
  end.

Lemma sort_pairs_increasing_id l : keys_increasing l -> Labels.sort_pairs l = l.
Proof.
  induction l as [|x t IH]; cbn [Labels.sort_pairs fold_right keys_increasing]; [reflexivity|].
  intros [Hx Ht]. change (fold_right Labels.insert_kv [] t) with (Labels.sort_pairs t). rewrite (IH Ht).
  destruct t as [|y t']; [reflexivity|]. cbn [Labels.insert_kv]. rewrite Hx. reflexivity.
Qed.

Lemma insert_kv_increasing kv l :
  keys_increasing l -> ~ In (fst kv) (map fst l) -> keys_increasing (Labels.insert_kv kv l).
Proof.
  induction l as [|x t IH]; cbn [Labels.insert_kv keys_increasing]; intros Hl Hn; [auto|].
  destruct Hl as [Hx Ht].
  destruct (String.ltb (fst kv) (fst x)) eqn:E.
  - cbn [keys_increasing]. auto.
  - assert (Hlt : String.ltb (fst x) (fst kv) = true).
    { destruct (sltb_total (fst x) (fst kv)) as [H|H]; [intros X; apply Hn; cbn; auto|exact H|unfold sltb in H; congruence]. }
    assert (Hn' : ~ In (fst kv) (map fst t)) by (intros X; apply Hn; cbn; auto).
    specialize (IH Ht Hn').
    cbn [keys_increasing]. split; [|exact IH].
    destruct t as [|y t']; cbn [Labels.insert_kv]; [exact Hlt|].
    destruct (String.ltb (fst kv) (fst y)); [exact Hlt|exact Hx].
Qed.

Lemma sort_pairs_increasing l : NoDup (map fst l) -> keys_increasing (Labels.sort_pairs l).
Proof.
  induction l as [|x t IH]; cbn [Labels.sort_pairs fold_right]; [cbn; auto|].
  intros N. inv N. change (fold_right Labels.insert_kv [] t) with (Labels.sort_pairs t).
  apply insert_kv_increasing; [auto|].
  intros X. apply H1. apply in_map_iff in X as (kv & E & Hkv). apply in_map_iff. exists kv. split; [exact E|].
  eapply Permutation_in; [apply sort_pairs_perm|exact Hkv].
Qed.

Lemma sort_pairs_idem l : NoDup (map fst l) -> Labels.sort_pairs (Labels.sort_pairs l) = Labels.sort_pairs l.
Proof. intros N. apply sort_pairs_increasing_id. apply sort_pairs_increasing. exact N. Qed.

Lemma NoDup_keys_perm (a b : Labels.pairs) : Permutation a b -> NoDup (map fst a) -> NoDup (map fst b).
Proof. intros P. apply Permutation_NoDup. apply Permutation_map. exact P. Qed.

Lemma NoDup_keys_filter (f : string * string -> bool) (a : Labels.pairs) :
  NoDup (map fst a) -> NoDup (map fst (filter f a)).
Proof.
  induction a as [|x t IH]; cbn; intros N; [constructor|]. inv N.
  destruct (f x); cbn; [constructor; auto|auto].
  intros X. apply H1. apply in_map_iff in X as (kv & E & Hkv). apply filter_In in Hkv as [Hkv _].
  apply in_map_iff. exists kv. auto.
Qed.

(* ----- the final strip ----- *)

(* metadata carries one `annotations` field at most and its keys are pairwise distinct (true of every document a
   YAML parser accepts; representable otherwise) *)
Definition meta_clean (n : node) : Prop := annos_once n /\ NoDup (map fst (annos_of n)).

Definition strip_keys : list string := Hygiene.run_stripped_keys [].

Lemma strip_run_filter a :
  Hygiene.strip_run [] a = filter (fun kv => negb (str_in (fst kv) strip_keys)) a.
Proof. rewrite HygieneProofs.strip_run_eq. reflexivity. Qed.

Lemma strip_run_stable a : Hygiene.strip_run [] (Hygiene.strip_run [] a) = Hygiene.strip_run [] a.
Proof. apply HygieneProofs.strip_run_idem. Qed.

Lemma filter_all_true {A} (p : A -> bool) l : (forall a, In a l -> p a = true) -> filter p l = l.
Proof.
  induction l as [|x t IH]; cbn; intros H; auto.
  rewrite (H x (or_introl eq_refl)). rewrite IH; auto.
Qed.

Lemma strip_run_sorted_kept a :
  Hygiene.strip_run [] (Labels.sort_pairs (Hygiene.strip_run [] a)) = Labels.sort_pairs (Hygiene.strip_run [] a).
Proof.
  rewrite (strip_run_filter (Labels.sort_pairs _)). apply filter_all_true.
  intros kv Hkv. apply sort_pairs_in in Hkv. rewrite strip_run_filter in Hkv.
  apply filter_In in Hkv as [_ H]. exact H.
Qed.

Lemma remove_first_app_none k (l l2 : list (string * node)) :
  find_field k l = None -> remove_first k (l ++ l2) = (l ++ remove_first k l2)%list.
Proof.
  induction l as [|[k' x] t IH]; cbn; [reflexivity|].
  destruct (String.eqb k' k); [discriminate|]. intros H. rewrite IH by exact H. reflexivity.
Qed.

Lemma set_first_twice k (v w : node) kvs : set_first k v (set_first k w kvs) = set_first k v kvs.
Proof.
  induction kvs as [|[k' x] t IH]; cbn; [reflexivity|].
  destruct (String.eqb k' k) eqn:E; cbn; rewrite E; [reflexivity|]. rewrite IH. reflexivity.
Qed.

(* the two shapes of strip_node *)
Lemma strip_node_shape n :
  (annos_of n = [] /\ strip_node n = n) \/
  (exists kvs mkvs, n = Map kvs /\ find_field "metadata" kvs = Some (Map mkvs) /\ annos_of n <> [] /\
     strip_node n = Map (set_first "metadata"
                           (Map (remove_first "annotations" mkvs ++
                                 meta_map_field "annotations" (Hygiene.strip_run [] (annos_of n)))%list) kvs)).
Proof.
  unfold strip_node. destruct (annos_of n) as [|a0 at_] eqn:EA; [left; auto|]. right.
  destruct n as [t s v|kvs|es]; try (unfold annos_of in EA; cbn in EA; discriminate).
  destruct (find_field "metadata" kvs) as [md|] eqn:EM.
  2:{ unfold annos_of, get_meta in EA. rewrite EM in EA. discriminate. }
  destruct md as [t s v|mkvs|es].
  1,3: unfold annos_of, get_meta in EA; rewrite EM in EA; cbn in EA;
       repeat match type of EA with context [if ?c then _ else _] => destruct c end; discriminate.
  exists kvs, mkvs. repeat split; auto. discriminate.
Qed.

Lemma annos_of_stripped n :
  annos_once n -> annos_of (strip_node n) = Labels.sort_pairs (Hygiene.strip_run [] (annos_of n)).
Proof.
  intros Honce. destruct (strip_node_shape n) as [[EA ->]|(kvs & mkvs & -> & EM & NE & ->)].
  - rewrite EA. rewrite strip_run_filter. reflexivity.
  - cbn [annos_once] in Honce. rewrite EM in Honce.
    set (kept := Hygiene.strip_run [] (annos_of (Map kvs))).
    unfold annos_of at 1. unfold get_meta. rewrite (pp_find_set_first_same _ _ _ _ EM).
    destruct (nil_or_empty (Map (remove_first "annotations" mkvs ++ meta_map_field "annotations" kept))) eqn:EN.
    + (* metadata became empty: nothing was kept *)
      destruct (remove_first "annotations" mkvs) as [|e0 et]; [|discriminate].
      cbn [app] in EN. unfold meta_map_field in EN. destruct kept; [reflexivity|discriminate].
    + rewrite pp_find_app, Honce. unfold meta_map_field. destruct kept as [|k0 kt] eqn:EK; [reflexivity|].
      cbn [find_field String.eqb Ascii.eqb Bool.eqb]. apply annos_of_meta_map_field.
Qed.

(* stripping is idempotent on documents *)
Lemma strip_node_idem n : meta_clean n -> strip_node (strip_node n) = strip_node n.
Proof.
  intros [Honce Hnd].
  pose proof (annos_of_stripped n Honce) as EA1.
  destruct (strip_node_shape n) as [[EA E]|(kvs & mkvs & -> & EM & NE & E)].
  - rewrite E. exact E.
  - cbn [annos_once] in Honce. rewrite EM in Honce.
    set (kept := Hygiene.strip_run [] (annos_of (Map kvs))) in *.
    destruct (strip_node_shape (strip_node (Map kvs))) as [[_ E2]|(kvs2 & mkvs2 & E2a & EM2 & NE2 & E2)]; [exact E2|].
    rewrite E2. rewrite E in E2a. inv E2a.
    rewrite (pp_find_set_first_same _ _ _ _ EM) in EM2. inv EM2.
    rewrite EA1. rewrite set_first_twice.
    rewrite (remove_first_app_none _ _ _ Honce).
    assert (RF : remove_first "annotations" (meta_map_field "annotations" kept) = []).
    { unfold meta_map_field. destruct kept; reflexivity. }
    rewrite RF, app_nil_r. unfold kept. rewrite strip_run_sorted_kept. fold kept.
    assert (MM : meta_map_field "annotations" (Labels.sort_pairs kept) = meta_map_field "annotations" kept).
    { unfold meta_map_field. destruct kept as [|k0 kt] eqn:EK; [reflexivity|].
      destruct (Labels.sort_pairs (k0 :: kt)) as [|s0 st] eqn:ES.
      - exfalso. pose proof (sort_pairs_perm (k0 :: kt)) as P. rewrite ES in P.
        apply Permutation_nil in P. discriminate.
      - rewrite <- ES. rewrite sort_pairs_idem; [reflexivity|].
        rewrite <- EK. unfold kept. rewrite strip_run_filter. apply NoDup_keys_filter. exact Hnd. }
    rewrite MM, E. reflexivity.
Qed.
