(* C06 — model of api/hasher/hasher.go and of the pure library functions it relies on:
     crypto/sha256            -> [sha256_words] / [hex256]        (FIPS 180-4, words are N reduced mod 2^32)
     encoding/json (strings)  -> [json_string]                    (HTML-escaping encoder, invalid UTF-8 -> U+FFFD)
     encoding/base64 + kyaml encodeBase64 (70 column folding)     -> [base64_std], [encode_base64]
     unicode/utf8.ValidString -> [valid_utf8]
     hasher.encode            -> [encode_suffix] (first 10 hex digits, digit/vowel substitution; table generated)
     hasher.encodeConfigMap / encodeSecret                        -> [encode_cm], [encode_secret]
   Definitions only; proofs are in HashProofs.v. *)
From KV Require Export Base.Prelude.
From KV Require Import Gen.HasherTables.
Local Open Scope N_scope.

(* ------------------------------------------------------------------ bytes *)

Fixpoint bytes_of_string (s : string) : list N :=
  match s with
  | EmptyString => []
  | String c r => N_of_ascii c :: bytes_of_string r
  end.

Definition in_rng (lo hi n : N) : bool := (lo <=? n) && (n <=? hi).

(* ------------------------------------------------------------------ SHA-256 *)

Definition mask32 : N := 4294967295.
Definition mod32 (x : N) : N := N.land x mask32.          (* x mod 2^32, see HashProofs.mod32_spec *)
Definition rotr (n x : N) : N := N.lor (N.shiftr x n) (mod32 (N.shiftl x (32 - n))).
Definition shr (n x : N) : N := N.shiftr x n.

Definition Ch (x y z : N) : N := N.lxor (N.land x y) (N.ldiff z x).
Definition Maj (x y z : N) : N := N.lxor (N.lxor (N.land x y) (N.land x z)) (N.land y z).
Definition bsig0 (x : N) : N := N.lxor (N.lxor (rotr 2 x) (rotr 13 x)) (rotr 22 x).
Definition bsig1 (x : N) : N := N.lxor (N.lxor (rotr 6 x) (rotr 11 x)) (rotr 25 x).
Definition ssig0 (x : N) : N := N.lxor (N.lxor (rotr 7 x) (rotr 18 x)) (shr 3 x).
Definition ssig1 (x : N) : N := N.lxor (N.lxor (rotr 17 x) (rotr 19 x)) (shr 10 x).

Definition sha_k : list N :=
  [ 0x428a2f98; 0x71374491; 0xb5c0fbcf; 0xe9b5dba5; 0x3956c25b; 0x59f111f1; 0x923f82a4; 0xab1c5ed5;
    0xd807aa98; 0x12835b01; 0x243185be; 0x550c7dc3; 0x72be5d74; 0x80deb1fe; 0x9bdc06a7; 0xc19bf174;
    0xe49b69c1; 0xefbe4786; 0x0fc19dc6; 0x240ca1cc; 0x2de92c6f; 0x4a7484aa; 0x5cb0a9dc; 0x76f988da;
    0x983e5152; 0xa831c66d; 0xb00327c8; 0xbf597fc7; 0xc6e00bf3; 0xd5a79147; 0x06ca6351; 0x14292967;
    0x27b70a85; 0x2e1b2138; 0x4d2c6dfc; 0x53380d13; 0x650a7354; 0x766a0abb; 0x81c2c92e; 0x92722c85;
    0xa2bfe8a1; 0xa81a664b; 0xc24b8b70; 0xc76c51a3; 0xd192e819; 0xd6990624; 0xf40e3585; 0x106aa070;
    0x19a4c116; 0x1e376c08; 0x2748774c; 0x34b0bcb5; 0x391c0cb3; 0x4ed8aa4a; 0x5b9cca4f; 0x682e6ff3;
    0x748f82ee; 0x78a5636f; 0x84c87814; 0x8cc70208; 0x90befffa; 0xa4506ceb; 0xbef9a3f7; 0xc67178f2 ].

Definition sha_state : Type := (N * N * N * N * N * N * N * N)%type.

Definition sha_h0 : sha_state :=
  (0x6a09e667, 0xbb67ae85, 0x3c6ef372, 0xa54ff53a, 0x510e527f, 0x9b05688c, 0x1f83d9ab, 0x5be0cd19).

Definition sha_round (st : sha_state) (k w : N) : sha_state :=
  let '(a, b, c, d, e, f, g, h) := st in
  let t1 := h + bsig1 e + Ch e f g + k + w in
  let t2 := bsig0 a + Maj a b c in
  (mod32 (t1 + t2), a, b, c, mod32 (d + t1), e, f, g).

(* [win] holds w[t..t+15]; one step consumes w[t] with k[t] and appends w[t+16]. *)
Fixpoint sha_rounds (ks : list N) (win : list N) (st : sha_state) : sha_state :=
  match ks with
  | [] => st
  | k :: ks' =>
      match win with
      | [] => st
      | w :: win' =>
          let w16 := mod32 (ssig1 (nth 13 win' 0) + nth 8 win' 0 + ssig0 (nth 0 win' 0) + w) in
          sha_rounds ks' (win' ++ [w16]) (sha_round st k w)
      end
  end.

Definition sha_add (x y : sha_state) : sha_state :=
  let '(a, b, c, d, e, f, g, h) := x in
  let '(a', b', c', d', e', f', g', h') := y in
  (mod32 (a + a'), mod32 (b + b'), mod32 (c + c'), mod32 (d + d'),
   mod32 (e + e'), mod32 (f + f'), mod32 (g + g'), mod32 (h + h')).

(* one 16-word block *)
Definition sha_compress (st : sha_state) (block : list N) : sha_state :=
  sha_add st (sha_rounds sha_k block st).

Fixpoint words_of_bytes (bs : list N) : list N :=
  match bs with
  | b0 :: b1 :: b2 :: b3 :: r => (b0 * 16777216 + b1 * 65536 + b2 * 256 + b3) :: words_of_bytes r
  | _ => []
  end.

Fixpoint sha_blocks (fuel : nat) (ws : list N) (st : sha_state) : sha_state :=
  match fuel with
  | O => st
  | S f =>
      match ws with
      | [] => st
      | _ => sha_blocks f (skipn 16 ws) (sha_compress st (firstn 16 ws))
      end
  end.

Fixpoint zeros (n : nat) : list N := match n with O => [] | S n' => 0 :: zeros n' end.

Definition be64 (x : N) : list N :=
  [ N.land (N.shiftr x 56) 255; N.land (N.shiftr x 48) 255; N.land (N.shiftr x 40) 255;
    N.land (N.shiftr x 32) 255; N.land (N.shiftr x 24) 255; N.land (N.shiftr x 16) 255;
    N.land (N.shiftr x 8) 255; N.land x 255 ].

Definition sha_pad (bs : list N) : list N :=
  let len := N.of_nat (List.length bs) in
  let k := (119 - len mod 64) mod 64 in
  bs ++ 128 :: zeros (N.to_nat k) ++ be64 (8 * len).

Definition sha256_words (bs : list N) : sha_state :=
  let ws := words_of_bytes (sha_pad bs) in
  sha_blocks (List.length ws) ws sha_h0.

Definition hexdigit (n : N) : ascii :=
  let d := N.land n 15 in ascii_of_N (if d <? 10 then 48 + d else 87 + d).

Definition hex_word (w : N) (rest : string) : string :=
  String (hexdigit (N.shiftr w 28)) (String (hexdigit (N.shiftr w 24))
  (String (hexdigit (N.shiftr w 20)) (String (hexdigit (N.shiftr w 16))
  (String (hexdigit (N.shiftr w 12)) (String (hexdigit (N.shiftr w 8))
  (String (hexdigit (N.shiftr w 4)) (String (hexdigit w) rest))))))).

Definition hex_state (st : sha_state) : string :=
  let '(a, b, c, d, e, f, g, h) := st in
  hex_word a (hex_word b (hex_word c (hex_word d (hex_word e (hex_word f (hex_word g (hex_word h EmptyString))))))).

(* hasher.hex256: fmt.Sprintf("%x", sha256.Sum256([]byte(data))) *)
Definition hex256 (s : string) : string := hex_state (sha256_words (bytes_of_string s)).

(* ------------------------------------------------------------------ suffix mapping (hasher.encode) *)

Fixpoint subst_lookup (tbl : list (N * N)) (n : N) : N :=
  match tbl with
  | [] => n
  | (a, b) :: t => if n =? a then b else subst_lookup t n
  end.

(* the switch of hasher.encode, rows generated from the source (Gen/HasherTables.v) *)
Definition subst_char (c : ascii) : ascii := ascii_of_N (subst_lookup hash_subst_table (N_of_ascii c)).

Fixpoint map_str (f : ascii -> ascii) (s : string) : string :=
  match s with EmptyString => EmptyString | String c r => String (f c) (map_str f r) end.

(* hasher.encode; the argument is always an ASCII hex string (one rune per byte) *)
Definition encode_suffix (hex : string) : res string :=
  if (N.of_nat (String.length hex) <? hash_prefix_len) then Err
  else Ok (map_str subst_char (take (N.to_nat hash_prefix_len) hex)).

(* ------------------------------------------------------------------ UTF-8 (unicode/utf8) *)

Definition is_cont (n : N) : bool := in_rng 128 191 n.

(* [utf8_tail c r]: number of continuation bytes (1..3) when lead byte [c] followed by [r] starts a valid
   multi-byte encoding (Go's utf8.DecodeRune acceptance table), 0 otherwise. *)
Definition utf8_tail (c : N) (r : string) : nat :=
  match r with
  | EmptyString => O
  | String c1 r1 =>
      let n1 := N_of_ascii c1 in
      if in_rng 194 223 c then (if is_cont n1 then 1%nat else O)
      else
        let ok1 :=
          if c =? 224 then in_rng 160 191 n1
          else if in_rng 225 236 c then is_cont n1
          else if c =? 237 then in_rng 128 159 n1
          else if in_rng 238 239 c then is_cont n1
          else if c =? 240 then in_rng 144 191 n1
          else if in_rng 241 243 c then is_cont n1
          else if c =? 244 then in_rng 128 143 n1
          else false in
        if negb ok1 then O
        else match r1 with
             | EmptyString => O
             | String c2 r2 =>
                 if negb (is_cont (N_of_ascii c2)) then O
                 else if c <? 240 then 2%nat
                 else match r2 with
                      | EmptyString => O
                      | String c3 _ => if is_cont (N_of_ascii c3) then 3%nat else O
                      end
             end
  end.

(* utf8.ValidString *)
Fixpoint valid_utf8_from (k : nat) (s : string) : bool :=
  match s with
  | EmptyString => true
  | String c r =>
      match k with
      | S k' => valid_utf8_from k' r
      | O =>
          let n := N_of_ascii c in
          if n <? 128 then valid_utf8_from O r
          else match utf8_tail n r with
               | O => false
               | m => valid_utf8_from m r
               end
      end
  end.
Definition valid_utf8 (s : string) : bool := valid_utf8_from O s.

(* ------------------------------------------------------------------ encoding/json string encoder *)

Definition hex_lower (n : N) : ascii := hexdigit n.

(* escape of one ASCII byte, escapeHTML = true (json.Marshal default) *)
Definition json_ascii (n : N) (c : ascii) (rest : string) : string :=
  if (n =? 34) || (n =? 92) then String "\" (String c rest)
  else if n =? 8 then String "\" (String "b" rest)
  else if n =? 12 then String "\" (String "f" rest)
  else if n =? 10 then String "\" (String "n" rest)
  else if n =? 13 then String "\" (String "r" rest)
  else if n =? 9 then String "\" (String "t" rest)
  else if (n <? 32) || (n =? 60) || (n =? 62) || (n =? 38) then
    String "\" (String "u" (String "0" (String "0"
      (String (hex_lower (N.shiftr n 4)) (String (hex_lower n) rest)))))
  else String c rest.

Definition u202 (last : ascii) (rest : string) : string :=
  String "\" (String "u" (String "2" (String "0" (String "2" (String last rest))))).
Definition ufffd (rest : string) : string :=
  String "\" (String "u" (String "f" (String "f" (String "f" (String "d" rest))))).

(* body of the quoted string; [k] = pending continuation bytes of a rune already accepted (copied raw) *)
Fixpoint json_esc (k : nat) (s : string) : string :=
  match s with
  | EmptyString => EmptyString
  | String c r =>
      match k with
      | S k' => String c (json_esc k' r)
      | O =>
          let n := N_of_ascii c in
          if n <? 128 then json_ascii n c (json_esc O r)
          else
            match r with
            | String c1 (String c2 r2) =>
                if (n =? 226) && (N_of_ascii c1 =? 128) && (N_of_ascii c2 =? 168) then u202 "8" (json_esc O r2)
                else if (n =? 226) && (N_of_ascii c1 =? 128) && (N_of_ascii c2 =? 169) then u202 "9" (json_esc O r2)
                else match utf8_tail n r with
                     | O => ufffd (json_esc O r)
                     | m => String c (json_esc m r)
                     end
            | _ => match utf8_tail n r with
                   | O => ufffd (json_esc O r)
                   | m => String c (json_esc m r)
                   end
            end
      end
  end.

Definition dq : ascii := """"%char.
Definition json_string (s : string) : string := String dq (json_esc O s ++ String dq EmptyString).

(* a map[string]string / map[string]interface{} of strings whose keys are already in sorted order *)
Fixpoint json_members (d : list (string * string)) : string :=
  match d with
  | [] => EmptyString
  | [(k, v)] => json_string k ++ ":" ++ json_string v
  | (k, v) :: t => json_string k ++ ":" ++ json_string v ++ "," ++ json_members t
  end.
Definition json_obj (d : list (string * string)) : string := "{" ++ json_members d ++ "}".

(* ------------------------------------------------------------------ base64 (StdEncoding) + kyaml encodeBase64 *)

Definition b64_char (n : N) : ascii :=
  let d := N.land n 63 in
  ascii_of_N (if d <? 26 then 65 + d else if d <? 52 then 71 + d else if d <? 62 then d - 4
              else if d =? 62 then 43 else 47).

Fixpoint base64_bytes (bs : list N) : string :=
  match bs with
  | [] => EmptyString
  | [a] => String (b64_char (N.shiftr a 2)) (String (b64_char (N.shiftl a 4)) "==")
  | [a; b] => String (b64_char (N.shiftr a 2)) (String (b64_char (N.lor (N.shiftl a 4) (N.shiftr b 4)))
              (String (b64_char (N.shiftl b 2)) "="))
  | a :: b :: c :: r =>
      String (b64_char (N.shiftr a 2)) (String (b64_char (N.lor (N.shiftl a 4) (N.shiftr b 4)))
      (String (b64_char (N.lor (N.shiftl b 2) (N.shiftr c 6))) (String (b64_char c) (base64_bytes r))))
  end.
Definition base64_std (s : string) : string := base64_bytes (bytes_of_string s).

(* lines of [w] characters, every line (also the last) terminated by "\n" *)
Fixpoint fold_lines (w n : nat) (s : string) : string :=    (* n = room left on the current line *)
  match s with
  | EmptyString => if Nat.eqb n w then EmptyString else String "010" EmptyString
  | String c r =>
      match n with
      | O => String "010" (String c (fold_lines w (pred w) r))
      | S n' => String c (fold_lines w n' r)
      end
  end.

(* kyaml/yaml/datamap.go encodeBase64: folded at 70 columns when the encoding has at least 70 characters *)
Definition encode_base64 (s : string) : string :=
  let e := base64_std s in
  if (String.length e <? 70)%nat then e else fold_lines 70 70 e.

(* ------------------------------------------------------------------ go-yaml emit/parse round trip inside RNode.MarshalJSON
   hasher.getNodeValues serialises the data map to YAML text and parses it back. go-yaml writes a string
   that contains a line feed as a literal block scalar whenever its analysis allows a block scalar; a literal
   block whose first character is a TAB is then rejected by go-yaml's own scanner ("found a tab character
   where an indentation space is expected"). [yaml_block_allowed] follows yaml_emitter_analyze_scalar
   (block_allowed = not (trailing_space || space_break || special_characters)) for valid UTF-8 input.
   Since the repair baa93c5 "a generated ConfigMap value that starts with a TAB and spans several lines is written
   double-quoted" (makeConfigMapValueRNode) no generated value takes that path any more: [yaml_rt_fails] is kept
   as the description of go-yaml's behaviour but is no longer consulted by [hash_content]. *)

Definition yaml_break_at (n : N) (r : string) : bool :=
  (n =? 10) || (n =? 13) ||
  match r with
  | String c1 r1 =>
      ((n =? 194) && (N_of_ascii c1 =? 133)) ||
      match r1 with
      | String c2 _ => (n =? 226) && (N_of_ascii c1 =? 128) && ((N_of_ascii c2 =? 168) || (N_of_ascii c2 =? 169))
      | EmptyString => false
      end
  | EmptyString => false
  end.

(* go-yaml is_printable at a rune start *)
Definition yaml_printable_at (n : N) (r : string) : bool :=
  (n =? 10) || in_rng 32 126 n ||
  match r with
  | String c1 r1 =>
      let n1 := N_of_ascii c1 in
      ((n =? 194) && (160 <=? n1)) || ((194 <? n) && (n <? 237)) || ((n =? 237) && (n1 <? 160)) || (n =? 238) ||
      ((n =? 239) &&
       match r1 with
       | String c2 _ =>
           let n2 := N_of_ascii c2 in
           negb ((n1 =? 187) && (n2 =? 191)) && negb ((n1 =? 191) && ((n2 =? 190) || (n2 =? 191)))
       | EmptyString => true
       end)
  | EmptyString => false
  end.

(* scan: [prev_space] = the previous character was a space; result false as soon as block is disallowed *)
Fixpoint yaml_block_scan (prev_space : bool) (s : string) : bool :=
  match s with
  | EmptyString => negb prev_space                       (* trailing_space *)
  | String c r =>
      let n := N_of_ascii c in
      if is_cont n then yaml_block_scan prev_space r     (* inside a multi-byte character *)
      else if (negb (n =? 9)) && negb (yaml_printable_at n r) then false   (* special_characters *)
      else if n =? 32 then yaml_block_scan true r
      else if yaml_break_at n r then (if prev_space then false else yaml_block_scan false r)   (* space_break *)
      else yaml_block_scan false r
  end.

Definition yaml_block_allowed (v : string) : bool :=
  match v with EmptyString => false | _ => yaml_block_scan false v end.

Fixpoint contains_byte (b : N) (s : string) : bool :=
  match s with EmptyString => false | String c r => (N_of_ascii c =? b) || contains_byte b r end.

(* the string cannot be read back from the YAML text go-yaml writes for it *)
Definition yaml_rt_fails (v : string) : bool :=
  match v with
  | String c _ => (N_of_ascii c =? 9) && contains_byte 10 v && yaml_block_allowed v
  | EmptyString => false
  end.

(* Keys are written by kyaml's FieldSetter as untagged plain scalars, so go-yaml resolves them when the text is
   read back: a key spelled ~, null, Null or NULL (or the empty string) is the YAML null, and decoding a null key
   into map[string]interface{} drops the entry; the key << is the YAML merge key, whose scalar value makes the
   decoder fail ("map merge requires map or sequence of maps as the value"). *)
Definition yaml_null_key (k : string) : bool :=
  String.eqb k "~" || String.eqb k "null" || String.eqb k "Null" || String.eqb k "NULL" || String.eqb k "".
Definition yaml_merge_key (k : string) : bool := String.eqb k "<<".

(* the entries of a data map that reach the hasher *)
Definition hash_view (d : list (string * string)) : list (string * string) :=
  filter (fun kv => negb (yaml_null_key (fst kv))) d.

(* ------------------------------------------------------------------ hasher.encodeConfigMap / encodeSecret *)

(* What the hasher reads of an object.  NOTE (follows the code, not its comment): getNodeValues looks the
   path "metadata/name" up as ONE field name at the top level of the object, which no ConfigMap or Secret has,
   so the "name" member of the encoding is always the empty string. *)
Record content := mkContent {
  ct_secret : bool;                              (* kind: false = ConfigMap, true = Secret *)
  ct_data : option (list (string * string));     (* None: field absent -> "" ; Some d: a map, keys sorted *)
  ct_bin : list (string * string);               (* binaryData, [] = absent (ConfigMap only) *)
  ct_type : string                               (* Secret type *)
}.

Definition enc_data (d : option (list (string * string))) : string :=
  match d with None => """""" | Some m => json_obj (hash_view m) end.

(* json.Marshal of the map: members in sorted key order (binaryData < data < kind < name < type) *)
Definition encode_cm (c : content) : string :=
  "{" ++ (match ct_bin c with [] => "" | b => """binaryData"":" ++ json_obj (hash_view b) ++ "," end)
      ++ """data"":" ++ enc_data (ct_data c) ++ ",""kind"":""ConfigMap"",""name"":""""}".

Definition encode_secret (c : content) : string :=
  "{""data"":" ++ enc_data (ct_data c) ++ ",""kind"":""Secret"",""name"":"""",""type"":" ++ json_string (ct_type c) ++ "}".

Definition encode_content (c : content) : string :=
  if ct_secret c then encode_secret c else encode_cm c.

(* the YAML text of the map cannot be read back *)
Definition entries_rt_fail (m : list (string * string)) : bool :=
  existsb (fun kv => yaml_merge_key (fst kv)) m.

Definition content_rt_fails (c : content) : bool :=
  (match ct_data c with None => false | Some m => entries_rt_fail m end) ||
  (if ct_secret c then false else entries_rt_fail (ct_bin c)).

(* Hasher.Hash for kind ConfigMap / Secret *)
Definition hash_content (c : content) : res string :=
  if content_rt_fails c then Err
  else encode_suffix (hex256 (encode_content c)).
