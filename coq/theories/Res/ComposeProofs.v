(* Proofs about the accumulation model (C11): closed form of [accumulate], wrapping, permutation of
   resources lists at any depth, nesting of prefixes and suffixes. *)
From KV Require Import Res.Compose Res.LegacySortProofs Res.LegacyExact.
From Coq Require Import Sorting.Permutation Btauto.
Open Scope string_scope.
Open Scope list_scope.

(* induction principle for the nested inductive [tree] *)
Section TreeInd.
  Variable P : tree -> Prop.
  Hypothesis HFile : forall docs, P (File docs).
  Hypothesis HDir : forall ents p s, Forall P ents -> P (Dir ents p s).
  Fixpoint tree_ind' (t : tree) : P t :=
    match t with
    | File docs => HFile docs
    | Dir ents p s =>
        HDir ents p s ((fix go (l : list tree) : Forall P l :=
                          match l with
                          | [] => Forall_nil P
                          | e :: l' => Forall_cons e (tree_ind' e) (go l')
                          end) ents)
    end.
End TreeInd.

(* ---------- generic list facts ---------- *)

Lemma forallb_perm : forall A (f : A -> bool) l l', Permutation l l' -> forallb f l = forallb f l'.
Proof.
  induction 1; simpl; auto.
  - congruence.
  - rewrite !andb_assoc. f_equal. apply andb_comm.
  - congruence.
Qed.

Lemma forallb_ext_in' : forall A (f g : A -> bool) l, (forall x, In x l -> f x = g x) -> forallb f l = forallb g l.
Proof.
  induction l; simpl; intros; auto. rewrite H, IHl; auto.
Qed.

Lemma forallb_map' : forall A B (f : A -> B) (g : B -> bool) l, forallb g (map f l) = forallb (fun x => g (f x)) l.
Proof. induction l; simpl; intros; auto. rewrite IHl. auto. Qed.

Lemma perm_concat : forall A (l l' : list (list A)), Permutation l l' -> Permutation (List.concat l) (List.concat l').
Proof.
  induction 1; simpl; auto.
  - apply Permutation_app_head. auto.
  - rewrite !app_assoc. apply Permutation_app_tail. apply Permutation_app_comm.
  - eapply perm_trans; eauto.
Qed.

Lemma set_name_same : forall i, set_name (id_name i) i = i.
Proof. destruct i; auto. Qed.

Section Proofs.
  Variable cs : gvk -> bool.
  Variable pfx_fs sfx_fs pfx_skip sfx_skip : list fieldspec.
  Variable guarded : bool.

  Notation ideq := (id_equals cs).
  Notation nocoll := (nocoll_b cs).
  Notation addp := (add_prefix pfx_fs pfx_skip).
  Notation adds := (add_suffix sfx_fs sfx_skip).
  Notation runt := (run_transformers pfx_fs sfx_fs pfx_skip sfx_skip).
  Notation acc := (accumulate cs pfx_fs sfx_fs pfx_skip sfx_skip).
  Notation flt := (flat pfx_fs sfx_fs pfx_skip sfx_skip).
  Notation ok := (okb cs pfx_fs sfx_fs pfx_skip sfx_skip).
  Notation bld := (build cs pfx_fs sfx_fs pfx_skip sfx_skip guarded).

  (* ---------- id equality ---------- *)

  Lemma ideq_sym : forall a b, ideq a b = ideq b a.
  Proof.
    intros. unfold id_equals.
    rewrite (String.eqb_sym (effective_ns cs a)), (String.eqb_sym (id_name a)), (gvk_eqb_sym (id_gvk a)). auto.
  Qed.

  Lemma ideq_refl : forall a, ideq a a = true.
  Proof. intros. unfold id_equals. rewrite !String.eqb_refl, gvk_eqb_refl. auto. Qed.

  (* ---------- collisions ---------- *)

  Definition cross (a b : list resource) : bool :=
    forallb (fun x => forallb (fun y => negb (ideq (r_cur x) (r_cur y))) b) a.

  Lemma nocoll_app : forall a b, nocoll (a ++ b) = nocoll a && nocoll b && cross a b.
  Proof.
    induction a as [|x a IH]; intros b; simpl.
    - rewrite andb_true_r. auto.
    - rewrite forallb_app, IH. unfold cross. simpl. btauto.
  Qed.

  Lemma nocoll_app_l : forall a b, nocoll (a ++ b) = true -> nocoll a = true.
  Proof. intros a b H. rewrite nocoll_app in H. apply andb_true_iff in H. destruct H as [H _]. apply andb_true_iff in H. tauto. Qed.

  Lemma cross_single : forall a r,
    cross a [r] = negb (existsb (fun x => ideq (r_cur r) (r_cur x)) a).
  Proof.
    intros a r. unfold cross.
    rewrite (forallb_ext_in' _ _ (fun x => negb (ideq (r_cur x) (r_cur r)))) by (intros; simpl; apply andb_true_r).
    induction a as [|x a IH]; simpl; auto.
    rewrite IH. rewrite (ideq_sym (r_cur x)). rewrite negb_orb. auto.
  Qed.

  Lemma append_all_spec : forall l a,
    nocoll a = true ->
    append_all cs a l = if nocoll (a ++ l) then Ok (a ++ l) else Err.
  Proof.
    induction l as [|r t IH]; intros a Ha; simpl.
    - rewrite app_nil_r, Ha. auto.
    - assert (E : (a ++ r :: t) = ((a ++ [r]) ++ t)) by (rewrite <- app_assoc; auto).
      destruct (existsb (fun x => ideq (r_cur r) (r_cur x)) a) eqn:Ex.
      + rewrite E. rewrite nocoll_app. rewrite (nocoll_app a [r]). rewrite cross_single, Ex. simpl.
        rewrite !andb_false_r. auto.
      + rewrite IH.
        * rewrite <- E. auto.
        * rewrite nocoll_app, cross_single, Ex, Ha. simpl. auto.
  Qed.

  Lemma nocoll_perm : forall l l', Permutation l l' -> nocoll l = nocoll l'.
  Proof.
    induction 1; simpl; auto.
    - rewrite IHPermutation. f_equal. apply forallb_perm. auto.
    - rewrite (ideq_sym (r_cur y) (r_cur x)).
      destruct (ideq (r_cur x) (r_cur y)); simpl; auto.
      destruct (forallb (fun y0 => negb (ideq (r_cur y) (r_cur y0))) l); simpl; auto.
      rewrite andb_false_r. auto.
    - congruence.
  Qed.

  Lemma nocoll_nodup : forall l, nocoll l = true -> NoDup (map r_cur l).
  Proof.
    induction l as [|x t IH]; simpl; intros H.
    - constructor.
    - apply andb_true_iff in H. destruct H as [H1 H2]. constructor; auto.
      intros I. apply in_map_iff in I. destruct I as [y [Ey Iy]].
      rewrite forallb_forall in H1. specialize (H1 _ Iy). rewrite Ey, ideq_refl in H1. discriminate.
  Qed.

  (* ---------- the name transformers ---------- *)

  Definition wf_res (r : resource) : Prop := id_gvk (r_org r) = id_gvk (r_cur r).

  Lemma iter_prefix_empty : forall k n, iter_prefix k "" n = n.
  Proof. induction k; simpl; auto. Qed.

  Lemma iter_suffix_empty : forall k n, iter_suffix k "" n = n.
  Proof. induction k; simpl; intros; auto. rewrite IHk. apply app_nil_r_s. Qed.

  Lemma iter_prefix_inj : forall k p a b, iter_prefix k p a = iter_prefix k p b -> a = b.
  Proof. induction k; simpl; intros; auto. apply app_inj_l in H. eauto. Qed.

  Lemma iter_suffix_inj : forall k s a b, iter_suffix k s a = iter_suffix k s b -> a = b.
  Proof. induction k; simpl; intros; auto. apply app_inj_r in H. eauto. Qed.

  Lemma addp_empty : forall r, addp "" r = r.
  Proof.
    intros [o c]. unfold add_prefix; simpl. destruct (should_skip pfx_skip o); auto.
    rewrite iter_prefix_empty, set_name_same. auto.
  Qed.

  Lemma adds_empty : forall r, adds "" r = r.
  Proof.
    intros [o c]. unfold add_suffix; simpl. destruct (should_skip sfx_skip o); auto.
    rewrite iter_suffix_empty, set_name_same. auto.
  Qed.

  Lemma runt_map : forall p s l, runt p s l = map (fun r => adds s (addp p r)) l.
  Proof.
    intros. unfold run_transformers.
    destruct (String.eqb_spec p ""); destruct (String.eqb_spec s ""); subst.
    - rewrite <- (map_id l) at 1. apply map_ext. intros. rewrite addp_empty, adds_empty. auto.
    - apply map_ext. intros. rewrite addp_empty. auto.
    - apply map_ext. intros. rewrite adds_empty. auto.
    - rewrite map_map. auto.
  Qed.

  Lemma addp_org : forall p r, r_org (addp p r) = r_org r.
  Proof. intros. unfold add_prefix. destruct (should_skip pfx_skip (r_org r)); auto. Qed.
  Lemma adds_org : forall s r, r_org (adds s r) = r_org r.
  Proof. intros. unfold add_suffix. destruct (should_skip sfx_skip (r_org r)); auto. Qed.

  Lemma addp_wf : forall p r, wf_res r -> wf_res (addp p r).
  Proof. unfold wf_res, add_prefix. intros. destruct (should_skip pfx_skip (r_org r)); auto. Qed.
  Lemma adds_wf : forall s r, wf_res r -> wf_res (adds s r).
  Proof. unfold wf_res, add_suffix. intros. destruct (should_skip sfx_skip (r_org r)); auto. Qed.

  Lemma skip_gvk : forall skip a b, id_gvk a = id_gvk b -> should_skip skip a = should_skip skip b.
  Proof. unfold should_skip. intros. rewrite H. auto. Qed.
  Lemma hits_gvk : forall tbl a b, id_gvk a = id_gvk b -> name_hits tbl a = name_hits tbl b.
  Proof. unfold name_hits. intros. rewrite H. auto. Qed.

  Lemma eqb_inj_iff : forall (f : string -> string),
    (forall a b, f a = f b -> a = b) -> forall a b, String.eqb (f a) (f b) = String.eqb a b.
  Proof.
    intros f Inj a b. destruct (String.eqb_spec a b).
    - subst. apply String.eqb_refl.
    - apply String.eqb_neq. intros X. apply n. auto.
  Qed.

  Lemma ideq_set_name : forall a b na nb,
    ideq (set_name na a) (set_name nb b) =
    String.eqb (effective_ns cs a) (effective_ns cs b) && (String.eqb na nb && gvk_eqb (id_gvk a) (id_gvk b)).
  Proof. intros [ga nsa nma] [gb nsb nmb] na nb. reflexivity. Qed.

  Lemma ideq_gvk_false : forall a b, gvk_eqb (id_gvk a) (id_gvk b) = false -> ideq a b = false.
  Proof. intros a b G. unfold id_equals. rewrite G, !andb_false_r. auto. Qed.

  Lemma addp_ideq : forall p a b, wf_res a -> wf_res b ->
    ideq (r_cur (addp p a)) (r_cur (addp p b)) = ideq (r_cur a) (r_cur b).
  Proof.
    intros p [oa ca] [ob cb] Wa Wb. unfold wf_res in *. simpl in *.
    case_eq (gvk_eqb (id_gvk ca) (id_gvk cb)); intros G.
    - apply gvk_eqb_eq in G.
      assert (Go : id_gvk oa = id_gvk ob) by congruence.
      unfold add_prefix; simpl.
      rewrite (skip_gvk pfx_skip oa ob Go), (hits_gvk pfx_fs oa ob Go).
      destruct (should_skip pfx_skip ob); [reflexivity|]. simpl.
      rewrite ideq_set_name. unfold id_equals.
      rewrite (eqb_inj_iff (iter_prefix (name_hits pfx_fs ob) p)); auto.
      apply iter_prefix_inj.
    - rewrite (ideq_gvk_false ca cb G). apply ideq_gvk_false.
      unfold add_prefix; simpl.
      destruct (should_skip pfx_skip oa); destruct (should_skip pfx_skip ob); simpl; auto.
  Qed.

  Lemma adds_ideq : forall s a b, wf_res a -> wf_res b ->
    ideq (r_cur (adds s a)) (r_cur (adds s b)) = ideq (r_cur a) (r_cur b).
  Proof.
    intros s [oa ca] [ob cb] Wa Wb. unfold wf_res in *. simpl in *.
    case_eq (gvk_eqb (id_gvk ca) (id_gvk cb)); intros G.
    - apply gvk_eqb_eq in G.
      assert (Go : id_gvk oa = id_gvk ob) by congruence.
      unfold add_suffix; simpl.
      rewrite (skip_gvk sfx_skip oa ob Go), (hits_gvk sfx_fs oa ob Go).
      destruct (should_skip sfx_skip ob); [reflexivity|]. simpl.
      rewrite ideq_set_name. unfold id_equals.
      rewrite (eqb_inj_iff (iter_suffix (name_hits sfx_fs ob) s)); auto.
      apply iter_suffix_inj.
    - rewrite (ideq_gvk_false ca cb G). apply ideq_gvk_false.
      unfold add_suffix; simpl.
      destruct (should_skip sfx_skip oa); destruct (should_skip sfx_skip ob); simpl; auto.
  Qed.

  Lemma nocoll_map : forall (f : resource -> resource) l,
    (forall a b, wf_res a -> wf_res b -> ideq (r_cur (f a)) (r_cur (f b)) = ideq (r_cur a) (r_cur b)) ->
    Forall wf_res l -> nocoll (map f l) = nocoll l.
  Proof.
    intros f l Hf. induction l as [|x t IH]; intros W; simpl; auto.
    inversion W as [|? ? Wx Wt]; subst.
    rewrite IH; auto. f_equal.
    rewrite forallb_map'. apply forallb_ext_in'. intros y Iy.
    rewrite Forall_forall in Wt. rewrite Hf; auto.
  Qed.

  Lemma runt_wf : forall p s l, Forall wf_res l -> Forall wf_res (runt p s l).
  Proof.
    intros. rewrite runt_map. rewrite Forall_forall in *. intros x I.
    apply in_map_iff in I. destruct I as [y [<- Iy]]. apply adds_wf, addp_wf. auto.
  Qed.

  Lemma runt_nocoll : forall p s l, Forall wf_res l -> nocoll (runt p s l) = nocoll l.
  Proof.
    intros. rewrite runt_map. apply nocoll_map; auto.
    intros a b Wa Wb. rewrite adds_ideq; auto using addp_wf. apply addp_ideq; auto.
  Qed.

  (* ---------- closed form ---------- *)

  Lemma flat_wf : forall t, Forall wf_res (flt t).
  Proof.
    induction t using tree_ind'; simpl.
    - rewrite Forall_forall. intros x I. apply in_map_iff in I. destruct I as [d [<- _]]. reflexivity.
    - apply runt_wf. rewrite Forall_forall in *. intros x I.
      apply in_concat in I. destruct I as [l [Il Ix]]. apply in_map_iff in Il. destruct Il as [e [<- Ie]].
      specialize (H _ Ie). rewrite Forall_forall in H. auto.
  Qed.

  Lemma concat_flat_wf : forall ents, Forall wf_res (List.concat (map flt ents)).
  Proof.
    intros. rewrite Forall_forall. intros x I.
    apply in_concat in I. destruct I as [l [Il Ix]]. apply in_map_iff in Il. destruct Il as [e [<- Ie]].
    pose proof (flat_wf e) as W. rewrite Forall_forall in W. auto.
  Qed.

  Lemma ok_nocoll : forall t, ok t = true -> nocoll (flt t) = true.
  Proof.
    destruct t as [docs|ents p s]; simpl; auto.
    intros H. apply andb_true_iff in H. destruct H as [_ H].
    rewrite runt_nocoll; auto. apply concat_flat_wf.
  Qed.

  Lemma acc_list_spec : forall ents,
    Forall (fun e => acc e = if ok e then Ok (flt e) else Err) ents ->
    forall a, nocoll a = true ->
    acc_list cs acc ents a =
      if forallb ok ents && nocoll (a ++ List.concat (map flt ents))
      then Ok (a ++ List.concat (map flt ents)) else Err.
  Proof.
    induction 1 as [|e t He Ht IH]; intros a Ha; simpl.
    - rewrite app_nil_r, Ha. auto.
    - rewrite He. destruct (ok e) eqn:Oe; simpl; auto.
      rewrite append_all_spec; auto.
      rewrite app_assoc.
      destruct (nocoll (a ++ flt e)) eqn:N; simpl.
      + rewrite IH; auto.
      + destruct (nocoll ((a ++ flt e) ++ List.concat (map flt t))) eqn:N2.
        * apply nocoll_app_l in N2. congruence.
        * rewrite andb_false_r. auto.
  Qed.

  (* accumulate = the closed form *)
  Theorem accumulate_spec : forall t, acc t = if ok t then Ok (flt t) else Err.
  Proof.
    induction t using tree_ind'.
    - simpl. rewrite append_all_spec; auto.
    - change (acc (Dir ents p s)) with
        (if is_empty_kust (Dir ents p s) then Err
         else do a <- acc_list cs acc ents []; Ok (runt p s a)).
      change (ok (Dir ents p s)) with
        (negb (is_empty_kust (Dir ents p s)) && forallb ok ents && nocoll (List.concat (map flt ents))).
      change (flt (Dir ents p s)) with (runt p s (List.concat (map flt ents))).
      destruct (is_empty_kust (Dir ents p s)); simpl; auto.
      rewrite acc_list_spec; auto. simpl.
      destruct (forallb ok ents && nocoll (List.concat (map flt ents))); auto.
  Qed.

  Lemma accumulate_ok : forall t out, acc t = Ok out -> ok t = true /\ out = flt t.
  Proof.
    intros t out H. rewrite accumulate_spec in H. destruct (ok t); try discriminate. inversion H. auto.
  Qed.

  (* the result of a successful accumulation never contains two resources with the same id *)
  Theorem accumulate_nodup : forall t out, acc t = Ok out -> NoDup (map r_cur out).
  Proof.
    intros t out H. apply accumulate_ok in H. destruct H as [O ->]. apply nocoll_nodup, ok_nocoll; auto.
  Qed.

  (* ---------- C11_wrap ---------- *)

  Theorem accumulate_wrap : forall t, acc (wrap t) = acc t.
  Proof.
    intros t. rewrite !accumulate_spec. unfold wrap.
    change (ok (Dir [t] "" "")) with (negb false && (ok t && true) && nocoll (flt t ++ [])).
    change (flt (Dir [t] "" "")) with (runt "" "" (flt t ++ [])).
    rewrite app_nil_r. simpl. rewrite andb_true_r.
    destruct (ok t) eqn:O; simpl; auto.
    rewrite (ok_nocoll _ O). auto.
  Qed.

  Theorem build_wrap : forall o t,
    is_empty_kust t = false \/ o = SortNone -> bld o (wrap t) = bld o t.
  Proof.
    intros o t H. unfold build. rewrite accumulate_wrap.
    change (is_empty_kust (wrap t)) with false. simpl.
    destruct H as [H|H].
    - rewrite H. auto.
    - subst o. simpl. rewrite andb_false_r. auto.
  Qed.

  (* ---------- permutations of resources lists, at any depth ---------- *)

  Inductive tperm : tree -> tree -> Prop :=
  | tp_refl : forall t, tperm t t
  | tp_here : forall ents ents' p s, Permutation ents ents' -> tperm (Dir ents p s) (Dir ents' p s)
  | tp_inside : forall l1 e e' l2 p s, tperm e e' -> tperm (Dir (l1 ++ e :: l2) p s) (Dir (l1 ++ e' :: l2) p s)
  | tp_trans : forall t1 t2 t3, tperm t1 t2 -> tperm t2 t3 -> tperm t1 t3.

  Lemma is_empty_perm : forall ents ents' p s, Permutation ents ents' ->
    is_empty_kust (Dir ents p s) = is_empty_kust (Dir ents' p s).
  Proof.
    intros. destruct ents; destruct ents'; auto.
    - apply Permutation_nil in H. discriminate.
    - apply Permutation_sym, Permutation_nil in H. discriminate.
  Qed.

  Lemma runt_perm : forall p s l l', Permutation l l' -> Permutation (runt p s l) (runt p s l').
  Proof. intros. rewrite !runt_map. apply Permutation_map. auto. Qed.

  Lemma tperm_spec : forall t t', tperm t t' -> ok t = ok t' /\ Permutation (flt t) (flt t').
  Proof.
    induction 1.
    - auto.
    - assert (Pc : Permutation (List.concat (map flt ents)) (List.concat (map flt ents')))
        by (apply perm_concat, Permutation_map; auto).
      split.
      + change (ok (Dir ents p s)) with
          (negb (is_empty_kust (Dir ents p s)) && forallb ok ents && nocoll (List.concat (map flt ents))).
        change (ok (Dir ents' p s)) with
          (negb (is_empty_kust (Dir ents' p s)) && forallb ok ents' && nocoll (List.concat (map flt ents'))).
        rewrite (is_empty_perm _ _ p s H), (forallb_perm _ ok _ _ H), (nocoll_perm _ _ Pc). auto.
      + simpl. apply runt_perm. auto.
    - destruct IHtperm as [O F].
      assert (Pc : Permutation (List.concat (map flt (l1 ++ e :: l2))) (List.concat (map flt (l1 ++ e' :: l2)))).
      { rewrite !map_app, !concat_app. simpl. apply Permutation_app_head, Permutation_app_tail. auto. }
      split.
      + change (ok (Dir (l1 ++ e :: l2) p s)) with
          (negb (is_empty_kust (Dir (l1 ++ e :: l2) p s)) && forallb ok (l1 ++ e :: l2) &&
           nocoll (List.concat (map flt (l1 ++ e :: l2)))).
        change (ok (Dir (l1 ++ e' :: l2) p s)) with
          (negb (is_empty_kust (Dir (l1 ++ e' :: l2) p s)) && forallb ok (l1 ++ e' :: l2) &&
           nocoll (List.concat (map flt (l1 ++ e' :: l2)))).
        assert (E1 : is_empty_kust (Dir (l1 ++ e :: l2) p s) = false) by (destruct l1; auto).
        assert (E2 : is_empty_kust (Dir (l1 ++ e' :: l2) p s) = false) by (destruct l1; auto).
        rewrite E1, E2, (nocoll_perm _ _ Pc), !forallb_app.
        change (forallb ok (e :: l2)) with (ok e && forallb ok l2).
        change (forallb ok (e' :: l2)) with (ok e' && forallb ok l2).
        rewrite O. reflexivity.
      + simpl. apply runt_perm. auto.
    - destruct IHtperm1, IHtperm2. split; [congruence|]. eapply perm_trans; eauto.
  Qed.

  (* C11_permute_multiset: same outcome class; on success the outputs are permutations of each other *)
  Theorem permute_multiset : forall t t', tperm t t' ->
    match acc t, acc t' with
    | Ok out, Ok out' => Permutation out out'
    | Err, Err => True
    | _, _ => False
    end.
  Proof.
    intros t t' H. apply tperm_spec in H. destruct H as [O F].
    rewrite !accumulate_spec, <- O. destruct (ok t); auto.
  Qed.

  Lemma tperm_empty : forall t t', tperm t t' -> is_empty_kust t = is_empty_kust t'.
  Proof.
    induction 1; auto.
    - apply is_empty_perm; auto.
    - destruct l1; auto.
    - congruence.
  Qed.

  (* without sortOptions the output documents are the same up to order *)
  Theorem build_permute_multiset : forall o t t', tperm t t' ->
    match bld o t, bld o t' with
    | Ok out, Ok out' => Permutation out out'
    | Err, Err => True
    | _, _ => False
    end.
  Proof.
    intros o t t' H. unfold build. rewrite <- (tperm_empty _ _ H).
    destruct (is_empty_kust t && has_sort_field o); auto.
    pose proof (permute_multiset _ _ H) as P.
    destruct (acc t) as [out| | |]; destruct (acc t') as [out'| | |]; simpl; try contradiction; auto.
    assert (Pm : Permutation (map r_cur out) (map r_cur out')) by (apply Permutation_map; auto).
    destruct o; auto.
    eapply perm_trans; [apply isort_perm|]. eapply perm_trans; [eauto|]. apply Permutation_sym, isort_perm.
  Qed.

  (* C11_permute_legacy at full strength: under the EXACT guard on the output id set (the comparator is a strict
     total order on it) the output is the same list - no hypothesis on the ids or on the order lists *)
  Theorem build_permute_legacy_guard : forall first last t t' out,
    tperm t t' ->
    bld (SortLegacy first last) t = Ok out -> total_on_g_b guarded first last out = true ->
    bld (SortLegacy first last) t' = Ok out.
  Proof.
    intros first last t t' out H B Gd. unfold build in *. rewrite <- (tperm_empty _ _ H).
    destruct (is_empty_kust t && has_sort_field (SortLegacy first last)); auto.
    pose proof (permute_multiset _ _ H) as P.
    destruct (acc t) as [o1| | |] eqn:A1; simpl in B; try discriminate.
    destruct (acc t') as [o2| | |]; try contradiction. simpl.
    inversion B as [B']. f_equal.
    assert (Pm : Permutation (map r_cur o1) (map r_cur o2)) by (apply Permutation_map; auto).
    rewrite total_on_g_b_eq in Gd. rewrite <- B' in Gd. unfold sort_legacy_g in *.
    rewrite (total_b_perm _ _ _ _ (isort_perm _ _ (map r_cur o1))) in Gd.
    apply total_b_iff in Gd. destruct Gd as [N T].
    symmetry. apply isort_perm_invariant; auto.
  Qed.

  (* C11_permute_legacy: valid output ids, and either the source carries the rank guard or the lists isolate Namespace *)
  Theorem build_permute_legacy : forall first last t t' out,
    guarded = true \/ namespace_isolated first last = true -> tperm t t' ->
    bld (SortLegacy first last) t = Ok out -> valid_ids out ->
    bld (SortLegacy first last) t' = Ok out.
  Proof.
    intros first last t t' out Iso H B V.
    eapply build_permute_legacy_guard; eauto.
    apply total_on_g_b_exact. split.
    - unfold build in B.
      destruct (is_empty_kust t && has_sort_field (SortLegacy first last)).
      + inversion B. constructor.
      + destruct (acc t) as [o1| | |] eqn:A1; simpl in B; try discriminate. inversion B.
        eapply Permutation_NoDup; [apply Permutation_sym, isort_perm|]. eapply accumulate_nodup; eauto.
    - apply legacy_g_total_on; auto.
  Qed.

  (* ---------- arbitrary permutations at EVERY layer at once ---------- *)

  (* every resources list of the tree, at every depth, is permuted (entries first rewritten recursively) *)
  Inductive tpermd : tree -> tree -> Prop :=
  | tpd_file : forall docs, tpermd (File docs) (File docs)
  | tpd_dir : forall ents ents1 ents' p s,
      Forall2 tpermd ents ents1 -> Permutation ents1 ents' -> tpermd (Dir ents p s) (Dir ents' p s).

  Lemma tperm_pointwise : forall p s l l1, Forall2 tperm l l1 ->
    forall pre, tperm (Dir (pre ++ l) p s) (Dir (pre ++ l1) p s).
  Proof.
    induction 1 as [|x y l l1 Hxy Hl IH]; intros pre.
    - apply tp_refl.
    - eapply tp_trans.
      + apply tp_inside. exact Hxy.
      + specialize (IH (pre ++ [y])). rewrite <- !app_assoc in IH. exact IH.
  Qed.

  Theorem tpermd_tperm : forall t t', tpermd t t' -> tperm t t'.
  Proof.
    induction t using tree_ind'; intros t' Hd.
    - inversion Hd; subst. apply tp_refl.
    - inversion Hd as [|? ents1 ents' ? ? F P]; subst.
      eapply tp_trans.
      + apply (tperm_pointwise p s ents ents1) with (pre := []).
        clear -H F. induction F as [|x y l l1 Hxy Hl IH]; constructor.
        * inversion H; subst. auto.
        * inversion H; subst. auto.
      + apply tp_here. exact P.
  Qed.

  (* ---------- the FIFO order law ---------- *)

  Lemma flat_org : forall t, map r_org (flt t) = dfs_docs t.
  Proof.
    induction t using tree_ind'; simpl.
    - rewrite map_map. simpl. apply map_id.
    - rewrite runt_map, map_map.
      rewrite (map_ext (fun r => r_org (adds s (addp p r))) r_org) by (intros; rewrite adds_org, addp_org; auto).
      rewrite concat_map, map_map. f_equal. apply map_ext_in. intros e Ie.
      rewrite Forall_forall in H. auto.
  Qed.

  (* `sortOptions: fifo` (and no sortOptions): the output documents are the loaded documents in depth-first
     load order - the i-th output is the (renamed) i-th document of the traversal *)
  Theorem fifo_order : forall o t out, o = SortFifo \/ o = SortNone -> bld o t = Ok out ->
    exists res, out = map r_cur res /\ map r_org res = dfs_docs t.
  Proof.
    intros o t out Ho B. exists (flt t). split; [|apply flat_org].
    unfold build in B.
    destruct (is_empty_kust t && has_sort_field o) eqn:E.
    - inversion B; subst. apply andb_true_iff in E. destruct E as [E _].
      destruct t as [|[|? ?] p s]; simpl in E; try discriminate.
      apply andb_true_iff in E. destruct E as [Ep Es]. apply String.eqb_eq in Ep, Es. subst. reflexivity.
    - destruct (acc t) as [res| | |] eqn:A; simpl in B; try discriminate.
      destruct (accumulate_ok _ _ A) as [_ ->].
      destruct Ho as [->| ->]; inversion B; auto.
  Qed.

  (* ---------- nesting of prefixes and suffixes ---------- *)

  (* a document [d] occurs in the tree below the layers [(p1,s1); ...; (pk,sk)], outermost first *)
  Inductive occurs : tree -> rid -> list (string * string) -> Prop :=
  | occ_file : forall docs d, In d docs -> occurs (File docs) d []
  | occ_dir : forall ents p s e d layers, In e ents -> occurs e d layers -> occurs (Dir ents p s) d ((p, s) :: layers).

  Fixpoint through (layers : list (string * string)) (r : resource) : resource :=
    match layers with
    | [] => r
    | (p, s) :: rest => adds s (addp p (through rest r))
    end.

  Lemma flat_occurs : forall t r, In r (flt t) <-> exists d layers, occurs t d layers /\ r = through layers (load d).
  Proof.
    induction t using tree_ind'; intros r; simpl.
    - rewrite in_map_iff. split.
      + intros [d [<- I]]. exists d, []. split; auto. constructor; auto.
      + intros [d [layers [O E]]]. inversion O; subst. exists d. auto.
    - rewrite runt_map, in_map_iff. rewrite Forall_forall in H. split.
      + intros [x [<- I]]. apply in_concat in I. destruct I as [l [Il Ix]].
        apply in_map_iff in Il. destruct Il as [e [<- Ie]].
        apply (H _ Ie) in Ix. destruct Ix as [d [layers [O E]]].
        exists d, ((p, s) :: layers). split.
        * econstructor; eauto.
        * simpl. congruence.
      + intros [d [layers [O E]]]. inversion O as [|? ? ? e ? layers0 Ie Oe]; subst.
        exists (through layers0 (load d)). split; auto.
        apply in_concat. exists (flt e). split.
        * apply in_map. auto.
        * apply (H _ Ie). eauto.
  Qed.

  Fixpoint cat (l : list string) : string := match l with [] => "" | x :: t => (x ++ cat t)%string end.

  Lemma cat_app : forall a b, cat (a ++ b) = (cat a ++ cat b)%string.
  Proof. induction a; simpl; intros; auto. rewrite IHa, app_assoc_s. auto. Qed.

  (* the name the layering prescribes: outer prefix outermost, outer suffix outermost;
     kinds on a skip list keep that side of their name *)
  Definition out_name (d : rid) (layers : list (string * string)) : string :=
    ((if should_skip pfx_skip d then "" else cat (map fst layers)) ++ id_name d ++
     (if should_skip sfx_skip d then "" else cat (rev (map snd layers))))%string.

  Definition single_hit (tbl : list fieldspec) : Prop := forall d, name_hits tbl d = 1.

  Lemma through_org : forall layers r, r_org (through layers r) = r_org r.
  Proof. induction layers as [|[p s] rest IH]; simpl; intros; auto. rewrite adds_org, addp_org. auto. Qed.

  Lemma addp_cur : forall p r,
    r_cur (addp p r) = if should_skip pfx_skip (r_org r) then r_cur r
                       else set_name (iter_prefix (name_hits pfx_fs (r_org r)) p (id_name (r_cur r))) (r_cur r).
  Proof. intros. unfold add_prefix. destruct (should_skip pfx_skip (r_org r)); auto. Qed.

  Lemma adds_cur : forall s r,
    r_cur (adds s r) = if should_skip sfx_skip (r_org r) then r_cur r
                       else set_name (iter_suffix (name_hits sfx_fs (r_org r)) s (id_name (r_cur r))) (r_cur r).
  Proof. intros. unfold add_suffix. destruct (should_skip sfx_skip (r_org r)); auto. Qed.

  Lemma through_name : forall layers d,
    single_hit pfx_fs -> single_hit sfx_fs ->
    r_cur (through layers (load d)) = set_name (out_name d layers) d.
  Proof.
    intros layers d Hp Hs. unfold out_name.
    induction layers as [|[p s] rest IH]; simpl.
    - destruct (should_skip pfx_skip d); destruct (should_skip sfx_skip d); simpl;
        rewrite ?app_nil_r_s; symmetry; apply set_name_same.
    - remember (through rest (load d)) as r eqn:Er.
      assert (Or : r_org r = d) by (subst r; rewrite through_org; auto).
      rewrite adds_cur, addp_org, addp_cur, Or, Hp, Hs, IH.
      destruct (should_skip pfx_skip d); destruct (should_skip sfx_skip d); simpl;
        unfold set_name; simpl; f_equal; rewrite ?cat_app; simpl;
        rewrite ?app_nil_r_s, ?app_assoc_s; reflexivity.
  Qed.

  (* C11_prefix_nesting, for every resource of every tree *)
  Theorem prefix_nesting : forall t out r,
    single_hit pfx_fs -> single_hit sfx_fs ->
    acc t = Ok out -> In r out ->
    exists d layers, occurs t d layers /\ r_org r = d /\ r_cur r = set_name (out_name d layers) d.
  Proof.
    intros t out r Hp Hs A I. apply accumulate_ok in A. destruct A as [_ ->].
    apply flat_occurs in I. destruct I as [d [layers [O ->]]].
    exists d, layers. split; auto. split.
    - rewrite through_org. auto.
    - apply through_name; auto.
  Qed.

  (* ... and conversely every document of the tree reaches the output *)
  Theorem nothing_lost : forall t out d layers,
    acc t = Ok out -> occurs t d layers -> In (through layers (load d)) out.
  Proof.
    intros t out d layers A O. apply accumulate_ok in A. destruct A as [_ ->].
    apply flat_occurs. eauto.
  Qed.

  (* the chain form of the statement: overlays (p1,s1) ... (pk,sk), outermost first, around one file *)
  Lemma chain_occurs : forall layers docs d, In d docs -> occurs (chain layers (File docs)) d layers.
  Proof.
    induction layers as [|[p s] rest IH]; simpl; intros.
    - constructor; auto.
    - econstructor; [left; reflexivity|]. auto.
  Qed.

  Theorem chain_nesting : forall layers docs out d,
    single_hit pfx_fs -> single_hit sfx_fs ->
    acc (chain layers (File docs)) = Ok out -> In d docs ->
    exists r, In r out /\ r_org r = d /\ r_cur r = set_name (out_name d layers) d.
  Proof.
    intros layers docs out d Hp Hs A I.
    exists (through layers (load d)). split; [|split].
    - eapply nothing_lost; eauto. apply chain_occurs; auto.
    - rewrite through_org. auto.
    - apply through_name; auto.
  Qed.
End Proofs.
