(* Label layering (property C11, third clause): how the metadata.labels of a resource evolve through nested
   kustomizations.  Code: api/internal/target/kusttarget_configplugin.go (LabelTransformer configurator: one
   transformer per `labels:` entry, in order, then one for commonLabels), api/filters/labels/labels.go (keys in
   sorted order, SetEntry on every field spec), field spec `metadata/labels` (create: true, all kinds), and the
   recursion of accumulateTarget (a layer's transformers run on everything accumulated below it).
   Only metadata.labels is modelled (selectors and templates belong to C08).  Definitions only. *)
From KV Require Export Res.LegacySort.
Open Scope string_scope.

Definition labels := list (string * string).      (* metadata.labels as YAML: key order as in the document *)

Fixpoint lookup (k : string) (l : labels) : option string :=
  match l with
  | [] => None
  | (k', v) :: t => if String.eqb k k' then Some v else lookup k t
  end.

(* SetEntry on a mapping node: overwrite the value of an existing key in place, else append *)
Fixpoint set_entry (k v : string) (l : labels) : labels :=
  match l with
  | [] => [(k, v)]
  | (k', v') :: t => if String.eqb k k' then (k', v) :: t else (k', v') :: set_entry k v t
  end.

(* labels.Filter: one SetEntry per key of the directive's map.  The map is given as an association list; the
   entries are applied from the last to the first, so that - like for [lookup] - the first binding of a key
   is the one that counts (a Go map has no duplicate keys, and with distinct keys the order of the SetEntry
   calls only decides where NEW keys are appended, which a map comparison does not see). *)
Definition apply_labels (m : labels) (l : labels) : labels :=
  fold_right (fun kv acc => set_entry (fst kv) (snd kv) acc) l m.

(* a kustomization tree, reduced to what decides metadata.labels *)
Inductive ltree :=
| LFile (docs : list (rid * labels))
| LDir (ents : list ltree) (lbls : list labels) (common : labels).   (* `labels:` entries in order, commonLabels *)

(* the label transformers of one layer on one resource: the `labels:` entries in order, then commonLabels *)
Definition layer_labels (lbls : list labels) (common : labels) (l : labels) : labels :=
  apply_labels common (fold_left (fun acc m => apply_labels m acc) lbls l).

(* the resources of a successful build in accumulation order, with their final metadata.labels *)
Fixpoint lflat (t : ltree) : list (rid * labels) :=
  match t with
  | LFile docs => docs
  | LDir ents lbls common =>
      map (fun dl => (fst dl, layer_labels lbls common (snd dl))) (List.concat (map lflat ents))
  end.

(* metadata.labels compared as maps *)
Definition labels_incl (a b : labels) : bool :=
  forallb (fun kv => match lookup (fst kv) b with
                     | Some v => match lookup (fst kv) a with Some v' => String.eqb v v' | None => false end
                     | None => false
                     end) a.
Definition labels_eqb (a b : labels) : bool := labels_incl a b && labels_incl b a.

(* what the layering prescribes for key k: the outermost layer that sets k wins; inside one layer
   commonLabels beats the `labels:` entries and a later entry beats an earlier one *)
Fixpoint lookup_entries (k : string) (lbls : list labels) : option string :=
  match lbls with
  | [] => None
  | m :: rest => match lookup_entries k rest with Some v => Some v | None => lookup k m end
  end.

Fixpoint nest_lookup (k : string) (layers : list (list labels * labels)) (own : labels) : option string :=
  match layers with
  | [] => lookup k own
  | (lbls, common) :: inner =>
      match lookup k common with
      | Some v => Some v
      | None => match lookup_entries k lbls with
                | Some v => Some v
                | None => nest_lookup k inner own
                end
      end
  end.
