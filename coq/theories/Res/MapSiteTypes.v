(* Record type of the generated map-range site table (Gen/MapRanges.v). *)
From KV Require Export Base.Prelude.

Inductive mr_class := MRKeysThenSorted | MRIntoMapOrSet | MRCommutative | MROther.

Record map_site := mkSite {
  ms_pkg : string;
  ms_fn : string;
  ms_ord : nat;
  ms_class : mr_class
}.
