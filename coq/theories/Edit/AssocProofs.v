(* Facts about the sorted association lists that model Go maps (Edit/Kust.v: assoc_get/set/del):
   byte order on strings is a strict total order, and a key-sorted association list is determined
   by its lookups (extensionality) — which reduces every map law to reasoning about [assoc_get]. *)
From KV Require Import Edit.Kust.
Local Open Scope list_scope.

(* ---------- String.compare is a strict total order ---------- *)
Lemma ascii_compare_refl a : Ascii.compare a a = Eq.
Proof. unfold Ascii.compare. apply N.compare_refl. Qed.

Lemma str_compare_refl s : String.compare s s = Eq.
Proof. induction s; simpl; [reflexivity|]. rewrite ascii_compare_refl. exact IHs. Qed.

Lemma ascii_compare_lt_trans a b c :
  Ascii.compare a b = Lt -> Ascii.compare b c = Lt -> Ascii.compare a c = Lt.
Proof. unfold Ascii.compare. rewrite !N.compare_lt_iff. apply N.lt_trans. Qed.

Lemma str_compare_lt_trans : forall a b c,
  String.compare a b = Lt -> String.compare b c = Lt -> String.compare a c = Lt.
Proof.
  induction a as [|x a IH]; intros [|y b] [|z c]; simpl; intros H1 H2; try discriminate; try reflexivity.
  destruct (Ascii.compare x y) eqn:E1; try discriminate.
  - apply Ascii.compare_eq_iff in E1. subst y.
    destruct (Ascii.compare x z) eqn:E2; try discriminate; [|reflexivity].
    eapply IH; eassumption.
  - destruct (Ascii.compare y z) eqn:E2; try discriminate.
    + apply Ascii.compare_eq_iff in E2. subst z. rewrite E1. reflexivity.
    + rewrite (ascii_compare_lt_trans _ _ _ E1 E2). reflexivity.
Qed.

Lemma ltb_irrefl s : String.ltb s s = false.
Proof. unfold String.ltb. rewrite str_compare_refl. reflexivity. Qed.

Lemma ltb_trans a b c : String.ltb a b = true -> String.ltb b c = true -> String.ltb a c = true.
Proof.
  unfold String.ltb. destruct (String.compare a b) eqn:E1; try discriminate.
  destruct (String.compare b c) eqn:E2; try discriminate. intros _ _.
  rewrite (str_compare_lt_trans _ _ _ E1 E2). reflexivity.
Qed.

Lemma ltb_not_eq a b : String.ltb a b = true -> String.eqb a b = false.
Proof.
  intro H. apply String.eqb_neq. intro E. subst b. rewrite ltb_irrefl in H. discriminate.
Qed.

Lemma ltb_asym a b : String.ltb a b = true -> String.ltb b a = false.
Proof.
  unfold String.ltb. rewrite (String.compare_antisym b a).
  destruct (String.compare a b); simpl; intro H; try discriminate; reflexivity.
Qed.

Lemma ltb_total a b : String.ltb a b = false -> String.eqb a b = false -> String.ltb b a = true.
Proof.
  unfold String.ltb. rewrite (String.compare_antisym b a). intros H1 H2.
  destruct (String.compare a b) eqn:E; simpl; try discriminate; try reflexivity.
  apply String.compare_eq_iff in E. subst b. rewrite String.eqb_refl in H2. discriminate.
Qed.

(* ---------- key-sorted association lists ---------- *)
Section Assoc.
  Context {A : Type}.
  Notation amap := (list (string * A)).

  (* every key of m is strictly greater than k *)
  Definition above (k : string) (m : amap) : Prop := Forall (fun kv => String.ltb k (fst kv) = true) m.

  Inductive sorted : amap -> Prop :=
  | sorted_nil : sorted []
  | sorted_cons k v m : above k m -> sorted m -> sorted ((k, v) :: m).

  Lemma above_weaken k k' m : String.ltb k' k = true -> above k m -> above k' m.
  Proof.
    intros H Hm. unfold above in *. rewrite Forall_forall in *. intros kv Hin.
    eapply ltb_trans; [exact H|]. apply Hm. exact Hin.
  Qed.

  Lemma above_get_none k m : above k m -> assoc_get k m = None.
  Proof.
    induction m as [|[k' v'] t IH]; simpl; intro H; [reflexivity|].
    inversion H; subst. simpl in H2.
    rewrite String.eqb_sym. rewrite (ltb_not_eq _ _ H2). apply IH. exact H3.
  Qed.

  Lemma assoc_get_set_same k v (m : amap) : assoc_get k (assoc_set k v m) = Some v.
  Proof.
    induction m as [|[k' v'] t IH]; simpl.
    - rewrite String.eqb_refl. reflexivity.
    - destruct (String.eqb k' k) eqn:E.
      + simpl. rewrite String.eqb_refl. reflexivity.
      + destruct (String.ltb k k').
        * simpl. rewrite String.eqb_refl. reflexivity.
        * simpl. rewrite E. exact IH.
  Qed.

  Lemma assoc_get_set_other k k' v (m : amap) :
    String.eqb k k' = false -> assoc_get k' (assoc_set k v m) = assoc_get k' m.
  Proof.
    intro Hne. induction m as [|[k2 v2] t IH]; simpl.
    - rewrite Hne. reflexivity.
    - destruct (String.eqb k2 k) eqn:E.
      + apply String.eqb_eq in E. subst k2. simpl. rewrite Hne. reflexivity.
      + destruct (String.ltb k k2).
        * simpl. rewrite Hne. reflexivity.
        * simpl. destruct (String.eqb k2 k'); [reflexivity|exact IH].
  Qed.

  Lemma assoc_get_set k k' v (m : amap) :
    assoc_get k' (assoc_set k v m) = if String.eqb k k' then Some v else assoc_get k' m.
  Proof.
    destruct (String.eqb k k') eqn:E.
    - apply String.eqb_eq in E. subst. apply assoc_get_set_same.
    - apply assoc_get_set_other. exact E.
  Qed.

  Lemma above_set k k' v (m : amap) :
    String.ltb k k' = true -> above k m -> above k (assoc_set k' v m).
  Proof.
    intros Hlt. induction m as [|[k2 v2] t IH]; simpl; intro H.
    - constructor; [exact Hlt|constructor].
    - inversion H; subst. destruct (String.eqb k2 k').
      + constructor; [exact Hlt|assumption].
      + destruct (String.ltb k' k2).
        * constructor; [exact Hlt|exact H].
        * constructor; [assumption|]. apply IH. assumption.
  Qed.

  Lemma sorted_set k v (m : amap) : sorted m -> sorted (assoc_set k v m).
  Proof.
    induction m as [|[k2 v2] t IH]; simpl; intro H.
    - constructor; [constructor|constructor].
    - inversion H; subst. destruct (String.eqb k2 k) eqn:E.
      + apply String.eqb_eq in E. subst k2. constructor; assumption.
      + destruct (String.ltb k k2) eqn:L.
        * constructor; [|exact H]. constructor; [exact L|]. eapply above_weaken; eassumption.
        * constructor; [|apply IH; assumption].
          apply above_set; [|assumption]. apply ltb_total; [exact L|].
          rewrite String.eqb_sym. exact E.
  Qed.

  Lemma assoc_get_del k k' (m : amap) :
    assoc_get k' (assoc_del k m) = if String.eqb k k' then None else assoc_get k' m.
  Proof.
    induction m as [|[k2 v2] t IH]; simpl.
    - destruct (String.eqb k k'); reflexivity.
    - destruct (String.eqb k2 k) eqn:E.
      + apply String.eqb_eq in E. subst k2. rewrite IH.
        destruct (String.eqb k k'); reflexivity.
      + simpl. rewrite IH. destruct (String.eqb k k') eqn:E2; [|reflexivity].
        apply String.eqb_eq in E2. subst k'. rewrite E. reflexivity.
  Qed.

  Lemma above_del k k' (m : amap) : above k m -> above k (assoc_del k' m).
  Proof.
    induction m as [|[k2 v2] t IH]; simpl; intro H; [constructor|].
    inversion H; subst. destruct (String.eqb k2 k'); [apply IH; assumption|].
    constructor; [assumption|apply IH; assumption].
  Qed.

  Lemma sorted_del k (m : amap) : sorted m -> sorted (assoc_del k m).
  Proof.
    induction m as [|[k2 v2] t IH]; simpl; intro H; [constructor|].
    inversion H; subst. destruct (String.eqb k2 k); [apply IH; assumption|].
    constructor; [apply above_del; assumption|apply IH; assumption].
  Qed.

  (* a sorted association list is determined by its lookups *)
  Lemma sorted_ext : forall (m1 m2 : amap),
    sorted m1 -> sorted m2 -> (forall k, assoc_get k m1 = assoc_get k m2) -> m1 = m2.
  Proof.
    induction m1 as [|[k1 v1] t1 IH]; intros [|[k2 v2] t2] S1 S2 E.
    - reflexivity.
    - specialize (E k2). simpl in E. rewrite String.eqb_refl in E. discriminate.
    - specialize (E k1). simpl in E. rewrite String.eqb_refl in E. discriminate.
    - inversion S1; subst. inversion S2; subst.
      assert (k1 = k2) as Hk.
      { destruct (String.eqb k1 k2) eqn:Ek; [apply String.eqb_eq; exact Ek|]. exfalso.
        pose proof (E k1) as E1. pose proof (E k2) as E2. simpl in E1, E2.
        rewrite String.eqb_refl in E1, E2. rewrite String.eqb_sym in E1. rewrite Ek in E1, E2.
        destruct (String.ltb k1 k2) eqn:L.
        - rewrite (above_get_none k1 t2) in E1; [discriminate|]. eapply above_weaken; eassumption.
        - assert (String.ltb k2 k1 = true) as L2 by (apply ltb_total; assumption).
          rewrite (above_get_none k2 t1) in E2; [discriminate|]. eapply above_weaken; eassumption. }
      subst k2.
      pose proof (E k1) as E1. simpl in E1. rewrite String.eqb_refl in E1. inversion E1; subst v2.
      f_equal. apply IH; [assumption|assumption|].
      intro k. specialize (E k). simpl in E. destruct (String.eqb k1 k) eqn:Ek; [|exact E].
      apply String.eqb_eq in Ek. subst k. rewrite (above_get_none k1 t1), (above_get_none k1 t2) by assumption.
      reflexivity.
  Qed.

  Lemma assoc_mem_get k (m : amap) : assoc_mem k m = match assoc_get k m with Some _ => true | None => false end.
  Proof. reflexivity. Qed.

  (* setting a binding that is already there changes nothing *)
  Lemma assoc_set_same k v (m : amap) : sorted m -> assoc_get k m = Some v -> assoc_set k v m = m.
  Proof.
    intros S G. apply sorted_ext; [apply sorted_set; exact S|exact S|].
    intro k'. rewrite assoc_get_set. destruct (String.eqb k k') eqn:E; [|reflexivity].
    apply String.eqb_eq in E. subst k'. symmetry. exact G.
  Qed.

  Lemma assoc_del_absent k (m : amap) : sorted m -> assoc_get k m = None -> assoc_del k m = m.
  Proof.
    intros S G. apply sorted_ext; [apply sorted_del; exact S|exact S|].
    intro k'. rewrite assoc_get_del. destruct (String.eqb k k') eqn:E; [|reflexivity].
    apply String.eqb_eq in E. subst k'. symmetry. exact G.
  Qed.

  Lemma assoc_del_set k v (m : amap) : sorted m -> assoc_get k m = None -> assoc_del k (assoc_set k v m) = m.
  Proof.
    intros S G. apply sorted_ext; [apply sorted_del; apply sorted_set; exact S|exact S|].
    intro k'. rewrite assoc_get_del, assoc_get_set. destruct (String.eqb k k') eqn:E; [|reflexivity].
    apply String.eqb_eq in E. subst k'. symmetry. exact G.
  Qed.

  (* fold of sets / dels *)
  Lemma sorted_fold_set (l : list (string * A)) (m : amap) :
    sorted m -> sorted (fold_left (fun acc kv => assoc_set (fst kv) (snd kv) acc) l m).
  Proof. revert m. induction l; simpl; intros m S; [exact S|]. apply IHl. apply sorted_set. exact S. Qed.

  (* lookups in a map updated by a (key-unique) list of bindings: the list wins *)
  Lemma get_fold_set (l : list (string * A)) : forall (m : amap) k,
    sorted l ->
    assoc_get k (fold_left (fun acc kv => assoc_set (fst kv) (snd kv) acc) l m)
    = match assoc_get k l with Some v => Some v | None => assoc_get k m end.
  Proof.
    induction l as [|[k1 v1] t IH]; intros m k S; simpl; [reflexivity|].
    inversion S; subst. rewrite IH by assumption.
    destruct (String.eqb k1 k) eqn:E.
    - apply String.eqb_eq in E. subst k. rewrite (above_get_none k1 t) by assumption.
      rewrite assoc_get_set_same. reflexivity.
    - destruct (assoc_get k t); [reflexivity|]. apply assoc_get_set_other. exact E.
  Qed.
End Assoc.

Arguments sorted {A} m.
Arguments above {A} k m.
