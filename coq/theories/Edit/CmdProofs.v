(* Proofs about one/many `kustomize edit` invocations on a file (Edit/Cmd.v):
   the content theorem (file content = in-memory model), comment preservation and its failure. *)
From KV Require Import Edit.Cmd Edit.KustfileProofs Edit.AssocProofs Edit.OpsProofs.
Local Open Scope list_scope.

Local Opaque find_matched_field.
Arguments find_matched_field : simpl never.
Arguments is_comment_or_blank : simpl never.

(* ---------- obligations over the generated tables (re-checked against /repo on every run) ---------- *)

Definition go_name (f : string * string * bool * gkind) : string := fst (fst (fst f)).
Definition json_name (f : string * string * bool * gkind) : string := snd (fst (fst f)).
Definition field_kind (f : string * string * bool * gkind) : gkind := snd f.

(* every field of the Kustomization struct is serialised by marshal — it is in the order list —
   or is the one known gap, ImageTags, which FixKustomization empties on every read *)
Lemma gen_every_field_ordered_or_known_gap :
  forallb (fun f => str_in (go_name f) gen_field_order || String.eqb (go_name f) "ImageTags")
          gen_struct_fields = true.
Proof. vm_compute. reflexivity. Qed.

(* every name of the order list is a struct field (determineFieldOrder would log.Fatal otherwise) *)
Lemma gen_ordered_fields_exist :
  forallb (fun n => str_in n (map go_name gen_struct_fields)) gen_field_order = true.
Proof. vm_compute. reflexivity. Qed.

(* isEmpty calls Len() on everything that is not a pointer: every ordered field must be a
   string, slice, map or pointer, or `edit` panics on any file *)
Lemma gen_ordered_fields_len_safe :
  forallb (fun f => negb (str_in (go_name f) gen_field_order) ||
                    match field_kind f with GOther => false | _ => true end) gen_struct_fields = true.
Proof. vm_compute. reflexivity. Qed.

(* the model knows exactly the fields of the struct *)
Lemma gen_model_fields_agree :
  forallb (fun f => str_in (go_name f) model_fields) gen_struct_fields = true /\
  forallb (fun n => str_in n (map go_name gen_struct_fields)) model_fields = true.
Proof. split; vm_compute; reflexivity. Qed.

(* findMatchedField recognises the line yaml.Marshal writes for a field: the JSON name equals the
   Go name up to ASCII case, and no earlier name of the order list matches the same line *)
Lemma gen_header_recognised :
  forallb (fun f => negb (str_in (go_name f) gen_field_order) ||
                    match find_matched_field_in gen_field_order (json_name f ++ ":")%string with
                    | Some n => String.eqb n (go_name f)
                    | None => false
                    end) gen_struct_fields = true.
Proof. vm_compute. reflexivity. Qed.

(* the modelled and the opaque fields are all serialised, except ImageTags *)
Lemma model_fields_ordered :
  forallb (fun n => str_in n gen_field_order || String.eqb n "ImageTags")
          (explicit_fields ++ opaque_fields) = true.
Proof. vm_compute. reflexivity. Qed.

Lemma str_in_In : forall s l, str_in s l = true -> In s l.
Proof.
  induction l; simpl; intro H; [discriminate|]. apply orb_prop in H. destruct H as [H|H].
  - left. symmetry. apply String.eqb_eq. exact H.
  - right. apply IHl. exact H.
Qed.

Lemma In_str_in : forall s l, In s l -> str_in s l = true.
Proof.
  induction l; simpl; intro H; [destruct H|]. destruct H as [H|H].
  - subst. rewrite String.eqb_refl. reflexivity.
  - rewrite (IHl H). apply orb_true_r.
Qed.

(* ---------- fix / canon ---------- *)
Lemma fix_imageTags : forall k, k_imageTags (fix_kustomization k) = [].
Proof. reflexivity. Qed.
Lemma fix_other : forall k, k_other (fix_kustomization k) = k_other k.
Proof. reflexivity. Qed.
Lemma canon_imageTags : forall k, k_imageTags (canon k) = k_imageTags k.
Proof. reflexivity. Qed.
Lemma canon_other : forall k, k_other (canon k) = k_other k.
Proof. reflexivity. Qed.

(* ---------- the content theorem ---------- *)
Section Content.
  Variable e : env.
  Variable U : file -> res kust.                    (* types.Kustomization.Unmarshal (strict) *)
  Variable R : kust -> string -> list line.         (* yaml.Marshal of the one-field struct *)

  (* a text laid out as blocks: comment lines, then the rendering of at most one field *)
  Definition layout_lines (k : kust) (L : list (list line * option string)) : list line :=
    flat_map (fun b => fst b ++ render_opt (render_field R k) (snd b)) L.

  Definition plain_layout (L : list (list line * option string)) : Prop :=
    forall b l, In b L -> In l (fst b) -> is_comment_or_blank l = true /\ plain_comment l = true.

  Definition covers (k : kust) (L : list (list line * option string)) : Prop :=
    forall n, is_empty n k = false -> In (Some n) (map snd L).

  (* (D) domain: no rendered field contains a blank or comment-looking line, i.e. no multi-line
     string value with such a line (the `comment-line-absorbed-into-block-scalar` finding lives
     outside this domain) *)
  Hypothesis R_clean : forall k n l, In l (R k n) -> is_comment_or_blank l = false.

  (* (S3) go-yaml round trip: a text made of plain comment lines and of the one-field renderings
     of k, in any order, possibly repeated, covering every non-empty field of k, decodes to k up
     to empty maps.  Checked on every step of every sequence by the correspondence. *)
  Hypothesis UR : forall k L, plain_layout L -> covers k L ->
                              U (mkFile (layout_lines k L) None) = Ok (canon k).

  (* every comment line of the file (the unterminated tail included) is plain *)
  Definition plain_file (f : file) : Prop :=
    forall l, In l (f_lines f) \/ f_tail f = Some l -> is_comment_or_blank l = true -> plain_comment l = true.

  (* the opaque fields present are among those marshal serialises *)
  Definition other_ok (k : kust) : Prop :=
    forall n, In n (map fst (k_other k)) -> In n gen_field_order.

  Lemma write_covers :
    forall f k, other_ok k -> k_imageTags k = [] ->
      covers k (layout_of (parse_commented_fields f) (trailing_kept f)).
  Proof.
    intros f k Ho Hi n Hn. apply layout_covers_order.
    destruct (is_empty_false_cases n k Hn) as [He|Hoth]; [|apply Ho; exact Hoth].
    pose proof model_fields_ordered as M. rewrite forallb_forall in M.
    specialize (M n (in_or_app _ _ _ (or_introl He))).
    apply orb_prop in M. destruct M as [M|M]; [apply str_in_In; exact M|].
    apply String.eqb_eq in M. subst n. exfalso.
    unfold is_empty in Hn. cbn -[k_imageTags] in Hn. rewrite Hi in Hn. discriminate Hn.
  Qed.

  Lemma write_plain_layout :
    forall f, plain_file f -> plain_layout (layout_of (parse_commented_fields f) (trailing_kept f)).
  Proof.
    intros f Hp b l Hb Hl. unfold layout_of in Hb. apply in_app_or in Hb. destruct Hb as [Hb|Hb].
    - apply in_map_iff in Hb. destruct Hb as [c [Ec Hc]]. subst b. simpl in Hl.
      assert (In l (kept_comments (parse_commented_fields f))) as Hk.
      { unfold kept_comments. apply in_flat_map. exists c. split; assumption. }
      pose proof (kept_are_comments f l Hk) as C. split; [exact C|].
      apply Hp; [left; apply kept_in_file; exact Hk|exact C].
    - apply in_app_or in Hb. destruct Hb as [Hb|Hb].
      + destruct Hb as [Hb|[]]. subst b. cbn [fst] in Hl.
        destruct (trailing_are_comments f l Hl) as [C Hin]. split; [exact C|]. apply Hp; assumption.
      + apply in_map_iff in Hb. destruct Hb as [n [En _]]. subst b. destruct Hl.
  Qed.

  Lemma write_file_lines :
    forall f k, f_lines (write_file R f k) = layout_lines k (layout_of (parse_commented_fields f) (trailing_kept f)).
  Proof. intros. unfold write_file. cbn [f_lines]. apply marshal_as_layout. Qed.

  (* reading back what a command wrote *)
  Lemma read_after_write :
    forall f k, plain_file f -> other_ok k -> k_imageTags k = [] ->
      read_typed U (write_file R f k) = Ok (fix_kustomization (canon k)).
  Proof.
    intros f k Hp Ho Hi. unfold read_typed.
    assert (write_file R f k = mkFile (layout_lines k (layout_of (parse_commented_fields f) (trailing_kept f))) None) as E.
    { unfold write_file. f_equal. apply marshal_as_layout. }
    rewrite E. rewrite UR; [reflexivity|apply write_plain_layout; exact Hp|apply write_covers; assumption].
  Qed.

  Lemma write_keeps_plain :
    forall f k, plain_file f -> plain_file (write_file R f k).
  Proof.
    intros f k Hp l Hl Hc. unfold write_file in Hl. cbn [f_lines f_tail] in Hl.
    destruct Hl as [Hl|Hl]; [|discriminate Hl].
    apply marshal_lines_origin in Hl. destruct Hl as [Hl|[n Hl]].
    - apply in_app_or in Hl. destruct Hl as [Hl|Hl].
      + apply Hp; [left; apply kept_in_file; exact Hl|exact Hc].
      + destruct (trailing_are_comments f l Hl) as [_ Hin]. apply Hp; assumption.
    - unfold render_field in Hl. destruct (is_empty n k); [destruct Hl|].
      rewrite (R_clean _ _ _ Hl) in Hc. discriminate Hc.
  Qed.

  (* one command: the file afterwards reads as the model's next state *)
  Lemma edit_step :
    forall f k o, plain_file f -> other_ok k -> read_typed U f = Ok k ->
      let f' := snd (edit_file e U R f o) in
      plain_file f' /\ other_ok (model_step e k o) /\ read_typed U f' = Ok (model_step e k o).
  Proof.
    intros f k o Hp Ho Hr. unfold edit_file, model_step. rewrite Hr.
    destruct (apply_op e (Ok k) o) as [[k'|]| | |] eqn:Ha; cbn [snd]; try (split; [|split]; assumption).
    assert (k_imageTags k = []) as Hi.
    { unfold read_typed in Hr. destruct (U f) as [k0| | |]; try discriminate Hr.
      cbn in Hr. injection Hr as Hr. subst k. reflexivity. }
    assert (other_ok k') as Ho' by (unfold other_ok; rewrite (apply_op_other _ _ _ _ Ha); exact Ho).
    assert (k_imageTags k' = []) as Hi' by (rewrite (apply_op_imageTags _ _ _ _ Ha); exact Hi).
    split; [apply write_keeps_plain; exact Hp|]. split.
    - unfold other_ok. rewrite fix_other, canon_other. exact Ho'.
    - apply read_after_write; assumption.
  Qed.

  (* C17_content: after any sequence of edit commands the file parses and its content (what Read
     returns) equals the in-memory model's, to which the same commands were applied *)
  Theorem content :
    forall ops f k, plain_file f -> other_ok k -> read_typed U f = Ok k ->
      read_typed U (edit_files e U R f ops) = Ok (model_ops e k ops).
  Proof.
    induction ops as [|o t IH]; intros f k Hp Ho Hr; [exact Hr|].
    unfold edit_files, model_ops. cbn [fold_left].
    destruct (edit_step f k o Hp Ho Hr) as [Hp' [Ho' Hr']].
    exact (IH _ _ Hp' Ho' Hr').
  Qed.

  (* a failed command leaves the file untouched *)
  Lemma failed_command_writes_nothing :
    forall f o, fst (edit_file e U R f o) <> COk -> snd (edit_file e U R f o) = f.
  Proof.
    intros f o. unfold edit_file.
    destruct (apply_op e (read_typed U f) o) as [[k'|]| | |]; cbn [fst snd]; intro H;
      try reflexivity. exfalso. apply H. reflexivity.
  Qed.

  (* ---------- comments ---------- *)

  (* since /repo commit f15d834: the comment lines of the rewritten file are exactly the comment
     lines of the original (blank lines and an unterminated comment tail included), in order *)
  Theorem comments_kept :
    forall f k, comment_lines (write_file R f k) = comment_lines f.
  Proof.
    intros f k. rewrite (comments_kept_or_forgotten f).
    unfold comment_lines at 1. unfold write_file. cbn [f_lines f_tail]. rewrite app_nil_r.
    apply marshal_comment_lines.
    - intros c Hc. apply Forall_forall. intros l Hl. apply (kept_are_comments f).
      unfold kept_comments. apply in_flat_map. exists c. split; assumption.
    - apply Forall_forall. intros l Hl. exact (proj1 (trailing_are_comments f l Hl)).
    - intros n l Hl. unfold render_field in Hl. destruct (is_empty n k); [destruct Hl|].
      exact (R_clean _ _ _ Hl).
  Qed.
End Content.

(* where the trailing comments go: after the original fields and before the fields a command adds
   (so on the next read they attach to the first added field) *)
Theorem trailing_comments_position :
  forall (R : kust -> string -> list line) f k,
    f_lines (write_file R f k) =
    flat_map (fun c => cf_comment c ++ render_field R k (cf_field c)) (parse_commented_fields f) ++
    trailing_kept f ++
    flat_map (fun n => if has_field (parse_commented_fields f) n then [] else render_field R k n) gen_field_order.
Proof. reflexivity. Qed.
