(* Proofs about FixKustomization / FixKustomizationPreMarshalling on the record (Edit/Fix.v) and
   about `kustomize edit fix` on a file. *)
From KV Require Import Edit.Cmd Edit.KustfileProofs Edit.AssocProofs Edit.OpsProofs Edit.CmdProofs Edit.LawsProofs.
From KV Require Export Edit.FixCmd.
Local Open Scope list_scope.

(* ---------- load-time spellings: bases, imageTags, env ---------- *)

(* FixKustomization is a projection *)
Lemma fix_idem k : fix_kustomization (fix_kustomization k) = fix_kustomization k.
Proof.
  destruct k. unfold fix_kustomization. cbn. rewrite !app_nil_r.
  rewrite !(map_idem fix_env) by apply fix_env_idem.
  f_equal.
  - destruct (String.eqb k_apiVersion "") eqn:Ea.
    + destruct (String.eqb (if String.eqb k_kind "" then KustomizationKind else k_kind) ComponentKind);
        reflexivity.
    + rewrite Ea. reflexivity.
  - destruct (String.eqb k_kind "") eqn:Ek; [reflexivity|rewrite Ek; reflexivity].
Qed.

(* rewriting the deprecated spellings by hand (bases appended to resources, imageTags to images,
   env to envs) and then loading = loading the original *)
Lemma fix_rewrite_load k : fix_kustomization (rewrite_load k) = fix_kustomization k.
Proof.
  destruct k. unfold fix_kustomization, rewrite_load. cbn. rewrite !app_nil_r.
  rewrite !(map_idem fix_env) by apply fix_env_idem. reflexivity.
Qed.

Lemma rewrite_load_idem k : rewrite_load (rewrite_load k) = rewrite_load k.
Proof.
  destruct k. unfold rewrite_load. cbn. rewrite !app_nil_r.
  rewrite !(map_idem fix_env) by apply fix_env_idem. reflexivity.
Qed.

(* the rewritten form uses none of the three deprecated spellings *)
Lemma rewrite_load_clean k :
  k_bases (rewrite_load k) = [] /\ k_imageTags (rewrite_load k) = [] /\
  Forall (fun g => ga_env g = "") (k_configMapGenerator (rewrite_load k)) /\
  Forall (fun g => ga_env g = "") (k_secretGenerator (rewrite_load k)).
Proof.
  assert (forall l, Forall (fun g => ga_env g = "") (map fix_env l)) as G.
  { induction l as [|a l IH]; simpl; constructor; [|exact IH]. unfold fix_env.
    destruct (String.eqb (ga_env a) "") eqn:E; [apply String.eqb_eq; exact E|reflexivity]. }
  repeat split; try reflexivity; apply G.
Qed.

(* the content of the rewritten form: same items, same order *)
Lemma rewrite_load_content k :
  k_resources (rewrite_load k) = k_resources k ++ k_bases k /\
  k_images (rewrite_load k) = k_images k ++ k_imageTags k.
Proof. split; reflexivity. Qed.

(* ---------- edit fix: patchesJson6902, patchesStrategicMerge, commonLabels ---------- *)
Definition smp_to_patch (readable : string -> bool) (s : string) : patch :=
  if readable s then mkPatch s "" None None else mkPatch "" s None None.

Lemma fix_premarshal_ok readable k k' :
  fix_premarshal readable k = Ok k' ->
  k_patchesSM k' = [] /\ k_patchesJson k' = [] /\
  k_patches k' = k_patches k ++ k_patchesJson k ++ map (smp_to_patch readable) (k_patchesSM k) /\
  match label_from_common (k_commonLabels k) with
  | None => k_labels k' = k_labels k /\ k_commonLabels k' = k_commonLabels k
  | Some cl => k_labels k' = k_labels k ++ [cl] /\ k_commonLabels k' = None /\
               labels_conflict (k_labels k) (mapo_or_empty (l_pairs cl)) = false
  end.
Proof.
  unfold fix_premarshal. intro H.
  destruct (label_from_common (k_commonLabels k)) as [cl|] eqn:L.
  - destruct (labels_conflict (k_labels k) match l_pairs cl with Some m => m | None => [] end) eqn:C;
      [discriminate|]. injection H as H. subst k'. cbn. rewrite <- app_assoc.
    split; [reflexivity|]. split; [reflexivity|]. split; [reflexivity|].
    split; [reflexivity|]. split; [reflexivity|exact C].
  - injection H as H. subst k'. cbn. rewrite <- app_assoc.
    split; [reflexivity|]. split; [reflexivity|]. split; [reflexivity|]. split; reflexivity.
Qed.

(* commonLabels {a: b} becomes the labels entry {pairs: {a: b}, includeSelectors: true} *)
Lemma label_from_common_shape cl l :
  label_from_common cl = Some l ->
  exists m, cl = Some m /\ m <> [] /\ l = mkLabel (Some m) true false None.
Proof.
  destruct cl as [[|p t]|]; simpl; intro H; try discriminate. injection H as H. subst l.
  exists (p :: t). split; [reflexivity|]. split; [discriminate|reflexivity].
Qed.

(* the command fails exactly when a `labels` key is also a commonLabels key *)
Lemma fix_premarshal_err readable k :
  fix_premarshal readable k = Err <->
  exists cl, label_from_common (k_commonLabels k) = Some cl /\
             labels_conflict (k_labels k) (mapo_or_empty (l_pairs cl)) = true.
Proof.
  unfold fix_premarshal. split.
  - intro H. destruct (label_from_common (k_commonLabels k)) as [cl|]; [|discriminate].
    exists cl. split; [reflexivity|].
    destruct (labels_conflict (k_labels k) match l_pairs cl with Some m => m | None => [] end) eqn:C;
      [exact C|discriminate].
  - intros [cl [L C]]. rewrite L. unfold mapo_or_empty in C. rewrite C. reflexivity.
Qed.

(* running fix on an already fixed kustomization changes nothing *)
Lemma fix_premarshal_idem readable k k' :
  fix_premarshal readable k = Ok k' -> fix_premarshal readable k' = Ok k'.
Proof.
  intro H. destruct (fix_premarshal_ok _ _ _ H) as (E1 & E2 & _ & E4).
  unfold fix_premarshal. rewrite E1, E2. cbn [map]. rewrite !app_nil_r.
  assert (label_from_common (k_commonLabels k') = None) as L.
  { destruct (label_from_common (k_commonLabels k)) as [cl|] eqn:L0.
    - destruct E4 as (_ & E & _). rewrite E. reflexivity.
    - destruct E4 as (_ & E). rewrite E. exact L0. }
  rewrite L. f_equal. destruct k'. cbn in *. subst. reflexivity.
Qed.

(* fields fix does not address *)
Definition fix_addressed : list string :=
  ["Patches"; "PatchesJson6902"; "PatchesStrategicMerge"; "Labels"; "CommonLabels"].

Lemma fix_premarshal_frame readable k k' n :
  fix_premarshal readable k = Ok k' -> ~ In n fix_addressed -> get n k' = get n k.
Proof.
  intros H Hn. unfold fix_premarshal in H.
  assert (String.eqb n "Patches" = false /\ String.eqb n "PatchesJson6902" = false /\
          String.eqb n "PatchesStrategicMerge" = false /\ String.eqb n "Labels" = false /\
          String.eqb n "CommonLabels" = false) as (N1 & N2 & N3 & N4 & N5).
  { repeat split; apply String.eqb_neq; intro E; apply Hn; subst n; cbn; tauto. }
  destruct (label_from_common (k_commonLabels k)) as [cl|].
  - destruct (labels_conflict _ _); [discriminate|]. injection H as H. subst k'.
    rewrite gso_commonLabels, gso_labels, gso_patchesSM, gso_patchesJson, gso_patches by assumption.
    reflexivity.
  - injection H as H. subst k'.
    rewrite gso_patchesSM, gso_patchesJson, gso_patches by assumption. reflexivity.
Qed.

Lemma fix_premarshal_other readable k k' :
  fix_premarshal readable k = Ok k' -> k_other k' = k_other k /\ k_imageTags k' = k_imageTags k.
Proof.
  unfold fix_premarshal. intro H. destruct (label_from_common (k_commonLabels k)) as [cl|].
  - destruct (labels_conflict _ _); [discriminate|]. injection H as H. subst k'. split; reflexivity.
  - injection H as H. subst k'. split; reflexivity.
Qed.

(* what `edit fix` writes reads back as the fixed record (same go-yaml hypotheses as C17_content) *)
Theorem fix_file_content :
  forall (e : env) (U : file -> res kust) (R : kust -> string -> list line),
    (forall k n l, In l (R k n) -> is_comment_or_blank l = false) ->
    (forall k L, plain_layout L -> covers k L -> U (mkFile (layout_lines R k L) None) = Ok (canon k)) ->
    forall f k k', plain_file f -> other_ok k -> read_typed U f = Ok k ->
      fix_premarshal (file_exists e) k = Ok k' ->
      fix_file e U R f = (COk, mkFile (marshal (parse_commented_fields f) (trailing_kept f) (render_field R k')) None) /\
      read_typed U (snd (fix_file e U R f)) = Ok (fix_kustomization (canon k')).
Proof.
  intros e U R Hc HUR f k k' Hp Ho Hr Hf. unfold fix_file, fix_cmd. rewrite Hr. cbn [bind]. rewrite Hf.
  cbn [bind snd]. split; [reflexivity|].
  destruct (fix_premarshal_other _ _ _ Hf) as [Eo Ei].
  apply (read_after_write U R HUR); [exact Hp| |].
  - unfold other_ok. rewrite Eo. exact Ho.
  - rewrite Ei. unfold read_typed in Hr. destruct (U f) as [k0| | |]; try discriminate Hr.
    cbn in Hr. injection Hr as Hr. subst k. reflexivity.
Qed.

(* a failing fix (label conflict) leaves the file untouched *)
Lemma fix_file_failure e U R f : fst (fix_file e U R f) <> COk -> snd (fix_file e U R f) = f.
Proof.
  unfold fix_file. destruct (fix_cmd e (read_typed U f)) as [[k'|]| | |]; cbn; intro H;
    try reflexivity. exfalso. apply H. reflexivity.
Qed.

(* non-vacuity: a record using all six deprecated spellings *)
Example fix_example :
  let k := set_bases ["../base"] (set_resources ["cm.yaml"]
           (set_imageTags [mkImage "nginx" "" "" "1.2" ""]
           (set_commonLabels (Some [("app", "x")]) (set_labels [mkLabel (Some [("tier", "y")]) false false None]
           (set_patchesSM ["smp.yaml"; "inline"] (set_patchesJson [mkPatch "j.yaml" "" (Some (mkSel "" "" "Service" "s" "" "" "")) None]
           (set_configMapGenerator [mkGa "" "cm" "" [] [] ["db.env"] "app.env" None ""] empty_kust))))))) in
  let kf := fix_kustomization k in
  k_resources kf = ["cm.yaml"; "../base"] /\ k_bases kf = [] /\
  map ga_envs (k_configMapGenerator kf) = [["db.env"; "app.env"]] /\
  exists k', fix_premarshal (fun p => String.eqb p "smp.yaml") kf = Ok k' /\
    k_patches k' = [mkPatch "j.yaml" "" (Some (mkSel "" "" "Service" "s" "" "" "")) None;
                    mkPatch "smp.yaml" "" None None; mkPatch "" "inline" None None] /\
    k_labels k' = [mkLabel (Some [("tier", "y")]) false false None; mkLabel (Some [("app", "x")]) true false None] /\
    k_commonLabels k' = None.
Proof.
  cbn zeta. repeat split; try reflexivity. eexists. split; [vm_compute; reflexivity|]. repeat split; reflexivity.
Qed.
