(* Proofs about the YAML view (Edit/YamlView.v): what YAML reads as comments in a file marshal wrote, and the
   exact characterisation of the two block-scalar findings of C17. *)
From KV Require Import Edit.Cmd Edit.YamlView Edit.KustfileProofs.
Local Open Scope list_scope.

Local Opaque find_matched_field.
Arguments find_matched_field : simpl never.
Arguments is_comment_or_blank : simpl never.

(* the scanner only drops lines: what it looks at are lines of the file *)
Lemma strip_blocks_sub : forall ls blk l, In l (fst (strip_blocks blk ls)) -> In l ls.
Proof.
  induction ls as [|a t IH]; intros blk l H; [destruct H|].
  cbn [strip_blocks] in H.
  assert (forall b', In l (fst (let '(r, b) := strip_blocks b' t in (a :: r, b))) -> In l (a :: t)) as G.
  { intros b' H'. destruct (strip_blocks b' t) as [r b] eqn:E. cbn in H'. destruct H' as [H'|H'];
      [left; exact H'|right; apply (IH b'); rewrite E; exact H']. }
  destruct blk as [ind|]; [|apply (G _ H)].
  destruct (is_blank_line a).
  - destruct (continues ind t); [right; exact (IH _ _ H)|apply (G _ H)].
  - destruct (Nat.ltb ind (leading_spaces a)); [right; exact (IH _ _ H)|apply (G _ H)].
Qed.

Arguments block_scalar_start : simpl never.

Inductive seg := SC (c : list line) | SR (r : list line).
Definition seg_lines (s : seg) : list line := match s with SC c => c | SR r => r end.
Definition seg_comments (s : seg) : list line := match s with SC c => c | SR _ => [] end.
Definition seg_ok (s : seg) : Prop := match s with SC c => plain_comments c | SR r => clean_rendering r end.

Lemma blank_is_comment l : is_blank_line l = true -> is_comment_or_blank l = true.
Proof. unfold is_blank_line, is_comment_or_blank. destruct (trim_left_sp l); [reflexivity|discriminate]. Qed.

(* a plain comment line that is not blank has its '#' in column 0 *)
Lemma plain_nonblank_col0 l :
  plain_comment l = true -> is_blank_line l = false -> leading_spaces l = 0.
Proof.
  unfold plain_comment, is_blank_line, leading_spaces. destruct l as [|c l']; [reflexivity|].
  cbn [trim_left_sp]. destruct (Ascii.eqb c " "%char) eqn:E.
  - destruct (trim_left_sp l') eqn:T; [discriminate|]. intros H _.
    apply Ascii.eqb_eq in E. subst c. discriminate H.
  - intros _ _. cbn [String.length]. lia.
Qed.

(* after ok segments the scalar never goes on: the first non-blank line is in column 0 *)
Lemma segs_continues : forall segs ind, Forall seg_ok segs -> continues ind (flat_map seg_lines segs) = false.
Proof.
  induction segs as [|s t IH]; intros ind H; [reflexivity|]. inversion H as [|? ? Hs Ht]; subst.
  cbn [flat_map]. destruct s as [c|r]; cbn [seg_lines seg_ok] in *.
  - clear H. induction c as [|l c IHc]; [exact (IH ind Ht)|]. inversion Hs as [|? ? [Hl1 Hl2] Hc]; subst.
    cbn [app continues]. destruct (is_blank_line l) eqn:B; [apply IHc; exact Hc|].
    rewrite (plain_nonblank_col0 l Hl2 B). reflexivity.
  - destruct r as [|h r']; [exact (IH ind Ht)|]. destruct Hs as (L0 & C0 & _ & _).
    cbn [app continues].
    assert (is_blank_line h = false) as B
        by (destruct (is_blank_line h) eqn:B; [rewrite (blank_is_comment h B) in C0; discriminate|reflexivity]).
    rewrite B, L0. reflexivity.
Qed.

Lemma continues_app_nonblank : forall t rest ind,
  t <> [] -> is_blank_line (last t ""%string) = false -> continues ind (t ++ rest) = continues ind t.
Proof.
  induction t as [|a t IH]; intros rest ind Hne Hl; [contradiction|].
  cbn [app continues]. destruct (is_blank_line a) eqn:B; [|reflexivity].
  destruct t as [|b t']; [cbn in Hl; rewrite B in Hl; discriminate|].
  apply IH; [discriminate|exact Hl].
Qed.

(* scanning a list that does not end in a blank line, then more *)
Lemma strip_blocks_app : forall r s rest,
  (r = [] \/ is_blank_line (last r ""%string) = false) ->
  fst (strip_blocks s (r ++ rest)) =
  fst (strip_blocks s r) ++ fst (strip_blocks (snd (strip_blocks s r)) rest).
Proof.
  induction r as [|a t IH]; intros s rest H; [reflexivity|].
  assert (t = [] \/ is_blank_line (last t ""%string) = false) as Ht.
  { destruct t as [|b t']; [left; reflexivity|right]. destruct H as [H|H]; [discriminate|exact H]. }
  cbn [app strip_blocks].
  assert (forall b',
    fst (let '(r0, b) := strip_blocks b' (t ++ rest) in (a :: r0, b)) =
    fst (let '(r0, b) := strip_blocks b' t in (a :: r0, b)) ++
    fst (strip_blocks (snd (let '(r0, b) := strip_blocks b' t in (a :: r0, b))) rest)) as G.
  { intro b'. specialize (IH b' rest Ht).
    destruct (strip_blocks b' (t ++ rest)) as [x1 y1]. destruct (strip_blocks b' t) as [x2 y2].
    cbn [fst snd] in *. rewrite IH. reflexivity. }
  destruct s as [ind|]; [|apply G].
  destruct (is_blank_line a) eqn:B.
  - assert (t <> []) as Hne.
    { intro E. subst t. destruct H as [H|H]; [discriminate|]. cbn in H. rewrite B in H. discriminate. }
    assert (is_blank_line (last t ""%string) = false) as Hl by (destruct Ht as [E|E]; [contradiction|exact E]).
    rewrite (continues_app_nonblank t rest ind Hne Hl).
    destruct (continues ind t); [apply IH; exact Ht|apply G].
  - destruct (Nat.ltb ind (leading_spaces a)); [apply IH; exact Ht|apply G].
Qed.

(* a line in column 0 that is not blank is looked at in every state *)
Lemma strip_blocks_header : forall h t s,
  leading_spaces h = 0 -> is_blank_line h = false ->
  strip_blocks s (h :: t) = strip_blocks None (h :: t).
Proof.
  intros h t [ind|] L B; [|reflexivity]. cbn [strip_blocks]. rewrite B, L. reflexivity.
Qed.

Lemma last_default_irrel {A} (l : list A) d1 d2 : l <> [] -> last l d1 = last l d2.
Proof.
  induction l as [|a t IH]; intro H; [contradiction|]. destruct t as [|b t']; [reflexivity|].
  cbn [last]. apply IH. discriminate.
Qed.

(* the comment lines the scanner finds in a sequence of ok segments are the comment segments *)
Lemma scan_segs : forall segs s, Forall seg_ok segs ->
  filter is_comment_or_blank (fst (strip_blocks s (flat_map seg_lines segs))) = flat_map seg_comments segs.
Proof.
  induction segs as [|sg t IH]; intros s H; [reflexivity|]. inversion H as [|? ? Hs Ht]; subst.
  cbn [flat_map]. destruct sg as [c|r]; cbn [seg_lines seg_comments seg_ok] in *.
  - (* plain comment lines *)
    clear H. revert s. induction c as [|l c IHc]; intros s; [apply IH; exact Ht|].
    inversion Hs as [|? ? [Hl1 Hl2] Hc]; subst. specialize (IHc Hc).
    cbn [app strip_blocks].
    assert (forall b', filter is_comment_or_blank
              (fst (let '(r0, b) := strip_blocks b' (c ++ flat_map seg_lines t) in (l :: r0, b)))
            = l :: c ++ flat_map seg_comments t) as G.
    { intro b'. specialize (IHc b'). destruct (strip_blocks b' (c ++ flat_map seg_lines t)) as [x y].
      cbn [fst] in *. cbn [filter]. rewrite Hl1, IHc. reflexivity. }
    destruct s as [ind|]; [|apply G].
    destruct (is_blank_line l) eqn:B.
    + assert (continues ind (c ++ flat_map seg_lines t) = false) as Cn.
      { apply (segs_continues (SC c :: t) ind). constructor; [exact Hc|exact Ht]. }
      rewrite Cn. apply G.
    + rewrite (plain_nonblank_col0 l Hl2 B). cbn [Nat.ltb Nat.leb]. apply G.
  - (* a rendered field *)
    destruct r as [|h r']; [apply IH; exact Ht|]. destruct Hs as (L0 & C0 & F0 & E0).
    unfold yaml_comment_lines in F0.
    assert (is_blank_line h = false) as B
        by (destruct (is_blank_line h) eqn:B; [rewrite (blank_is_comment h B) in C0; discriminate|reflexivity]).
    change ((h :: r') ++ flat_map seg_lines t) with (h :: (r' ++ flat_map seg_lines t)).
    rewrite (strip_blocks_header h _ s L0 B).
    change (h :: (r' ++ flat_map seg_lines t)) with ((h :: r') ++ flat_map seg_lines t).
    rewrite strip_blocks_app.
    + rewrite filter_app, F0. cbn [app]. apply IH. exact Ht.
    + right. rewrite <- E0. f_equal. apply last_default_irrel. discriminate.
Qed.

(* marshal's output as segments *)
Definition marshal_segs (orig : list cfield) (tr : list line) (render : string -> list line) : list seg :=
  flat_map (fun c => [SC (cf_comment c); SR (render (cf_field c))]) orig ++
  [SC tr] ++
  map (fun n => SR (if has_field orig n then [] else render n)) gen_field_order.

Lemma marshal_as_segs orig tr render :
  marshal orig tr render = flat_map seg_lines (marshal_segs orig tr render).
Proof.
  unfold marshal, marshal_in, marshal_segs. rewrite !flat_map_app. f_equal.
  - induction orig as [|c t IH]; [reflexivity|]. cbn [flat_map app seg_lines]. rewrite IH.
    rewrite <- app_assoc. reflexivity.
  - cbn [flat_map app seg_lines]. rewrite ?app_nil_r. f_equal.
Qed.

Lemma marshal_segs_comments orig tr render :
  flat_map seg_comments (marshal_segs orig tr render) = kept_comments orig ++ tr.
Proof.
  unfold marshal_segs, kept_comments. rewrite !flat_map_app.
  assert (flat_map seg_comments (map (fun n => SR (if has_field orig n then [] else render n)) gen_field_order) = []) as E.
  { induction gen_field_order as [|n t IH]; [reflexivity|]. cbn [map flat_map seg_comments app]. exact IH. }
  rewrite E. cbn [flat_map seg_comments app]. rewrite !app_nil_r. f_equal. clear E.
  induction orig as [|c t IH]; [reflexivity|]. cbn [flat_map app seg_comments]. rewrite IH. reflexivity.
Qed.

(* the comment lines the scanner finds in what marshal wrote = the comments it was given, in order *)
Lemma scan_marshal orig tr render :
  (forall c, In c orig -> plain_comments (cf_comment c)) -> plain_comments tr ->
  (forall n, clean_rendering (render n)) ->
  filter is_comment_or_blank (fst (strip_blocks None (marshal orig tr render))) = kept_comments orig ++ tr.
Proof.
  intros Hk Ht Hr. rewrite marshal_as_segs, scan_segs; [apply marshal_segs_comments|].
  unfold marshal_segs. apply Forall_app. split; [|apply Forall_app; split].
  - apply Forall_forall. intros sg Hin. apply in_flat_map in Hin. destruct Hin as [c [Hc Hin]].
    destruct Hin as [E|[E|[]]]; subst sg; [apply Hk; exact Hc|apply Hr].
  - constructor; [exact Ht|constructor].
  - apply Forall_forall. intros sg Hin. apply in_map_iff in Hin. destruct Hin as [n [E _]]. subst sg.
    cbn [seg_ok]. destruct (has_field orig n); [exact I|apply Hr].
Qed.


(* ====================================================================================== *)
(* the CURRENT code (per-line scanner): what YAML reads as comments after a rewrite           *)
(* ====================================================================================== *)
Section YamlComments.
  Variable R : kust -> string -> list line.

  (* one rewrite: if the comments it relocates are plain and every rendered field is clean, the YAML comments
     of the result are exactly the lines the scanner took for comments, in order *)
  Theorem yaml_comments_of_write f k :
    plain_comments (kept_comments (parse_commented_fields f) ++ trailing_kept f) ->
    (forall n, clean_rendering (render_field R k n)) ->
    yaml_comment_lines (f_lines (write_file R f k)) = comment_lines f.
  Proof.
    intros Hp Hr. rewrite (comments_kept_or_forgotten f).
    unfold write_file. cbn [f_lines]. unfold yaml_comment_lines.
    unfold plain_comments in Hp. apply Forall_app in Hp. destruct Hp as [Hk Ht].
    apply scan_marshal; [|exact Ht|exact Hr].
    intros c Hc. unfold plain_comments. rewrite Forall_forall in *. intros l Hl. apply Hk.
    unfold kept_comments. apply in_flat_map. exists c. split; assumption.
  Qed.

  (* the guard of "YAML comments are kept" = the complement of the two block-scalar shapes:
       no comment-looking line inside a block scalar of the file   (else: comment-line-absorbed-into-block-scalar)
       no indented comment among the relocated ones                (else: indented-comment-relocated-behind-block-scalar)
     (+ clean renderings: what yaml.Marshal writes for the fields, and no unterminated last line) *)
  Theorem yaml_comments_kept f k :
    f_tail f = None ->
    ~ has_scalar_comment_line (f_lines f) ->
    plain_comments (kept_comments (parse_commented_fields f) ++ trailing_kept f) ->
    (forall n, clean_rendering (render_field R k n)) ->
    yaml_comment_lines (f_lines (write_file R f k)) = yaml_comment_lines (f_lines f).
  Proof.
    intros Ht Hs Hp Hr. rewrite (yaml_comments_of_write f k Hp Hr).
    unfold comment_lines. rewrite Ht, app_nil_r.
    unfold has_scalar_comment_line in Hs.
    destruct (list_eq_dec string_dec (filter is_comment_or_blank (f_lines f)) (yaml_comment_lines (f_lines f)))
      as [E|E]; [exact E|contradiction].
  Qed.
End YamlComments.

Local Transparent find_matched_field.

(* ---------- both guards are needed: the two findings as witnesses of the model ---------- *)
Definition w_render_patch : list line := ["patches:"; "- patch: |-"; "    a: b"; "    # last"].
Definition w_R1 (_ : kust) (n : string) : list line :=
  if String.eqb n "Patches" then w_render_patch
  else if String.eqb n "Namespace" then ["namespace: x"] else ["{}"].
Definition w_k1 : kust := set_namespace "x" (set_patches [mkPatch "" "a: b
# last" None None] empty_kust).
Definition w_f1 : file := mkFile (w_render_patch ++ ["namespace: x"]) None.

(* shape 1 (comment-line-absorbed-into-block-scalar): the last line of the scalar is comment-looking; the
   scanner takes it, marshal writes it back behind the scalar: the scalar has one more line after every
   rewrite, and YAML sees no comment at all (renderings are clean: guard 1 is what fails) *)
Lemma absorbed_witness :
  has_scalar_comment_line (f_lines w_f1) /\
  (forall n, clean_rendering (render_field w_R1 w_k1 n)) /\
  f_lines (write_file w_R1 w_f1 w_k1) =
    ["patches:"; "- patch: |-"; "    a: b"; "    # last"; "    # last"; "namespace: x"] /\
  yaml_comment_lines (f_lines (write_file w_R1 w_f1 w_k1)) = [] /\
  comment_lines w_f1 = ["    # last"].
Proof.
  split; [vm_compute; discriminate|]. split.
  - intro n. unfold render_field. destruct (is_empty n w_k1) eqn:E; [exact I|].
    unfold w_R1. destruct (String.eqb n "Patches"); [vm_compute; repeat split; reflexivity|].
    destruct (String.eqb n "Namespace"); vm_compute; repeat split; reflexivity.
  - split; [vm_compute; reflexivity|]. split; vm_compute; reflexivity.
Qed.

Definition w_render_patch2 : list line := ["patches:"; "- patch: |-"; "    a: b"; "    c: d"].
Definition w_render_cm : list line := ["configMapGenerator:"; "- literals:"; "  - a=b"; "  name: x"].
Definition w_R2 (_ : kust) (n : string) : list line :=
  if String.eqb n "Patches" then w_render_patch2
  else if String.eqb n "ConfigMapGenerator" then w_render_cm else ["{}"].
Definition w_k2 : kust :=
  set_configMapGenerator [mkGa "" "x" "" ["a=b"] [] [] "" None ""]
    (set_patches [mkPatch "" "a: b
c: d" None None] empty_kust).
Definition w_f2 : file :=
  mkFile (w_render_patch2 ++ ["configMapGenerator:"; "- name: x"; "  literals:"; "    # note"; "  - a=b"]) None.

(* shape 2 (indented-comment-relocated-behind-block-scalar): no comment-looking line inside a scalar, clean
   renderings, but the comment the rewrite relocates is indented: it lands behind the scalar and YAML reads it
   as content — the comment is gone (guard 2 is what fails) *)
Lemma relocated_witness :
  ~ has_scalar_comment_line (f_lines w_f2) /\
  (forall n, clean_rendering (render_field w_R2 w_k2 n)) /\
  comment_lines w_f2 = ["    # note"] /\
  f_lines (write_file w_R2 w_f2 w_k2) =
    ["patches:"; "- patch: |-"; "    a: b"; "    c: d"; "    # note";
     "configMapGenerator:"; "- literals:"; "  - a=b"; "  name: x"] /\
  yaml_comment_lines (f_lines (write_file w_R2 w_f2 w_k2)) = [].
Proof.
  split; [intro H; apply H; vm_compute; reflexivity|]. split.
  - intro n. unfold render_field. destruct (is_empty n w_k2) eqn:E; [exact I|].
    unfold w_R2. destruct (String.eqb n "Patches"); [vm_compute; repeat split; reflexivity|].
    destruct (String.eqb n "ConfigMapGenerator"); vm_compute; repeat split; reflexivity.
  - split; [vm_compute; reflexivity|]. split; vm_compute; reflexivity.
Qed.

(* non-vacuity of the positive theorem: plain comments everywhere, a block scalar in a rendering *)
Example yaml_comments_kept_example :
  let f := mkFile (["# head"] ++ w_render_patch2 ++ [""; "# about the generator"] ++ w_render_cm ++ ["# trailing"]) None in
  f_tail f = None /\ ~ has_scalar_comment_line (f_lines f) /\
  plain_comments (kept_comments (parse_commented_fields f) ++ trailing_kept f) /\
  yaml_comment_lines (f_lines (write_file w_R2 f w_k2)) = ["# head"; ""; "# about the generator"; "# trailing"].
Proof.
  cbn zeta. split; [reflexivity|]. split; [intro H; apply H; vm_compute; reflexivity|]. split.
  - vm_compute. repeat constructor.
  - vm_compute. reflexivity.
Qed.
