(* Model of kustomize/commands/edit/{add,remove,set}/*.go : one function per sub-command,
   each "validate arguments -> read kustomization file -> mutate the typed struct -> write".
   [apply_op env rk o] is given the result [rk] of kustfile.Read (Unmarshal + FixKustomization)
   and returns
       Ok (Some k')  the command wrote k' back (mf.Write)
       Ok None       the command returned nil WITHOUT writing (file untouched)
       Err / Panic   the command failed / would crash (file untouched).
   [rk] is bound exactly where the Go code calls mf.Read(), so a command that fails validation
   or finds nothing to do before reading does not depend on the file being readable.
   Arguments are the positional CLI arguments and flag values as cobra hands them over.
   Definitions only; proofs in Edit/OpsProofs.v. *)
From KV Require Export Edit.Fix.
Local Open Scope list_scope.

(* ---------- the part of the file system the commands look at ---------- *)
Record env := mkEnv {
  e_files : list (string * list string);  (* regular files: path, and the keys the file yields when
                                             loaded as an env file (kv.keyValuesFromLines) *)
  e_dirs : list string;                   (* directories (other than the cwd itself) *)
  e_kpath : string                        (* name of the kustomization file (mf.GetPath()) *)
}.

Definition file_exists (e : env) (p : string) : bool := assoc_mem p (e_files e).
Definition dir_exists (e : env) (p : string) : bool := str_in p (e_dirs e).
Definition path_exists (e : env) (p : string) : bool := file_exists e p || dir_exists e p.

(* ---------- small string functions ---------- *)
Fixpoint str_index (c : ascii) (s : string) : option nat :=
  match s with
  | EmptyString => None
  | String a s' => if Ascii.eqb a c then Some O else option_map S (str_index c s')
  end.

Definition str_contains (c : ascii) (s : string) : bool :=
  match str_index c s with Some _ => true | None => false end.

Fixpoint count_char (c : ascii) (s : string) : nat :=
  match s with
  | EmptyString => O
  | String a s' => (if Ascii.eqb a c then 1 else 0) + count_char c s'
  end.

Fixpoint last_char (s : string) : option ascii :=
  match s with
  | EmptyString => None
  | String c EmptyString => Some c
  | String _ s' => last_char s'
  end.

(* strings.SplitN(s, sep, 2) for a one-byte separator *)
Definition splitn2 (c : ascii) (s : string) : string * option string :=
  match split_first c s with
  | Some (a, b) => (a, Some b)
  | None => (s, None)
  end.

(* path.Base for the paths of the model's domain (no trailing slash, non-empty) *)
Definition path_base (s : string) : string := last (split_on "/"%char s) s.

(* util.trimQuotes: strips one pair of double quotes *)
Definition trim_quotes (s : string) : string :=
  match s with
  | String a rest =>
      if Ascii.eqb a """"%char then
        match last_char rest with
        | Some b => if Ascii.eqb b """"%char then take (String.length rest - 1) rest else s
        | None => s
        end
      else s
  | EmptyString => s
  end.

(* ---------- filepath.Match for patterns made of literals, '*' and '?' ----------
   ('[' classes and '\' escapes are outside the model's domain: [simple_pattern].) *)
Fixpoint gmatch (p s : string) {struct p} : bool :=
  match p with
  | EmptyString => match s with EmptyString => true | _ => false end
  | String c p' =>
      if Ascii.eqb c "*"%char then
        (fix star (s : string) : bool :=
           gmatch p' s ||
           match s with
           | EmptyString => false
           | String d s' => negb (Ascii.eqb d "/"%char) && star s'
           end) s
      else if Ascii.eqb c "?"%char then
        match s with
        | String d s' => negb (Ascii.eqb d "/"%char) && gmatch p' s'
        | EmptyString => false
        end
      else
        match s with
        | String d s' => Ascii.eqb c d && gmatch p' s'
        | EmptyString => false
        end
  end.

Definition simple_pattern (p : string) : bool :=
  negb (str_contains "["%char p) && negb (str_contains "\"%char p).

Definition has_meta (p : string) : bool :=
  str_contains "*"%char p || str_contains "?"%char p.

(* sort.Strings: insertion sort, byte order *)
Fixpoint insert_str (x : string) (l : list string) : list string :=
  match l with
  | [] => [x]
  | y :: t => if String.leb x y then x :: y :: t else y :: insert_str x t
  end.
Definition sort_strs (l : list string) : list string := fold_right insert_str [] l.

Fixpoint strs_eqb_ops (a b : list string) : bool :=
  match a, b with
  | [], [] => true
  | x :: a', y :: b' => String.eqb x y && strs_eqb_ops a' b'
  | _, _ => false
  end.

(* fSys.Glob on the disk file system (filepath.Glob): files AND directories matching, sorted
   (hidden files are outside the model's domain) *)
Definition fs_glob (e : env) (pat : string) : list string :=
  sort_strs (filter (gmatch pat) (map fst (e_files e) ++ e_dirs e)).

(* util.GlobPatterns *)
Definition glob_patterns (e : env) (pats : list string) : list string :=
  flat_map (fs_glob e) pats.

(* util.GlobPatternsWithLoader: a pattern matching no file must name a directory below the
   cwd (ldr.New succeeds); remote URLs are outside the model's domain *)
Fixpoint glob_patterns_with_loader (e : env) (pats : list string) (skip : bool) : res (list string) :=
  match pats with
  | [] => Ok []
  | p :: t =>
      if skip then do r <- glob_patterns_with_loader e t skip; Ok (p :: r)
      else
        match fs_glob e p with
        | [] => if dir_exists e p
                then do r <- glob_patterns_with_loader e t skip; Ok (p :: r)
                else Err
        | fs => do r <- glob_patterns_with_loader e t skip; Ok (fs ++ r)
        end
  end.

(* append every not-yet-present entry ([skipk]: entries equal to the kustomization file are ignored) *)
Fixpoint add_missing (skipk : option string) (news : list string) (cur : list string) : list string :=
  match news with
  | [] => cur
  | x :: t =>
      if match skipk with Some kp => String.eqb kp x | None => false end then add_missing skipk t cur
      else if str_in x cur then add_missing skipk t cur
      else add_missing skipk t (cur ++ [x])
  end.

(* remove/*: globPatterns(list, patterns) then filter *)
Definition glob_in_list (cur pats : list string) : list string :=
  flat_map (fun p => filter (gmatch p) cur) pats.

Definition remove_matching (cur pats : list string) : option (list string) :=
  match glob_in_list cur pats with
  | [] => None
  | m => Some (filter (fun r => negb (str_in r m)) cur)
  end.

(* ---------- util.ConvertSliceToMap ---------- *)
Fixpoint convert_slice_to_map (args : list string) (acc : smap) : res smap :=
  match args with
  | [] => Ok acc
  | a :: t =>
      match split_first ":"%char a with
      | None => convert_slice_to_map t (assoc_set a "" acc)
      | Some (key, v) =>
          if String.eqb key "" then Err
          else convert_slice_to_map t (assoc_set key (trim_quotes v) acc)
      end
  end.

(* writeToMap / writeToMapEntry: every key of [md]; an existing key needs --force *)
Definition write_to_map (m : smap) (md : smap) (force : bool) : res smap :=
  if negb force && existsb (fun kv => assoc_mem (fst kv) m) md then Err
  else Ok (fold_left (fun acc kv => assoc_set (fst kv) (snd kv) acc) md m).

Definition mapo_or_empty (o : option smap) : smap := match o with Some m => m | None => [] end.

(* ---------- add label / annotation ---------- *)
Definition label_matches (tpl : bool) (l : label) : bool :=
  negb (l_inclSel l) && Bool.eqb (l_inclTpl l) tpl.

(* writeToLabels.  The Go loop ranges over a map; its outcome does not depend on the order:
   - some entry has the wanted settings (the FIRST such entry is used): every key is written into
     its pairs; a key already there needs --force; a nil pairs map makes the write panic;
   - none has: the first iteration creates an entry holding ALL keys and appends it, every later
     iteration then finds its key "already there": with two or more keys and no --force: error. *)
Definition write_to_labels (ls : list label) (md : smap) (force tpl : bool) : res (list label) :=
  match find_index (label_matches tpl) ls with
  | Some i =>
      match nth_error ls i with
      | Some l =>
          match l_pairs l with
          | None => match md with [] => Ok ls | _ => Panic end
          | Some m =>
              do m' <- write_to_map m md force;
              Ok (replace_nth i (mkLabel (Some m') (l_inclSel l) (l_inclTpl l) (l_fields l)) ls)
          end
      | None => Ok ls   (* unreachable *)
      end
  | None =>
      match md with
      | [] => Ok ls
      | [_] => Ok (ls ++ [mkLabel (Some md) false tpl None])
      | _ => if force then Ok (ls ++ [mkLabel (Some md) false tpl None]) else Err
      end
  end.

(* removeFromMap: sequential; a missing key is an error unless -i *)
Fixpoint remove_from_map (m : smap) (keys : list string) (ignore : bool) : res smap :=
  match keys with
  | [] => Ok m
  | key :: t =>
      if negb (assoc_mem key m) && negb ignore then Err
      else remove_from_map (assoc_del key m) t ignore
  end.

Definition parse_remove_arg (args : list string) : res (list string) :=
  match args with
  | [a] => let ks := split_on ","%char a in
           if existsb (fun s => String.eqb s "") ks then Err else Ok ks
  | _ => Err
  end.

(* ---------- set annotation: IsValidKey ----------
   ^([a-zA-Z](([-a-zA-Z0-9.]{0,251})[a-zA-Z0-9])?\/)?[a-zA-Z0-9]([-a-zA-Z0-9_.]{0,61}[a-zA-Z0-9])?$ *)
Definition is_alpha (c : ascii) : bool :=
  let n := N_of_ascii c in ((65 <=? n)%N && (n <=? 90)%N) || ((97 <=? n)%N && (n <=? 122)%N).
Definition is_alnum (c : ascii) : bool := is_alpha c || is_digit c.
Definition is_prefix_mid (c : ascii) : bool :=
  is_alnum c || Ascii.eqb c "-"%char || Ascii.eqb c "."%char.
Definition is_name_mid (c : ascii) : bool := is_prefix_mid c || Ascii.eqb c "_"%char.

Fixpoint all_chars (f : ascii -> bool) (s : string) : bool :=
  match s with EmptyString => true | String c s' => f c && all_chars f s' end.

Definition first_char (s : string) : option ascii :=
  match s with String c _ => Some c | EmptyString => None end.

(* first [first], last alnum, everything [mid], 1 <= length <= maxlen *)
Definition seg_ok (first mid : ascii -> bool) (maxlen : nat) (s : string) : bool :=
  match first_char s, last_char s with
  | Some a, Some z =>
      first a && (Nat.leb (String.length s) 1 || is_alnum z) && all_chars mid s
      && Nat.leb (String.length s) maxlen
  | _, _ => false
  end.

Definition is_valid_key (key : string) : bool :=
  match split_first "/"%char key with
  | None => seg_ok is_alnum is_name_mid 63 key
  | Some (pre, name) => seg_ok is_alpha is_prefix_mid 253 pre && seg_ok is_alnum is_name_mid 63 name
  end.

(* ---------- buildmetadata ---------- *)
Definition BuildMetadataOptions := ["originAnnotations"; "transformerAnnotations"; "managedByLabel"].

Definition validate_buildmetadata (args : list string) : res (list string) :=
  match args with
  | [a] => let opts := split_on ","%char a in
           if forallb (fun o => str_in o BuildMetadataOptions) opts then Ok opts else Err
  | _ => Err
  end.

Fixpoint add_all_new (news cur : list string) : res (list string) :=
  match news with
  | [] => Ok cur
  | x :: t => if str_in x cur then Err else add_all_new t (cur ++ [x])
  end.

(* ---------- configmap / secret generators ---------- *)
Record cmflags := mkCmFlags {
  cf_args : list string;        (* positional: the name *)
  cf_files : list string;       (* --from-file (after cobra's StringSlice splitting) *)
  cf_literals : list string;    (* --from-literal *)
  cf_envfile : string;          (* --from-env-file *)
  cf_disable_hash : bool;       (* --disableNameSuffixHash *)
  cf_behavior : string;         (* --behavior (configmap only) *)
  cf_namespace : string;        (* --namespace *)
  cf_stype : string             (* --type (secret only; cobra default "Opaque") *)
}.

Definition ns_equal (a b : string) : bool :=
  let d := fun s => if String.eqb s "" then "default" else s in
  String.eqb (d a) (d b).

(* ExpandFileSource *)
Fixpoint expand_file_sources (e : env) (srcs : list string) : res (list string) :=
  match srcs with
  | [] => Ok []
  | pat :: t =>
      let parts := split_on "="%char pat in
      let '(key, p) := match parts with
                       | [k; v] => (k, v)
                       | x :: _ => ("", x)
                       | [] => ("", "")
                       end in
      let result := fs_glob e p in
      do rest <- expand_file_sources e t;
      if String.eqb key "" then Ok (result ++ rest)
      else match result with
           | [r] => Ok ((key ++ "=" ++ r)%string :: rest)
           | _ => Err
           end
  end.

Definition valid_behavior (b : string) : bool :=
  String.eqb b "" || String.eqb b "create" || String.eqb b "replace" || String.eqb b "merge".

(* overrideMap *)
Definition override_map (local global : option smap) : option smap :=
  match local with
  | None => match global with Some g => Some g | None => None end
  | Some l => Some (fold_left (fun acc kv => if assoc_mem (fst kv) acc then acc
                                             else assoc_set (fst kv) (snd kv) acc)
                              (mapo_or_empty global) l)
  end.

(* types.MergeGlobalOptionsIntoLocal *)
Definition merge_global_options (local global : option genopts) : option genopts :=
  match global with
  | None => local
  | Some g =>
      let l := match local with Some l => l | None => mkGo None None false false end in
      Some (mkGo (override_map (go_labels l) (go_labels g))
                 (override_map (go_annotations l) (go_annotations g))
                 (go_disableHash l || go_disableHash g)
                 (go_immutable l || go_immutable g))
  end.

(* MergeFlagsIntoGeneratorArgs *)
Definition merge_flags (a : genargs) (files : list string) (fl : cmflags) : genargs :=
  mkGa (ga_namespace a) (ga_name a)
       (if String.eqb (cf_behavior fl) "" then ga_behavior a else cf_behavior fl)
       (ga_literals a ++ cf_literals fl)
       (ga_files a ++ files)
       (if String.eqb (cf_envfile fl) "" then ga_envs a else ga_envs a ++ [cf_envfile fl])
       (ga_env a)
       (if cf_disable_hash fl then Some (mkGo None None true false) else ga_options a)
       (ga_type a).

(* kv loader: the keys a generator's sources yield, or Err *)
Definition literal_key (s : string) : res string :=
  match split_first "="%char s with
  | Some (key, _) => if String.eqb key "" then Err else Ok key
  | None => Err
  end.

(* generators.ParseFileSource *)
Definition parse_file_source (s : string) : res (string * string) :=
  match count_char "="%char s with
  | O => Ok (path_base s, s)
  | S O => match split_first "="%char s with
           | Some (key, p) => if String.eqb key "" || String.eqb p "" then Err else Ok (key, p)
           | None => Err
           end
  | _ => Err
  end.

Definition load_keys (e : env) (a : genargs) : res (list string) :=
  do ek <- mapM (fun p => match assoc_get p (e_files e) with Some ks => Ok ks | None => Err end) (ga_envs a);
  do lk <- mapM literal_key (ga_literals a);
  do fk <- mapM (fun s => do kp <- parse_file_source s;
                          if file_exists e (snd kp) then Ok (fst kp) else Err) (ga_files a);
  Ok (List.concat ek ++ lk ++ fk).

Fixpoint no_dup_strs (l : list string) : bool :=
  match l with [] => true | x :: t => negb (str_in x t) && no_dup_strs t end.

(* rf.MakeConfigMap / MakeSecret as a validity check *)
Definition generator_valid (e : env) (a : genargs) : bool :=
  negb (String.eqb (ga_name a) "") &&
  match load_keys e a with Ok ks => no_dup_strs ks | _ => false end.

Definition find_gen (name ns : string) (l : list genargs) : option nat :=
  find_index (fun a => String.eqb name (ga_name a) && ns_equal (ga_namespace a) ns) l.

(* ExpandFileSource + ValidateAdd: run before the file is read; returns the expanded file sources *)
Definition validate_add (e : env) (fl : cmflags) : res (list string) :=
  do files <- expand_file_sources e (cf_files fl);
  match cf_args fl with
  | [_] =>
      if String.eqb (cf_envfile fl) "" && nilb files && nilb (cf_literals fl) then Err
      else if negb (String.eqb (cf_envfile fl) "") && (negb (nilb files) || negb (nilb (cf_literals fl))) then Err
      else if negb (valid_behavior (cf_behavior fl)) then Err
      else Ok files
  | _ => Err
  end.

(* addConfigMap / addSecret on the list of generator args.  secret = true: new entries get a type *)
Definition add_generator_args (e : env) (secret : bool) (fl : cmflags) (files : list string)
           (global : option genopts) (l : list genargs) : res (list genargs) :=
  match cf_args fl with
  | [name] =>
      let '(i, l1) := match find_gen name (cf_namespace fl) l with
                      | Some i => (i, l)
                      | None => (List.length l,
                                 l ++ [mkGa (cf_namespace fl) name "" [] [] [] "" None
                                            (if secret then cf_stype fl else "")])
                      end in
      match nth_error l1 i with
      | Some a =>
          let a1 := merge_flags a files fl in
          let a2 := mkGa (ga_namespace a1) (ga_name a1) (ga_behavior a1) (ga_literals a1) (ga_files a1)
                         (ga_envs a1) (ga_env a1) (merge_global_options (ga_options a1) global) (ga_type a1) in
          if generator_valid e a2 then Ok (replace_nth i a2 l1) else Err
      | None => Err   (* unreachable *)
      end
  | _ => Err
  end.

Definition remove_generator_args (args : list string) (ns : string) (l : list genargs) : res (list genargs) :=
  match args with
  | [a] =>
      let names := split_on ","%char a in
      let hit := fun g => str_in (ga_name g) names && ns_equal (ga_namespace g) ns in
      if existsb hit l then Ok (filter (fun g => negb (hit g)) l) else Err
  | _ => Err
  end.

(* ---------- set configmap / set secret ----------
   util.UpdateLiteralSources rebuilds the literal list by ranging over a Go map: the ORDER of the
   result is not determined by the code.  [ord] is the iteration-order oracle (DESIGN §3 Perm): the
   key order the implementation produced; it must be a permutation of the keys. *)
Definition literal_kv (s : string) : res (string * string) :=
  match count_char "="%char s with
  | S O => match split_first "="%char s with Some kv => Ok kv | None => Err end
  | _ => Err
  end.

Fixpoint literal_sources (l : list string) (acc : smap) : res smap :=
  match l with
  | [] => Ok acc
  | s :: t => do kv <- literal_kv s; literal_sources t (assoc_set (fst kv) (snd kv) acc)
  end.

Fixpoint update_sources (l : list string) (acc : smap) : res smap :=
  match l with
  | [] => Ok acc
  | s :: t => do kv <- literal_kv s;
              if assoc_mem (fst kv) acc then update_sources t (assoc_set (fst kv) (snd kv) acc) else Err
  end.

(* the updated key -> value map *)
Definition updated_sources (cur flagl : list string) : res smap :=
  do m0 <- literal_sources cur [];
  update_sources flagl m0.

Definition render_sources (m : smap) (ord : list string) : list string :=
  map (fun key => (key ++ "=" ++ match assoc_get key m with Some v => v | None => "" end)%string) ord.

(* every failure of the command is independent of the iteration order, so the command is first run with the
   keys in sorted order; only a successful command consults [ord] (which the harness can observe only then) *)
Definition set_generator_args (e : env) (args flagl : list string) (ns newns : string) (ord : list string)
           (global : option genopts) (l : list genargs) : res (list genargs) :=
  match args with
  | [name] =>
      if nilb flagl && String.eqb newns "" then Err
      else
        match find_index (fun a => String.eqb name (ga_name a) && ns_equal ns (ga_namespace a)) l with
        | None => Err
        | Some i =>
            match nth_error l i with
            | Some a =>
                do m <- (if nilb flagl then Ok [] else updated_sources (ga_literals a) flagl);
                let mk := fun lits =>
                  mkGa (if String.eqb newns "" then ga_namespace a else newns) (ga_name a) (ga_behavior a)
                       lits (ga_files a) (ga_envs a) (ga_env a)
                       (merge_global_options (ga_options a) global) (ga_type a) in
                let sorted_lits := if nilb flagl then ga_literals a else render_sources m (map fst m) in
                if negb (generator_valid e (mk sorted_lits)) then Err
                else if nilb flagl then Ok (replace_nth i (mk (ga_literals a)) l)
                else if negb (strs_eqb_ops (sort_strs ord) (map fst m)) then Diverge   (* not a permutation: bad oracle *)
                else Ok (replace_nth i (mk (render_sources m ord)) l)
            | None => Err
            end
        end
  | _ => Err
  end.

(* ---------- patches ---------- *)
Definition empty_selector := mkSel "" "" "" "" "" "" "".

Definition selector_eqb (a b : selector) : bool := if selector_eq_dec a b then true else false.

Definition cli_patch (path ptch : string) (target : selector) : patch :=
  mkPatch path ptch (if selector_eqb target empty_selector then None else Some target) None.

(* Patch.Equals against a patch built from flags (its Options map is nil) *)
Definition patch_equals (p o : patch) : bool :=
  String.eqb (p_path p) (p_path o) && String.eqb (p_patch p) (p_patch o) &&
  match p_target p, p_target o with
  | None, None => true
  | Some a, Some b => selector_eqb a b
  | _, _ => false
  end &&
  match p_options p, p_options o with
  | None, None => true
  | _, _ => false          (* reflect.DeepEqual(non-nil map, nil map) is false, even when empty *)
  end.

(* ---------- set image ---------- *)
(* image.Split *)
Definition split_image (s : string) : string * string * string :=
  let slash := match str_index "/"%char s with Some (S n) => S n | _ => O end in
  let search := drop slash s in
  let id := str_index "@"%char search in
  let ic := str_index ":"%char search in
  match id, ic with
  | None, None => (s, "", "")
  | Some d, None => (take (slash + d) s, "", drop (slash + d + 1) s)
  | Some d, Some c =>
      if Nat.ltb d c then (take (slash + d) s, "", drop (slash + d + 1) s)
      else (take (slash + c) s,
            take (d - c - 1) (drop (slash + c + 1) s),
            drop (slash + d + 1) s)
  | None, Some c => (take (slash + c) s, drop (slash + c + 1) s, "")
  end.

Definition parse_image_arg (arg : string) : res image :=
  let '(key, value) := match split_first "="%char arg with
                       | Some (a, b) => (a, b)
                       | None => ("", arg)
                       end in
  let '(name, tag, digest) := split_image value in
  if String.eqb name arg then Err
  else if String.eqb key "" then Ok (mkImage name "" "" tag digest)
  else Ok (mkImage key name "" tag digest).

Definition preserve_sep := "*".

(* one existing image of the file meets the map built so far *)
Definition absorb_image (m : list (string * image)) (im : image) : list (string * image) :=
  match assoc_get (i_name im) m with
  | Some a =>
      let a1 := if String.eqb (i_newName a) preserve_sep then mkImage (i_name a) (i_newName im) "" (i_newTag a) (i_digest a) else a in
      let a2 := if String.eqb (i_newTag a1) preserve_sep then mkImage (i_name a1) (i_newName a1) "" (i_newTag im) (i_digest a1) else a1 in
      let a3 := if String.eqb (i_digest a2) preserve_sep then mkImage (i_name a2) (i_newName a2) "" (i_newTag a2) (i_digest im) else a2 in
      assoc_set (i_name im) a3 m
  | None => assoc_set (i_name im) im m
  end.

Definition unstar_image (v : image) : image :=
  let v1 := if String.eqb (i_newName v) preserve_sep then mkImage (i_name v) "" "" (i_newTag v) (i_digest v) else v in
  let v2 := if String.eqb (i_newTag v1) preserve_sep then mkImage (i_name v1) (i_newName v1) "" "" (i_digest v1) else v1 in
  if String.eqb (i_digest v2) preserve_sep then mkImage (i_name v2) (i_newName v2) "" (i_newTag v2) "" else v2.

(* the result is sorted by name; names are unique, so any correct sort gives this list *)
Definition merge_images (args : list image) (cur : list image) : list image :=
  let m0 := fold_left (fun m im => assoc_set (i_name im) im m) args [] in
  let m1 := fold_left absorb_image cur m0 in
  map (fun kv => unstar_image (snd kv)) m1.

(* ---------- set replicas ---------- *)
Definition min_int64 : Z := (- 9223372036854775808)%Z.
Definition max_int64 : Z := 9223372036854775807%Z.

(* strconv.ParseInt(s, 10, 64) *)
Definition parse_int64 (s : string) : option Z :=
  let '(neg, digits) := match s with
                        | String c rest =>
                            if Ascii.eqb c "-"%char then (true, rest)
                            else if Ascii.eqb c "+"%char then (false, rest)
                            else (false, s)
                        | EmptyString => (false, s)
                        end in
  match digits with
  | EmptyString => None
  | _ => if all_digits digits then
           let v := Z.of_N (digits_val digits 0) in
           let z := if neg then (- v)%Z else v in
           if (min_int64 <=? z)%Z && (z <=? max_int64)%Z then Some z else None
         else None
  end.

Definition parse_replica_arg (arg : string) : res replica :=
  match split_on "="%char arg with
  | [n; c] => match parse_int64 c with Some z => Ok (mkReplica n z) | None => Err end
  | _ => Err
  end.

Definition set_replicas_list (args : list replica) (cur : list replica) : list replica :=
  let m0 := fold_left (fun m r => assoc_set (r_name r) r m) args [] in
  let m1 := fold_left (fun m r => if assoc_mem (r_name r) m then m else assoc_set (r_name r) r m) cur m0 in
  map snd m1.

(* ---------- the sub-commands ---------- *)
Inductive op :=
| AddResource (pats : list string) (noverify : bool)
| AddComponent (pats : list string)
| AddBase (args : list string)
| AddTransformer (pats : list string)
| AddGenerator (pats : list string)
| RemoveResource (pats : list string)
| RemoveTransformer (pats : list string)
| AddLabel (args : list string) (force wosel tpl : bool)
| AddAnnotation (args : list string) (force : bool)
| RemoveLabel (args : list string) (ignore : bool)
| RemoveAnnotation (args : list string) (ignore : bool)
| SetLabel (args : list string)
| SetAnnotation (args : list string)
| AddBuildMetadata (args : list string)
| RemoveBuildMetadata (args : list string)
| SetBuildMetadata (args : list string)
| AddConfigMap (fl : cmflags)
| AddSecret (fl : cmflags)
| RemoveConfigMap (args : list string) (ns : string)
| RemoveSecret (args : list string) (ns : string)
| AddPatch (path ptch : string) (target : selector)
| RemovePatch (path ptch : string) (target : selector)
| SetImage (args : list string)
| SetReplicas (args : list string)
| SetNamespace (args : list string)
| SetNamePrefix (args : list string)
| SetNameSuffix (args : list string)
| SetConfigMap (args literals : list string) (ns newns : string) (ord : list string)
| SetSecret (args literals : list string) (ns newns : string) (ord : list string).

Definition wrote (k : kust) : res (option kust) := Ok (Some k).
Definition nothing : res (option kust) := Ok None.

(* add base: every path must exist and be new *)
Fixpoint add_bases (e : env) (ps cur : list string) : res (list string) :=
  match ps with
  | [] => Ok cur
  | p :: t => if negb (path_exists e p) then Err
              else if str_in p cur then Err
              else add_bases e t (cur ++ [p])
  end.

Definition add_paths (skipk : bool) (e : env) (rk : res kust) (paths : list string)
           (getf : kust -> list string) (setf : list string -> kust -> kust) : res (option kust) :=
  match paths with
  | [] => nothing
  | _ => do k <- rk;
         wrote (setf (add_missing (if skipk then Some (e_kpath e) else None) paths (getf k)) k)
  end.

Definition apply_op (e : env) (rk : res kust) (o : op) : res (option kust) :=
  match o with
  | AddResource pats noverify =>
      match pats with
      | [] => Err
      | _ => do rs <- glob_patterns_with_loader e pats noverify;
             add_paths true e rk rs k_resources set_resources
      end
  | AddComponent pats =>
      match pats with
      | [] => Err
      | _ => do rs <- glob_patterns_with_loader e pats false;
             add_paths true e rk rs k_components set_components
      end
  | AddBase args =>
      match args with
      | [a] =>
          do k <- rk;
          do l <- add_bases e (split_on ","%char a) (k_resources k);
          wrote (set_resources l k)
      | _ => Err
      end
  | AddTransformer pats =>
      match pats with
      | [] => Err
      | _ => add_paths false e rk (glob_patterns e pats) k_transformers set_transformers
      end
  | AddGenerator pats =>
      match pats with
      | [] => Err
      | _ => add_paths false e rk (glob_patterns e pats) k_generators set_generators
      end
  | RemoveResource pats =>
      match pats with
      | [] => Err
      | _ => do k <- rk;
             match remove_matching (k_resources k) pats with
             | None => nothing
             | Some l => wrote (set_resources l k)
             end
      end
  | RemoveTransformer pats =>
      match pats with
      | [] => Err
      | _ => do k <- rk;
             match remove_matching (k_transformers k) pats with
             | None => nothing
             | Some l => wrote (set_transformers l k)
             end
      end
  | AddLabel args force wosel tpl =>
      match args with
      | [] => Err
      | _ =>
          if negb wosel && tpl then Err
          else
            do md <- convert_slice_to_map args [];
            do k <- rk;
            if wosel then
              do ls <- write_to_labels (k_labels k) md force tpl;
              wrote (set_labels ls k)
            else
              do m <- write_to_map (mapo_or_empty (k_commonLabels k)) md force;
              wrote (set_commonLabels (Some m) k)
      end
  | AddAnnotation args force =>
      match args with
      | [] => Err
      | _ =>
          do md <- convert_slice_to_map args [];
          do k <- rk;
          do m <- write_to_map (mapo_or_empty (k_commonAnnotations k)) md force;
          wrote (set_commonAnnotations (Some m) k)
      end
  | RemoveLabel args ignore =>
      do ks <- parse_remove_arg args;
      do k <- rk;
      match k_commonLabels k with
      | None => if ignore then wrote k else Err
      | Some m => do m' <- remove_from_map m ks ignore; wrote (set_commonLabels (Some m') k)
      end
  | RemoveAnnotation args ignore =>
      do ks <- parse_remove_arg args;
      do k <- rk;
      match k_commonAnnotations k with
      | None => if ignore then wrote k else Err
      | Some m => do m' <- remove_from_map m ks ignore; wrote (set_commonAnnotations (Some m') k)
      end
  | SetLabel args =>
      match args with
      | [] => Err
      | _ =>
          do md <- convert_slice_to_map args [];
          do k <- rk;
          do m <- write_to_map (mapo_or_empty (k_commonLabels k)) md true;
          wrote (set_commonLabels (Some m) k)
      end
  | SetAnnotation args =>
      match args with
      | [] => Err
      | _ =>
          do md <- convert_slice_to_map args [];
          if negb (forallb (fun kv => is_valid_key (fst kv)) md) then Err
          else
            do k <- rk;
            do m <- write_to_map (mapo_or_empty (k_commonAnnotations k)) md true;
            wrote (set_commonAnnotations (Some m) k)
      end
  | AddBuildMetadata args =>
      do opts <- validate_buildmetadata args;
      do k <- rk;
      do l <- add_all_new opts (k_buildMetadata k);
      wrote (set_buildMetadata l k)
  | RemoveBuildMetadata args =>
      do opts <- validate_buildmetadata args;
      do k <- rk;
      wrote (set_buildMetadata (filter (fun o => negb (str_in o opts)) (k_buildMetadata k)) k)
  | SetBuildMetadata args =>
      do opts <- validate_buildmetadata args;
      do k <- rk;
      wrote (set_buildMetadata opts k)
  | AddConfigMap fl =>
      do files <- validate_add e fl;
      do k <- rk;
      do l <- add_generator_args e false fl files (k_generatorOptions k) (k_configMapGenerator k);
      wrote (set_configMapGenerator l k)
  | AddSecret fl =>
      do files <- validate_add e fl;
      do k <- rk;
      do l <- add_generator_args e true fl files (k_generatorOptions k) (k_secretGenerator k);
      wrote (set_secretGenerator l k)
  | RemoveConfigMap args ns =>
      match args with
      | [_] => do k <- rk;
               do l <- remove_generator_args args ns (k_configMapGenerator k);
               wrote (set_configMapGenerator l k)
      | _ => Err
      end
  | RemoveSecret args ns =>
      match args with
      | [_] => do k <- rk;
               do l <- remove_generator_args args ns (k_secretGenerator k);
               wrote (set_secretGenerator l k)
      | _ => Err
      end
  | AddPatch path ptch target =>
      if negb (String.eqb ptch "") && negb (String.eqb path "") then Err
      else if String.eqb ptch "" && String.eqb path "" then Err
      else
        do k <- rk;
        let p := cli_patch path ptch target in
        if existsb (fun q => patch_equals q p) (k_patches k) then nothing
        else wrote (set_patches (k_patches k ++ [p]) k)
  | RemovePatch path ptch target =>
      if negb (String.eqb ptch "") && negb (String.eqb path "") then Err
      else
        do k <- rk;
        let p := cli_patch path ptch target in
        let rest := filter (fun q => negb (patch_equals q p)) (k_patches k) in
        if Nat.eqb (List.length rest) (List.length (k_patches k)) then nothing
        else wrote (set_patches rest k)
  | SetImage args =>
      match args with
      | [] => Err
      | _ => do ims <- mapM parse_image_arg args;
             do k <- rk;
             wrote (set_images (merge_images ims (k_images k)) k)
      end
  | SetReplicas args =>
      match args with
      | [] => Err
      | _ => do rs <- mapM parse_replica_arg args;
             do k <- rk;
             wrote (set_replicas (set_replicas_list rs (k_replicas k)) k)
      end
  | SetNamespace args =>
      match args with
      | [a] => do k <- rk; wrote (set_namespace a k)
      | _ => Err
      end
  | SetNamePrefix args =>
      match args with
      | [a] => do k <- rk; wrote (set_namePrefix a k)
      | _ => Err
      end
  | SetNameSuffix args =>
      match args with
      | [a] => do k <- rk; wrote (set_nameSuffix a k)
      | _ => Err
      end
  | SetConfigMap args literals ns newns ord =>
      match args with
      | [_] =>
          if nilb literals && String.eqb newns "" then Err
          else do k <- rk;
               do l <- set_generator_args e args literals ns newns ord (k_generatorOptions k) (k_configMapGenerator k);
               wrote (set_configMapGenerator l k)
      | _ => Err
      end
  | SetSecret args literals ns newns ord =>
      match args with
      | [_] =>
          if nilb literals && String.eqb newns "" then Err
          else do k <- rk;
               do l <- set_generator_args e args literals ns newns ord (k_generatorOptions k) (k_secretGenerator k);
               wrote (set_secretGenerator l k)
      | _ => Err
      end
  end.

(* the fields a sub-command may change *)
Definition addressed (o : op) : list string :=
  match o with
  | AddResource _ _ | AddBase _ | RemoveResource _ => ["Resources"]
  | AddComponent _ => ["Components"]
  | AddTransformer _ | RemoveTransformer _ => ["Transformers"]
  | AddGenerator _ => ["Generators"]
  | AddLabel _ _ wosel _ => if wosel then ["Labels"] else ["CommonLabels"]
  | RemoveLabel _ _ | SetLabel _ => ["CommonLabels"]
  | AddAnnotation _ _ | RemoveAnnotation _ _ | SetAnnotation _ => ["CommonAnnotations"]
  | AddBuildMetadata _ | RemoveBuildMetadata _ | SetBuildMetadata _ => ["BuildMetadata"]
  | AddConfigMap _ | RemoveConfigMap _ _ | SetConfigMap _ _ _ _ _ => ["ConfigMapGenerator"]
  | AddSecret _ | RemoveSecret _ _ | SetSecret _ _ _ _ _ => ["SecretGenerator"]
  | AddPatch _ _ _ | RemovePatch _ _ _ => ["Patches"]
  | SetImage _ => ["Images"]
  | SetReplicas _ => ["Replicas"]
  | SetNamespace _ => ["Namespace"]
  | SetNamePrefix _ => ["NamePrefix"]
  | SetNameSuffix _ => ["NameSuffix"]
  end.

