(* One `kustomize edit <sub-command>` invocation on a kustomization file:
     kustfile.Read (Unmarshal, FixKustomization, parseCommentedFields) -> sub-command -> kustfile.Write.
   go-yaml is external: [U] is Kustomization.Unmarshal on the file's bytes, [R k n] the lines of
   yaml.Marshal of the struct holding only field n of k (marshalField after its emptiness test).
   Definitions only. *)
From KV Require Export Edit.Kustfile Edit.YamlView Edit.Ops.
Local Open Scope list_scope.

(* marshalField: empty or unknown fields give no bytes *)
Definition render_field (R : kust -> string -> list line) (k : kust) (n : string) : list line :=
  if is_empty n k then [] else R k n.

Definition read_typed (U : file -> res kust) (f : file) : res kust :=
  do k <- U f; Ok (fix_kustomization k).

Definition write_file (R : kust -> string -> list line) (f : file) (k : kust) : file :=
  mkFile (marshal (parse_commented_fields f) (trailing_kept f) (render_field R k)) None.

(* Domain of the go-yaml round-trip assumption for one write = the guards of C17_yaml_comments_of_write:
   every comment line marshal re-emits is [plain] (blank or '#' in column 0) and every rendered field is
   clean in the YAML view (comment-looking lines only INSIDE its block scalars).  Outside it a re-emitted
   indented comment can be lexed as scalar content (the two block-scalar findings). *)
Definition write_is_plain (R : kust -> string -> list line) (f : file) (k : kust) : bool :=
  forallb plain_comment (kept_comments (parse_commented_fields f) ++ trailing_kept f) &&
  forallb (fun n => rendering_clean (render_field R k n)) gen_field_order.

(* the command line tool: outcome class and the file afterwards *)
Definition edit_file (e : env) (U : file -> res kust) (R : kust -> string -> list line)
           (f : file) (o : op) : oclass * file :=
  match apply_op e (read_typed U f) o with
  | Ok (Some k') => (COk, write_file R f k')
  | Ok None => (COk, f)
  | Err => (CErr, f)
  | Panic => (CPanic, f)
  | Diverge => (CDiverge, f)
  end.

Definition edit_files (e : env) U R (f : file) (ops : list op) : file :=
  fold_left (fun f o => snd (edit_file e U R f o)) ops f.

(* the in-memory model of the property: the typed record only.
   After a write the next Read sees canon (empty maps are not serialised) and runs Fix again. *)
Definition model_step (e : env) (k : kust) (o : op) : kust :=
  match apply_op e (Ok k) o with
  | Ok (Some k') => fix_kustomization (canon k')
  | _ => k
  end.

Definition model_ops (e : env) (k : kust) (ops : list op) : kust := fold_left (model_step e) ops k.
