(* Model of kustomize/commands/internal/kustfile/kustomizationfile.go — the text side:
     parseCommentedFields, findMatchedField, isCommentOrBlankLine, marshal, hasField.
   A file is the list of its newline-terminated lines (each WITHOUT the terminator) plus the
   optional unterminated tail (the bytes after the last '\n', which `ReadBytes` returns together
   with io.EOF and which the scanning loop therefore never looks at).
   The typed side (Unmarshal / yaml.Marshal of one field) is external (go-yaml): it enters
   through the [render] argument here and through the record of Edit/Kust.v.
   Definitions only; proofs are in Edit/KustfileProofs.v. *)
From KV Require Export Base.Prelude.
From KV Require Export Gen.KustFields.

Local Open Scope list_scope.

Definition line := string.

Record file := mkFile {
  f_lines : list line;          (* terminated lines, terminator removed *)
  f_tail : option line          (* Some s: unterminated last line s (s <> "") *)
}.

(* ---------- isCommentOrBlankLine ---------- *)
(* bytes.TrimLeft(line, " ") then TrimRight "\n": blank, or first byte '#'.  Only the space
   character is trimmed (a tab-indented comment is NOT a comment line for this function). *)
Fixpoint trim_left_sp (s : string) : string :=
  match s with
  | String c s' => if Ascii.eqb c " "%char then trim_left_sp s' else s
  | EmptyString => EmptyString
  end.

Definition is_comment_or_blank (l : line) : bool :=
  match trim_left_sp l with
  | EmptyString => true
  | String c _ => Ascii.eqb c "#"%char
  end.

(* ---------- findMatchedField ---------- *)
(* regexp "^((?i)Field):" for Field ranging over fieldMarshallingOrder, first match wins.
   Field names are alphanumeric (Gen obligation), so the regexp is a literal; (?i) is modelled
   as ASCII case folding (Go additionally folds U+212A / U+017F onto k / s: lines that start
   with those code points are outside the model's domain). *)
Definition lower (c : ascii) : ascii :=
  let n := N_of_ascii c in
  if (65 <=? n)%N && (n <=? 90)%N then ascii_of_N (n + 32) else c.

(* strip p from the front of s, comparing case-insensitively; returns the rest *)
Fixpoint strip_prefix_ci (p s : string) : option string :=
  match p with
  | EmptyString => Some s
  | String a p' =>
      match s with
      | String b s' => if Ascii.eqb (lower a) (lower b) then strip_prefix_ci p' s' else None
      | EmptyString => None
      end
  end.

Definition line_matches_field (go_name : string) (l : line) : bool :=
  match strip_prefix_ci go_name l with
  | Some (String c _) => Ascii.eqb c ":"%char
  | _ => false
  end.

Definition find_matched_field_in (order : list string) (l : line) : option string :=
  find (fun n => line_matches_field n l) order.

Definition find_matched_field (l : line) : option string :=
  find_matched_field_in gen_field_order l.

(* ---------- parseCommentedFields ---------- *)
Record cfield := mkCf { cf_field : string; cf_comment : list line }.

(* [rf]: originalFields, most recent first; [pending]: the `comments` variable.
   Returns originalFields in file order and the comments still pending at EOF — those are
   the ones the Go code silently forgets. *)
Fixpoint pcf_loop (ls : list line) (rf : list cfield) (pending : list line)
  : list cfield * list line :=
  match ls with
  | [] => (rev rf, pending)
  | l :: t =>
      if is_comment_or_blank l then pcf_loop t rf (pending ++ [l])
      else
        match find_matched_field l with
        | Some f => pcf_loop t (mkCf f pending :: rf) []
        | None =>
            match pending, rf with
            | _ :: _, last :: rest =>
                pcf_loop t (mkCf (cf_field last) (cf_comment last ++ pending) :: rest) []
            | _, _ => pcf_loop t rf pending
            end
        end
  end.

Definition parse_commented_fields (f : file) : list cfield := fst (pcf_loop (f_lines f) [] []).

(* mf.trailingComments (since /repo commit f15d834): the comment lines still pending at EOF, plus an
   unterminated comment tail (which is written back newline-terminated).  Before that commit these
   lines were silently forgotten (finding `trailing-comment-dropped`, now fixed). *)
Definition trailing_kept (f : file) : list line :=
  snd (pcf_loop (f_lines f) [] []) ++
  match f_tail f with
  | Some s => if is_comment_or_blank s then [s] else []
  | None => []
  end.

(* every comment-or-blank line of the file, in order *)
Definition comment_lines (f : file) : list line :=
  filter is_comment_or_blank (f_lines f) ++
  match f_tail f with
  | Some s => if is_comment_or_blank s then [s] else []
  | None => []
  end.

(* ---------- marshal ---------- *)
Definition has_field (orig : list cfield) (n : string) : bool :=
  existsb (fun c => String.eqb (cf_field c) n) orig.

(* [render n]: the lines of marshalField(n, kustomization) — [] when the field is empty/unknown.
   Original fields with their comments, then the trailing comments, then the remaining fields in
   fieldMarshallingOrder. *)
Definition marshal_in (order : list string) (orig : list cfield) (trailing : list line)
           (render : string -> list line) : list line :=
  flat_map (fun c => cf_comment c ++ render (cf_field c)) orig ++
  trailing ++
  flat_map (fun n => if has_field orig n then [] else render n) order.

Definition marshal (orig : list cfield) (trailing : list line) (render : string -> list line) : list line :=
  marshal_in gen_field_order orig trailing render.

(* the comments attached to fields, in output order *)
Definition kept_comments (orig : list cfield) : list line := flat_map cf_comment orig.

(* ---------- comment lines that YAML also reads as comments wherever they are re-emitted ----------
   isCommentOrBlankLine is a per-line test; YAML decides per context: a line such as "    # x" is a
   comment between two top-level fields but CONTENT when it follows a block scalar of indentation
   <= 4.  A comment line is [plain] when it is blank (spaces only) or has its '#' in column 0:
   such a line ends any block scalar and is a YAML comment in every position marshal can put it. *)
Definition plain_comment (l : line) : bool :=
  match trim_left_sp l with
  | EmptyString => true
  | _ => match l with String c _ => Ascii.eqb c "#"%char | EmptyString => true end
  end.

(* ---------- bytes <-> lines (used by the harness side of the correspondence only) ---------- *)
Definition nl : string := String (ascii_of_N 10) EmptyString.

Fixpoint unlines (ls : list line) : string :=
  match ls with
  | [] => EmptyString
  | l :: t => (l ++ nl ++ unlines t)%string
  end.

Definition file_bytes (f : file) : string :=
  (unlines (f_lines f) ++ match f_tail f with Some s => s | None => EmptyString end)%string.
