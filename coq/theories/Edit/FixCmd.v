(* `kustomize edit fix` (kustomize/commands/edit/fix/fix.go: RunFix without --vars) on a file:
   Read -> FixKustomizationPreMarshalling -> Write.  The two builds RunFix performs before and after
   only print warnings and are not modelled.  Definitions only. *)
From KV Require Export Edit.Cmd.
Local Open Scope list_scope.

Definition fix_cmd (e : env) (rk : res kust) : res (option kust) :=
  do k <- rk; do k' <- fix_premarshal (file_exists e) k; Ok (Some k').

Definition fix_file (e : env) (U : file -> res kust) (R : kust -> string -> list line) (f : file)
  : oclass * file :=
  match fix_cmd e (read_typed U f) with
  | Ok (Some k') => (COk, write_file R f k')
  | Ok None => (COk, f)
  | Err => (CErr, f)
  | Panic => (CPanic, f)
  | Diverge => (CDiverge, f)
  end.

