(* `kustomize edit fix` (kustomize/commands/edit/fix/fix.go: RunFix without --vars) on a file:
   Read -> FixKustomizationPreMarshalling -> Write.  The two builds RunFix performs before and after
   only print warnings and are not modelled.  Definitions only. *)
From KV Require Export Edit.Cmd.
Local Open Scope list_scope.

Definition fix_cmd (e : env) (rk : res kust) : res (option kust) :=
  do k <- rk; do k' <- fix_premarshal (file_exists e) k; Ok (Some k').

Definition fix_file (e : env) (U : file -> res kust) (R : kust -> string -> list line) (f : file)
  : oclass * file :=
  match fix_cmd e (read_typed U f) with
  | Ok (Some k') => (COk, write_file R f k')
  | Ok None => (COk, f)
  | Err => (CErr, f)
  | Panic => (CPanic, f)
  | Diverge => (CDiverge, f)
  end.


(* ---------- `kustomize edit fix --vars` (RunFix with flags.vars; convert.go) ----------
   ConvertVarsToReplacements reads and rewrites the RESOURCE files of the tree (YAML walking, placeholder
   substitution): that part is not modelled.  What it does to the kustomization enters as an oracle:
     VFail        the conversion failed (an occurrence that is not delimited, ...): nothing is written;
     VOk tok      it succeeded; tok = JSON of the replacements it produced (None: empty list).
   Modelled: it only runs when the file has vars, appends bases to resources, sets `replacements:` to the
   oracle token (since the repair U2-fix-vars-keep-replacements: the entries the file had followed by the
   converted vars; the harness checks that prefix on the implementation), removes `vars:`; and where the
   fields then go in the rewritten file. *)
Inductive vars_oracle := VFail | VOk (tok : option string).

Fixpoint rank_of (n : string) (l : list string) : nat :=
  match l with
  | [] => O
  | x :: t => if String.eqb x n then O else S (rank_of n t)
  end.

Definition other_remove (n : string) (l : list (string * string)) : list (string * string) :=
  filter (fun kv => negb (String.eqb (fst kv) n)) l.

(* k_other is kept in the order of Kust.opaque_fields *)
Fixpoint other_insert (n v : string) (l : list (string * string)) : list (string * string) :=
  match l with
  | [] => [(n, v)]
  | (m, w) :: t =>
      if String.eqb m n then (n, v) :: t
      else if Nat.ltb (rank_of n opaque_fields) (rank_of m opaque_fields) then (n, v) :: (m, w) :: t
      else (m, w) :: other_insert n v t
  end.

Definition fix_vars_cmd (e : env) (rk : res kust) (vo : vars_oracle) : res (option kust) :=
  do k <- rk;
  do k' <- fix_premarshal (file_exists e) k;
  match assoc_get "Vars" (k_other k') with
  | None => Ok (Some k')                       (* k.Vars == nil: nothing to convert *)
  | Some _ =>
      match vo with
      | VFail => Err
      | VOk tok =>
          let o1 := other_remove "Vars" (other_remove "Replacements" (k_other k')) in
          let o2 := match tok with Some t => other_insert "Replacements" t o1 | None => o1 end in
          Ok (Some (set_other o2 (set_resources (k_resources k' ++ k_bases k') k')))
      end
  end.
