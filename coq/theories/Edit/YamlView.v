(* The YAML view of a kustomization file's lines (specification only — the CURRENT scanner of
   kustomizationfile.go tests every line on its own, see Edit/Kustfile.v).
   A comment-looking line is a comment for YAML only OUTSIDE block scalars.  [strip_blocks] removes the
   content lines of block scalars (`key: |`, `- >-`, ... followed by blank or deeper-indented lines);
   [yaml_comment_lines] are the comment-looking lines that remain.  This is the vocabulary in which the two
   block-scalar findings of C17 are characterised exactly (Edit/YamlViewProofs.v):
     comment-line-absorbed-into-block-scalar        = the file has a comment-looking line INSIDE a block scalar
                                                      ([scalar_comment_lines] non-empty: the scanner takes it);
     indented-comment-relocated-behind-block-scalar = a comment the rewrite relocates is indented (not [plain]).
   Definitions only. *)
From KV Require Export Edit.Kustfile.
Local Open Scope list_scope.

Definition leading_spaces (l : line) : nat := String.length l - String.length (trim_left_sp l).

Definition is_blank_line (l : line) : bool :=
  match trim_left_sp l with EmptyString => true | _ => false end.

Fixpoint drop_while (p : ascii -> bool) (s : string) : string :=
  match s with
  | String c s' => if p c then drop_while p s' else s
  | EmptyString => EmptyString
  end.

Definition is_indicator (c : ascii) : bool :=
  let n := N_of_ascii c in (n =? 43)%N || (n =? 45)%N || ((49 <=? n)%N && (n <=? 57)%N).

Definition is_sp_or_cr (c : ascii) : bool :=
  let n := N_of_ascii c in (n =? 32)%N || (n =? 13)%N.

(* skip spaces, counting columns *)
Fixpoint skip_spaces (s : string) (col : nat) : string * nat :=
  match s with
  | String c s' => if Ascii.eqb c " "%char then skip_spaces s' (S col) else (s, col)
  | EmptyString => (s, col)
  end.

(* the "- " markers in front of the key: remaining text, its column, column of the last dash *)
Fixpoint dash_loop (fuel : nat) (s : string) (col : nat) (dash : option nat) : string * nat * option nat :=
  match fuel with
  | O => (s, col, dash)
  | S f =>
      match s with
      | String c rest =>
          if Ascii.eqb c "-"%char &&
             match rest with EmptyString => true | String d _ => Ascii.eqb d " "%char end
          then let '(rest', col') := skip_spaces rest (S col) in dash_loop f rest' col' (Some col)
          else (s, col, dash)
      | EmptyString => (s, col, dash)
      end
  end.

Fixpoint last_ascii (s : string) : option ascii :=
  match s with
  | EmptyString => None
  | String c EmptyString => Some c
  | String _ s' => last_ascii s'
  end.

Definition block_scalar_start (l : line) : option nat :=
  let r1 := drop_while is_sp_or_cr (str_rev l) in
  let r2 := match r1 with
            | String a t => if is_indicator a
                            then match t with
                                 | String b t' => if is_indicator b then t' else t
                                 | EmptyString => t
                                 end
                            else r1
            | EmptyString => r1
            end in
  match r2 with
  | String c (String sp rest) =>
      if (Ascii.eqb c "|"%char || Ascii.eqb c ">"%char) && Ascii.eqb sp " "%char then
        let head := str_rev (drop_while (fun x => Ascii.eqb x " "%char) rest) in
        let '(h1, col0) := skip_spaces head 0 in
        let '(h2, col, dash) := dash_loop (String.length head) h1 col0 None in
        match h2 with
        | EmptyString => dash                         (* `- |`: the scalar is a sequence entry *)
        | _ => match last_ascii head with
               | Some z => if Ascii.eqb z ":"%char then Some col else None
               | None => None
               end
        end
      else None
  | _ => None
  end.

(* does the scalar go on after these (blank) lines: the first non-blank line is indented deeper *)
Fixpoint continues (ind : nat) (ls : list line) : bool :=
  match ls with
  | [] => false
  | l :: t => if is_blank_line l then continues ind t else Nat.ltb ind (leading_spaces l)
  end.

(* the lines the comment scanner looks at: block scalar content removed.  [blk]: inside a block scalar
   owned by a node of that indentation.  Returns the final state too (for the unterminated tail). *)
Fixpoint strip_blocks (blk : option nat) (ls : list line) : list line * option nat :=
  match ls with
  | [] => ([], blk)
  | l :: t =>
      let outside :=
        let blk' := if is_comment_or_blank l then None else block_scalar_start l in
        let '(r, b) := strip_blocks blk' t in (l :: r, b) in
      match blk with
      | None => outside
      | Some ind =>
          if is_blank_line l then
            if continues ind t then strip_blocks blk t
            else let '(r, b) := strip_blocks blk t in (l :: r, b)   (* held back, released when the scalar ends *)
          else if Nat.ltb ind (leading_spaces l) then strip_blocks blk t
          else outside
      end
  end.


Definition nilb_lines (l : list line) : bool := match l with [] => true | _ => false end.

(* the comment-looking lines outside block scalars: what YAML reads as comments *)
Definition yaml_comment_lines (ls : list line) : list line :=
  filter is_comment_or_blank (fst (strip_blocks None ls)).

(* shape 1: some comment-looking line lies inside a block scalar (the per-line scanner collects it) *)
Definition has_scalar_comment_line (ls : list line) : Prop :=
  filter is_comment_or_blank ls <> yaml_comment_lines ls.

(* a rendered field as YAML sees it: header in column 0, no comment outside its block scalars, no trailing blank *)
Definition clean_rendering (r : list line) : Prop :=
  match r with
  | [] => True
  | h :: _ =>
      leading_spaces h = 0 /\ is_comment_or_blank h = false /\
      yaml_comment_lines r = [] /\
      is_blank_line (last r h) = false
  end.

Definition plain_comments (c : list line) : Prop :=
  Forall (fun l => is_comment_or_blank l = true /\ plain_comment l = true) c.

(* boolean version of [clean_rendering], used by the correspondence *)
Definition rendering_clean (r : list line) : bool :=
  match r with
  | [] => true
  | h :: _ =>
      Nat.eqb (leading_spaces h) 0 && negb (is_comment_or_blank h) &&
      nilb_lines (yaml_comment_lines r) &&
      negb (is_blank_line (last r h))
  end.
