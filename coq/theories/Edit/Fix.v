(* Model of api/types/kustomization.go: FixKustomization (run by every Read of a kustomization
   file, by `kustomize build` and by `edit`) and FixKustomizationPreMarshalling (run by
   `kustomize edit fix`), plus labels.go: labelFromCommonLabels.
   Helm fields are outside the model (see Edit/Kust.v).  Definitions only. *)
From KV Require Export Edit.Kust.
Local Open Scope list_scope.

Definition KustomizationVersion := "kustomize.config.k8s.io/v1beta1".
Definition KustomizationKind := "Kustomization".
Definition ComponentVersion := "kustomize.config.k8s.io/v1alpha1".
Definition ComponentKind := "Component".

(* generator args: `env: x` becomes one more entry of `envs` *)
Definition fix_env (g : genargs) : genargs :=
  if String.eqb (ga_env g) "" then g
  else mkGa (ga_namespace g) (ga_name g) (ga_behavior g) (ga_literals g) (ga_files g)
            (ga_envs g ++ [ga_env g]) "" (ga_options g) (ga_type g).

Definition fix_kustomization (k : kust) : kust :=
  let kind := if String.eqb (k_kind k) "" then KustomizationKind else k_kind k in
  let apiv := if String.eqb (k_apiVersion k) ""
              then (if String.eqb kind ComponentKind then ComponentVersion else KustomizationVersion)
              else k_apiVersion k in
  mkKust apiv kind (k_namePrefix k) (k_nameSuffix k) (k_namespace k)
    (k_commonLabels k) (k_labels k) (k_commonAnnotations k)
    (k_patchesSM k) (k_patchesJson k) (k_patches k)
    (k_images k ++ k_imageTags k) [] (k_replicas k)
    (k_resources k ++ k_bases k) (k_components k) []
    (map fix_env (k_configMapGenerator k)) (map fix_env (k_secretGenerator k))
    (k_generatorOptions k)
    (k_generators k) (k_transformers k) (k_buildMetadata k) (k_other k).

(* the rewrite a user (or `edit fix`) performs by hand for the load-time spellings:
   it is literally what FixKustomization does, so [rewrite_load = fix_kustomization] on the
   fields concerned; kept as a separate name for the C19 statements. *)
Definition rewrite_load (k : kust) : kust :=
  mkKust (k_apiVersion k) (k_kind k) (k_namePrefix k) (k_nameSuffix k) (k_namespace k)
    (k_commonLabels k) (k_labels k) (k_commonAnnotations k)
    (k_patchesSM k) (k_patchesJson k) (k_patches k)
    (k_images k ++ k_imageTags k) [] (k_replicas k)
    (k_resources k ++ k_bases k) (k_components k) []
    (map fix_env (k_configMapGenerator k)) (map fix_env (k_secretGenerator k))
    (k_generatorOptions k)
    (k_generators k) (k_transformers k) (k_buildMetadata k) (k_other k).

(* labelFromCommonLabels *)
Definition label_from_common (cl : option smap) : option label :=
  match cl with
  | None | Some [] => None
  | Some m => Some (mkLabel (Some m) true false None)
  end.

Definition pairs_keys (l : label) : list string :=
  match l_pairs l with Some m => map fst m | None => [] end.

(* some key of some `labels` entry is also a commonLabels key *)
Definition labels_conflict (ls : list label) (cl : smap) : bool :=
  existsb (fun l => existsb (fun key => assoc_mem key cl) (pairs_keys l)) ls.

(* FixKustomizationPreMarshalling; [readable p]: fSys.ReadFile(p) succeeds *)
Definition fix_premarshal (readable : string -> bool) (k : kust) : res kust :=
  let ps1 := k_patches k ++ k_patchesJson k in
  let ps2 := ps1 ++ map (fun s => if readable s then mkPatch s "" None None
                                  else mkPatch "" s None None) (k_patchesSM k) in
  let k1 := set_patchesSM [] (set_patchesJson [] (set_patches ps2 k)) in
  match label_from_common (k_commonLabels k) with
  | None => Ok k1
  | Some cl =>
      if labels_conflict (k_labels k) (match l_pairs cl with Some m => m | None => [] end)
      then Err
      else Ok (set_commonLabels None (set_labels (k_labels k ++ [cl]) k1))
  end.
