(* C19, theorem side over the integrated pipeline model (Res/Pipeline.v): `kustomize edit fix`
   (Edit/Fix.v: fix_premarshal, the function the C19 correspondence compares with the real command)
   does not change the build, for the directives the pipeline model has.
   [to_pdirs] projects a kustomization record of Edit/Kust.v onto the pipeline's directive syntax
   (namespace, namePrefix, nameSuffix, labels, commonLabels, commonAnnotations, literal-only
   configMap/secret generators, generatorOptions, replicas, images and — through a loader parameter, since
   Edit/Kust.v keeps patch texts opaque — strategic-merge `patches:` entries); records using anything else
   are outside the domain.  The deprecated patchesStrategicMerge / patchesJson6902 have no transformer in the
   pipeline model: they must be empty (see C19_fix_patch_spelling_refuted for why that guard is needed). *)
From KV Require Import Edit.Cmd Edit.FixCmd Edit.FixProofs.
From KV Require Import Res.Pipeline Res.PipelineProofs.
From KV Require Res.PipelinePatchProofs Res.Replica Res.Image.
Local Open Scope list_scope.

Definition to_label_dir (l : label) : option Labels.label_dir :=
  match l_fields l with
  | Some _ => None                                   (* custom `fields:` are opaque in Edit/Kust.v *)
  | None => Some (Labels.mkLD (mapo_or_empty (l_pairs l)) (l_inclSel l) (l_inclTpl l) [])
  end.

Fixpoint opt_all {A B} (f : A -> option B) (l : list A) : option (list B) :=
  match l with
  | [] => Some []
  | x :: t => match f x, opt_all f t with Some y, Some ys => Some (y :: ys) | _, _ => None end
  end.

Definition to_pgen (a : genargs) : option pgen :=
  if nilb (ga_files a) && nilb (ga_envs a) && String.eqb (ga_env a) "" then
    match ga_options a with
    | None => Some (mkPGen (ga_name a) (ga_namespace a) (ga_behavior a) (ga_literals a) (ga_type a) false [] [] false)
    | Some o => if Kust.go_immutable o then None
                else Some (mkPGen (ga_name a) (ga_namespace a) (ga_behavior a) (ga_literals a) (ga_type a) true
                                  (mapo_or_empty (Kust.go_labels o)) (mapo_or_empty (Kust.go_annotations o)) (go_disableHash o))
    end
  else None.

Definition to_pgopts (g : option genopts) : option (option pgopts) :=
  match g with
  | None => Some None
  | Some o => if Kust.go_immutable o then None
              else Some (Some (mkPGopts (mapo_or_empty (Kust.go_labels o)) (mapo_or_empty (Kust.go_annotations o)) (go_disableHash o)))
  end.

(* the record uses only directives the pipeline model has (resources / bases are the tree's entries).
   imageTags is empty on every loaded record (FixKustomization). *)
Definition only_pipe_directives (k : kust) : bool :=
  nilb (k_patchesSM k) && nilb (k_patchesJson k) &&
  nilb (k_imageTags k) && nilb (k_components k) &&
  nilb (k_generators k) && nilb (k_transformers k) && nilb (k_buildMetadata k) && nilb (k_other k).

Definition to_pimage (i : Kust.image) : Image.image :=
  Image.mkImage (i_name i) (i_newName i) (i_tagSuffix i) (i_newTag i) (i_digest i).

Section Project.
  (* the patch loader: path / inline text -> documents, target -> selector, observed schema projection;
     None for what the pipeline model does not have (JSON6902 texts, options) *)
  Variable L : patch -> option ppatch.
  (* strconv.FormatInt(count, 10) *)
  Variable F : Z -> string.

  Definition to_pdirs (k : kust) : option pdirs :=
    if only_pipe_directives k then
      match opt_all to_label_dir (k_labels k), opt_all to_pgen (k_configMapGenerator k),
            opt_all to_pgen (k_secretGenerator k), to_pgopts (k_generatorOptions k), opt_all L (k_patches k) with
      | Some ls, Some cms, Some secs, Some go, Some ps =>
          Some (mkPDirsP (k_namespace k) (k_namePrefix k) (k_nameSuffix k) ls
                         (mapo_or_empty (k_commonLabels k)) (mapo_or_empty (k_commonAnnotations k)) cms secs go
                         (map (fun r => Replica.mkReplica (r_name r) (F (r_count r))) (k_replicas k))
                         (map to_pimage (k_images k)) ps)
      | _, _, _, _, _ => None
      end
    else None.

Lemma opt_all_app {A B} (f : A -> option B) l1 l2 ys1 ys2 :
  opt_all f l1 = Some ys1 -> opt_all f l2 = Some ys2 -> opt_all f (l1 ++ l2) = Some (ys1 ++ ys2).
Proof.
  revert ys1. induction l1 as [|x t IH]; simpl; intros ys1 H1 H2.
  - injection H1 as H1. subst. exact H2.
  - destruct (f x); [|discriminate]. destruct (opt_all f t) as [ys|]; [|discriminate].
    injection H1 as H1. subst. rewrite (IH ys eq_refl H2). reflexivity.
Qed.

  (* the tie: on the pipeline's directives, FixKustomizationPreMarshalling IS the respelling whose
     build-invariance the pipeline model proves *)
  Lemma to_pdirs_fix readable k k' d :
    to_pdirs k = Some d -> fix_premarshal readable k = Ok k' -> to_pdirs k' = Some (respell d).
  Proof.
    unfold to_pdirs. intros Hd Hf.
    destruct (only_pipe_directives k) eqn:Ho; [|discriminate].
    destruct (opt_all to_label_dir (k_labels k)) as [ls|] eqn:El; [|discriminate].
    destruct (opt_all to_pgen (k_configMapGenerator k)) as [cms|] eqn:Ec; [|discriminate].
    destruct (opt_all to_pgen (k_secretGenerator k)) as [secs|] eqn:Es; [|discriminate].
    destruct (to_pgopts (k_generatorOptions k)) as [go|] eqn:Eg; [|discriminate].
    destruct (opt_all L (k_patches k)) as [ps|] eqn:Ep; [|discriminate].
    injection Hd as Hd. subst d.
    pose proof Ho as Ho'. unfold only_pipe_directives in Ho.
    repeat (apply andb_prop in Ho; destruct Ho as [Ho ?]).
    destruct (k_patchesSM k) eqn:P1; [|discriminate]. destruct (k_patchesJson k) eqn:P2; [|discriminate].
    unfold fix_premarshal in Hf. cbv zeta in Hf. rewrite P1, P2 in Hf. cbn [map] in Hf. rewrite !app_nil_r in Hf.
    unfold respell. cbn [pd_common_labels pd_ns pd_prefix pd_suffix pd_labels pd_common_annos pd_cmgens pd_secgens pd_genopts pd_replicas pd_images pd_patches].
    assert (forall v cl, only_pipe_directives
              (set_commonLabels cl (set_labels v (set_patchesSM [] (set_patchesJson [] (set_patches (k_patches k) k))))) = true) as O2.
    { intros v cl. unfold only_pipe_directives. cbn.
      repeat match goal with HH : nilb _ = true |- _ => rewrite HH; clear HH end. reflexivity. }
    assert (only_pipe_directives (set_patchesSM [] (set_patchesJson [] (set_patches (k_patches k) k))) = true) as O1.
    { unfold only_pipe_directives. cbn.
      repeat match goal with HH : nilb _ = true |- _ => rewrite HH; clear HH end. reflexivity. }
    destruct (k_commonLabels k) as [[|p t]|] eqn:Ecl; cbn [label_from_common mapo_or_empty] in *.
    - injection Hf as Hf. subst k'. rewrite O1.
      cbn -[opt_all to_label_dir to_pgen to_pgopts]. rewrite Ecl, El, Ec, Es, Eg, Ep. reflexivity.
    - cbn [l_pairs] in Hf.
      destruct (labels_conflict (k_labels k) (p :: t)); [discriminate|]. injection Hf as Hf. subst k'.
      rewrite O2. cbn -[opt_all to_label_dir to_pgen to_pgopts].
      match goal with
      | |- context [opt_all to_label_dir ?l] =>
          assert (opt_all to_label_dir l = Some (ls ++ [Labels.mkLD (p :: t) true false []])) as E
              by (apply opt_all_app; [exact El|reflexivity])
      end.
      rewrite E, Ec, Es, Eg, Ep. reflexivity.
    - injection Hf as Hf. subst k'. rewrite O1.
      cbn -[opt_all to_label_dir to_pgen to_pgopts]. rewrite Ecl, El, Ec, Es, Eg, Ep. reflexivity.
  Qed.
End Project.

(* respelling ONE layer (the hand rewrite labels ++ [{pairs: commonLabels, includeSelectors: true}]) never
   changes the build — unconditionally, i.e. also when a labels entry and commonLabels define the same key
   with different values (the case `edit fix` refuses) *)
Lemma build_respell_layer nonstr o n d ents :
  build nonstr o (PDir n (respell d) ents) = build nonstr o (PDir n d ents).
Proof.
  assert (accumulate nonstr (PDir n (respell d) ents) = accumulate nonstr (PDir n d ents)) as E.
  { rewrite !accumulate_dir. rewrite is_empty_respell. destruct (is_empty_kust d ents); [reflexivity|].
    destruct (acc_list (accumulate nonstr) ents []) as [m0| | |]; cbn [bind]; try reflexivity.
    rewrite run_generators_respell. destruct (run_generators nonstr d m0); cbn [bind]; try reflexivity.
    apply run_transformers_respell. }
  unfold build. cbv beta iota. rewrite E. reflexivity.
Qed.

(* `kustomize edit fix` on a layer preserves the build, for every tree below it *)
Theorem fix_preserves_build L F nonstr o n ents readable k k' d :
  to_pdirs L F k = Some d -> fix_premarshal readable k = Ok k' ->
  exists d', to_pdirs L F k' = Some d' /\
             build nonstr o (PDir n d' ents) = build nonstr o (PDir n d ents).
Proof.
  intros Hd Hf. exists (respell d). split; [exact (to_pdirs_fix L F readable k k' d Hd Hf)|].
  apply build_respell_layer.
Qed.

(* why patchesStrategicMerge must be empty in the guard: the finding PIPE/patch-spelling.  A targeted `patches:`
   entry goes through resWrangler.ApplySmPatch — the path the deprecated patchesStrategicMerge takes as well —
   which rewrites the patch's labels/annotations through map[string]string; the target-less entry that `edit
   fix` writes applies the document as written.  On w-pipe's witness tree the two builds differ. *)
Lemma fix_patch_spelling_refuted :
  Res.PipelinePatchProofs.labels_of
    (build (fun s => String.eqb s "1") PSortNone (Res.PipelinePatchProofs.spelling_tree None)) <>
  Res.PipelinePatchProofs.labels_of
    (build (fun s => String.eqb s "1") PSortNone
           (Res.PipelinePatchProofs.spelling_tree (Some Res.PipelinePatchProofs.kind_only))).
Proof.
  rewrite Res.PipelinePatchProofs.spelling_without_target, Res.PipelinePatchProofs.spelling_with_target.
  discriminate.
Qed.

(* non-vacuity: a record in the domain on which fix really rewrites *)
Example fix_pipe_example :
  let k := Kust.set_commonLabels (Some [("app", "x")])
             (Kust.set_labels [mkLabel (Some [("tier", "y")]) false true None]
             (Kust.set_configMapGenerator [mkGa "" "cm" "" ["a=b"] [] [] "" None ""]
             (Kust.set_namespace "prod" empty_kust))) in
  forall L F, exists d k', to_pdirs L F k = Some d /\ fix_premarshal (fun _ => false) k = Ok k' /\
               to_pdirs L F k' = Some (respell d) /\ respell d <> d.
Proof.
  cbn zeta. intros L F. eexists. eexists. split; [cbv; reflexivity|]. split; [vm_compute; reflexivity|].
  split; [cbv; reflexivity|]. cbv. discriminate.
Qed.

(* non-vacuity with the directives added in this round: a layer with a `patches:` entry, images and replicas *)
Example fix_pipe_example_patches :
  let k := Kust.set_commonLabels (Some [("app", "x")])
             (Kust.set_patches [mkPatch "p.yaml" "" None None]
             (Kust.set_images [Kust.mkImage "nginx" "" "" "1.2" ""]
             (Kust.set_replicas [Kust.mkReplica "web" 3%Z] empty_kust))) in
  let L := fun _ : patch => Some (mkPPatch [Map [("kind", Scalar TNone SPlain "Deployment")]] None []) in
  let F := fun _ : Z => "3" in
  exists d k', to_pdirs L F k = Some d /\ fix_premarshal (fun _ => true) k = Ok k' /\
               to_pdirs L F k' = Some (respell d) /\
               List.length (pd_patches d) = 1 /\ List.length (pd_images d) = 1 /\ List.length (pd_replicas d) = 1 /\
               respell d <> d.
Proof.
  cbn zeta. eexists. eexists. split; [cbv; reflexivity|]. split; [vm_compute; reflexivity|].
  split; [cbv; reflexivity|]. repeat split; cbv; try reflexivity. discriminate.
Qed.
