(* Proofs about the typed edit commands (Edit/Ops.v): frame, invariants. *)
From KV Require Import Edit.Ops Edit.AssocProofs.
Local Open Scope list_scope.

(* ---------- get / set ---------- *)
Ltac get_set_other :=
  intros n v k H; unfold get; cbn -[String.eqb]; rewrite H; reflexivity.

Lemma gso_apiVersion : forall n v k, String.eqb n "APIVersion" = false -> get n (set_apiVersion v k) = get n k.
Proof. get_set_other. Qed.
Lemma gso_kind : forall n v k, String.eqb n "Kind" = false -> get n (set_kind v k) = get n k.
Proof. get_set_other. Qed.
Lemma gso_namePrefix : forall n v k, String.eqb n "NamePrefix" = false -> get n (set_namePrefix v k) = get n k.
Proof. get_set_other. Qed.
Lemma gso_nameSuffix : forall n v k, String.eqb n "NameSuffix" = false -> get n (set_nameSuffix v k) = get n k.
Proof. get_set_other. Qed.
Lemma gso_namespace : forall n v k, String.eqb n "Namespace" = false -> get n (set_namespace v k) = get n k.
Proof. get_set_other. Qed.
Lemma gso_commonLabels : forall n v k, String.eqb n "CommonLabels" = false -> get n (set_commonLabels v k) = get n k.
Proof. get_set_other. Qed.
Lemma gso_labels : forall n v k, String.eqb n "Labels" = false -> get n (set_labels v k) = get n k.
Proof. get_set_other. Qed.
Lemma gso_commonAnnotations : forall n v k, String.eqb n "CommonAnnotations" = false -> get n (set_commonAnnotations v k) = get n k.
Proof. get_set_other. Qed.
Lemma gso_patchesSM : forall n v k, String.eqb n "PatchesStrategicMerge" = false -> get n (set_patchesSM v k) = get n k.
Proof. get_set_other. Qed.
Lemma gso_patchesJson : forall n v k, String.eqb n "PatchesJson6902" = false -> get n (set_patchesJson v k) = get n k.
Proof. get_set_other. Qed.
Lemma gso_patches : forall n v k, String.eqb n "Patches" = false -> get n (set_patches v k) = get n k.
Proof. get_set_other. Qed.
Lemma gso_images : forall n v k, String.eqb n "Images" = false -> get n (set_images v k) = get n k.
Proof. get_set_other. Qed.
Lemma gso_replicas : forall n v k, String.eqb n "Replicas" = false -> get n (set_replicas v k) = get n k.
Proof. get_set_other. Qed.
Lemma gso_resources : forall n v k, String.eqb n "Resources" = false -> get n (set_resources v k) = get n k.
Proof. get_set_other. Qed.
Lemma gso_components : forall n v k, String.eqb n "Components" = false -> get n (set_components v k) = get n k.
Proof. get_set_other. Qed.
Lemma gso_configMapGenerator : forall n v k, String.eqb n "ConfigMapGenerator" = false -> get n (set_configMapGenerator v k) = get n k.
Proof. get_set_other. Qed.
Lemma gso_secretGenerator : forall n v k, String.eqb n "SecretGenerator" = false -> get n (set_secretGenerator v k) = get n k.
Proof. get_set_other. Qed.
Lemma gso_generators : forall n v k, String.eqb n "Generators" = false -> get n (set_generators v k) = get n k.
Proof. get_set_other. Qed.
Lemma gso_transformers : forall n v k, String.eqb n "Transformers" = false -> get n (set_transformers v k) = get n k.
Proof. get_set_other. Qed.
Lemma gso_buildMetadata : forall n v k, String.eqb n "BuildMetadata" = false -> get n (set_buildMetadata v k) = get n k.
Proof. get_set_other. Qed.

(* ---------- frame: a command changes only the field(s) it addresses ---------- *)

(* open every [match]/[if]/[bind] of a hypothesis [H : ... = Ok (Some k')] *)
Ltac open_op H :=
  repeat (cbn beta iota in H;
          match type of H with
          | context [match ?x with _ => _ end] => destruct x eqn:?; try discriminate H
          end).

Lemma not_in_cons_eqb : forall n m l, ~ In n (m :: l) -> String.eqb n m = false.
Proof. intros n m l H. apply String.eqb_neq. intro E. apply H. left. symmetry. exact E. Qed.

Ltac finish_frame H Hn :=
  unfold wrote, nothing in H; try discriminate H;
  injection H as H; subst;
  first [ match goal with |- ?a = ?a => reflexivity end
        | apply gso_resources | apply gso_components | apply gso_transformers | apply gso_generators
        | apply gso_commonLabels | apply gso_labels | apply gso_commonAnnotations
        | apply gso_buildMetadata | apply gso_configMapGenerator | apply gso_secretGenerator
        | apply gso_patches | apply gso_images | apply gso_replicas
        | apply gso_namespace | apply gso_namePrefix | apply gso_nameSuffix ];
  eapply not_in_cons_eqb; exact Hn.

Theorem apply_op_frame :
  forall e k o k' n,
    apply_op e (Ok k) o = Ok (Some k') ->
    ~ In n (addressed o) ->
    get n k' = get n k.
Proof.
  intros e k o k' n H Hn.
  destruct o; cbn [apply_op addressed] in H, Hn; unfold add_paths, bind in H;
    open_op H; finish_frame H Hn.
Qed.

(* the opaque fields are never touched *)
Theorem apply_op_other :
  forall e k o k', apply_op e (Ok k) o = Ok (Some k') -> k_other k' = k_other k.
Proof.
  intros e k o k' H.
  destruct o; cbn [apply_op] in H; unfold add_paths, bind in H; open_op H;
    unfold wrote, nothing in H; try discriminate H; injection H as H; subst; reflexivity.
Qed.

Lemma apply_op_imageTags :
  forall e k o k', apply_op e (Ok k) o = Ok (Some k') -> k_imageTags k' = k_imageTags k.
Proof.
  intros e k o k' H.
  assert (get "ImageTags" k' = get "ImageTags" k) as G.
  { eapply apply_op_frame; [exact H|]. destruct o; cbn [addressed]; try destruct wosel;
      intros [E|[]]; discriminate E. }
  unfold get in G. cbn -[k_imageTags] in G. injection G as G. exact G.
Qed.

(* ---------- which names can be non-empty ---------- *)
Lemma is_empty_false_cases :
  forall n k, is_empty n k = false ->
    In n explicit_fields \/ In n (map fst (k_other k)).
Proof.
  intros n k H. unfold is_empty in H.
  repeat match type of H with
         | context [String.eqb n ?s] =>
             destruct (String.eqb_spec n s);
             [subst n; left; cbn; repeat (first [left; reflexivity | right])|]
         end.
  right. destruct (assoc_get n (k_other k)) eqn:G; [|cbn in H; discriminate H]. clear H.
  induction (k_other k) as [|[a b] t IH]; simpl in *; [discriminate|].
  destruct (String.eqb_spec a n); [left; assumption|right; apply IH; exact G].
Qed.
