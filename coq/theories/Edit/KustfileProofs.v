(* Proofs about the text side of the kustomization file reader/writer (Edit/Kustfile.v):
   which comment lines parseCommentedFields attaches to fields, which are trailing, and what marshal emits. *)
From KV Require Import Edit.Kustfile.
Local Open Scope list_scope.

(* keep [simpl]/[cbn] from unfolding the 33-name table walk *)
Local Opaque find_matched_field.
Arguments find_matched_field : simpl never.
Arguments is_comment_or_blank : simpl never.

(* ---------- parseCommentedFields: every comment line is either kept or pending at EOF ---------- *)

Lemma flat_map_app {A B} (f : A -> list B) (l1 l2 : list A) :
  flat_map f (l1 ++ l2) = flat_map f l1 ++ flat_map f l2.
Proof. induction l1; simpl; [reflexivity|]. rewrite IHl1, app_assoc. reflexivity. Qed.

Lemma pcf_loop_comments :
  forall ls rf pending,
    flat_map cf_comment (fst (pcf_loop ls rf pending)) ++ snd (pcf_loop ls rf pending)
    = flat_map cf_comment (rev rf) ++ pending ++ filter is_comment_or_blank ls.
Proof.
  induction ls as [|l t IH]; intros rf pending; simpl.
  - rewrite app_nil_r. reflexivity.
  - destruct (is_comment_or_blank l) eqn:Hc.
    + rewrite IH. rewrite <- app_assoc. reflexivity.
    + destruct (find_matched_field l) eqn:Hm.
      * rewrite IH. simpl. rewrite flat_map_app. simpl. rewrite app_nil_r.
        rewrite <- app_assoc. reflexivity.
      * destruct pending as [|p ps].
        { rewrite IH. reflexivity. }
        destruct rf as [|last rest].
        { rewrite IH. reflexivity. }
        rewrite IH. simpl. rewrite !flat_map_app. simpl. rewrite !app_nil_r.
        rewrite <- !app_assoc. reflexivity.
Qed.

(* the comment lines of a file, in order = those attached to fields, followed by the trailing ones *)
Lemma comments_kept_or_forgotten :
  forall f, comment_lines f = kept_comments (parse_commented_fields f) ++ trailing_kept f.
Proof.
  intros f. unfold comment_lines, kept_comments, parse_commented_fields, trailing_kept.
  rewrite app_assoc. rewrite pcf_loop_comments. simpl. reflexivity.
Qed.

(* what is kept consists of comment lines of the file *)
Lemma kept_are_comments_gen :
  forall ls rf pending,
    Forall (fun l => is_comment_or_blank l = true) pending ->
    Forall (fun c => Forall (fun l => is_comment_or_blank l = true) (cf_comment c)) rf ->
    Forall (fun c => Forall (fun l => is_comment_or_blank l = true) (cf_comment c)) (fst (pcf_loop ls rf pending)).
Proof.
  induction ls as [|l t IH]; intros rf pending Hp Hr; simpl.
  - apply Forall_rev. exact Hr.
  - destruct (is_comment_or_blank l) eqn:Hc.
    + apply IH; [|exact Hr]. apply Forall_app. split; [exact Hp|]. constructor; [exact Hc|constructor].
    + destruct (find_matched_field l).
      * apply IH; [constructor|]. constructor; [exact Hp|exact Hr].
      * destruct pending as [|p ps]; [apply IH; assumption|].
        destruct rf as [|last rest]; [apply IH; assumption|].
        apply IH; [constructor|]. inversion Hr; subst. constructor; [|assumption].
        simpl. apply Forall_app. split; assumption.
Qed.

Lemma kept_are_comments :
  forall f l, In l (kept_comments (parse_commented_fields f)) -> is_comment_or_blank l = true.
Proof.
  intros f l H. unfold kept_comments in H. apply in_flat_map in H. destruct H as [c [Hc Hl]].
  pose proof (kept_are_comments_gen (f_lines f) [] [] (Forall_nil _) (Forall_nil _)) as HF.
  rewrite Forall_forall in HF. specialize (HF c Hc). rewrite Forall_forall in HF. exact (HF l Hl).
Qed.

Lemma kept_in_file :
  forall f l, In l (kept_comments (parse_commented_fields f)) -> In l (f_lines f).
Proof.
  intros f l H.
  assert (In l (comment_lines f)) as Hc.
  { rewrite comments_kept_or_forgotten. apply in_or_app. left. exact H. }
  unfold comment_lines in Hc. apply in_app_or in Hc. destruct Hc as [Hc|Hc].
  - apply filter_In in Hc. tauto.
  - (* the unterminated tail is never kept: it is in [forgotten] only; but membership as a string
       may coincide, so go through the kept list directly *)
    clear Hc.
    assert (forall ls rf pending c x,
               In c (fst (pcf_loop ls rf pending)) -> In x (cf_comment c) ->
               In x ls \/ In x pending \/ exists c', In c' rf /\ In x (cf_comment c')) as G.
    { induction ls as [|a t IH]; intros rf pending c x Hc Hx; simpl in Hc.
      - right. right. exists c. split; [apply in_rev; exact Hc|exact Hx].
      - destruct (is_comment_or_blank a).
        + destruct (IH _ _ _ _ Hc Hx) as [G|[G|G]].
          * left. right. exact G.
          * apply in_app_or in G. destruct G as [G|[G|[]]]; [right; left; exact G|left; left; exact G].
          * right. right. exact G.
        + destruct (find_matched_field a).
          * destruct (IH _ _ _ _ Hc Hx) as [G|[[]|[c' [[G|G] G2]]]].
            -- left. right. exact G.
            -- subst c'. simpl in G2. right. left. exact G2.
            -- right. right. exists c'. split; assumption.
          * destruct pending as [|p ps].
            { destruct (IH _ _ _ _ Hc Hx) as [G|[G|G]]; [left; right; exact G|right; left; exact G|right; right; exact G]. }
            destruct rf as [|last rest].
            { destruct (IH _ _ _ _ Hc Hx) as [G|[G|G]]; [left; right; exact G|right; left; exact G|right; right; exact G]. }
            destruct (IH _ _ _ _ Hc Hx) as [G|[[]|[c' [[G|G] G2]]]].
            -- left. right. exact G.
            -- subst c'. simpl in G2. apply in_app_or in G2. destruct G2 as [G2|G2].
               ++ right. right. exists last. split; [left; reflexivity|exact G2].
               ++ right. left. exact G2.
            -- right. right. exists c'. split; [right; exact G|exact G2]. }
    unfold kept_comments in H. apply in_flat_map in H. destruct H as [c [Hc Hx]].
    unfold parse_commented_fields in Hc.
    destruct (G _ _ _ _ _ Hc Hx) as [G1|[[]|[c' [[] _]]]]. exact G1.
Qed.

(* ---------- what is forgotten ---------- *)

(* the comment lines after the last non-comment line *)
Fixpoint trailing_block (ls : list line) : list line :=
  match ls with
  | [] => []
  | l :: t =>
      if forallb is_comment_or_blank ls then ls else trailing_block t
  end.

Lemma forallb_filter_id {A} (p : A -> bool) (l : list A) : forallb p l = true -> filter p l = l.
Proof.
  induction l; simpl; intro H; [reflexivity|]. apply andb_prop in H. destruct H as [H1 H2].
  rewrite H1, IHl by assumption. reflexivity.
Qed.

Lemma trailing_block_all_comments :
  forall ls, forallb is_comment_or_blank ls = true -> trailing_block ls = ls.
Proof. destruct ls; simpl; intro H; [reflexivity|]. rewrite H. reflexivity. Qed.

(* once a field has been recognised ([rf] non-empty), what is pending at EOF is the trailing block
   (preceded by the current pending lines when only comment lines remain) *)
Lemma pcf_pending_after_field :
  forall ls rf pending,
    rf <> [] ->
    snd (pcf_loop ls rf pending) =
    if forallb is_comment_or_blank ls then pending ++ ls else trailing_block ls.
Proof.
  induction ls as [|l t IH]; intros rf pending Hrf.
  - simpl. rewrite app_nil_r. reflexivity.
  - cbn [pcf_loop forallb trailing_block].
    destruct (is_comment_or_blank l) eqn:Hc; cbn [andb].
    + rewrite IH by assumption.
      destruct (forallb is_comment_or_blank t) eqn:Ht.
      * rewrite <- app_assoc. reflexivity.
      * reflexivity.
    + destruct (find_matched_field l).
      * rewrite IH by discriminate.
        destruct (forallb is_comment_or_blank t) eqn:Ht.
        -- simpl. rewrite trailing_block_all_comments by assumption. reflexivity.
        -- reflexivity.
      * destruct pending as [|p ps].
        { rewrite IH by assumption.
          destruct (forallb is_comment_or_blank t) eqn:Ht;
            [simpl; rewrite trailing_block_all_comments by assumption; reflexivity|reflexivity]. }
        destruct rf as [|last rest]; [contradiction|].
        rewrite IH by discriminate.
        destruct (forallb is_comment_or_blank t) eqn:Ht;
          [simpl; rewrite trailing_block_all_comments by assumption; reflexivity|reflexivity].
Qed.

(* a file "has a field line" when some terminated line is recognised by findMatchedField *)
Definition is_field_line (l : line) : bool :=
  negb (is_comment_or_blank l) && match find_matched_field l with Some _ => true | None => false end.

Lemma pcf_pending_is_trailing :
  forall ls pending,
    existsb is_field_line ls = true ->
    snd (pcf_loop ls [] pending) = trailing_block ls.
Proof.
  induction ls as [|l t IH]; intros pending Hex; [discriminate|].
  cbn [pcf_loop trailing_block forallb existsb] in *.
  unfold is_field_line in Hex at 1.
  destruct (is_comment_or_blank l) eqn:Hc; cbn [negb andb orb] in *.
  - rewrite IH by assumption.
    destruct (forallb is_comment_or_blank t) eqn:Ht; [|reflexivity].
    (* all of t is comments, yet t has a field line: impossible *)
    exfalso. clear - Hex Ht. induction t as [|a t IH]; [discriminate|].
    simpl in *. apply andb_prop in Ht. destruct Ht as [Ha Ht].
    unfold is_field_line in Hex at 1. rewrite Ha in Hex. simpl in Hex. auto.
  - destruct (find_matched_field l) eqn:Hm.
    + rewrite pcf_pending_after_field by discriminate.
      destruct (forallb is_comment_or_blank t) eqn:Ht; [|reflexivity].
      simpl. rewrite trailing_block_all_comments by assumption. reflexivity.
    + simpl in Hex.
      assert (snd (pcf_loop t [] pending) = trailing_block t) as E by (apply IH; assumption).
      destruct pending; exact E.
Qed.

(* for a file with at least one recognised field line, the forgotten comments are exactly the
   trailing ones: the comment lines after the last terminated non-comment line, and an
   unterminated comment tail *)
Definition trailing_comments (f : file) : list line :=
  trailing_block (f_lines f) ++
  match f_tail f with
  | Some s => if is_comment_or_blank s then [s] else []
  | None => []
  end.

Lemma forgotten_is_trailing :
  forall f, existsb is_field_line (f_lines f) = true -> trailing_kept f = trailing_comments f.
Proof.
  intros f H. unfold trailing_kept, trailing_comments.
  rewrite pcf_pending_is_trailing by assumption. reflexivity.
Qed.

(* ---------- marshal ---------- *)

Lemma kept_in_marshal :
  forall orig tr render l, In l (kept_comments orig ++ tr) -> In l (marshal orig tr render).
Proof.
  intros orig tr render l H. unfold marshal, marshal_in. apply in_app_or in H. destruct H as [H|H].
  - apply in_or_app. left.
    unfold kept_comments in H. apply in_flat_map in H. destruct H as [c [Hc Hl]].
    apply in_flat_map. exists c. split; [exact Hc|]. apply in_or_app. left. exact Hl.
  - apply in_or_app. right. apply in_or_app. left. exact H.
Qed.

Lemma filter_app {A} (p : A -> bool) (l1 l2 : list A) : filter p (l1 ++ l2) = filter p l1 ++ filter p l2.
Proof. induction l1; simpl; [reflexivity|]. destruct (p a); simpl; rewrite IHl1; reflexivity. Qed.

Lemma filter_none {A} (p : A -> bool) (l : list A) : (forall x, In x l -> p x = false) -> filter p l = [].
Proof.
  induction l; simpl; intro H; [reflexivity|]. rewrite (H a (or_introl eq_refl)). apply IHl.
  intros x Hx. apply H. right. exact Hx.
Qed.

(* when no rendered field contains a comment-looking line, the comment lines of the output are
   exactly the comments attached to fields followed by the trailing ones, in their original order *)
Lemma marshal_comment_lines :
  forall orig tr render,
    (forall c, In c orig -> Forall (fun l => is_comment_or_blank l = true) (cf_comment c)) ->
    Forall (fun l => is_comment_or_blank l = true) tr ->
    (forall n l, In l (render n) -> is_comment_or_blank l = false) ->
    filter is_comment_or_blank (marshal orig tr render) = kept_comments orig ++ tr.
Proof.
  intros orig tr render Hk Ht Hr. unfold marshal, marshal_in. rewrite !filter_app.
  assert (filter is_comment_or_blank
            (flat_map (fun n => if has_field orig n then [] else render n) gen_field_order) = []) as E2.
  { apply filter_none. intros x Hx. apply in_flat_map in Hx. destruct Hx as [n [_ Hx]].
    destruct (has_field orig n); [destruct Hx|]. exact (Hr n x Hx). }
  rewrite E2, app_nil_r. clear E2.
  rewrite (forallb_filter_id is_comment_or_blank tr)
    by (apply forallb_forall; rewrite Forall_forall in Ht; exact Ht).
  f_equal. unfold kept_comments.
  induction orig as [|c t IH]; simpl; [reflexivity|].
  rewrite !filter_app. rewrite IH by (intros; apply Hk; right; assumption).
  rewrite (filter_none _ (render (cf_field c))) by (intros x Hx; exact (Hr _ x Hx)).
  rewrite app_nil_r.
  rewrite forallb_filter_id; [reflexivity|].
  apply forallb_forall. specialize (Hk c (or_introl eq_refl)). rewrite Forall_forall in Hk. exact Hk.
Qed.

(* every line of the output is a kept comment or a line of a rendered field *)
Lemma marshal_lines_origin :
  forall orig tr render l, In l (marshal orig tr render) ->
    In l (kept_comments orig ++ tr) \/ exists n, In l (render n).
Proof.
  intros orig tr render l H. unfold marshal, marshal_in in H. apply in_app_or in H. destruct H as [H|H].
  - apply in_flat_map in H. destruct H as [c [Hc Hl]]. apply in_app_or in Hl. destruct Hl as [Hl|Hl].
    + left. apply in_or_app. left. unfold kept_comments. apply in_flat_map. exists c. split; assumption.
    + right. exists (cf_field c). exact Hl.
  - apply in_app_or in H. destruct H as [H|H].
    + left. apply in_or_app. right. exact H.
    + apply in_flat_map in H. destruct H as [n [_ Hl]]. destruct (has_field orig n); [destruct Hl|].
      right. exists n. exact Hl.
Qed.

(* marshal's output as a layout: blocks of comment lines followed by the rendering of at most one
   field — the original fields, the trailing comments (no field), the remaining ordered fields *)
Definition layout_of (orig : list cfield) (tr : list line) : list (list line * option string) :=
  map (fun c => (cf_comment c, Some (cf_field c))) orig ++
  [(tr, None)] ++
  map (fun n => ([], Some n)) (filter (fun n => negb (has_field orig n)) gen_field_order).

Definition render_opt (render : string -> list line) (o : option string) : list line :=
  match o with Some n => render n | None => [] end.

Lemma marshal_as_layout :
  forall orig tr render,
    marshal orig tr render = flat_map (fun b => fst b ++ render_opt render (snd b)) (layout_of orig tr).
Proof.
  intros orig tr render. unfold marshal, marshal_in, layout_of. rewrite !flat_map_app. f_equal.
  - induction orig; simpl; [reflexivity|]. rewrite IHorig. reflexivity.
  - f_equal.
    + simpl. rewrite !app_nil_r. reflexivity.
    + induction gen_field_order as [|n t IH]; simpl; [reflexivity|].
      destruct (has_field orig n); simpl; rewrite IH; reflexivity.
Qed.

Lemma has_field_in : forall orig n, has_field orig n = true -> In n (map cf_field orig).
Proof.
  induction orig; simpl; intros n H; [discriminate|]. apply orb_prop in H. destruct H as [H|H].
  - left. apply String.eqb_eq. exact H.
  - right. apply IHorig. exact H.
Qed.

(* every name of the order list occurs in the layout *)
Lemma layout_covers_order :
  forall orig tr n, In n gen_field_order -> In (Some n) (map snd (layout_of orig tr)).
Proof.
  intros orig tr n H. unfold layout_of. rewrite !map_app. apply in_or_app.
  destruct (has_field orig n) eqn:Hf.
  - left. rewrite map_map. cbn [snd]. apply in_map_iff. apply has_field_in in Hf.
    apply in_map_iff in Hf. destruct Hf as [c [Ec Hc]]. exists c. split; [rewrite Ec; reflexivity|exact Hc].
  - right. apply in_or_app. right. rewrite map_map. cbn [snd]. apply in_map. apply filter_In. split; [exact H|].
    rewrite Hf. reflexivity.
Qed.

(* the trailing comments are comment lines of the file *)
Lemma trailing_are_comments :
  forall f l, In l (trailing_kept f) -> is_comment_or_blank l = true /\ (In l (f_lines f) \/ f_tail f = Some l).
Proof.
  intros f l H.
  assert (In l (comment_lines f)) as Hc.
  { rewrite comments_kept_or_forgotten. apply in_or_app. right. exact H. }
  unfold comment_lines in Hc. apply in_app_or in Hc. destruct Hc as [Hc|Hc].
  - apply filter_In in Hc. destruct Hc as [Hi Hc]. split; [exact Hc|left; exact Hi].
  - destruct (f_tail f) as [s|]; [|destruct Hc].
    destruct (is_comment_or_blank s) eqn:E; [|destruct Hc]. destruct Hc as [Hc|[]]. subst l.
    split; [exact E|right; reflexivity].
Qed.

(* ---------- the former refutation witness (finding trailing-comment-dropped, fixed by f15d834):
   its trailing comment is now kept ---------- *)
Definition witness_file : file := mkFile ["resources:"; "- a.yaml"; "# trailing comment"] None.

Lemma witness_kept :
  trailing_kept witness_file = ["# trailing comment"] /\
  parse_commented_fields witness_file = [mkCf "Resources" []] /\
  forall render, In "# trailing comment"
                    (marshal (parse_commented_fields witness_file) (trailing_kept witness_file) render).
Proof.
  split; [vm_compute; reflexivity|]. split; [vm_compute; reflexivity|].
  intro render. apply kept_in_marshal. apply in_or_app. right. vm_compute. left. reflexivity.
Qed.

(* non-vacuity of [forgotten_is_trailing] and of the kept/forgotten decomposition *)
Example decomposition_example :
  let f := mkFile ["# head"; "resources:"; "- a.yaml"; "# inner"; "- b.yaml"; ""; "# before ns";
                   "namespace: foo"; "# trailing"] (Some "# tail") in
  existsb is_field_line (f_lines f) = true /\
  kept_comments (parse_commented_fields f) = ["# head"; "# inner"; ""; "# before ns"] /\
  trailing_kept f = ["# trailing"; "# tail"] /\
  trailing_comments f = ["# trailing"; "# tail"].
Proof. vm_compute. repeat split; reflexivity. Qed.
