(* Proofs of the algebraic laws of the edit commands on the in-memory model (Edit/Cmd.v):
   set commands are idempotent, add followed by the matching remove restores the content. *)
From KV Require Import Edit.Cmd Edit.AssocProofs Edit.OpsProofs.
Local Open Scope list_scope.

(* what the next Read sees after a Write *)
Definition N (k : kust) : kust := fix_kustomization (canon k).

Lemma model_step_N : forall e k o,
  model_step e k o = match apply_op e (Ok k) o with Ok (Some k') => N k' | _ => k end.
Proof. reflexivity. Qed.

(* states as Read returns them *)
Definition fixed (k : kust) : Prop := fix_kustomization k = k.

Lemma fixed_imageTags k : fixed k -> k_imageTags k = [].
Proof. intro H. unfold fixed in H. apply (f_equal Kust.k_imageTags) in H. cbn in H. symmetry. exact H. Qed.

Lemma fixed_bases k : fixed k -> k_bases k = [].
Proof. intro H. unfold fixed in H. apply (f_equal Kust.k_bases) in H. cbn in H. symmetry. exact H. Qed.

(* ---------- N is idempotent ---------- *)
Lemma canon_mapo_idem {A} (m : option (list A)) : canon_mapo (canon_mapo m) = canon_mapo m.
Proof. destruct m as [[|]|]; reflexivity. Qed.

Lemma canon_genopts_idem g : canon_genopts (canon_genopts g) = canon_genopts g.
Proof. destruct g. unfold canon_genopts. cbn. rewrite !canon_mapo_idem. reflexivity. Qed.

Lemma canon_genargs_idem a : canon_genargs (canon_genargs a) = canon_genargs a.
Proof.
  destruct a. unfold canon_genargs. cbn. f_equal.
  destruct ga_options; cbn; [rewrite canon_genopts_idem|]; reflexivity.
Qed.

Lemma fix_env_idem a : fix_env (fix_env a) = fix_env a.
Proof.
  unfold fix_env. destruct (String.eqb (ga_env a) "") eqn:E; [rewrite E; reflexivity|reflexivity].
Qed.

Lemma fix_env_canon a : fix_env (canon_genargs a) = canon_genargs (fix_env a).
Proof.
  unfold fix_env, canon_genargs. cbn. destruct (String.eqb (ga_env a) ""); reflexivity.
Qed.

Lemma map_idem {A} (f : A -> A) (l : list A) : (forall x, f (f x) = f x) -> map f (map f l) = map f l.
Proof. intro H. rewrite map_map. apply map_ext. exact H. Qed.

Lemma map_comm {A} (f g : A -> A) (l : list A) :
  (forall x, f (g x) = g (f x)) -> map f (map g l) = map g (map f l).
Proof. intro H. rewrite !map_map. apply map_ext. exact H. Qed.

Lemma N_idem k : N (N k) = N k.
Proof.
  destruct k. unfold N, fix_kustomization, canon. cbn.
  rewrite !app_nil_r.
  rewrite !canon_mapo_idem.
  rewrite (map_idem canon_label) by (intros [? ? ? ?]; unfold canon_label; cbn; rewrite canon_mapo_idem; reflexivity).
  rewrite !(map_idem canon_patch) by (intros [? ? ? ?]; unfold canon_patch; cbn; rewrite canon_mapo_idem; reflexivity).
  rewrite !(map_comm canon_genargs fix_env) by (intro; symmetry; apply fix_env_canon).
  rewrite !(map_idem fix_env) by apply fix_env_idem.
  rewrite !(map_comm fix_env canon_genargs) by apply fix_env_canon.
  rewrite !(map_idem canon_genargs) by apply canon_genargs_idem.
  assert (option_map canon_genopts (option_map canon_genopts k_generatorOptions)
          = option_map canon_genopts k_generatorOptions) as E
      by (destruct k_generatorOptions; cbn; [rewrite canon_genopts_idem|]; reflexivity).
  rewrite E. clear E.
  f_equal.
  - destruct (String.eqb k_apiVersion "") eqn:Ea.
    + destruct (String.eqb (if String.eqb k_kind "" then KustomizationKind else k_kind) ComponentKind);
        reflexivity.
    + rewrite Ea. reflexivity.
  - destruct (String.eqb k_kind "") eqn:Ek; [reflexivity|rewrite Ek; reflexivity].
Qed.

Lemma N_fixed k : fixed (N k).
Proof.
  unfold fixed. pose proof (N_idem k) as H. unfold N in *.
  (* fix (fix (canon k)) = fix (canon k): from N_idem via canon/fix commutation is longer; direct: *)
  clear H. destruct k. unfold fix_kustomization, canon. cbn. rewrite !app_nil_r.
  rewrite !(map_idem fix_env) by apply fix_env_idem.
  f_equal.
  - destruct (String.eqb k_apiVersion "") eqn:Ea.
    + destruct (String.eqb (if String.eqb k_kind "" then KustomizationKind else k_kind) ComponentKind);
        reflexivity.
    + rewrite Ea. reflexivity.
  - destruct (String.eqb k_kind "") eqn:Ek; [reflexivity|rewrite Ek; reflexivity].
Qed.

(* ---------- N and the setters ---------- *)
Lemma N_set_namespace v k : N (set_namespace v k) = set_namespace v (N k). Proof. reflexivity. Qed.
Lemma N_set_namePrefix v k : N (set_namePrefix v k) = set_namePrefix v (N k). Proof. reflexivity. Qed.
Lemma N_set_nameSuffix v k : N (set_nameSuffix v k) = set_nameSuffix v (N k). Proof. reflexivity. Qed.
Lemma N_set_buildMetadata v k : N (set_buildMetadata v k) = set_buildMetadata v (N k). Proof. reflexivity. Qed.
Lemma N_set_replicas v k : N (set_replicas v k) = set_replicas v (N k). Proof. reflexivity. Qed.
Lemma N_set_commonLabels v k : N (set_commonLabels v k) = set_commonLabels (canon_mapo v) (N k). Proof. reflexivity. Qed.
Lemma N_set_commonAnnotations v k : N (set_commonAnnotations v k) = set_commonAnnotations (canon_mapo v) (N k). Proof. reflexivity. Qed.
Lemma N_set_images v k : N (set_images v k) = set_images (v ++ k_imageTags k) (N k). Proof. reflexivity. Qed.
Lemma N_set_resources v k : N (set_resources v k) = set_resources (v ++ k_bases k) (N k). Proof. reflexivity. Qed.
Lemma N_set_transformers v k : N (set_transformers v k) = set_transformers v (N k). Proof. reflexivity. Qed.
Lemma N_set_patches v k : N (set_patches v k) = set_patches (map canon_patch v) (N k). Proof. reflexivity. Qed.
Lemma N_set_configMapGenerator v k :
  N (set_configMapGenerator v k) = set_configMapGenerator (map fix_env (map canon_genargs v)) (N k).
Proof. reflexivity. Qed.
Lemma N_set_secretGenerator v k :
  N (set_secretGenerator v k) = set_secretGenerator (map fix_env (map canon_genargs v)) (N k).
Proof. reflexivity. Qed.

(* setting a field to the value it has *)
Ltac eta_k := intros k; destruct k; reflexivity.
Lemma set_get_namespace : forall k, set_namespace (k_namespace k) k = k. Proof. eta_k. Qed.
Lemma set_get_resources : forall k, set_resources (k_resources k) k = k. Proof. eta_k. Qed.
Lemma set_get_transformers : forall k, set_transformers (k_transformers k) k = k. Proof. eta_k. Qed.
Lemma set_get_commonLabels : forall k, set_commonLabels (k_commonLabels k) k = k. Proof. eta_k. Qed.
Lemma set_get_commonAnnotations : forall k, set_commonAnnotations (k_commonAnnotations k) k = k. Proof. eta_k. Qed.
Lemma set_get_buildMetadata : forall k, set_buildMetadata (k_buildMetadata k) k = k. Proof. eta_k. Qed.
Lemma set_get_patches : forall k, set_patches (k_patches k) k = k. Proof. eta_k. Qed.
Lemma set_get_configMapGenerator : forall k, set_configMapGenerator (k_configMapGenerator k) k = k. Proof. eta_k. Qed.
Lemma set_get_secretGenerator : forall k, set_secretGenerator (k_secretGenerator k) k = k. Proof. eta_k. Qed.

(* ---------- maps built from command-line arguments ---------- *)
Definition fold_set {A} (md m : list (string * A)) : list (string * A) :=
  fold_left (fun acc kv => assoc_set (fst kv) (snd kv) acc) md m.

Lemma write_to_map_force m md : write_to_map m md true = Ok (fold_set md m).
Proof. reflexivity. Qed.

Lemma assoc_set_nonempty {A} k (v : A) m : assoc_set k v m <> [].
Proof.
  destruct m as [|[k' v'] t]; simpl; [discriminate|].
  destruct (String.eqb k' k); [discriminate|]. destruct (String.ltb k k'); discriminate.
Qed.

Lemma convert_sorted : forall args acc md,
  sorted acc -> convert_slice_to_map args acc = Ok md -> sorted md.
Proof.
  induction args as [|a t IH]; simpl; intros acc md S H.
  - injection H as H. subst. exact S.
  - destruct (split_first ":"%char a) as [[key v]|].
    + destruct (String.eqb key ""); [discriminate|]. eapply IH; [|exact H]. apply sorted_set. exact S.
    + eapply IH; [|exact H]. apply sorted_set. exact S.
Qed.

Lemma convert_nonempty : forall args acc md,
  convert_slice_to_map args acc = Ok md -> (args <> [] \/ acc <> []) -> md <> [].
Proof.
  induction args as [|a t IH]; simpl; intros acc md H Hne.
  - injection H as H. subst. destruct Hne as [Hne|Hne]; [contradiction|exact Hne].
  - destruct (split_first ":"%char a) as [[key v]|].
    + destruct (String.eqb key ""); [discriminate|]. eapply IH; [exact H|]. right. apply assoc_set_nonempty.
    + eapply IH; [exact H|]. right. apply assoc_set_nonempty.
Qed.

Lemma fold_set_nonempty {A} (md m : list (string * A)) : md <> [] -> fold_set md m <> [].
Proof.
  destruct md as [|[k v] t]; [contradiction|]. intros _. unfold fold_set. simpl.
  assert (forall l (m : list (string * A)), m <> [] ->
             fold_left (fun acc kv => assoc_set (fst kv) (snd kv) acc) l m <> []) as G.
  { induction l; simpl; intros m0 H; [exact H|]. apply IHl. apply assoc_set_nonempty. }
  apply G. apply assoc_set_nonempty.
Qed.

(* applying the same bindings twice = once *)
Lemma fold_set_idem {A} (md m : list (string * A)) :
  sorted md -> sorted m -> fold_set md (fold_set md m) = fold_set md m.
Proof.
  intros Sd Sm. unfold fold_set.
  apply sorted_ext; [apply sorted_fold_set; apply sorted_fold_set; exact Sm|apply sorted_fold_set; exact Sm|].
  intro k. rewrite !get_fold_set by exact Sd. destruct (assoc_get k md); reflexivity.
Qed.

Lemma canon_mapo_some_nonempty {A} (m : list A) : m <> [] -> canon_mapo (Some m) = Some m.
Proof. destruct m; [contradiction|reflexivity]. Qed.

(* ---------- set label / set annotation ---------- *)
Definition sorted_o {A} (o : option (list (string * A))) : Prop :=
  match o with Some m => sorted m | None => True end.

Lemma sorted_mapo_or_empty o : sorted_o o -> sorted (mapo_or_empty o).
Proof. destruct o; simpl; intro H; [exact H|constructor]. Qed.

Lemma set_label_idem e k args :
  sorted_o (k_commonLabels k) ->
  model_step e (model_step e k (SetLabel args)) (SetLabel args) = model_step e k (SetLabel args).
Proof.
  intro S. rewrite !model_step_N. cbn [apply_op].
  destruct args as [|a t]; [reflexivity|].
  destruct (convert_slice_to_map (a :: t) []) as [md| | |] eqn:Hc; cbn [bind]; try reflexivity.
  rewrite !write_to_map_force. cbn [bind]. unfold wrote.
  pose proof (convert_sorted _ _ _ (sorted_nil (A:=string)) Hc) as Sd.
  assert (md <> []) as Nd by (eapply convert_nonempty; [exact Hc|left; discriminate]).
  remember (fold_set md (mapo_or_empty (k_commonLabels k))) as m1 eqn:Em1.
  assert (canon_mapo (@Some smap m1) = @Some smap m1) as Hm1
      by (apply canon_mapo_some_nonempty; subst m1; apply fold_set_nonempty; exact Nd).
  assert (fold_set md m1 = m1) as E
      by (subst m1; apply fold_set_idem; [exact Sd|apply sorted_mapo_or_empty; exact S]).
  rewrite !N_set_commonLabels. rewrite !Hm1.
  cbn [k_commonLabels set_commonLabels mapo_or_empty]. rewrite E, Hm1, N_idem. reflexivity.
Qed.

Lemma set_annotation_idem e k args :
  sorted_o (k_commonAnnotations k) ->
  model_step e (model_step e k (SetAnnotation args)) (SetAnnotation args) = model_step e k (SetAnnotation args).
Proof.
  intro S. rewrite !model_step_N. cbn [apply_op].
  destruct args as [|a t]; [reflexivity|].
  destruct (convert_slice_to_map (a :: t) []) as [md| | |] eqn:Hc; cbn [bind]; try reflexivity.
  destruct (negb (forallb (fun kv => is_valid_key (fst kv)) md)); [reflexivity|].
  rewrite !write_to_map_force. cbn [bind]. unfold wrote.
  pose proof (convert_sorted _ _ _ (sorted_nil (A:=string)) Hc) as Sd.
  assert (md <> []) as Nd by (eapply convert_nonempty; [exact Hc|left; discriminate]).
  remember (fold_set md (mapo_or_empty (k_commonAnnotations k))) as m1 eqn:Em1.
  assert (canon_mapo (@Some smap m1) = @Some smap m1) as Hm1
      by (apply canon_mapo_some_nonempty; subst m1; apply fold_set_nonempty; exact Nd).
  assert (fold_set md m1 = m1) as E
      by (subst m1; apply fold_set_idem; [exact Sd|apply sorted_mapo_or_empty; exact S]).
  rewrite !N_set_commonAnnotations. rewrite !Hm1.
  cbn [k_commonAnnotations set_commonAnnotations mapo_or_empty]. rewrite E, Hm1, N_idem. reflexivity.
Qed.

(* ---------- the scalar fields and buildMetadata ---------- *)
Lemma set_namespace_idem e k args :
  model_step e (model_step e k (SetNamespace args)) (SetNamespace args) = model_step e k (SetNamespace args).
Proof.
  rewrite !model_step_N. cbn [apply_op].
  destruct args as [|a [|b t]]; try reflexivity. cbn [bind]. unfold wrote.
  rewrite !N_set_namespace, N_idem. reflexivity.
Qed.

Lemma set_nameprefix_idem e k args :
  model_step e (model_step e k (SetNamePrefix args)) (SetNamePrefix args) = model_step e k (SetNamePrefix args).
Proof.
  rewrite !model_step_N. cbn [apply_op].
  destruct args as [|a [|b t]]; try reflexivity. cbn [bind]. unfold wrote.
  rewrite !N_set_namePrefix, N_idem. reflexivity.
Qed.

Lemma set_namesuffix_idem e k args :
  model_step e (model_step e k (SetNameSuffix args)) (SetNameSuffix args) = model_step e k (SetNameSuffix args).
Proof.
  rewrite !model_step_N. cbn [apply_op].
  destruct args as [|a [|b t]]; try reflexivity. cbn [bind]. unfold wrote.
  rewrite !N_set_nameSuffix, N_idem. reflexivity.
Qed.

Lemma set_buildmetadata_idem e k args :
  model_step e (model_step e k (SetBuildMetadata args)) (SetBuildMetadata args) = model_step e k (SetBuildMetadata args).
Proof.
  rewrite !model_step_N. cbn [apply_op].
  destruct (validate_buildmetadata args) as [opts| | |]; cbn [bind]; try reflexivity. unfold wrote.
  rewrite !N_set_buildMetadata, N_idem. reflexivity.
Qed.

(* ---------- set replicas ---------- *)
Definition rep_addif (m : list (string * replica)) (r : replica) :=
  if assoc_mem (r_name r) m then m else assoc_set (r_name r) r m.
Definition rep_args_map (args : list replica) : list (string * replica) :=
  fold_left (fun m r => assoc_set (r_name r) r m) args [].

Lemma set_replicas_list_unfold args cur :
  set_replicas_list args cur = map snd (fold_left rep_addif cur (rep_args_map args)).
Proof. reflexivity. Qed.

Definition keyed {V} (key : V -> string) (m : list (string * V)) : Prop :=
  Forall (fun kv => key (snd kv) = fst kv) m.

Lemma keyed_set {V} (key : V -> string) k v m : key v = k -> keyed key m -> keyed key (assoc_set k v m).
Proof.
  intros Hk. induction m as [|[k2 v2] t IH]; simpl; intro H.
  - constructor; [exact Hk|constructor].
  - inversion H; subst. destruct (String.eqb k2 (key v)).
    + constructor; [reflexivity|assumption].
    + destruct (String.ltb (key v) k2).
      * constructor; [reflexivity|exact H].
      * constructor; [assumption|apply IH; assumption].
Qed.

Lemma find_in_values {V} (key : V -> string) (m : list (string * V)) n :
  keyed key m -> find (fun v => String.eqb (key v) n) (map snd m) = assoc_get n m.
Proof.
  induction m as [|[k v] t IH]; simpl; intro H; [reflexivity|].
  inversion H; subst. simpl in H2. rewrite H2. destruct (String.eqb k n); [reflexivity|].
  apply IH. assumption.
Qed.

Lemma rep_args_map_ok args : sorted (rep_args_map args) /\ keyed r_name (rep_args_map args).
Proof.
  unfold rep_args_map.
  assert (forall l m, sorted m /\ keyed r_name m ->
            sorted (fold_left (fun m r => assoc_set (r_name r) r m) l m) /\
            keyed r_name (fold_left (fun m r => assoc_set (r_name r) r m) l m)) as G.
  { induction l; simpl; intros m [S K]; [split; assumption|].
    apply IHl. split; [apply sorted_set; exact S|apply keyed_set; [reflexivity|exact K]]. }
  apply G. split; constructor.
Qed.

Lemma rep_fold_ok l : forall m, sorted m /\ keyed r_name m ->
  sorted (fold_left rep_addif l m) /\ keyed r_name (fold_left rep_addif l m).
Proof.
  induction l; simpl; intros m [S K]; [split; assumption|]. apply IHl. unfold rep_addif.
  destruct (assoc_mem (r_name a) m); [split; assumption|].
  split; [apply sorted_set; exact S|apply keyed_set; [reflexivity|exact K]].
Qed.

Lemma get_rep_fold l : forall m n,
  assoc_get n (fold_left rep_addif l m) =
  match assoc_get n m with Some v => Some v | None => find (fun r => String.eqb (r_name r) n) l end.
Proof.
  induction l as [|a t IH]; simpl; intros m n; [destruct (assoc_get n m); reflexivity|].
  rewrite IH. unfold rep_addif. unfold assoc_mem.
  destruct (assoc_get (r_name a) m) eqn:Ga.
  - destruct (assoc_get n m) eqn:Gn; [reflexivity|].
    destruct (String.eqb_spec (r_name a) n); [subst n; rewrite Ga in Gn; discriminate|reflexivity].
  - rewrite assoc_get_set. destruct (String.eqb_spec (r_name a) n).
    + subst n. rewrite Ga. reflexivity.
    + reflexivity.
Qed.

Lemma set_replicas_list_idem args cur :
  set_replicas_list args (set_replicas_list args cur) = set_replicas_list args cur.
Proof.
  rewrite !set_replicas_list_unfold. f_equal.
  destruct (rep_args_map_ok args) as [SA KA].
  destruct (rep_fold_ok cur _ (conj SA KA)) as [S1 K1].
  destruct (rep_fold_ok (map snd (fold_left rep_addif cur (rep_args_map args))) _ (conj SA KA)) as [S2 K2].
  apply sorted_ext; [exact S2|exact S1|]. intro n.
  rewrite get_rep_fold. rewrite (find_in_values r_name) by exact K1.
  rewrite get_rep_fold. destruct (assoc_get n (rep_args_map args)); reflexivity.
Qed.

Lemma set_replicas_idem e k args :
  model_step e (model_step e k (SetReplicas args)) (SetReplicas args) = model_step e k (SetReplicas args).
Proof.
  rewrite !model_step_N. cbn [apply_op].
  destruct args as [|a t]; [reflexivity|].
  destruct (mapM parse_replica_arg (a :: t)) as [rs| | |]; cbn [bind]; try reflexivity. unfold wrote.
  rewrite !N_set_replicas. cbn [k_replicas set_replicas].
  rewrite set_replicas_list_idem, N_idem. reflexivity.
Qed.

(* ---------- set image ---------- *)
Definition resolve (a im : image) : image :=
  let a1 := if String.eqb (i_newName a) preserve_sep then mkImage (i_name a) (i_newName im) "" (i_newTag a) (i_digest a) else a in
  let a2 := if String.eqb (i_newTag a1) preserve_sep then mkImage (i_name a1) (i_newName a1) "" (i_newTag im) (i_digest a1) else a1 in
  if String.eqb (i_digest a2) preserve_sep then mkImage (i_name a2) (i_newName a2) "" (i_newTag a2) (i_digest im) else a2.

Definition img_step (cur : option image) (im : image) : image :=
  match cur with Some a => resolve a im | None => im end.

Lemma absorb_image_unfold m im :
  absorb_image m im = assoc_set (i_name im) (img_step (assoc_get (i_name im) m) im) m.
Proof. unfold absorb_image, img_step, resolve. destruct (assoc_get (i_name im) m); reflexivity. Qed.

Definition img_args_map (args : list image) : list (string * image) :=
  fold_left (fun m im => assoc_set (i_name im) im m) args [].

Lemma merge_images_unfold args cur :
  merge_images args cur = map (fun kv => unstar_image (snd kv)) (fold_left absorb_image cur (img_args_map args)).
Proof. reflexivity. Qed.

Lemma resolve_name a im : i_name (resolve a im) = i_name a.
Proof.
  unfold resolve. destruct (String.eqb (i_newName a) preserve_sep); cbn;
    destruct (String.eqb (i_newTag a) preserve_sep); cbn;
    destruct (String.eqb (i_digest a) preserve_sep); reflexivity.
Qed.

Lemma unstar_name v : i_name (unstar_image v) = i_name v.
Proof.
  unfold unstar_image. destruct (String.eqb (i_newName v) preserve_sep); cbn;
    destruct (String.eqb (i_newTag v) preserve_sep); cbn;
    destruct (String.eqb (i_digest v) preserve_sep); reflexivity.
Qed.

(* the binding of name n after absorbing a list of images *)
Fixpoint img_run (cur : option image) (l : list image) (n : string) : option image :=
  match l with
  | [] => cur
  | im :: t => if String.eqb (i_name im) n then img_run (Some (img_step cur im)) t n else img_run cur t n
  end.

Lemma get_img_fold l : forall m n,
  assoc_get n (fold_left absorb_image l m) = img_run (assoc_get n m) l n.
Proof.
  induction l as [|im t IH]; simpl; intros m n; [reflexivity|].
  rewrite IH. rewrite absorb_image_unfold. rewrite assoc_get_set.
  destruct (String.eqb_spec (i_name im) n); [subst n; reflexivity|reflexivity].
Qed.

Lemma img_args_map_ok args : sorted (img_args_map args) /\ keyed i_name (img_args_map args).
Proof.
  unfold img_args_map.
  assert (forall l m, sorted m /\ keyed i_name m ->
            sorted (fold_left (fun m im => assoc_set (i_name im) im m) l m) /\
            keyed i_name (fold_left (fun m im => assoc_set (i_name im) im m) l m)) as G.
  { induction l; simpl; intros m [S K]; [split; assumption|].
    apply IHl. split; [apply sorted_set; exact S|apply keyed_set; [reflexivity|exact K]]. }
  apply G. split; constructor.
Qed.

Lemma keyed_get {V} (key : V -> string) (m : list (string * V)) n v :
  keyed key m -> assoc_get n m = Some v -> key v = n.
Proof.
  induction m as [|[k x] t IH]; simpl; intros H G; [discriminate|].
  inversion H; subst. destruct (String.eqb_spec k n).
  - injection G as G. subst. assumption.
  - apply IH; assumption.
Qed.

Lemma img_fold_ok l : forall m, sorted m /\ keyed i_name m ->
  sorted (fold_left absorb_image l m) /\ keyed i_name (fold_left absorb_image l m).
Proof.
  induction l as [|im t IH]; simpl; intros m [S K]; [split; assumption|]. apply IH.
  rewrite absorb_image_unfold. split; [apply sorted_set; exact S|].
  apply keyed_set; [|exact K]. unfold img_step.
  destruct (assoc_get (i_name im) m) eqn:G; [|reflexivity].
  rewrite resolve_name. eapply keyed_get; eassumption.
Qed.

(* values of a keyed sorted map, run through absorb: at most one hit per name *)
Lemma img_run_values (m : list (string * image)) : forall c n,
  sorted m -> keyed i_name m ->
  img_run c (map snd m) n = match assoc_get n m with Some v => Some (img_step c v) | None => c end.
Proof.
  induction m as [|[k v] t IH]; simpl; intros c n S K; [reflexivity|].
  inversion S as [|? ? ? Ha St]; subst. inversion K as [|? ? Hk Kt]; subst. simpl in Hk. rewrite Hk.
  destruct (String.eqb_spec k n).
  - subst n. rewrite IH by assumption. rewrite (above_get_none k t) by assumption. reflexivity.
  - apply IH; assumption.
Qed.

Definition map_vals {V} (f : V -> V) (m : list (string * V)) : list (string * V) :=
  map (fun kv => (fst kv, f (snd kv))) m.

Lemma map_vals_snd {V} (f : V -> V) m : map snd (map_vals f m) = map (fun kv => f (snd kv)) m.
Proof. unfold map_vals. rewrite map_map. reflexivity. Qed.

Lemma get_map_vals {V} (f : V -> V) m n : assoc_get n (map_vals f m) = option_map f (assoc_get n m).
Proof.
  induction m as [|[k v] t IH]; simpl; [reflexivity|]. destruct (String.eqb k n); [reflexivity|exact IH].
Qed.

Lemma sorted_map_vals {V} (f : V -> V) m : sorted m -> sorted (map_vals f m).
Proof.
  induction m as [|[k v] t IH]; simpl; intro S; [constructor|]. inversion S; subst.
  constructor; [|apply IH; assumption].
  unfold above in *. rewrite Forall_forall in *. intros kv Hin. unfold map_vals in Hin.
  apply in_map_iff in Hin. destruct Hin as [[k2 v2] [E Hin]]. subst kv. simpl.
  exact (H1 _ Hin).
Qed.

Lemma keyed_map_vals {V} (key : V -> string) (f : V -> V) m :
  (forall v, key (f v) = key v) -> keyed key m -> keyed key (map_vals f m).
Proof.
  intros Hf K. unfold keyed, map_vals in *. rewrite Forall_forall in *. intros kv Hin.
  apply in_map_iff in Hin. destruct Hin as [[k2 v2] [E Hin]]. subst kv. simpl.
  rewrite Hf. exact (K _ Hin).
Qed.

(* star bookkeeping *)
Definition has_star (a : image) : bool :=
  String.eqb (i_newName a) preserve_sep || String.eqb (i_newTag a) preserve_sep || String.eqb (i_digest a) preserve_sep.

(* w is what became of the command-line image a after absorbing some images of the file *)
Definition img_rel (a w : image) : Prop :=
  i_name w = i_name a /\
  (String.eqb (i_newName a) preserve_sep = false -> i_newName w = i_newName a) /\
  (String.eqb (i_newTag a) preserve_sep = false -> i_newTag w = i_newTag a) /\
  (String.eqb (i_digest a) preserve_sep = false -> i_digest w = i_digest a) /\
  (has_star a = false -> w = a) /\
  (has_star a = true -> has_star w = true \/ i_tagSuffix w = "").

Lemma img_rel_refl a : img_rel a a.
Proof. unfold img_rel. repeat split; auto. Qed.

Lemma img_rel_resolve a w im : img_rel a w -> img_rel a (resolve w im).
Proof.
  intros (Hn & H1 & H2 & H3 & H4 & H5).
  destruct (has_star a) eqn:Hs.
  - (* a has a star *)
    unfold img_rel. rewrite resolve_name. split; [exact Hn|].
    unfold resolve, has_star in *.
    destruct w as [wn wnn wts wnt wd]. cbn in *.
    destruct (String.eqb wnn preserve_sep) eqn:E1; cbn;
      destruct (String.eqb wnt preserve_sep) eqn:E2; cbn;
      destruct (String.eqb wd preserve_sep) eqn:E3; cbn;
      repeat split; intros; subst;
      try (first [ apply H1; assumption | apply H2; assumption | apply H3; assumption ]);
      try discriminate;
      try (right; reflexivity);
      try (rewrite H1 in E1 by assumption; congruence);
      try (rewrite H2 in E2 by assumption; congruence);
      try (rewrite H3 in E3 by assumption; congruence).
    all: try congruence.
    all: try (destruct (H5 eq_refl) as [Q|Q]; [cbn in Q; discriminate Q|right; exact Q]).
  - (* a has no star: w = a, resolve does nothing *)
    specialize (H4 eq_refl). subst w.
    assert (resolve a im = a) as E.
    { unfold resolve, has_star in *. apply orb_false_elim in Hs. destruct Hs as [Hs Hs3].
      apply orb_false_elim in Hs. destruct Hs as [Hs1 Hs2]. rewrite Hs1. cbn. rewrite Hs2. cbn. rewrite Hs3. reflexivity. }
    rewrite E. apply img_rel_refl.
Qed.

Lemma img_run_rel a : forall l c n, (forall w, c = Some w -> img_rel a w) ->
  forall w, img_run c l n = Some w -> c <> None -> img_rel a w.
Proof.
  induction l as [|im t IH]; simpl; intros c n Hc w Hw Hne; [apply Hc; exact Hw|].
  destruct (String.eqb (i_name im) n).
  - eapply IH; [|exact Hw|discriminate]. intros w' E. injection E as E. subst w'.
    destruct c as [c0|]; [|contradiction]. cbn. apply img_rel_resolve. apply Hc. reflexivity.
  - eapply IH; eassumption.
Qed.

Lemma img_run_some : forall l c n, c <> None -> img_run c l n <> None.
Proof.
  induction l as [|im t IH]; simpl; intros c n H; [exact H|].
  destruct (String.eqb (i_name im) n); apply IH; [discriminate|exact H].
Qed.

Lemma unstar_idem v : unstar_image (unstar_image v) = unstar_image v.
Proof.
  destruct v as [n nn ts nt d]. unfold unstar_image. cbn.
  destruct (String.eqb nn preserve_sep) eqn:E1; cbn;
    destruct (String.eqb nt preserve_sep) eqn:E2; cbn;
    destruct (String.eqb d preserve_sep) eqn:E3; cbn;
    repeat (cbn; rewrite ?E1, ?E2, ?E3); reflexivity.
Qed.

Lemma unstar_resolve_unstar a w : img_rel a w -> unstar_image (resolve a (unstar_image w)) = unstar_image w.
Proof.
  intros (Hn & H1 & H2 & H3 & H4 & H5).
  destruct (has_star a) eqn:Hs.
  - destruct a as [an ann ats ant ad]. destruct w as [wn wnn wts wnt wd].
    unfold has_star, resolve, unstar_image in *. cbn in *. subst wn.
    destruct (String.eqb ann preserve_sep) eqn:A1; cbn in *;
      destruct (String.eqb ant preserve_sep) eqn:A2; cbn in *;
      destruct (String.eqb ad preserve_sep) eqn:A3; cbn in *; try discriminate Hs;
      try (rewrite (H1 eq_refl) in *); try (rewrite (H2 eq_refl) in *); try (rewrite (H3 eq_refl) in *);
      destruct (String.eqb wnn preserve_sep) eqn:E1; cbn;
      destruct (String.eqb wnt preserve_sep) eqn:E2; cbn;
      destruct (String.eqb wd preserve_sep) eqn:E3; cbn;
      repeat (progress (rewrite ?A1, ?A2, ?A3, ?E1, ?E2, ?E3; cbn));
      try congruence;
      try reflexivity;
      try (destruct (H5 eq_refl) as [Q|Q]; [cbn in Q; rewrite ?A1, ?A2, ?A3, ?E1, ?E2, ?E3 in Q; try discriminate Q|subst wts; reflexivity]).
  - specialize (H4 eq_refl). subst w.
    unfold has_star in Hs. apply orb_false_elim in Hs. destruct Hs as [Hs Hs3].
    apply orb_false_elim in Hs. destruct Hs as [Hs1 Hs2].
    assert (unstar_image a = a) as Ea by (unfold unstar_image; rewrite Hs1; cbn; rewrite Hs2; cbn; rewrite Hs3; reflexivity).
    rewrite Ea. assert (resolve a a = a) as Er by (unfold resolve; rewrite Hs1; cbn; rewrite Hs2; cbn; rewrite Hs3; reflexivity).
    rewrite Er. exact Ea.
Qed.

Lemma merge_images_idem args cur :
  merge_images args (merge_images args cur) = merge_images args cur.
Proof.
  rewrite !merge_images_unfold.
  destruct (img_args_map_ok args) as [SA KA].
  set (A := img_args_map args) in *.
  set (M := fold_left absorb_image cur A).
  destruct (img_fold_ok cur A (conj SA KA)) as [SM KM]. fold M in SM, KM.
  set (Mu := map_vals unstar_image M).
  assert (sorted Mu) as SMu by (apply sorted_map_vals; exact SM).
  assert (keyed i_name Mu) as KMu by (apply keyed_map_vals; [apply unstar_name|exact KM]).
  assert (map (fun kv => unstar_image (snd kv)) M = map snd Mu) as EM by (unfold Mu; rewrite map_vals_snd; reflexivity).
  rewrite EM.
  set (M' := fold_left absorb_image (map snd Mu) A).
  destruct (img_fold_ok (map snd Mu) A (conj SA KA)) as [SM' KM']. fold M' in SM', KM'.
  assert (map (fun kv => unstar_image (snd kv)) M' = map snd (map_vals unstar_image M')) as EM'
      by (rewrite map_vals_snd; reflexivity).
  rewrite EM'. f_equal.
  apply sorted_ext; [apply sorted_map_vals; exact SM'|exact SMu|].
  intro n. rewrite get_map_vals. unfold M'. rewrite get_img_fold.
  rewrite img_run_values by assumption.
  unfold Mu. rewrite get_map_vals. unfold M. rewrite get_img_fold.
  destruct (img_run (assoc_get n A) cur n) as [w|] eqn:Hw; cbn [option_map].
  - destruct (assoc_get n A) as [a|] eqn:Ha.
    + cbn [img_step option_map]. f_equal. apply unstar_resolve_unstar.
      eapply (img_run_rel a cur (Some a) n); [|exact Hw|discriminate].
      intros w' E. injection E as E. subst w'. apply img_rel_refl.
    + cbn [img_step option_map]. rewrite unstar_idem. reflexivity.
  - destruct (assoc_get n A) as [a|] eqn:Ha; [|reflexivity].
    exfalso. exact (img_run_some cur (Some a) n ltac:(discriminate) Hw).
Qed.

Lemma set_image_idem e k args :
  fixed k ->
  model_step e (model_step e k (SetImage args)) (SetImage args) = model_step e k (SetImage args).
Proof.
  intro F. rewrite !model_step_N. cbn [apply_op].
  destruct args as [|a t]; [reflexivity|].
  destruct (mapM parse_image_arg (a :: t)) as [ims| | |]; cbn [bind]; try reflexivity. unfold wrote.
  rewrite !N_set_images. rewrite (fixed_imageTags k F), app_nil_r.
  cbn [k_images k_imageTags set_images].
  assert (k_imageTags (N k) = []) as E by reflexivity. rewrite E, app_nil_r.
  rewrite merge_images_idem, N_idem. reflexivity.
Qed.

(* ---------- all set commands ---------- *)
Definition is_set (o : op) : bool :=
  match o with
  | SetLabel _ | SetAnnotation _ | SetBuildMetadata _ | SetImage _ | SetReplicas _
  | SetNamespace _ | SetNamePrefix _ | SetNameSuffix _ => true
  | _ => false
  end.

(* the maps of the record are key-sorted (every value produced by Unmarshal or by a command is) *)
Definition maps_sorted (k : kust) : Prop :=
  sorted_o (k_commonLabels k) /\ sorted_o (k_commonAnnotations k).

Theorem set_idempotent :
  forall e k o, is_set o = true -> fixed k -> maps_sorted k ->
    model_step e (model_step e k o) o = model_step e k o.
Proof.
  intros e k o Hs F [S1 S2]. destruct o; try discriminate Hs.
  - apply set_label_idem. exact S1.
  - apply set_annotation_idem. exact S2.
  - apply set_buildmetadata_idem.
  - apply set_image_idem. exact F.
  - apply set_replicas_idem.
  - apply set_namespace_idem.
  - apply set_nameprefix_idem.
  - apply set_namesuffix_idem.
Qed.

(* non-vacuity: a state as Read returns it, with sorted maps, on which a set command really writes *)
Example set_idempotent_example :
  let e := mkEnv [("kustomization.yaml", [])] [] "kustomization.yaml" in
  let k := fix_kustomization (set_images [mkImage "nginx" "old" "" "1" ""; mkImage "app" "" "" "2" ""]
                               (set_commonLabels (Some [("a", "b")]) empty_kust)) in
  fixed k /\ maps_sorted k /\
  k_images (model_step e k (SetImage ["nginx=*:9"; "redis@sha256:abc"])) =
    [mkImage "app" "" "" "2" ""; mkImage "nginx" "old" "" "9" ""; mkImage "redis" "" "" "" "sha256:abc"].
Proof.
  cbn zeta. split; [reflexivity|]. split.
  - split; cbn; [|exact I]. constructor; [constructor|constructor].
  - vm_compute. reflexivity.
Qed.

(* ====================================================================================== *)
(* add followed by the matching remove                                                      *)
(* ====================================================================================== *)

(* a pattern without '*' and '?' (and, by the domain of the model, without '[' and '\') matches
   exactly itself *)
Lemma str_contains_cons c a s :
  str_contains c (String a s) = Ascii.eqb a c || str_contains c s.
Proof.
  unfold str_contains. simpl. destruct (Ascii.eqb a c); [reflexivity|].
  destruct (str_index c s); reflexivity.
Qed.

Lemma gmatch_literal : forall p s, has_meta p = false -> gmatch p s = String.eqb p s.
Proof.
  induction p as [|c p IH]; intros s H.
  - destruct s; reflexivity.
  - unfold has_meta in H. rewrite !str_contains_cons in H.
    apply orb_false_elim in H. destruct H as [H1 H2].
    apply orb_false_elim in H1. destruct H1 as [Hc1 Hp1].
    apply orb_false_elim in H2. destruct H2 as [Hc2 Hp2].
    assert (has_meta p = false) as Hp by (unfold has_meta; rewrite Hp1, Hp2; reflexivity).
    cbn [gmatch]. rewrite Hc1, Hc2. destruct s as [|d s]; [reflexivity|].
    cbn [String.eqb]. rewrite IH by exact Hp. reflexivity.
Qed.

Lemma str_in_app s l1 l2 : str_in s (l1 ++ l2) = str_in s l1 || str_in s l2.
Proof. induction l1; simpl; [reflexivity|]. rewrite IHl1, orb_assoc. reflexivity. Qed.

Lemma filter_eqb_absent r l : str_in r l = false -> filter (String.eqb r) l = [].
Proof.
  induction l; simpl; intro H; [reflexivity|]. apply orb_false_elim in H. destruct H as [H1 H2].
  rewrite H1. apply IHl. exact H2.
Qed.

Lemma filter_not_r_absent r l : str_in r l = false -> filter (fun x => negb (str_in x [r])) l = l.
Proof.
  induction l as [|a l IH]; intro H; [reflexivity|].
  cbn [str_in] in H. apply orb_false_elim in H. destruct H as [H1 H2].
  assert (str_in a [r] = false) as E by (cbn [str_in]; rewrite String.eqb_sym, H1; reflexivity).
  cbn [filter]. rewrite E. cbn [negb]. rewrite IH by exact H2. reflexivity.
Qed.

(* removing the literal r from cur ++ [r] when r was not in cur *)
Lemma remove_matching_added r cur :
  has_meta r = false -> str_in r cur = false -> remove_matching (cur ++ [r]) [r] = Some cur.
Proof.
  intros Hm Ha. unfold remove_matching, glob_in_list. cbn [flat_map]. rewrite app_nil_r.
  rewrite (filter_ext _ (String.eqb r)) by (intro; apply gmatch_literal; exact Hm).
  rewrite filter_app, (filter_eqb_absent r cur Ha).
  assert (filter (String.eqb r) [r] = [r]) as E1 by (cbn [filter]; rewrite String.eqb_refl; reflexivity).
  rewrite E1. cbn [app].
  f_equal. rewrite filter_app, (filter_not_r_absent r cur Ha).
  assert (filter (fun x => negb (str_in x [r])) [r] = []) as E2
      by (cbn [filter str_in]; rewrite String.eqb_refl; reflexivity).
  rewrite E2. apply app_nil_r.
Qed.

(* every element of the list is r *)
Definition all_are (r : string) (l : list string) : Prop := Forall (fun x => x = r) l.

Lemma add_missing_all_r skipk r : forall rs cur,
  all_are r rs -> rs <> [] -> str_in r cur = false ->
  (match skipk with Some kp => String.eqb kp r | None => false end) = false ->
  add_missing skipk rs cur = cur ++ [r].
Proof.
  assert (forall rs cur, all_are r rs -> str_in r cur = true -> add_missing skipk rs cur = cur) as G.
  { induction rs as [|x t IH]; simpl; intros cur Hall Hin; [reflexivity|].
    inversion Hall; subst. destruct (match skipk with Some kp => String.eqb kp r | None => false end);
      [apply IH; assumption|]. rewrite Hin. apply IH; assumption. }
  intros rs cur Hall Hne Ha Hk. destruct rs as [|x t]; [contradiction|]. inversion Hall; subst.
  simpl. rewrite Hk, Ha. apply G; [assumption|]. rewrite str_in_app. simpl. rewrite String.eqb_refl.
  rewrite orb_true_r. reflexivity.
Qed.

Lemma insert_all_r r l : all_are r l -> all_are r (insert_str r l).
Proof.
  induction l as [|a l IH]; simpl; intro H.
  - constructor; [reflexivity|constructor].
  - inversion H as [|? ? Ea Hl]; subst. destruct (String.leb r r).
    + constructor; [reflexivity|exact H].
    + constructor; [reflexivity|apply IH; exact Hl].
Qed.

Lemma sort_strs_all_r r l : all_are r l -> all_are r (sort_strs l).
Proof.
  intro H. unfold sort_strs. induction l as [|a l IH]; simpl; [constructor|].
  inversion H as [|? ? Ea Hl]; subst. apply insert_all_r. apply IH. exact Hl.
Qed.

Lemma filter_literal_all_r r l : has_meta r = false -> all_are r (filter (gmatch r) l).
Proof.
  intro Hm. unfold all_are. apply Forall_forall. intros x Hx. apply filter_In in Hx. destruct Hx as [_ Hx].
  rewrite gmatch_literal in Hx by exact Hm. symmetry. apply String.eqb_eq. exact Hx.
Qed.

Lemma fs_glob_literal e r : has_meta r = false -> all_are r (fs_glob e r).
Proof. intro Hm. unfold fs_glob. apply sort_strs_all_r. apply filter_literal_all_r. exact Hm. Qed.

Lemma gpwl_literal e r nv rs :
  has_meta r = false -> glob_patterns_with_loader e [r] nv = Ok rs -> all_are r rs /\ rs <> [].
Proof.
  intros Hm H. cbn in H. destruct nv.
  - injection H as H. subst. split; [constructor; [reflexivity|constructor]|discriminate].
  - pose proof (fs_glob_literal e r Hm) as Hall. destruct (fs_glob e r) as [|x t] eqn:G.
    + destruct (dir_exists e r); [|discriminate]. injection H as H. subst.
      split; [constructor; [reflexivity|constructor]|discriminate].
    + injection H as H. subst. rewrite app_nil_r. split; [exact Hall|discriminate].
Qed.

Lemma fixed_N_resources k : fixed k -> k_resources (N k) = k_resources k.
Proof. intro F. cbn. rewrite (fixed_bases k F). apply app_nil_r. Qed.

Lemma set_resources_N k : fixed k -> set_resources (k_resources k) (N k) = N k.
Proof. intro F. rewrite <- (fixed_N_resources k F). apply set_get_resources. Qed.

(* add resource r ; remove resource r *)
Theorem add_remove_resource e k r nv k1 :
  fixed k -> has_meta r = false -> str_in r (k_resources k) = false -> String.eqb (e_kpath e) r = false ->
  apply_op e (Ok k) (AddResource [r] nv) = Ok (Some k1) ->
  model_step e (model_step e k (AddResource [r] nv)) (RemoveResource [r]) = N k.
Proof.
  intros F Hm Ha Hk H1. rewrite (model_step_N e k). rewrite H1.
  cbn [apply_op] in H1. destruct (glob_patterns_with_loader e [r] nv) as [rs| | |] eqn:G; try discriminate H1.
  destruct (gpwl_literal e r nv rs Hm G) as [Hall Hne]. cbn [bind] in H1. unfold add_paths in H1.
  destruct rs as [|x t] eqn:Ers; [contradiction|]. rewrite <- Ers in *. cbn [bind] in H1. unfold wrote in H1.
  injection H1 as H1. subst k1.
  rewrite (add_missing_all_r (Some (e_kpath e)) r rs (k_resources k) Hall Hne Ha Hk).
  rewrite N_set_resources, (fixed_bases k F), app_nil_r.
  rewrite model_step_N. cbn [apply_op bind k_resources set_resources].
  rewrite (remove_matching_added r (k_resources k) Hm Ha). unfold wrote.
  rewrite N_set_resources. cbn [k_bases set_resources]. rewrite app_nil_r.
  transitivity (set_resources (k_resources k) (N (N k))); [reflexivity|].
  rewrite N_idem. apply set_resources_N. exact F.
Qed.

(* add transformer t ; remove transformer t *)
Theorem add_remove_transformer e k t k1 :
  has_meta t = false -> str_in t (k_transformers k) = false ->
  apply_op e (Ok k) (AddTransformer [t]) = Ok (Some k1) ->
  model_step e (model_step e k (AddTransformer [t])) (RemoveTransformer [t]) = N k.
Proof.
  intros Hm Ha H1. rewrite (model_step_N e k). rewrite H1.
  cbn [apply_op] in H1. unfold add_paths in H1.
  assert (all_are t (glob_patterns e [t])) as Hall
      by (unfold glob_patterns; cbn [flat_map]; rewrite app_nil_r; apply fs_glob_literal; exact Hm).
  destruct (glob_patterns e [t]) as [|x rest] eqn:G; [discriminate H1|].
  cbn beta iota in H1. cbn [bind] in H1. unfold wrote in H1. injection H1 as H1. subst k1.
  change (if str_in x (k_transformers k) then add_missing None rest (k_transformers k)
          else add_missing None rest (k_transformers k ++ [x]))
    with (add_missing None (x :: rest) (k_transformers k)).
  rewrite (add_missing_all_r None t (x :: rest) (k_transformers k) Hall ltac:(discriminate) Ha eq_refl).
  rewrite N_set_transformers.
  rewrite model_step_N. cbn [apply_op bind k_transformers set_transformers].
  rewrite (remove_matching_added t (k_transformers k) Hm Ha). unfold wrote.
  rewrite N_set_transformers.
  transitivity (set_transformers (k_transformers (N k)) (N (N k))); [reflexivity|].
  rewrite N_idem. apply set_get_transformers.
Qed.

(* add buildmetadata a ; remove buildmetadata a *)
Lemma add_all_new_spec : forall news cur l,
  add_all_new news cur = Ok l ->
  l = cur ++ news /\ forallb (fun o => negb (str_in o cur)) news = true.
Proof.
  induction news as [|x t IH]; simpl; intros cur l H.
  - injection H as H. subst. rewrite app_nil_r. split; reflexivity.
  - destruct (str_in x cur) eqn:E; [discriminate|].
    destruct (IH _ _ H) as [El Hall]. split.
    + rewrite El, <- app_assoc. reflexivity.
    + cbn. rewrite forallb_forall in *. intros o Ho. specialize (Hall o Ho).
      rewrite str_in_app in Hall. apply negb_true_iff in Hall. apply orb_false_elim in Hall.
      apply negb_true_iff. tauto.
Qed.

Lemma filter_not_in_disjoint opts : forall cur,
  forallb (fun o => negb (str_in o opts)) cur = true ->
  filter (fun o => negb (str_in o opts)) cur = cur.
Proof.
  induction cur as [|a l IH]; intro H; [reflexivity|]. cbn [forallb] in H.
  apply andb_prop in H. destruct H as [H1 H2]. cbn [filter]. rewrite H1, IH by exact H2. reflexivity.
Qed.

Lemma filter_all_in opts : filter (fun o => negb (str_in o opts)) opts = [].
Proof.
  assert (forall l, (forall x, In x l -> str_in x opts = true) -> filter (fun o => negb (str_in o opts)) l = []) as G.
  { induction l as [|a l IH]; intro H; [reflexivity|]. cbn [filter].
    rewrite (H a (or_introl eq_refl)). cbn. apply IH. intros x Hx. apply H. right. exact Hx. }
  apply G. intros x Hx. clear G. induction opts as [|a l IH]; [destruct Hx|].
  cbn. destruct Hx as [Hx|Hx]; [subst; rewrite String.eqb_refl; reflexivity|].
  rewrite (IH Hx). apply orb_true_r.
Qed.

Lemma str_in_sym_disjoint news : forall cur,
  forallb (fun o => negb (str_in o cur)) news = true ->
  forallb (fun o => negb (str_in o news)) cur = true.
Proof.
  intros cur H. apply forallb_forall. intros c Hc. apply negb_true_iff.
  destruct (str_in c news) eqn:E; [|reflexivity]. exfalso.
  assert (In c news) as Hin.
  { clear - E. induction news; simpl in E; [discriminate|]. apply orb_prop in E. destruct E as [E|E].
    - left. symmetry. apply String.eqb_eq. exact E.
    - right. apply IHnews. exact E. }
  rewrite forallb_forall in H. specialize (H c Hin). apply negb_true_iff in H.
  assert (str_in c cur = true) as T.
  { clear - Hc. induction cur; [destruct Hc|]. simpl. destruct Hc as [Hc|Hc];
      [subst; rewrite String.eqb_refl; reflexivity|rewrite (IHcur Hc); apply orb_true_r]. }
  rewrite T in H. discriminate.
Qed.

Theorem add_remove_buildmetadata e k args k1 :
  apply_op e (Ok k) (AddBuildMetadata args) = Ok (Some k1) ->
  model_step e (model_step e k (AddBuildMetadata args)) (RemoveBuildMetadata args) = N k.
Proof.
  intros H1. rewrite (model_step_N e k). rewrite H1. cbn [apply_op] in H1.
  destruct (validate_buildmetadata args) as [opts| | |] eqn:V; try discriminate H1. cbn [bind] in H1.
  destruct (add_all_new opts (k_buildMetadata k)) as [l| | |] eqn:A; try discriminate H1. cbn [bind] in H1.
  unfold wrote in H1. injection H1 as H1. subst k1.
  destruct (add_all_new_spec _ _ _ A) as [El Hd]. subst l.
  rewrite N_set_buildMetadata. rewrite model_step_N. cbn [apply_op]. rewrite V. cbn [bind k_buildMetadata set_buildMetadata].
  unfold wrote. rewrite filter_app.
  rewrite (filter_not_in_disjoint opts (k_buildMetadata k)) by (apply str_in_sym_disjoint; exact Hd).
  rewrite filter_all_in, app_nil_r. rewrite N_set_buildMetadata.
  transitivity (set_buildMetadata (k_buildMetadata (N k)) (N (N k))); [reflexivity|].
  rewrite N_idem. apply set_get_buildMetadata.
Qed.

(* add label key:v ; remove label key   (commonLabels; one key) *)
Lemma canon_mapo_or_empty (o : option smap) : canon_mapo (Some (mapo_or_empty o)) = canon_mapo o.
Proof. destruct o as [[|]|]; reflexivity. Qed.

Lemma add_label_value e k a key v :
  convert_slice_to_map [a] [] = Ok [(key, v)] ->
  assoc_get key (mapo_or_empty (k_commonLabels k)) = None ->
  apply_op e (Ok k) (AddLabel [a] false false false) =
  Ok (Some (set_commonLabels (Some (assoc_set key v (mapo_or_empty (k_commonLabels k)))) k)).
Proof.
  intros Hc Hg. cbn [apply_op negb andb]. rewrite Hc. cbn [bind].
  unfold write_to_map. cbn [negb andb existsb fst]. unfold assoc_mem. rewrite Hg. cbn [orb fold_left fst snd bind].
  reflexivity.
Qed.

Theorem add_remove_label e k a key v :
  sorted_o (k_commonLabels k) ->
  convert_slice_to_map [a] [] = Ok [(key, v)] ->
  split_on ","%char key = [key] -> String.eqb key "" = false ->
  assoc_get key (mapo_or_empty (k_commonLabels k)) = None ->
  model_step e (model_step e k (AddLabel [a] false false false)) (RemoveLabel [key] false) = N k.
Proof.
  intros S Hc Hsp Hne Hg. rewrite (model_step_N e k). rewrite (add_label_value e k a key v Hc Hg).
  rewrite N_set_commonLabels.
  rewrite (canon_mapo_some_nonempty (assoc_set key v (mapo_or_empty (k_commonLabels k)))) by apply assoc_set_nonempty.
  rewrite model_step_N. cbn [apply_op parse_remove_arg]. rewrite Hsp. cbn [existsb orb]. rewrite Hne.
  cbn [orb]. cbn [bind k_commonLabels set_commonLabels]. cbn [remove_from_map].
  unfold assoc_mem at 1. rewrite assoc_get_set_same. cbn [negb andb].
  rewrite assoc_del_set by (try apply sorted_mapo_or_empty; assumption).
  cbn [bind]. unfold wrote. rewrite N_set_commonLabels, canon_mapo_or_empty.
  transitivity (set_commonLabels (k_commonLabels (N k)) (N (N k))); [reflexivity|].
  rewrite N_idem. apply set_get_commonLabels.
Qed.

Lemma add_annotation_value e k a key v :
  convert_slice_to_map [a] [] = Ok [(key, v)] ->
  assoc_get key (mapo_or_empty (k_commonAnnotations k)) = None ->
  apply_op e (Ok k) (AddAnnotation [a] false) =
  Ok (Some (set_commonAnnotations (Some (assoc_set key v (mapo_or_empty (k_commonAnnotations k)))) k)).
Proof.
  intros Hc Hg. cbn [apply_op]. rewrite Hc. cbn [bind].
  unfold write_to_map. cbn [negb andb existsb fst]. unfold assoc_mem. rewrite Hg. cbn [orb fold_left fst snd bind].
  reflexivity.
Qed.

Theorem add_remove_annotation e k a key v :
  sorted_o (k_commonAnnotations k) ->
  convert_slice_to_map [a] [] = Ok [(key, v)] ->
  split_on ","%char key = [key] -> String.eqb key "" = false ->
  assoc_get key (mapo_or_empty (k_commonAnnotations k)) = None ->
  model_step e (model_step e k (AddAnnotation [a] false)) (RemoveAnnotation [key] false) = N k.
Proof.
  intros S Hc Hsp Hne Hg. rewrite (model_step_N e k). rewrite (add_annotation_value e k a key v Hc Hg).
  rewrite N_set_commonAnnotations.
  rewrite (canon_mapo_some_nonempty (assoc_set key v (mapo_or_empty (k_commonAnnotations k)))) by apply assoc_set_nonempty.
  rewrite model_step_N. cbn [apply_op parse_remove_arg]. rewrite Hsp. cbn [existsb orb]. rewrite Hne.
  cbn [orb]. cbn [bind k_commonAnnotations set_commonAnnotations]. cbn [remove_from_map].
  unfold assoc_mem at 1. rewrite assoc_get_set_same. cbn [negb andb].
  rewrite assoc_del_set by (try apply sorted_mapo_or_empty; assumption).
  cbn [bind]. unfold wrote. rewrite N_set_commonAnnotations, canon_mapo_or_empty.
  transitivity (set_commonAnnotations (k_commonAnnotations (N k)) (N (N k))); [reflexivity|].
  rewrite N_idem. apply set_get_commonAnnotations.
Qed.

(* add configmap / secret NAME ; remove configmap / secret NAME *)
Definition gen_norm (l : list genargs) : list genargs := map fix_env (map canon_genargs l).

Lemma gen_norm_idem l : gen_norm (gen_norm l) = gen_norm l.
Proof.
  unfold gen_norm. rewrite (map_comm canon_genargs fix_env) by (intro; symmetry; apply fix_env_canon).
  rewrite (map_idem fix_env) by apply fix_env_idem.
  rewrite (map_idem canon_genargs) by apply canon_genargs_idem. reflexivity.
Qed.

Lemma gen_norm_app l1 l2 : gen_norm (l1 ++ l2) = gen_norm l1 ++ gen_norm l2.
Proof. unfold gen_norm. rewrite !map_app. reflexivity. Qed.

Lemma gen_norm_name a : ga_name (fix_env (canon_genargs a)) = ga_name a.
Proof. unfold fix_env, canon_genargs. cbn. destruct (String.eqb (ga_env a) ""); reflexivity. Qed.
Lemma gen_norm_namespace a : ga_namespace (fix_env (canon_genargs a)) = ga_namespace a.
Proof. unfold fix_env, canon_genargs. cbn. destruct (String.eqb (ga_env a) ""); reflexivity. Qed.

Lemma find_index_none {A} (p : A -> bool) l : find_index p l = None -> forall x, In x l -> p x = false.
Proof.
  induction l as [|a l IH]; simpl; intros H x Hx; [destruct Hx|].
  destruct (p a) eqn:E; [discriminate|]. destruct (find_index p l); [discriminate|].
  destruct Hx as [Hx|Hx]; [subst; exact E|apply IH; [reflexivity|exact Hx]].
Qed.

Lemma nth_error_app_last {A} (l : list A) x : nth_error (l ++ [x]) (List.length l) = Some x.
Proof. induction l; simpl; [reflexivity|exact IHl]. Qed.

Lemma replace_nth_app_last {A} (l : list A) x y : replace_nth (List.length l) y (l ++ [x]) = l ++ [y].
Proof. induction l; simpl; [reflexivity|rewrite IHl; reflexivity]. Qed.

(* the shape of a successful add when no generator of that name/namespace exists *)
Lemma add_generator_args_new e secret fl files global l name l' :
  cf_args fl = [name] -> find_gen name (cf_namespace fl) l = None ->
  add_generator_args e secret fl files global l = Ok l' ->
  exists a, l' = l ++ [a] /\ ga_name a = name /\ ga_namespace a = cf_namespace fl.
Proof.
  intros Ha Hf H. unfold add_generator_args in H. rewrite Ha, Hf in H.
  rewrite nth_error_app_last in H.
  match type of H with (if generator_valid e ?a2 then _ else _) = _ => destruct (generator_valid e a2); [|discriminate H];
    exists a2 end.
  injection H as H. subst l'. rewrite replace_nth_app_last. split; [reflexivity|]. split; reflexivity.
Qed.

Lemma remove_generator_args_added name ns l a :
  split_on ","%char name = [name] ->
  (forall g, In g l -> (String.eqb name (ga_name g) && ns_equal (ga_namespace g) ns) = false) ->
  ga_name a = name -> ga_namespace a = ns ->
  remove_generator_args [name] ns (gen_norm (l ++ [a])) = Ok (gen_norm l).
Proof.
  intros Hsp Hl Hn Hs. unfold remove_generator_args. rewrite Hsp.
  set (hit := fun g : genargs => str_in (ga_name g) [name] && ns_equal (ga_namespace g) ns).
  assert (forall g, In g l -> hit (fix_env (canon_genargs g)) = false) as Hmiss.
  { intros g Hg. unfold hit. rewrite gen_norm_name, gen_norm_namespace. cbn [str_in].
    rewrite orb_false_r, String.eqb_sym. apply Hl. exact Hg. }
  assert (hit (fix_env (canon_genargs a)) = true) as Hhit.
  { unfold hit. rewrite gen_norm_name, gen_norm_namespace, Hn, Hs. cbn [str_in]. rewrite String.eqb_refl. cbn.
    unfold ns_equal. apply String.eqb_refl. }
  rewrite gen_norm_app.
  assert (existsb hit (gen_norm l ++ gen_norm [a]) = true) as Ex.
  { rewrite existsb_app. cbn. rewrite Hhit. rewrite orb_true_r. reflexivity. }
  rewrite Ex. f_equal. rewrite filter_app.
  change (fun g : genargs => negb (str_in (ga_name g) [name] && ns_equal (ga_namespace g) ns))
    with (fun g : genargs => negb (hit g)).
  assert (filter (fun g => negb (hit g)) (gen_norm [a]) = []) as E1
      by (unfold gen_norm; cbn [map filter]; rewrite Hhit; reflexivity).
  rewrite E1, app_nil_r. clear E1 Ex Hl.
  unfold gen_norm. rewrite map_map.
  induction l as [|g t IH]; [reflexivity|]. cbn [map filter].
  rewrite (Hmiss g (or_introl eq_refl)). cbn [negb]. f_equal. apply IH.
  intros x Hx. apply Hmiss. right. exact Hx.
Qed.

Theorem add_remove_configmap e k fl name k1 :
  cf_args fl = [name] -> split_on ","%char name = [name] ->
  find_gen name (cf_namespace fl) (k_configMapGenerator k) = None ->
  apply_op e (Ok k) (AddConfigMap fl) = Ok (Some k1) ->
  model_step e (model_step e k (AddConfigMap fl)) (RemoveConfigMap [name] (cf_namespace fl)) = N k.
Proof.
  intros Ha Hsp Hf H1. rewrite (model_step_N e k). rewrite H1. cbn [apply_op] in H1.
  destruct (validate_add e fl) as [files| | |]; try discriminate H1. cbn [bind] in H1.
  destruct (add_generator_args e false fl files (k_generatorOptions k) (k_configMapGenerator k)) as [l'| | |] eqn:A;
    try discriminate H1. cbn [bind] in H1. unfold wrote in H1. injection H1 as H1. subst k1.
  destruct (add_generator_args_new _ _ _ _ _ _ _ _ Ha Hf A) as [a [El [Hn Hs]]]. subst l'.
  rewrite N_set_configMapGenerator. rewrite model_step_N. cbn [apply_op bind k_configMapGenerator set_configMapGenerator].
  fold (gen_norm (k_configMapGenerator k ++ [a])).
  rewrite (remove_generator_args_added name (cf_namespace fl) (k_configMapGenerator k) a Hsp
             (find_index_none _ _ Hf) Hn Hs).
  cbn [bind]. unfold wrote. rewrite N_set_configMapGenerator. fold (gen_norm (gen_norm (k_configMapGenerator k))).
  rewrite gen_norm_idem.
  transitivity (set_configMapGenerator (k_configMapGenerator (N k)) (N (N k))); [reflexivity|].
  rewrite N_idem. apply set_get_configMapGenerator.
Qed.

Theorem add_remove_secret e k fl name k1 :
  cf_args fl = [name] -> split_on ","%char name = [name] ->
  find_gen name (cf_namespace fl) (k_secretGenerator k) = None ->
  apply_op e (Ok k) (AddSecret fl) = Ok (Some k1) ->
  model_step e (model_step e k (AddSecret fl)) (RemoveSecret [name] (cf_namespace fl)) = N k.
Proof.
  intros Ha Hsp Hf H1. rewrite (model_step_N e k). rewrite H1. cbn [apply_op] in H1.
  destruct (validate_add e fl) as [files| | |]; try discriminate H1. cbn [bind] in H1.
  destruct (add_generator_args e true fl files (k_generatorOptions k) (k_secretGenerator k)) as [l'| | |] eqn:A;
    try discriminate H1. cbn [bind] in H1. unfold wrote in H1. injection H1 as H1. subst k1.
  destruct (add_generator_args_new _ _ _ _ _ _ _ _ Ha Hf A) as [a [El [Hn Hs]]]. subst l'.
  rewrite N_set_secretGenerator. rewrite model_step_N. cbn [apply_op bind k_secretGenerator set_secretGenerator].
  fold (gen_norm (k_secretGenerator k ++ [a])).
  rewrite (remove_generator_args_added name (cf_namespace fl) (k_secretGenerator k) a Hsp
             (find_index_none _ _ Hf) Hn Hs).
  cbn [bind]. unfold wrote. rewrite N_set_secretGenerator. fold (gen_norm (gen_norm (k_secretGenerator k))).
  rewrite gen_norm_idem.
  transitivity (set_secretGenerator (k_secretGenerator (N k)) (N (N k))); [reflexivity|].
  rewrite N_idem. apply set_get_secretGenerator.
Qed.

(* add patch ; remove patch *)
Lemma selector_eqb_refl s : selector_eqb s s = true.
Proof. unfold selector_eqb. destruct (selector_eq_dec s s); [reflexivity|contradiction]. Qed.

Lemma patch_equals_cli_refl path ptch target :
  patch_equals (cli_patch path ptch target) (cli_patch path ptch target) = true.
Proof.
  unfold patch_equals, cli_patch. cbn. rewrite !String.eqb_refl. cbn.
  destruct (selector_eqb target empty_selector); [reflexivity|]. rewrite selector_eqb_refl. reflexivity.
Qed.

Lemma canon_cli_patch path ptch target : canon_patch (cli_patch path ptch target) = cli_patch path ptch target.
Proof. reflexivity. Qed.

Lemma filter_none_equal p l :
  existsb (fun q => patch_equals q p) l = false -> filter (fun q => negb (patch_equals q p)) l = l.
Proof.
  induction l as [|a l IH]; intro H; [reflexivity|]. cbn [existsb] in H.
  apply orb_false_elim in H. destruct H as [H1 H2]. cbn [filter]. rewrite H1. cbn. rewrite IH by exact H2. reflexivity.
Qed.

Theorem add_remove_patch e k path ptch target k1 :
  existsb (fun q => patch_equals (canon_patch q) (cli_patch path ptch target)) (k_patches k) = false ->
  apply_op e (Ok k) (AddPatch path ptch target) = Ok (Some k1) ->
  model_step e (model_step e k (AddPatch path ptch target)) (RemovePatch path ptch target) = N k.
Proof.
  intros Hg H1. rewrite (model_step_N e k). rewrite H1. cbn [apply_op] in H1.
  set (p := cli_patch path ptch target) in *.
  destruct (negb (String.eqb ptch "") && negb (String.eqb path "")) eqn:V1; [discriminate H1|].
  destruct (String.eqb ptch "" && String.eqb path ""); [discriminate H1|].
  cbn [bind] in H1. cbn zeta in H1.
  unfold nothing in H1.
  destruct (existsb (fun q => patch_equals q p) (k_patches k)); [discriminate H1|].
  unfold wrote in H1. injection H1 as H1. subst k1.
  rewrite N_set_patches. rewrite model_step_N. cbn [apply_op]. rewrite V1.
  cbn [bind k_patches set_patches]. cbn zeta. fold p.
  assert (canon_patch p = p) as Ecp by reflexivity.
  assert (patch_equals p p = true) as Epp by apply patch_equals_cli_refl.
  rewrite map_app. cbn [map]. rewrite Ecp.
  rewrite filter_app. cbn [filter]. rewrite Epp. cbn [negb]. rewrite app_nil_r.
  assert (existsb (fun q => patch_equals q p) (map canon_patch (k_patches k)) = false) as Hg'
      by (clear - Hg; induction (k_patches k) as [|q l IH]; [reflexivity|];
          cbn [map existsb] in *; apply orb_false_elim in Hg; destruct Hg as [G1 G2];
          rewrite G1, (IH G2); reflexivity).
  rewrite (filter_none_equal p _ Hg').
  rewrite app_length. cbn [List.length].
  assert (Nat.eqb (List.length (map canon_patch (k_patches k)))
                  (List.length (map canon_patch (k_patches k)) + 1) = false) as Hlen
      by (apply Nat.eqb_neq; lia).
  rewrite Hlen. unfold wrote. rewrite N_set_patches.
  rewrite (map_idem canon_patch) by (intros [? ? ? ?]; unfold canon_patch; cbn; rewrite canon_mapo_idem; reflexivity).
  transitivity (set_patches (k_patches (N k)) (N (N k))); [reflexivity|].
  rewrite N_idem. apply set_get_patches.
Qed.
