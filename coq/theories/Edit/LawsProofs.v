(* Proofs of the algebraic laws of the edit commands on the in-memory model (Edit/Cmd.v):
   set commands are idempotent, add followed by the matching remove restores the content. *)
From KV Require Import Edit.Cmd Edit.AssocProofs Edit.OpsProofs.
Local Open Scope list_scope.

(* what the next Read sees after a Write *)
Definition N (k : kust) : kust := fix_kustomization (canon k).

Lemma model_step_N : forall e k o,
  model_step e k o = match apply_op e (Ok k) o with Ok (Some k') => N k' | _ => k end.
Proof. reflexivity. Qed.

(* states as Read returns them *)
Definition fixed (k : kust) : Prop := fix_kustomization k = k.

Lemma fixed_imageTags k : fixed k -> k_imageTags k = [].
Proof. intro H. unfold fixed in H. apply (f_equal Kust.k_imageTags) in H. cbn in H. symmetry. exact H. Qed.

Lemma fixed_bases k : fixed k -> k_bases k = [].
Proof. intro H. unfold fixed in H. apply (f_equal Kust.k_bases) in H. cbn in H. symmetry. exact H. Qed.

(* ---------- N is idempotent ---------- *)
Lemma canon_mapo_idem {A} (m : option (list A)) : canon_mapo (canon_mapo m) = canon_mapo m.
Proof. destruct m as [[|]|]; reflexivity. Qed.

Lemma canon_genopts_idem g : canon_genopts (canon_genopts g) = canon_genopts g.
Proof. destruct g. unfold canon_genopts. cbn. rewrite !canon_mapo_idem. reflexivity. Qed.

Lemma canon_genargs_idem a : canon_genargs (canon_genargs a) = canon_genargs a.
Proof.
  destruct a. unfold canon_genargs. cbn. f_equal.
  destruct ga_options; cbn; [rewrite canon_genopts_idem|]; reflexivity.
Qed.

Lemma fix_env_idem a : fix_env (fix_env a) = fix_env a.
Proof.
  unfold fix_env. destruct (String.eqb (ga_env a) "") eqn:E; [rewrite E; reflexivity|reflexivity].
Qed.

Lemma fix_env_canon a : fix_env (canon_genargs a) = canon_genargs (fix_env a).
Proof.
  unfold fix_env, canon_genargs. cbn. destruct (String.eqb (ga_env a) ""); reflexivity.
Qed.

Lemma map_idem {A} (f : A -> A) (l : list A) : (forall x, f (f x) = f x) -> map f (map f l) = map f l.
Proof. intro H. rewrite map_map. apply map_ext. exact H. Qed.

Lemma map_comm {A} (f g : A -> A) (l : list A) :
  (forall x, f (g x) = g (f x)) -> map f (map g l) = map g (map f l).
Proof. intro H. rewrite !map_map. apply map_ext. exact H. Qed.

Lemma N_idem k : N (N k) = N k.
Proof.
  destruct k. unfold N, fix_kustomization, canon. cbn.
  rewrite !app_nil_r.
  rewrite !canon_mapo_idem.
  rewrite (map_idem canon_label) by (intros [? ? ? ?]; unfold canon_label; cbn; rewrite canon_mapo_idem; reflexivity).
  rewrite !(map_idem canon_patch) by (intros [? ? ? ?]; unfold canon_patch; cbn; rewrite canon_mapo_idem; reflexivity).
  rewrite !(map_comm canon_genargs fix_env) by (intro; symmetry; apply fix_env_canon).
  rewrite !(map_idem fix_env) by apply fix_env_idem.
  rewrite !(map_comm fix_env canon_genargs) by apply fix_env_canon.
  rewrite !(map_idem canon_genargs) by apply canon_genargs_idem.
  assert (option_map canon_genopts (option_map canon_genopts k_generatorOptions)
          = option_map canon_genopts k_generatorOptions) as E
      by (destruct k_generatorOptions; cbn; [rewrite canon_genopts_idem|]; reflexivity).
  rewrite E. clear E.
  f_equal.
  - destruct (String.eqb k_apiVersion "") eqn:Ea.
    + destruct (String.eqb (if String.eqb k_kind "" then KustomizationKind else k_kind) ComponentKind);
        reflexivity.
    + rewrite Ea. reflexivity.
  - destruct (String.eqb k_kind "") eqn:Ek; [reflexivity|rewrite Ek; reflexivity].
Qed.

Lemma N_fixed k : fixed (N k).
Proof.
  unfold fixed. pose proof (N_idem k) as H. unfold N in *.
  (* fix (fix (canon k)) = fix (canon k): from N_idem via canon/fix commutation is longer; direct: *)
  clear H. destruct k. unfold fix_kustomization, canon. cbn. rewrite !app_nil_r.
  rewrite !(map_idem fix_env) by apply fix_env_idem.
  f_equal.
  - destruct (String.eqb k_apiVersion "") eqn:Ea.
    + destruct (String.eqb (if String.eqb k_kind "" then KustomizationKind else k_kind) ComponentKind);
        reflexivity.
    + rewrite Ea. reflexivity.
  - destruct (String.eqb k_kind "") eqn:Ek; [reflexivity|rewrite Ek; reflexivity].
Qed.

(* ---------- N and the setters ---------- *)
Lemma N_set_namespace v k : N (set_namespace v k) = set_namespace v (N k). Proof. reflexivity. Qed.
Lemma N_set_namePrefix v k : N (set_namePrefix v k) = set_namePrefix v (N k). Proof. reflexivity. Qed.
Lemma N_set_nameSuffix v k : N (set_nameSuffix v k) = set_nameSuffix v (N k). Proof. reflexivity. Qed.
Lemma N_set_buildMetadata v k : N (set_buildMetadata v k) = set_buildMetadata v (N k). Proof. reflexivity. Qed.
Lemma N_set_replicas v k : N (set_replicas v k) = set_replicas v (N k). Proof. reflexivity. Qed.
Lemma N_set_commonLabels v k : N (set_commonLabels v k) = set_commonLabels (canon_mapo v) (N k). Proof. reflexivity. Qed.
Lemma N_set_commonAnnotations v k : N (set_commonAnnotations v k) = set_commonAnnotations (canon_mapo v) (N k). Proof. reflexivity. Qed.
Lemma N_set_images v k : N (set_images v k) = set_images (v ++ k_imageTags k) (N k). Proof. reflexivity. Qed.
Lemma N_set_resources v k : N (set_resources v k) = set_resources (v ++ k_bases k) (N k). Proof. reflexivity. Qed.
Lemma N_set_transformers v k : N (set_transformers v k) = set_transformers v (N k). Proof. reflexivity. Qed.
Lemma N_set_patches v k : N (set_patches v k) = set_patches (map canon_patch v) (N k). Proof. reflexivity. Qed.
Lemma N_set_configMapGenerator v k :
  N (set_configMapGenerator v k) = set_configMapGenerator (map fix_env (map canon_genargs v)) (N k).
Proof. reflexivity. Qed.
Lemma N_set_secretGenerator v k :
  N (set_secretGenerator v k) = set_secretGenerator (map fix_env (map canon_genargs v)) (N k).
Proof. reflexivity. Qed.

(* setting a field to the value it has *)
Ltac eta_k := intros k; destruct k; reflexivity.
Lemma set_get_namespace : forall k, set_namespace (k_namespace k) k = k. Proof. eta_k. Qed.
Lemma set_get_resources : forall k, set_resources (k_resources k) k = k. Proof. eta_k. Qed.
Lemma set_get_transformers : forall k, set_transformers (k_transformers k) k = k. Proof. eta_k. Qed.
Lemma set_get_commonLabels : forall k, set_commonLabels (k_commonLabels k) k = k. Proof. eta_k. Qed.
Lemma set_get_commonAnnotations : forall k, set_commonAnnotations (k_commonAnnotations k) k = k. Proof. eta_k. Qed.
Lemma set_get_buildMetadata : forall k, set_buildMetadata (k_buildMetadata k) k = k. Proof. eta_k. Qed.
Lemma set_get_patches : forall k, set_patches (k_patches k) k = k. Proof. eta_k. Qed.
Lemma set_get_configMapGenerator : forall k, set_configMapGenerator (k_configMapGenerator k) k = k. Proof. eta_k. Qed.
Lemma set_get_secretGenerator : forall k, set_secretGenerator (k_secretGenerator k) k = k. Proof. eta_k. Qed.

(* ---------- maps built from command-line arguments ---------- *)
Definition fold_set {A} (md m : list (string * A)) : list (string * A) :=
  fold_left (fun acc kv => assoc_set (fst kv) (snd kv) acc) md m.

Lemma write_to_map_force m md : write_to_map m md true = Ok (fold_set md m).
Proof. reflexivity. Qed.

Lemma assoc_set_nonempty {A} k (v : A) m : assoc_set k v m <> [].
Proof.
  destruct m as [|[k' v'] t]; simpl; [discriminate|].
  destruct (String.eqb k' k); [discriminate|]. destruct (String.ltb k k'); discriminate.
Qed.

Lemma convert_sorted : forall args acc md,
  sorted acc -> convert_slice_to_map args acc = Ok md -> sorted md.
Proof.
  induction args as [|a t IH]; simpl; intros acc md S H.
  - injection H as H. subst. exact S.
  - destruct (split_first ":"%char a) as [[key v]|].
    + destruct (String.eqb key ""); [discriminate|]. eapply IH; [|exact H]. apply sorted_set. exact S.
    + eapply IH; [|exact H]. apply sorted_set. exact S.
Qed.

Lemma convert_nonempty : forall args acc md,
  convert_slice_to_map args acc = Ok md -> (args <> [] \/ acc <> []) -> md <> [].
Proof.
  induction args as [|a t IH]; simpl; intros acc md H Hne.
  - injection H as H. subst. destruct Hne as [Hne|Hne]; [contradiction|exact Hne].
  - destruct (split_first ":"%char a) as [[key v]|].
    + destruct (String.eqb key ""); [discriminate|]. eapply IH; [exact H|]. right. apply assoc_set_nonempty.
    + eapply IH; [exact H|]. right. apply assoc_set_nonempty.
Qed.

Lemma fold_set_nonempty {A} (md m : list (string * A)) : md <> [] -> fold_set md m <> [].
Proof.
  destruct md as [|[k v] t]; [contradiction|]. intros _. unfold fold_set. simpl.
  assert (forall l (m : list (string * A)), m <> [] ->
             fold_left (fun acc kv => assoc_set (fst kv) (snd kv) acc) l m <> []) as G.
  { induction l; simpl; intros m0 H; [exact H|]. apply IHl. apply assoc_set_nonempty. }
  apply G. apply assoc_set_nonempty.
Qed.

(* applying the same bindings twice = once *)
Lemma fold_set_idem {A} (md m : list (string * A)) :
  sorted md -> sorted m -> fold_set md (fold_set md m) = fold_set md m.
Proof.
  intros Sd Sm. unfold fold_set.
  apply sorted_ext; [apply sorted_fold_set; apply sorted_fold_set; exact Sm|apply sorted_fold_set; exact Sm|].
  intro k. rewrite !get_fold_set by exact Sd. destruct (assoc_get k md); reflexivity.
Qed.

Lemma canon_mapo_some_nonempty {A} (m : list A) : m <> [] -> canon_mapo (Some m) = Some m.
Proof. destruct m; [contradiction|reflexivity]. Qed.

(* ---------- set label / set annotation ---------- *)
Definition sorted_o {A} (o : option (list (string * A))) : Prop :=
  match o with Some m => sorted m | None => True end.

Lemma sorted_mapo_or_empty o : sorted_o o -> sorted (mapo_or_empty o).
Proof. destruct o; simpl; intro H; [exact H|constructor]. Qed.

Lemma set_label_idem e k args :
  sorted_o (k_commonLabels k) ->
  model_step e (model_step e k (SetLabel args)) (SetLabel args) = model_step e k (SetLabel args).
Proof.
  intro S. rewrite !model_step_N. cbn [apply_op].
  destruct args as [|a t]; [reflexivity|].
  destruct (convert_slice_to_map (a :: t) []) as [md| | |] eqn:Hc; cbn [bind]; try reflexivity.
  rewrite !write_to_map_force. cbn [bind]. unfold wrote.
  pose proof (convert_sorted _ _ _ (sorted_nil (A:=string)) Hc) as Sd.
  assert (md <> []) as Nd by (eapply convert_nonempty; [exact Hc|left; discriminate]).
  remember (fold_set md (mapo_or_empty (k_commonLabels k))) as m1 eqn:Em1.
  assert (canon_mapo (@Some smap m1) = @Some smap m1) as Hm1
      by (apply canon_mapo_some_nonempty; subst m1; apply fold_set_nonempty; exact Nd).
  assert (fold_set md m1 = m1) as E
      by (subst m1; apply fold_set_idem; [exact Sd|apply sorted_mapo_or_empty; exact S]).
  rewrite !N_set_commonLabels. rewrite !Hm1.
  cbn [k_commonLabels set_commonLabels mapo_or_empty]. rewrite E, Hm1, N_idem. reflexivity.
Qed.

Lemma set_annotation_idem e k args :
  sorted_o (k_commonAnnotations k) ->
  model_step e (model_step e k (SetAnnotation args)) (SetAnnotation args) = model_step e k (SetAnnotation args).
Proof.
  intro S. rewrite !model_step_N. cbn [apply_op].
  destruct args as [|a t]; [reflexivity|].
  destruct (convert_slice_to_map (a :: t) []) as [md| | |] eqn:Hc; cbn [bind]; try reflexivity.
  destruct (negb (forallb (fun kv => is_valid_key (fst kv)) md)); [reflexivity|].
  rewrite !write_to_map_force. cbn [bind]. unfold wrote.
  pose proof (convert_sorted _ _ _ (sorted_nil (A:=string)) Hc) as Sd.
  assert (md <> []) as Nd by (eapply convert_nonempty; [exact Hc|left; discriminate]).
  remember (fold_set md (mapo_or_empty (k_commonAnnotations k))) as m1 eqn:Em1.
  assert (canon_mapo (@Some smap m1) = @Some smap m1) as Hm1
      by (apply canon_mapo_some_nonempty; subst m1; apply fold_set_nonempty; exact Nd).
  assert (fold_set md m1 = m1) as E
      by (subst m1; apply fold_set_idem; [exact Sd|apply sorted_mapo_or_empty; exact S]).
  rewrite !N_set_commonAnnotations. rewrite !Hm1.
  cbn [k_commonAnnotations set_commonAnnotations mapo_or_empty]. rewrite E, Hm1, N_idem. reflexivity.
Qed.

(* ---------- the scalar fields and buildMetadata ---------- *)
Lemma set_namespace_idem e k args :
  model_step e (model_step e k (SetNamespace args)) (SetNamespace args) = model_step e k (SetNamespace args).
Proof.
  rewrite !model_step_N. cbn [apply_op].
  destruct args as [|a [|b t]]; try reflexivity. cbn [bind]. unfold wrote.
  rewrite !N_set_namespace, N_idem. reflexivity.
Qed.

Lemma set_nameprefix_idem e k args :
  model_step e (model_step e k (SetNamePrefix args)) (SetNamePrefix args) = model_step e k (SetNamePrefix args).
Proof.
  rewrite !model_step_N. cbn [apply_op].
  destruct args as [|a [|b t]]; try reflexivity. cbn [bind]. unfold wrote.
  rewrite !N_set_namePrefix, N_idem. reflexivity.
Qed.

Lemma set_namesuffix_idem e k args :
  model_step e (model_step e k (SetNameSuffix args)) (SetNameSuffix args) = model_step e k (SetNameSuffix args).
Proof.
  rewrite !model_step_N. cbn [apply_op].
  destruct args as [|a [|b t]]; try reflexivity. cbn [bind]. unfold wrote.
  rewrite !N_set_nameSuffix, N_idem. reflexivity.
Qed.

Lemma set_buildmetadata_idem e k args :
  model_step e (model_step e k (SetBuildMetadata args)) (SetBuildMetadata args) = model_step e k (SetBuildMetadata args).
Proof.
  rewrite !model_step_N. cbn [apply_op].
  destruct (validate_buildmetadata args) as [opts| | |]; cbn [bind]; try reflexivity. unfold wrote.
  rewrite !N_set_buildMetadata, N_idem. reflexivity.
Qed.

(* ---------- set replicas ---------- *)
Definition rep_addif (m : list (string * replica)) (r : replica) :=
  if assoc_mem (r_name r) m then m else assoc_set (r_name r) r m.
Definition rep_args_map (args : list replica) : list (string * replica) :=
  fold_left (fun m r => assoc_set (r_name r) r m) args [].

Lemma set_replicas_list_unfold args cur :
  set_replicas_list args cur = map snd (fold_left rep_addif cur (rep_args_map args)).
Proof. reflexivity. Qed.

Definition keyed {V} (key : V -> string) (m : list (string * V)) : Prop :=
  Forall (fun kv => key (snd kv) = fst kv) m.

Lemma keyed_set {V} (key : V -> string) k v m : key v = k -> keyed key m -> keyed key (assoc_set k v m).
Proof.
  intros Hk. induction m as [|[k2 v2] t IH]; simpl; intro H.
  - constructor; [exact Hk|constructor].
  - inversion H; subst. destruct (String.eqb k2 (key v)).
    + constructor; [reflexivity|assumption].
    + destruct (String.ltb (key v) k2).
      * constructor; [reflexivity|exact H].
      * constructor; [assumption|apply IH; assumption].
Qed.

Lemma find_in_values {V} (key : V -> string) (m : list (string * V)) n :
  keyed key m -> find (fun v => String.eqb (key v) n) (map snd m) = assoc_get n m.
Proof.
  induction m as [|[k v] t IH]; simpl; intro H; [reflexivity|].
  inversion H; subst. simpl in H2. rewrite H2. destruct (String.eqb k n); [reflexivity|].
  apply IH. assumption.
Qed.

Lemma rep_args_map_ok args : sorted (rep_args_map args) /\ keyed r_name (rep_args_map args).
Proof.
  unfold rep_args_map.
  assert (forall l m, sorted m /\ keyed r_name m ->
            sorted (fold_left (fun m r => assoc_set (r_name r) r m) l m) /\
            keyed r_name (fold_left (fun m r => assoc_set (r_name r) r m) l m)) as G.
  { induction l; simpl; intros m [S K]; [split; assumption|].
    apply IHl. split; [apply sorted_set; exact S|apply keyed_set; [reflexivity|exact K]]. }
  apply G. split; constructor.
Qed.

Lemma rep_fold_ok l : forall m, sorted m /\ keyed r_name m ->
  sorted (fold_left rep_addif l m) /\ keyed r_name (fold_left rep_addif l m).
Proof.
  induction l; simpl; intros m [S K]; [split; assumption|]. apply IHl. unfold rep_addif.
  destruct (assoc_mem (r_name a) m); [split; assumption|].
  split; [apply sorted_set; exact S|apply keyed_set; [reflexivity|exact K]].
Qed.

Lemma get_rep_fold l : forall m n,
  assoc_get n (fold_left rep_addif l m) =
  match assoc_get n m with Some v => Some v | None => find (fun r => String.eqb (r_name r) n) l end.
Proof.
  induction l as [|a t IH]; simpl; intros m n; [destruct (assoc_get n m); reflexivity|].
  rewrite IH. unfold rep_addif. unfold assoc_mem.
  destruct (assoc_get (r_name a) m) eqn:Ga.
  - destruct (assoc_get n m) eqn:Gn; [reflexivity|].
    destruct (String.eqb_spec (r_name a) n); [subst n; rewrite Ga in Gn; discriminate|reflexivity].
  - rewrite assoc_get_set. destruct (String.eqb_spec (r_name a) n).
    + subst n. rewrite Ga. reflexivity.
    + reflexivity.
Qed.

Lemma set_replicas_list_idem args cur :
  set_replicas_list args (set_replicas_list args cur) = set_replicas_list args cur.
Proof.
  rewrite !set_replicas_list_unfold. f_equal.
  destruct (rep_args_map_ok args) as [SA KA].
  destruct (rep_fold_ok cur _ (conj SA KA)) as [S1 K1].
  destruct (rep_fold_ok (map snd (fold_left rep_addif cur (rep_args_map args))) _ (conj SA KA)) as [S2 K2].
  apply sorted_ext; [exact S2|exact S1|]. intro n.
  rewrite get_rep_fold. rewrite (find_in_values r_name) by exact K1.
  rewrite get_rep_fold. destruct (assoc_get n (rep_args_map args)); reflexivity.
Qed.

Lemma set_replicas_idem e k args :
  model_step e (model_step e k (SetReplicas args)) (SetReplicas args) = model_step e k (SetReplicas args).
Proof.
  rewrite !model_step_N. cbn [apply_op].
  destruct args as [|a t]; [reflexivity|].
  destruct (mapM parse_replica_arg (a :: t)) as [rs| | |]; cbn [bind]; try reflexivity. unfold wrote.
  rewrite !N_set_replicas. cbn [k_replicas set_replicas].
  rewrite set_replicas_list_idem, N_idem. reflexivity.
Qed.

(* ---------- set image ---------- *)
Definition resolve (a im : image) : image :=
  let a1 := if String.eqb (i_newName a) preserve_sep then mkImage (i_name a) (i_newName im) "" (i_newTag a) (i_digest a) else a in
  let a2 := if String.eqb (i_newTag a1) preserve_sep then mkImage (i_name a1) (i_newName a1) "" (i_newTag im) (i_digest a1) else a1 in
  if String.eqb (i_digest a2) preserve_sep then mkImage (i_name a2) (i_newName a2) "" (i_newTag a2) (i_digest im) else a2.

Definition img_step (cur : option image) (im : image) : image :=
  match cur with Some a => resolve a im | None => im end.

Lemma absorb_image_unfold m im :
  absorb_image m im = assoc_set (i_name im) (img_step (assoc_get (i_name im) m) im) m.
Proof. unfold absorb_image, img_step, resolve. destruct (assoc_get (i_name im) m); reflexivity. Qed.

Definition img_args_map (args : list image) : list (string * image) :=
  fold_left (fun m im => assoc_set (i_name im) im m) args [].

Lemma merge_images_unfold args cur :
  merge_images args cur = map (fun kv => unstar_image (snd kv)) (fold_left absorb_image cur (img_args_map args)).
Proof. reflexivity. Qed.

Lemma resolve_name a im : i_name (resolve a im) = i_name a.
Proof.
  unfold resolve. destruct (String.eqb (i_newName a) preserve_sep); cbn;
    destruct (String.eqb (i_newTag a) preserve_sep); cbn;
    destruct (String.eqb (i_digest a) preserve_sep); reflexivity.
Qed.

Lemma unstar_name v : i_name (unstar_image v) = i_name v.
Proof.
  unfold unstar_image. destruct (String.eqb (i_newName v) preserve_sep); cbn;
    destruct (String.eqb (i_newTag v) preserve_sep); cbn;
    destruct (String.eqb (i_digest v) preserve_sep); reflexivity.
Qed.

(* the binding of name n after absorbing a list of images *)
Fixpoint img_run (cur : option image) (l : list image) (n : string) : option image :=
  match l with
  | [] => cur
  | im :: t => if String.eqb (i_name im) n then img_run (Some (img_step cur im)) t n else img_run cur t n
  end.

Lemma get_img_fold l : forall m n,
  assoc_get n (fold_left absorb_image l m) = img_run (assoc_get n m) l n.
Proof.
  induction l as [|im t IH]; simpl; intros m n; [reflexivity|].
  rewrite IH. rewrite absorb_image_unfold. rewrite assoc_get_set.
  destruct (String.eqb_spec (i_name im) n); [subst n; reflexivity|reflexivity].
Qed.

Lemma img_args_map_ok args : sorted (img_args_map args) /\ keyed i_name (img_args_map args).
Proof.
  unfold img_args_map.
  assert (forall l m, sorted m /\ keyed i_name m ->
            sorted (fold_left (fun m im => assoc_set (i_name im) im m) l m) /\
            keyed i_name (fold_left (fun m im => assoc_set (i_name im) im m) l m)) as G.
  { induction l; simpl; intros m [S K]; [split; assumption|].
    apply IHl. split; [apply sorted_set; exact S|apply keyed_set; [reflexivity|exact K]]. }
  apply G. split; constructor.
Qed.

Lemma keyed_get {V} (key : V -> string) (m : list (string * V)) n v :
  keyed key m -> assoc_get n m = Some v -> key v = n.
Proof.
  induction m as [|[k x] t IH]; simpl; intros H G; [discriminate|].
  inversion H; subst. destruct (String.eqb_spec k n).
  - injection G as G. subst. assumption.
  - apply IH; assumption.
Qed.

Lemma img_fold_ok l : forall m, sorted m /\ keyed i_name m ->
  sorted (fold_left absorb_image l m) /\ keyed i_name (fold_left absorb_image l m).
Proof.
  induction l as [|im t IH]; simpl; intros m [S K]; [split; assumption|]. apply IH.
  rewrite absorb_image_unfold. split; [apply sorted_set; exact S|].
  apply keyed_set; [|exact K]. unfold img_step.
  destruct (assoc_get (i_name im) m) eqn:G; [|reflexivity].
  rewrite resolve_name. eapply keyed_get; eassumption.
Qed.

(* values of a keyed sorted map, run through absorb: at most one hit per name *)
Lemma img_run_values (m : list (string * image)) : forall c n,
  sorted m -> keyed i_name m ->
  img_run c (map snd m) n = match assoc_get n m with Some v => Some (img_step c v) | None => c end.
Proof.
  induction m as [|[k v] t IH]; simpl; intros c n S K; [reflexivity|].
  inversion S as [|? ? ? Ha St]; subst. inversion K as [|? ? Hk Kt]; subst. simpl in Hk. rewrite Hk.
  destruct (String.eqb_spec k n).
  - subst n. rewrite IH by assumption. rewrite (above_get_none k t) by assumption. reflexivity.
  - apply IH; assumption.
Qed.

Definition map_vals {V} (f : V -> V) (m : list (string * V)) : list (string * V) :=
  map (fun kv => (fst kv, f (snd kv))) m.

Lemma map_vals_snd {V} (f : V -> V) m : map snd (map_vals f m) = map (fun kv => f (snd kv)) m.
Proof. unfold map_vals. rewrite map_map. reflexivity. Qed.

Lemma get_map_vals {V} (f : V -> V) m n : assoc_get n (map_vals f m) = option_map f (assoc_get n m).
Proof.
  induction m as [|[k v] t IH]; simpl; [reflexivity|]. destruct (String.eqb k n); [reflexivity|exact IH].
Qed.

Lemma sorted_map_vals {V} (f : V -> V) m : sorted m -> sorted (map_vals f m).
Proof.
  induction m as [|[k v] t IH]; simpl; intro S; [constructor|]. inversion S; subst.
  constructor; [|apply IH; assumption].
  unfold above in *. rewrite Forall_forall in *. intros kv Hin. unfold map_vals in Hin.
  apply in_map_iff in Hin. destruct Hin as [[k2 v2] [E Hin]]. subst kv. simpl.
  exact (H1 _ Hin).
Qed.

Lemma keyed_map_vals {V} (key : V -> string) (f : V -> V) m :
  (forall v, key (f v) = key v) -> keyed key m -> keyed key (map_vals f m).
Proof.
  intros Hf K. unfold keyed, map_vals in *. rewrite Forall_forall in *. intros kv Hin.
  apply in_map_iff in Hin. destruct Hin as [[k2 v2] [E Hin]]. subst kv. simpl.
  rewrite Hf. exact (K _ Hin).
Qed.

(* star bookkeeping *)
Definition has_star (a : image) : bool :=
  String.eqb (i_newName a) preserve_sep || String.eqb (i_newTag a) preserve_sep || String.eqb (i_digest a) preserve_sep.

(* w is what became of the command-line image a after absorbing some images of the file *)
Definition img_rel (a w : image) : Prop :=
  i_name w = i_name a /\
  (String.eqb (i_newName a) preserve_sep = false -> i_newName w = i_newName a) /\
  (String.eqb (i_newTag a) preserve_sep = false -> i_newTag w = i_newTag a) /\
  (String.eqb (i_digest a) preserve_sep = false -> i_digest w = i_digest a) /\
  (has_star a = false -> w = a) /\
  (has_star a = true -> has_star w = true \/ i_tagSuffix w = "").

Lemma img_rel_refl a : img_rel a a.
Proof. unfold img_rel. repeat split; auto. Qed.

Lemma img_rel_resolve a w im : img_rel a w -> img_rel a (resolve w im).
Proof.
  intros (Hn & H1 & H2 & H3 & H4 & H5).
  destruct (has_star a) eqn:Hs.
  - (* a has a star *)
    unfold img_rel. rewrite resolve_name. split; [exact Hn|].
    unfold resolve, has_star in *.
    destruct w as [wn wnn wts wnt wd]. cbn in *.
    destruct (String.eqb wnn preserve_sep) eqn:E1; cbn;
      destruct (String.eqb wnt preserve_sep) eqn:E2; cbn;
      destruct (String.eqb wd preserve_sep) eqn:E3; cbn;
      repeat split; intros; subst;
      try (first [ apply H1; assumption | apply H2; assumption | apply H3; assumption ]);
      try discriminate;
      try (right; reflexivity);
      try (rewrite H1 in E1 by assumption; congruence);
      try (rewrite H2 in E2 by assumption; congruence);
      try (rewrite H3 in E3 by assumption; congruence).
    all: try congruence.
    all: try (destruct (H5 eq_refl) as [Q|Q]; [cbn in Q; discriminate Q|right; exact Q]).
  - (* a has no star: w = a, resolve does nothing *)
    specialize (H4 eq_refl). subst w.
    assert (resolve a im = a) as E.
    { unfold resolve, has_star in *. apply orb_false_elim in Hs. destruct Hs as [Hs Hs3].
      apply orb_false_elim in Hs. destruct Hs as [Hs1 Hs2]. rewrite Hs1. cbn. rewrite Hs2. cbn. rewrite Hs3. reflexivity. }
    rewrite E. apply img_rel_refl.
Qed.

Lemma img_run_rel a : forall l c n, (forall w, c = Some w -> img_rel a w) ->
  forall w, img_run c l n = Some w -> c <> None -> img_rel a w.
Proof.
  induction l as [|im t IH]; simpl; intros c n Hc w Hw Hne; [apply Hc; exact Hw|].
  destruct (String.eqb (i_name im) n).
  - eapply IH; [|exact Hw|discriminate]. intros w' E. injection E as E. subst w'.
    destruct c as [c0|]; [|contradiction]. cbn. apply img_rel_resolve. apply Hc. reflexivity.
  - eapply IH; eassumption.
Qed.

Lemma img_run_some : forall l c n, c <> None -> img_run c l n <> None.
Proof.
  induction l as [|im t IH]; simpl; intros c n H; [exact H|].
  destruct (String.eqb (i_name im) n); apply IH; [discriminate|exact H].
Qed.

Lemma unstar_idem v : unstar_image (unstar_image v) = unstar_image v.
Proof.
  destruct v as [n nn ts nt d]. unfold unstar_image. cbn.
  destruct (String.eqb nn preserve_sep) eqn:E1; cbn;
    destruct (String.eqb nt preserve_sep) eqn:E2; cbn;
    destruct (String.eqb d preserve_sep) eqn:E3; cbn;
    repeat (cbn; rewrite ?E1, ?E2, ?E3); reflexivity.
Qed.

Lemma unstar_resolve_unstar a w : img_rel a w -> unstar_image (resolve a (unstar_image w)) = unstar_image w.
Proof.
  intros (Hn & H1 & H2 & H3 & H4 & H5).
  destruct (has_star a) eqn:Hs.
  - destruct a as [an ann ats ant ad]. destruct w as [wn wnn wts wnt wd].
    unfold has_star, resolve, unstar_image in *. cbn in *. subst wn.
    destruct (String.eqb ann preserve_sep) eqn:A1; cbn in *;
      destruct (String.eqb ant preserve_sep) eqn:A2; cbn in *;
      destruct (String.eqb ad preserve_sep) eqn:A3; cbn in *; try discriminate Hs;
      try (rewrite (H1 eq_refl) in *); try (rewrite (H2 eq_refl) in *); try (rewrite (H3 eq_refl) in *);
      destruct (String.eqb wnn preserve_sep) eqn:E1; cbn;
      destruct (String.eqb wnt preserve_sep) eqn:E2; cbn;
      destruct (String.eqb wd preserve_sep) eqn:E3; cbn;
      repeat (progress (rewrite ?A1, ?A2, ?A3, ?E1, ?E2, ?E3; cbn));
      try congruence;
      try reflexivity;
      try (destruct (H5 eq_refl) as [Q|Q]; [cbn in Q; rewrite ?A1, ?A2, ?A3, ?E1, ?E2, ?E3 in Q; try discriminate Q|subst wts; reflexivity]).
  - specialize (H4 eq_refl). subst w.
    unfold has_star in Hs. apply orb_false_elim in Hs. destruct Hs as [Hs Hs3].
    apply orb_false_elim in Hs. destruct Hs as [Hs1 Hs2].
    assert (unstar_image a = a) as Ea by (unfold unstar_image; rewrite Hs1; cbn; rewrite Hs2; cbn; rewrite Hs3; reflexivity).
    rewrite Ea. assert (resolve a a = a) as Er by (unfold resolve; rewrite Hs1; cbn; rewrite Hs2; cbn; rewrite Hs3; reflexivity).
    rewrite Er. exact Ea.
Qed.

Lemma merge_images_idem args cur :
  merge_images args (merge_images args cur) = merge_images args cur.
Proof.
  rewrite !merge_images_unfold.
  destruct (img_args_map_ok args) as [SA KA].
  set (A := img_args_map args) in *.
  set (M := fold_left absorb_image cur A).
  destruct (img_fold_ok cur A (conj SA KA)) as [SM KM]. fold M in SM, KM.
  set (Mu := map_vals unstar_image M).
  assert (sorted Mu) as SMu by (apply sorted_map_vals; exact SM).
  assert (keyed i_name Mu) as KMu by (apply keyed_map_vals; [apply unstar_name|exact KM]).
  assert (map (fun kv => unstar_image (snd kv)) M = map snd Mu) as EM by (unfold Mu; rewrite map_vals_snd; reflexivity).
  rewrite EM.
  set (M' := fold_left absorb_image (map snd Mu) A).
  destruct (img_fold_ok (map snd Mu) A (conj SA KA)) as [SM' KM']. fold M' in SM', KM'.
  assert (map (fun kv => unstar_image (snd kv)) M' = map snd (map_vals unstar_image M')) as EM'
      by (rewrite map_vals_snd; reflexivity).
  rewrite EM'. f_equal.
  apply sorted_ext; [apply sorted_map_vals; exact SM'|exact SMu|].
  intro n. rewrite get_map_vals. unfold M'. rewrite get_img_fold.
  rewrite img_run_values by assumption.
  unfold Mu. rewrite get_map_vals. unfold M. rewrite get_img_fold.
  destruct (img_run (assoc_get n A) cur n) as [w|] eqn:Hw; cbn [option_map].
  - destruct (assoc_get n A) as [a|] eqn:Ha.
    + cbn [img_step option_map]. f_equal. apply unstar_resolve_unstar.
      eapply (img_run_rel a cur (Some a) n); [|exact Hw|discriminate].
      intros w' E. injection E as E. subst w'. apply img_rel_refl.
    + cbn [img_step option_map]. rewrite unstar_idem. reflexivity.
  - destruct (assoc_get n A) as [a|] eqn:Ha; [|reflexivity].
    exfalso. exact (img_run_some cur (Some a) n ltac:(discriminate) Hw).
Qed.

Lemma set_image_idem e k args :
  fixed k ->
  model_step e (model_step e k (SetImage args)) (SetImage args) = model_step e k (SetImage args).
Proof.
  intro F. rewrite !model_step_N. cbn [apply_op].
  destruct args as [|a t]; [reflexivity|].
  destruct (mapM parse_image_arg (a :: t)) as [ims| | |]; cbn [bind]; try reflexivity. unfold wrote.
  rewrite !N_set_images. rewrite (fixed_imageTags k F), app_nil_r.
  cbn [k_images k_imageTags set_images].
  assert (k_imageTags (N k) = []) as E by reflexivity. rewrite E, app_nil_r.
  rewrite merge_images_idem, N_idem. reflexivity.
Qed.

(* ---------- all set commands ---------- *)
Definition is_set (o : op) : bool :=
  match o with
  | SetLabel _ | SetAnnotation _ | SetBuildMetadata _ | SetImage _ | SetReplicas _
  | SetNamespace _ | SetNamePrefix _ | SetNameSuffix _ => true
  | _ => false
  end.

(* the maps of the record are key-sorted (every value produced by Unmarshal or by a command is) *)
Definition maps_sorted (k : kust) : Prop :=
  sorted_o (k_commonLabels k) /\ sorted_o (k_commonAnnotations k).

Theorem set_idempotent :
  forall e k o, is_set o = true -> fixed k -> maps_sorted k ->
    model_step e (model_step e k o) o = model_step e k o.
Proof.
  intros e k o Hs F [S1 S2]. destruct o; try discriminate Hs.
  - apply set_label_idem. exact S1.
  - apply set_annotation_idem. exact S2.
  - apply set_buildmetadata_idem.
  - apply set_image_idem. exact F.
  - apply set_replicas_idem.
  - apply set_namespace_idem.
  - apply set_nameprefix_idem.
  - apply set_namesuffix_idem.
Qed.

(* non-vacuity: a state as Read returns it, with sorted maps, on which a set command really writes *)
Example set_idempotent_example :
  let e := mkEnv [("kustomization.yaml", [])] [] "kustomization.yaml" in
  let k := fix_kustomization (set_images [mkImage "nginx" "old" "" "1" ""; mkImage "app" "" "" "2" ""]
                               (set_commonLabels (Some [("a", "b")]) empty_kust)) in
  fixed k /\ maps_sorted k /\
  k_images (model_step e k (SetImage ["nginx=*:9"; "redis@sha256:abc"])) =
    [mkImage "app" "" "" "2" ""; mkImage "nginx" "old" "" "9" ""; mkImage "redis" "" "" "" "sha256:abc"].
Proof.
  cbn zeta. split; [reflexivity|]. split.
  - split; cbn; [|exact I]. constructor; [constructor|constructor].
  - vm_compute. reflexivity.
Qed.
