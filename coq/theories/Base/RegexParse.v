(* A Gallina parser for the part of Go's regexp (RE2) syntax kustomize's own patterns are made of:
   concatenations of literals (plain bytes and backslash-escaped metacharacters, i.e. what
   regexp.QuoteMeta produces), ".", "^", "$", bracket classes of single bytes and ranges, groups
   "( )" / "(?: )" and one postfix "*", "+" or "?" per atom.  No alternation, no counted repetition,
   no negated or named classes, no flags, ASCII only: everything else is [None] ("not covered").
   The correspondence compares its result with the AST Go's regexp/syntax produces (case kind KParse). *)
From KV Require Export Base.Regex.

Definition is_postfix (c : ascii) : bool :=
  let n := N_of_ascii c in (n =? 42)%N || (n =? 43)%N || (n =? 63)%N.          (* * + ? *)
Definition apply_postfix (c : ascii) (r : re) : re :=
  let n := N_of_ascii c in
  if (n =? 42)%N then Star r else if (n =? 43)%N then Plus r else Opt r.
Definition is_ascii (c : ascii) : bool := (N_of_ascii c <? 128)%N.
Fixpoint ascii_text (s : string) : bool :=
  match s with EmptyString => true | String c s' => is_ascii c && ascii_text s' end.

(* ---------- character classes: ranges sorted and merged, as regexp/syntax stores them ---------- *)
Fixpoint insert_range (r : N * N) (l : list (N * N)) : list (N * N) :=
  match l with
  | [] => [r]
  | x :: t => if (fst r <=? fst x)%N then r :: l else x :: insert_range r t
  end.
Fixpoint sort_ranges (l : list (N * N)) : list (N * N) :=
  match l with [] => [] | r :: t => insert_range r (sort_ranges t) end.
(* merge overlapping or adjacent ranges of a sorted list *)
Fixpoint merge_ranges (cur : N * N) (l : list (N * N)) : list (N * N) :=
  match l with
  | [] => [cur]
  | x :: t =>
      if (fst x <=? snd cur + 1)%N then merge_ranges (fst cur, N.max (snd cur) (snd x)) t
      else cur :: merge_ranges x t
  end.
Definition normalize_ranges (l : list (N * N)) : list (N * N) :=
  match sort_ranges l with [] => [] | r :: t => merge_ranges r t end.

(* the body of a bracket class, after "[": single bytes and ranges a-b, up to "]" *)
Fixpoint parse_class (s : string) (acc : list (N * N)) : option (list (N * N) * string) :=
  match s with
  | EmptyString => None
  | String c s1 =>
      let n := N_of_ascii c in
      if (n =? 93)%N then                                     (* ] *)
        match acc with [] => None | _ => Some (normalize_ranges acc, s1) end
      else if (n =? 92)%N || (n =? 91)%N || negb (is_ascii c) then None   (* \ [ : not covered *)
      else
        match s1 with
        | String d (String e s2) =>
            if (N_of_ascii d =? 45)%N && negb (N_of_ascii e =? 93)%N then       (* c-e *)
              if (N_of_ascii e =? 92)%N || (N_of_ascii e =? 91)%N || negb (is_ascii e) || (N_of_ascii e <? n)%N then None
              else parse_class s2 ((n, N_of_ascii e) :: acc)
            else parse_class s1 ((n, n) :: acc)
        | _ => parse_class s1 ((n, n) :: acc)
        end
  end.

(* ---------- concatenations ---------- *)
(* items up to ")" or the end of the text; [fuel] bounds the number of atoms (the text length suffices) *)
Fixpoint parse_seq (fuel : nat) (s : string) : option (list re * string) :=
  match fuel with
  | O => None
  | S f =>
      match s with
      | EmptyString => Some ([], EmptyString)
      | String c s1 =>
          let n := N_of_ascii c in
          if (n =? 41)%N then Some ([], s)                   (* ) *)
          else
            let atom : option (re * string) :=
              if (n =? 94)%N then Some (Bol, s1)
              else if (n =? 36)%N then Some (Eol, s1)
              else if (n =? 46)%N then Some (AnyNotNL, s1)
              else if (n =? 92)%N then                       (* \x : only escaped metacharacters *)
                match s1 with
                | String d s2 => if is_meta d then Some (Chr (N_of_ascii d), s2) else None
                | EmptyString => None
                end
              else if (n =? 91)%N then                       (* [ ... ] *)
                match s1 with
                | String d _ =>
                    if (N_of_ascii d =? 94)%N then None
                    else match parse_class s1 [] with
                         | Some (rs, r) => Some (Cls rs, r)
                         | None => None
                         end
                | EmptyString => None
                end
              else if (n =? 40)%N then                       (* ( ... ) and (?: ... ) *)
                let body :=
                  match s1 with
                  | String q (String k s2) =>
                      if (N_of_ascii q =? 63)%N then (if (N_of_ascii k =? 58)%N then Some s2 else None)
                      else Some s1
                  | String q EmptyString => if (N_of_ascii q =? 63)%N then None else Some s1
                  | EmptyString => Some s1
                  end in
                match body with
                | None => None
                | Some b =>
                    match parse_seq f b with
                    | Some (items, String k r) =>
                        if (N_of_ascii k =? 41)%N then Some (Group (cat_of_list items), r) else None
                    | _ => None
                    end
                end
              else if is_meta c || negb (is_ascii c) then None
              else Some (Chr n, s1) in
            match atom with
            | None => None
            | Some (a, r) =>
                let ar : re * string :=
                  match r with
                  | String p r2 => if is_postfix p then (apply_postfix p a, r2) else (a, r)
                  | EmptyString => (a, r)
                  end in
                match snd ar with
                | String p _ =>
                    if is_postfix p then None               (* x** , x*? : not covered *)
                    else match parse_seq f (snd ar) with
                         | Some (l, rest) => Some (fst ar :: l, rest)
                         | None => None
                         end
                | EmptyString => Some ([fst ar], EmptyString)
                end
            end
      end
  end.

Definition re_parse (s : string) : option re :=
  match parse_seq (S (String.length s)) s with
  | Some (items, EmptyString) => Some (cat_of_list items)
  | _ => None
  end.
