(* Base vocabulary shared by every model: outcome type, byte strings, list helpers.
   Model files contain definitions only; proofs live in *Proofs.v files. *)
From Coq Require Export List String Ascii Bool Arith NArith ZArith Lia.
Export ListNotations.
Open Scope string_scope.

(* Outcome of a modelled Go function.
   Err     : the Go function returned a non-nil error
   Panic   : the Go code would panic / log.Fatal / os.Exit here
   Diverge : explicit fuel ran out (only fuelled functions produce it) *)
Inductive res (A : Type) : Type :=
| Ok (a : A)
| Err
| Panic
| Diverge.
Arguments Ok {A} a.
Arguments Err {A}.
Arguments Panic {A}.
Arguments Diverge {A}.

Definition bind {A B} (r : res A) (f : A -> res B) : res B :=
  match r with
  | Ok a => f a
  | Err => Err
  | Panic => Panic
  | Diverge => Diverge
  end.
Notation "'do' x <- r ; k" := (bind r (fun x => k))
  (at level 200, x pattern, r at level 100, k at level 200, right associativity).

Definition is_ok {A} (r : res A) : bool := match r with Ok _ => true | _ => false end.

(* outcome class, the only thing compared with the implementation about failures *)
Inductive oclass := COk | CErr | CPanic | CDiverge.
Definition class_of {A} (r : res A) : oclass :=
  match r with Ok _ => COk | Err => CErr | Panic => CPanic | Diverge => CDiverge end.

(* ---------- strings (Go strings are byte strings; Coq [string] is a list of bytes) ---------- *)

Definition str_eqb := String.eqb.

(* strings built from byte codes: used by the harness for non-printable content *)
Fixpoint sb (l : list N) : string :=
  match l with
  | [] => EmptyString
  | n :: l' => String (ascii_of_N n) (sb l')
  end.

Fixpoint str_rev_acc (s acc : string) : string :=
  match s with EmptyString => acc | String c s' => str_rev_acc s' (String c acc) end.
Definition str_rev (s : string) := str_rev_acc s EmptyString.

Fixpoint has_prefix (p s : string) : bool :=
  match p, s with
  | EmptyString, _ => true
  | String a p', String b s' => Ascii.eqb a b && has_prefix p' s'
  | _, _ => false
  end.
Definition has_suffix (p s : string) : bool := has_prefix (str_rev p) (str_rev s).

Fixpoint drop (n : nat) (s : string) : string :=
  match n, s with
  | O, _ => s
  | S n', String _ s' => drop n' s'
  | S _, EmptyString => EmptyString
  end.
Fixpoint take (n : nat) (s : string) : string :=
  match n, s with
  | O, _ => EmptyString
  | S n', String c s' => String c (take n' s')
  | S _, EmptyString => EmptyString
  end.

Definition trim_prefix (p s : string) : string :=
  if has_prefix p s then drop (String.length p) s else s.
Definition trim_suffix (p s : string) : string :=
  if has_suffix p s then take (String.length s - String.length p) s else s.

(* split at the first occurrence of byte c: Some (before, after) *)
Fixpoint split_first (c : ascii) (s : string) : option (string * string) :=
  match s with
  | EmptyString => None
  | String a s' =>
      if Ascii.eqb a c then Some (EmptyString, s')
      else match split_first c s' with
           | Some (x, y) => Some (String a x, y)
           | None => None
           end
  end.

(* split on every occurrence of byte c (Go strings.Split with a one-byte separator) *)
Fixpoint split_on (c : ascii) (s : string) : list string :=
  match s with
  | EmptyString => [EmptyString]
  | String a s' =>
      match split_on c s' with
      | [] => [EmptyString]           (* unreachable *)
      | h :: t => if Ascii.eqb a c then EmptyString :: h :: t else String a h :: t
      end
  end.

Fixpoint join_with (sep : string) (l : list string) : string :=
  match l with
  | [] => EmptyString
  | [x] => x
  | x :: l' => x ++ sep ++ join_with sep l'
  end.

Definition is_digit (c : ascii) : bool :=
  let n := N_of_ascii c in (48 <=? n)%N && (n <=? 57)%N.

Fixpoint all_digits (s : string) : bool :=
  match s with
  | EmptyString => true
  | String c s' => is_digit c && all_digits s'
  end.

Fixpoint digits_val (s : string) (acc : N) : N :=
  match s with
  | EmptyString => acc
  | String c s' => digits_val s' (acc * 10 + (N_of_ascii c - 48))%N
  end.

(* Unicode/ASCII white space as trimmed by strings.TrimSpace for the ASCII range *)
Definition is_space (c : ascii) : bool :=
  let n := N_of_ascii c in
  (n =? 32)%N || ((9 <=? n)%N && (n <=? 13)%N).

Fixpoint trim_left (s : string) : string :=
  match s with
  | String c s' => if is_space c then trim_left s' else s
  | EmptyString => EmptyString
  end.
Definition trim_space (s : string) : string := str_rev (trim_left (str_rev (trim_left s))).

(* ---------- lists ---------- *)

Fixpoint replace_nth {A} (n : nat) (x : A) (l : list A) : list A :=
  match l, n with
  | [], _ => []
  | _ :: t, O => x :: t
  | h :: t, S n' => h :: replace_nth n' x t
  end.

Fixpoint find_index {A} (f : A -> bool) (l : list A) : option nat :=
  match l with
  | [] => None
  | x :: t => if f x then Some O else option_map S (find_index f t)
  end.

Fixpoint mapM {A B} (f : A -> res B) (l : list A) : res (list B) :=
  match l with
  | [] => Ok []
  | x :: t => do y <- f x; do ys <- mapM f t; Ok (y :: ys)
  end.

Fixpoint str_in (s : string) (l : list string) : bool :=
  match l with [] => false | x :: t => String.eqb s x || str_in s t end.
