(* Regular expressions over bytes for the fragment of Go's regexp (RE2) syntax that the C10 models need:
   literals, ".", character classes, "*", "+", "?", alternation, groups, "^" and "$" (no flags).
   The Go harness parses pattern texts with regexp/syntax and ships the AST; this file gives the
   AST, a Brzozowski-derivative matcher ([matches] = regexp.MatchString, an unanchored search) and the
   declarative semantics [M] the matcher is proved equivalent to in Base/RegexProofs.v.
   Subjects are byte strings; the harness only sends ASCII subjects (for them bytes = runes). *)
From KV Require Export Base.Prelude.

Inductive re :=
| Void                          (* matches nothing (arises in derivatives; OpNoMatch) *)
| Eps                           (* OpEmptyMatch *)
| Cls (rs : list (N * N))       (* byte class as inclusive ranges; literal byte c = Cls [(c,c)] *)
| Bol                           (* ^  (OpBeginText) *)
| Eol                           (* $  (OpEndText: end of text only, Go has no implicit "before final \n") *)
| Cat (a b : re)
| Alt (a b : re)
| Star (a : re).

(* surface forms used by the harness' term printer *)
Definition Chr (c : N) : re := Cls [(c, c)].
Definition Plus (r : re) : re := Cat r (Star r).
Definition Opt (r : re) : re := Alt r Eps.
Definition Group (r : re) : re := r.                       (* capturing or not: irrelevant for MatchString *)
Definition AnyNotNL : re := Cls [(0, 9); (11, 255)]%N.     (* "." *)
Definition AnyByte : re := Cls [(0, 255)]%N.               (* (?s). *)

Fixpoint in_cls (c : N) (rs : list (N * N)) : bool :=
  match rs with
  | [] => false
  | (lo, hi) :: t => ((lo <=? c)%N && (c <=? hi)%N) || in_cls c t
  end.

(* right-nested concatenation of a list; literal text as a list of byte classes *)
Fixpoint cat_of_list (l : list re) : re :=
  match l with
  | [] => Eps
  | [x] => x
  | x :: t => Cat x (cat_of_list t)
  end.
Fixpoint chars (s : string) : list re :=
  match s with
  | EmptyString => []
  | String c s' => Chr (N_of_ascii c) :: chars s'
  end.
Definition lit (s : string) : re := cat_of_list (chars s).

(* ---------- syntactic equality (used to keep derivatives small, and by the correspondence) ---------- *)
Fixpoint ranges_eqb (a b : list (N * N)) : bool :=
  match a, b with
  | [], [] => true
  | (l1, h1) :: t1, (l2, h2) :: t2 => (l1 =? l2)%N && (h1 =? h2)%N && ranges_eqb t1 t2
  | _, _ => false
  end.

Fixpoint re_eqb (a b : re) : bool :=
  match a, b with
  | Void, Void | Eps, Eps | Bol, Bol | Eol, Eol => true
  | Cls r1, Cls r2 => ranges_eqb r1 r2
  | Cat a1 a2, Cat b1 b2 => re_eqb a1 b1 && re_eqb a2 b2
  | Alt a1 a2, Alt b1 b2 => re_eqb a1 b1 && re_eqb a2 b2
  | Star a1, Star b1 => re_eqb a1 b1
  | _, _ => false
  end.

(* ---------- derivative matcher ----------
   A position in the subject text has two context bits: [b] "nothing of the text lies to the left"
   and [e] "nothing of the text lies to the right". *)
Fixpoint nullable (b e : bool) (r : re) : bool :=
  match r with
  | Void => false
  | Eps => true
  | Cls _ => false
  | Bol => b
  | Eol => e
  | Cat r1 r2 => nullable b e r1 && nullable b e r2
  | Alt r1 r2 => nullable b e r1 || nullable b e r2
  | Star _ => true
  end.

Definition mkcat (a b : re) : re :=
  match a, b with
  | Void, _ => Void
  | _, Void => Void
  | Eps, _ => b
  | _, Eps => a
  | _, _ => Cat a b
  end.

Definition mkalt (a b : re) : re :=
  match a, b with
  | Void, _ => b
  | _, Void => a
  | _, _ => if re_eqb a b then a else Alt a b
  end.

(* derivative by byte [c] read at a position whose left context bit is [b] *)
Fixpoint deriv (b : bool) (c : N) (r : re) : re :=
  match r with
  | Void | Eps | Bol | Eol => Void
  | Cls rs => if in_cls c rs then Eps else Void
  | Cat r1 r2 =>
      mkalt (mkcat (deriv b c r1) r2)
            (if nullable b false r1 then deriv b c r2 else Void)
  | Alt r1 r2 => mkalt (deriv b c r1) (deriv b c r2)
  | Star r1 => mkcat (deriv b c r1) (Star r1)
  end.

(* some prefix of [s] is matched, starting at a position with left context [b] *)
Fixpoint prefix_match (b : bool) (r : re) (s : string) : bool :=
  match s with
  | EmptyString => nullable b true r
  | String c s' => nullable b false r || prefix_match false (deriv b (N_of_ascii c) r) s'
  end.

(* some substring of [s] is matched: regexp.MatchString *)
Fixpoint search (b : bool) (r : re) (s : string) : bool :=
  prefix_match b r s ||
  match s with
  | EmptyString => false
  | String _ s' => search false r s'
  end.

Definition matches (r : re) (s : string) : bool := search true r s.

(* ---------- declarative semantics ---------- *)
Definition emp (s : string) : bool := match s with EmptyString => true | _ => false end.

(* [M r b e w]: r matches exactly the piece w of the subject, where b / e say whether the piece
   starts at the beginning / stops at the end of the whole text. *)
Inductive M : re -> bool -> bool -> string -> Prop :=
| MEps b e : M Eps b e ""
| MCls rs b e c : in_cls (N_of_ascii c) rs = true -> M (Cls rs) b e (String c "")
| MBol e : M Bol true e ""
| MEol b : M Eol b true ""
| MCat r1 r2 b e w1 w2 :
    M r1 b (e && emp w2) w1 -> M r2 (b && emp w1) e w2 -> M (Cat r1 r2) b e (w1 ++ w2)
| MAltL r1 r2 b e w : M r1 b e w -> M (Alt r1 r2) b e w
| MAltR r1 r2 b e w : M r2 b e w -> M (Alt r1 r2) b e w
| MStar0 r b e : M (Star r) b e ""
| MStarS r b e w1 w2 :
    M r b (e && emp w2) w1 -> M (Star r) (b && emp w1) e w2 -> M (Star r) b e (w1 ++ w2).

(* the whole subject is matched *)
Definition full_match (r : re) (s : string) : Prop := M r true true s.

(* types.anchorRegex at the AST level: ^(?:r)$ *)
Definition anchor (r : re) : re := Cat Bol (Cat (Group r) Eol).

(* a pattern text is "literal" when none of its bytes is a regexp metacharacter
   (the bytes regexp.QuoteMeta would escape) *)
Definition is_meta (c : ascii) : bool :=
  let n := N_of_ascii c in
  existsb (N.eqb n) [92; 46; 43; 42; 63; 40; 41; 124; 91; 93; 123; 125; 94; 36]%N.
Definition is_plain (c : ascii) : bool := negb (is_meta c) && (N_of_ascii c <? 128)%N.
Fixpoint literal_text (s : string) : bool :=
  match s with
  | EmptyString => true
  | String c s' => is_plain c && literal_text s'
  end.

(* ---------- pattern texts assembled by the Go code (Gen/C10Patterns.v lists the pieces) ---------- *)
Inductive piece :=
| PLit (s : string)        (* string literal *)
| PVar (x : string)        (* a variable spliced in verbatim *)
| PQuote (x : string)      (* regexp.QuoteMeta(variable) *)
| POther (what : string).  (* anything the translator does not recognise *)

(* the pattern text for a one-variable expression; None when the expression contains a piece the
   translator did not recognise *)
(* regexp.QuoteMeta: a backslash before each of the bytes \.+*?()|[]{}^$ *)
Fixpoint quote_meta (s : string) : string :=
  match s with
  | EmptyString => EmptyString
  | String c s' => if is_meta c then String "\"%char (String c (quote_meta s')) else String c (quote_meta s')
  end.

Fixpoint render (ps : list piece) (arg : string) : option string :=
  match ps with
  | [] => Some ""
  | PLit s :: t => option_map (fun r => s ++ r) (render t arg)
  | PVar _ :: t => option_map (fun r => arg ++ r) (render t arg)
  | PQuote _ :: t => option_map (fun r => quote_meta arg ++ r) (render t arg)
  | POther _ :: _ => None
  end.

(* regexp.Compile given as a finite table: pattern text -> AST (None = compile error; a text that
   is not listed counts as a compile error) *)
Definition ptab := list (string * option re).
Fixpoint ptab_get (p : string) (t : ptab) : option re :=
  match t with
  | [] => None
  | (k, r) :: t' => if String.eqb k p then r else ptab_get p t'
  end.
Definition parse_of (t : ptab) : string -> option re := fun p => ptab_get p t.
