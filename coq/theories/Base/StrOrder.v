(* Go's [<] on strings is byte-wise lexicographic = [String.ltb]. Facts used by the legacy sort
   order (C11): strict total order, cancellation of common prefixes, splitting at a separator. *)
From KV Require Import Base.Prelude.

Lemma ascii_cmp_refl : forall a, Ascii.compare a a = Eq.
Proof. intros. unfold Ascii.compare. apply N.compare_refl. Qed.

Lemma ascii_cmp_lt_trans : forall a b c,
  Ascii.compare a b = Lt -> Ascii.compare b c = Lt -> Ascii.compare a c = Lt.
Proof.
  unfold Ascii.compare. intros a b c H1 H2.
  rewrite N.compare_lt_iff in *. lia.
Qed.

Lemma str_cmp_refl : forall s, String.compare s s = Eq.
Proof. induction s; simpl; auto. rewrite ascii_cmp_refl. auto. Qed.

Lemma str_cmp_eq : forall a b, String.compare a b = Eq <-> a = b.
Proof.
  split. apply String.compare_eq_iff. intros ->. apply str_cmp_refl.
Qed.

Lemma str_cmp_lt_trans : forall a b c,
  String.compare a b = Lt -> String.compare b c = Lt -> String.compare a c = Lt.
Proof.
  induction a as [|x a IH]; intros b c H1 H2.
  - destruct b; simpl in H1; try discriminate. destruct c; simpl in *; auto; try discriminate.
  - destruct b as [|y b]; simpl in H1; try discriminate.
    destruct c as [|z c]; simpl in H2; try discriminate.
    simpl.
    destruct (Ascii.compare x y) eqn:Exy; try discriminate.
    + apply Ascii.compare_eq_iff in Exy. subst y.
      destruct (Ascii.compare x z) eqn:Exz; try discriminate; auto.
      eapply IH; eauto.
    + destruct (Ascii.compare y z) eqn:Eyz; try discriminate.
      * apply Ascii.compare_eq_iff in Eyz. subst z. rewrite Exy. auto.
      * rewrite (ascii_cmp_lt_trans _ _ _ Exy Eyz). auto.
Qed.

Definition sltb := String.ltb.

Lemma sltb_lt : forall a b, sltb a b = true <-> String.compare a b = Lt.
Proof. unfold sltb, String.ltb. intros. destruct (String.compare a b); split; congruence. Qed.

Lemma sltb_irrefl : forall a, sltb a a = false.
Proof. intros. unfold sltb, String.ltb. rewrite str_cmp_refl. auto. Qed.

Lemma sltb_trans : forall a b c, sltb a b = true -> sltb b c = true -> sltb a c = true.
Proof. intros a b c. rewrite !sltb_lt. apply str_cmp_lt_trans. Qed.

Lemma sltb_asym : forall a b, sltb a b = true -> sltb b a = false.
Proof.
  intros a b H. destruct (sltb b a) eqn:E; auto.
  pose proof (sltb_trans _ _ _ H E) as X. rewrite sltb_irrefl in X. discriminate.
Qed.

Lemma sltb_total : forall a b, a <> b -> sltb a b = true \/ sltb b a = true.
Proof.
  intros a b N. rewrite !sltb_lt.
  rewrite (String.compare_antisym b a).
  destruct (String.compare a b) eqn:E; simpl; auto.
  apply String.compare_eq_iff in E. contradiction.
Qed.

(* ---------- append ---------- *)

Lemma app_nil_r_s : forall s, (s ++ "")%string = s.
Proof. induction s; simpl; congruence. Qed.

Lemma app_assoc_s : forall a b c, ((a ++ b) ++ c)%string = (a ++ (b ++ c))%string.
Proof. induction a; simpl; intros; congruence. Qed.

Lemma app_inj_l : forall p a b, (p ++ a)%string = (p ++ b)%string -> a = b.
Proof. induction p; simpl; intros; auto. inversion H. auto. Qed.

Lemma app_length_s : forall a b, String.length (a ++ b) = String.length a + String.length b.
Proof. induction a; simpl; intros; auto. Qed.

Lemma app_inj_r : forall s a b, (a ++ s)%string = (b ++ s)%string -> a = b.
Proof.
  intros s. induction a as [|x a IH]; intros b H.
  - destruct b; auto. exfalso.
    assert (L : String.length ("" ++ s) = String.length (String a b ++ s)) by (rewrite H; auto).
    simpl in L. rewrite app_length_s in L. lia.
  - destruct b as [|y b].
    + exfalso.
      assert (L : String.length (String x a ++ s) = String.length ("" ++ s)) by (rewrite H; auto).
      simpl in L. rewrite app_length_s in L. lia.
    + simpl in H. inversion H. f_equal. apply IH. auto.
Qed.

Lemma app_eq_nil_s : forall a b, (a ++ b)%string = "" -> a = "" /\ b = "".
Proof. destruct a; simpl; intros; auto. discriminate. Qed.

(* ---------- bytes not occurring in a string ---------- *)

Fixpoint no_byte (c : ascii) (s : string) : bool :=
  match s with
  | EmptyString => true
  | String a s' => negb (Ascii.eqb a c) && no_byte c s'
  end.

(* two strings free of [c], each followed by [c]: the split is unique *)
Lemma split_unique : forall c a b x y,
  no_byte c a = true -> no_byte c b = true ->
  (a ++ String c x)%string = (b ++ String c y)%string -> a = b /\ x = y.
Proof.
  induction a as [|p a IH]; intros b x y Ha Hb H.
  - destruct b as [|q b]; simpl in *.
    + inversion H. auto.
    + inversion H. subst q. rewrite Ascii.eqb_refl in Hb. discriminate.
  - destruct b as [|q b]; simpl in *.
    + inversion H. subst p. rewrite Ascii.eqb_refl in Ha. discriminate.
    + inversion H. subst q.
      apply andb_true_iff in Ha. apply andb_true_iff in Hb.
      destruct (IH b x y) as [E1 E2]; try tauto. subst. auto.
Qed.

(* first byte strictly below [c] (or the string is empty) *)
Definition first_below (c : ascii) (s : string) : bool :=
  match s with
  | EmptyString => true
  | String a _ => (N_of_ascii a <? N_of_ascii c)%N
  end.

Lemma first_below_lt : forall c a x y,
  a <> "" -> first_below c a = true -> sltb (a ++ x) (String c y) = true.
Proof.
  intros c a x y N F. destruct a as [|p a]; [congruence|].
  simpl in *. apply sltb_lt. simpl. unfold Ascii.compare.
  apply N.ltb_lt in F. rewrite (proj2 (N.compare_lt_iff _ _) F). auto.
Qed.
