(* Generic sorting facts (C11): what Go's sort.Sort guarantees ([sort_spec]: the result is a
   permutation of the input on which sort.IsSorted holds), an insertion sort that satisfies it, and
   UNIQUENESS of the sorted permutation under a strict total order on the elements - the lemma that
   makes the result independent of the input order and of the sorting algorithm. *)
From KV Require Import Base.Prelude.
From Coq Require Import Sorting.Permutation Sorting.Sorted.

Section SortFacts.
  Variable A : Type.
  Variable less : A -> A -> bool.

  (* sort.IsSorted: for no adjacent pair Less(next, prev) *)
  Definition weakly_sorted (l : list A) : Prop := Sorted (fun a b => less b a = false) l.
  Definition strictly_sorted (l : list A) : Prop := StronglySorted (fun a b => less a b = true) l.

  (* (S1) the contract of sort.Sort, for a given input *)
  Definition sort_spec (sort : list A -> list A) : Prop :=
    forall l, Permutation (sort l) l /\ weakly_sorted (sort l).

  (* strict total order on the elements of a list *)
  Record total_on (l : list A) : Prop := {
    to_irrefl : forall a, In a l -> less a a = false;
    to_asym : forall a b, In a l -> In b l -> less a b = true -> less b a = false;
    to_trans : forall a b c, In a l -> In b l -> In c l ->
                 less a b = true -> less b c = true -> less a c = true;
    to_total : forall a b, In a l -> In b l -> a <> b -> less a b = true \/ less b a = true
  }.

  Lemma total_on_perm : forall l l', Permutation l l' -> total_on l -> total_on l'.
  Proof.
    intros l l' P [I As T Tot].
    assert (X : forall a, In a l' -> In a l) by (intros; eapply Permutation_in; [apply Permutation_sym|]; eauto).
    constructor; intros.
    - apply I; auto.
    - apply As; auto.
    - apply (T a b c); auto.
    - apply Tot; auto.
  Qed.

  Lemma total_on_incl : forall l l', incl l' l -> total_on l -> total_on l'.
  Proof.
    intros l l' X [I As T Tot]. constructor; intros.
    - apply I; auto.
    - apply As; auto.
    - apply (T a b c); auto.
    - apply Tot; auto.
  Qed.

  (* ---------- insertion sort ---------- *)
  Fixpoint insert (x : A) (l : list A) : list A :=
    match l with
    | [] => [x]
    | y :: t => if less x y then x :: y :: t else y :: insert x t
    end.

  Fixpoint isort (l : list A) : list A :=
    match l with
    | [] => []
    | x :: t => insert x (isort t)
    end.

  Lemma insert_perm : forall x l, Permutation (insert x l) (x :: l).
  Proof.
    induction l as [|y t IH]; simpl; auto.
    destruct (less x y); auto.
    eapply perm_trans; [apply perm_skip; apply IH|]. apply perm_swap.
  Qed.

  Lemma isort_perm : forall l, Permutation (isort l) l.
  Proof.
    induction l; simpl; auto.
    eapply perm_trans; [apply insert_perm|]. auto.
  Qed.

  Lemma insert_hd : forall x l, exists t, insert x l = x :: t \/ (exists y t', l = y :: t' /\ insert x l = y :: t /\ less x y = false).
  Proof.
    intros x l. destruct l as [|y t]; simpl.
    - exists []. auto.
    - destruct (less x y) eqn:E.
      + exists (y :: t). auto.
      + exists (insert x t). right. exists y, t. auto.
  Qed.

  Lemma insert_sorted : forall x l,
    (forall y, In y l -> less x y = true -> less y x = false) ->
    weakly_sorted l -> weakly_sorted (insert x l).
  Proof.
    unfold weakly_sorted.
    induction l as [|y t IH]; intros As S; simpl.
    - constructor; auto.
    - destruct (less x y) eqn:E.
      + constructor; auto. constructor. apply As; simpl; auto.
      + inversion S as [|? ? St Hd]; subst.
        constructor.
        * apply IH; auto. intros; apply As; simpl; auto.
        * destruct t as [|z t']; simpl.
          -- constructor. auto.
          -- destruct (less x z); constructor; auto.
             inversion Hd; auto.
  Qed.

  Lemma isort_sorted : forall l,
    (forall a b, In a l -> In b l -> less a b = true -> less b a = false) ->
    weakly_sorted (isort l).
  Proof.
    induction l as [|x t IH]; intros As; simpl.
    - constructor.
    - apply insert_sorted.
      + intros y Hy. apply As; simpl; auto. right. eapply Permutation_in; [apply isort_perm|]. auto.
      + apply IH. intros; apply As; simpl; auto.
  Qed.

  (* ---------- uniqueness of the sorted permutation ---------- *)

  Lemma weakly_strictly : forall l, total_on l -> NoDup l -> weakly_sorted l -> strictly_sorted l.
  Proof.
    unfold weakly_sorted, strictly_sorted.
    induction l as [|x t IH]; intros T N S.
    - constructor.
    - inversion S as [|? ? St Hd]; subst. inversion N as [|? ? Nx Nt]; subst.
      assert (Tt : total_on t) by (eapply total_on_incl; [|eauto]; intros ? ?; simpl; auto).
      specialize (IH Tt Nt St).
      constructor; auto.
      destruct t as [|y t']; [constructor|].
      inversion Hd as [|? ? Hxy]; subst.
      assert (Lxy : less x y = true).
      { destruct (to_total _ T x y) as [L|L]; simpl; auto.
        - intros ->. apply Nx. simpl; auto.
        - congruence. }
      constructor; auto.
      inversion IH as [|? ? _ Fy]; subst.
      rewrite Forall_forall in *. intros z Hz.
      eapply (to_trans _ T x y z); simpl; auto.
  Qed.

  Lemma strictly_sorted_unique : forall l l',
    total_on l -> Permutation l l' -> strictly_sorted l -> strictly_sorted l' -> l = l'.
  Proof.
    unfold strictly_sorted.
    induction l as [|x t IH]; intros l' T P S S'.
    - apply Permutation_nil in P. auto.
    - destruct l' as [|x' t'].
      + apply Permutation_sym, Permutation_nil in P. discriminate.
      + inversion S as [|? ? St Fx]; subst. inversion S' as [|? ? St' Fx']; subst.
        rewrite Forall_forall in Fx, Fx'.
        assert (E : x = x').
        { assert (I1 : In x (x' :: t')) by (eapply Permutation_in; [apply P|]; simpl; auto).
          assert (I2 : In x' (x :: t)) by (eapply Permutation_in; [apply Permutation_sym, P|]; simpl; auto).
          destruct I1 as [->|I1]; auto. destruct I2 as [->|I2]; auto.
          pose proof (Fx _ I2) as L1. pose proof (Fx' _ I1) as L2.
          rewrite (to_asym _ T x x') in L2; simpl; auto. discriminate. }
        subst x'. f_equal. apply IH; auto.
        * eapply total_on_incl; [|eauto]. intros ? ?; simpl; auto.
        * eapply Permutation_cons_inv; eauto.
  Qed.

  (* the workhorse *)
  Theorem sorted_perm_unique : forall l l',
    total_on l -> NoDup l -> Permutation l l' ->
    weakly_sorted l -> weakly_sorted l' -> l = l'.
  Proof.
    intros l l' T N P S S'.
    apply strictly_sorted_unique; auto.
    - apply weakly_strictly; auto.
    - apply weakly_strictly; auto.
      + eapply total_on_perm; eauto.
      + eapply Permutation_NoDup; eauto.
  Qed.

  (* any two sorting functions meeting the contract agree, and the result does not depend on the input order *)
  Theorem sort_canonical : forall (sort sort' : list A -> list A) l l',
    sort_spec sort -> sort_spec sort' ->
    total_on l -> NoDup l -> Permutation l l' -> sort l = sort' l'.
  Proof.
    intros sort sort' l l' Sp Sp' T N P.
    destruct (Sp l) as [P1 S1]. destruct (Sp' l') as [P2 S2].
    apply sorted_perm_unique; auto.
    - eapply total_on_perm; [apply Permutation_sym; eauto|]. auto.
    - eapply Permutation_NoDup; [apply Permutation_sym; eauto|]. auto.
    - eapply perm_trans; [eauto|]. eapply perm_trans; [eauto|]. apply Permutation_sym. auto.
  Qed.

  (* the insertion sort meets the contract on inputs whose elements are totally ordered *)
  Theorem isort_canonical : forall (sort : list A -> list A) l l',
    sort_spec sort -> total_on l -> NoDup l -> Permutation l l' -> sort l' = isort l.
  Proof.
    intros sort l l' Sp T N P.
    destruct (Sp l') as [P1 S1].
    symmetry. apply sorted_perm_unique; auto.
    - eapply total_on_perm; [apply Permutation_sym, isort_perm|]. auto.
    - eapply Permutation_NoDup; [apply Permutation_sym, isort_perm|]. auto.
    - eapply perm_trans; [apply isort_perm|]. eapply perm_trans; [eauto|]. apply Permutation_sym. auto.
    - apply isort_sorted. intros a b Ha Hb. apply (to_asym _ T); auto.
  Qed.

  Theorem isort_perm_invariant : forall l l',
    total_on l -> NoDup l -> Permutation l l' -> isort l = isort l'.
  Proof.
    intros l l' T N P.
    apply sorted_perm_unique.
    - eapply total_on_perm; [apply Permutation_sym, isort_perm|]. auto.
    - eapply Permutation_NoDup; [apply Permutation_sym, isort_perm|]. auto.
    - eapply perm_trans; [apply isort_perm|]. eapply perm_trans; [eauto|]. apply Permutation_sym, isort_perm.
    - apply isort_sorted. intros a b Ha Hb. apply (to_asym _ T); auto.
    - apply isort_sorted. intros a b Ha Hb.
      apply (to_asym _ T); eapply Permutation_in; try apply Permutation_sym; eauto.
  Qed.

  (* ---------- a decidable, EXACT guard: is [less] a strict total order on (the distinct elements of) l? ---------- *)
  Fixpoint pairs_inc (l : list A) : bool :=
    match l with
    | [] => true
    | x :: t => negb (less x x) && forallb (fun y => less x y && negb (less y x)) t && pairs_inc t
    end.
  Definition total_b (l : list A) : bool := pairs_inc (isort l).

  Lemma pairs_inc_fwd : forall x t, pairs_inc (x :: t) = true ->
    less x x = false /\ (forall y, In y t -> less x y = true /\ less y x = false) /\ pairs_inc t = true.
  Proof.
    intros x t H. simpl in H. apply andb_true_iff in H. destruct H as [H Ht].
    apply andb_true_iff in H. destruct H as [Hx Hxt].
    apply negb_true_iff in Hx. rewrite forallb_forall in Hxt. repeat split; auto.
    - specialize (Hxt _ H). apply andb_true_iff in Hxt. tauto.
    - specialize (Hxt _ H). apply andb_true_iff in Hxt. destruct Hxt as [_ B]. apply negb_true_iff in B. auto.
  Qed.

  Lemma pairs_inc_total : forall s, pairs_inc s = true -> total_on s.
  Proof.
    induction s as [|x t IH]; intros H.
    - constructor; intros; try contradiction.
    - destruct (pairs_inc_fwd _ _ H) as (Hx & Fwd & Ht).
      specialize (IH Ht). destruct IH as [I As T Tot].
      constructor.
      + intros a [<-|Ia]; auto.
      + intros a b [<-|Ia] [<-|Ib] L; auto.
        * apply Fwd; auto.
        * destruct (Fwd _ Ia). congruence.
      + intros a b c [<-|Ia] [<-|Ib] [<-|Ic] L1 L2; auto;
          try (destruct (Fwd _ Ia); congruence);
          try (destruct (Fwd _ Ib); congruence);
          try (destruct (Fwd _ Ic); congruence).
        apply (T a b c); auto.
      + intros a b [<-|Ia] [<-|Ib] N.
        * contradiction.
        * left. apply Fwd; auto.
        * right. apply Fwd; auto.
        * apply Tot; auto.
  Qed.

  Lemma pairs_inc_nodup : forall s, pairs_inc s = true -> NoDup s.
  Proof.
    induction s as [|x t IH]; intros H; [constructor|].
    destruct (pairs_inc_fwd _ _ H) as (Hx & Fwd & Ht).
    constructor; auto. intros I. destruct (Fwd _ I). congruence.
  Qed.

  Lemma strictly_pairs_inc : forall s, total_on s -> strictly_sorted s -> pairs_inc s = true.
  Proof.
    unfold strictly_sorted. induction s as [|x t IH]; intros T S; auto.
    inversion S as [|? ? St Fx]; subst. simpl.
    rewrite (to_irrefl _ T x) by (simpl; auto). simpl.
    rewrite IH; auto.
    - rewrite andb_true_r. apply forallb_forall. intros y Iy.
      rewrite Forall_forall in Fx. rewrite (Fx _ Iy). simpl.
      rewrite (to_asym _ T x y); simpl; auto.
    - eapply total_on_incl; [|eauto]. intros ? ?; simpl; auto.
  Qed.

  Theorem total_b_iff : forall l, total_b l = true <-> NoDup l /\ total_on l.
  Proof.
    intros l. unfold total_b. split.
    - intros H. split.
      + eapply Permutation_NoDup; [apply isort_perm|]. apply pairs_inc_nodup; auto.
      + eapply total_on_perm; [apply isort_perm|]. apply pairs_inc_total; auto.
    - intros [N T].
      assert (Ts : total_on (isort l)) by (eapply total_on_perm; [apply Permutation_sym, isort_perm|]; auto).
      apply strictly_pairs_inc; auto.
      apply weakly_strictly; auto.
      + eapply Permutation_NoDup; [apply Permutation_sym, isort_perm|]. auto.
      + apply isort_sorted. intros a b Ha Hb. apply (to_asym _ T); auto.
  Qed.

  (* canonicity under the exact guard, nothing else assumed about the elements *)
  Theorem sort_canonical_b : forall (sort : list A -> list A) l l',
    sort_spec sort -> total_b l = true -> Permutation l l' -> sort l = sort l' /\ sort l = isort l.
  Proof.
    intros sort l l' Sp H P. apply total_b_iff in H. destruct H as [N T]. split.
    - apply (sort_canonical sort sort l l'); auto.
    - apply (isort_canonical sort l l); auto.
  Qed.

  Theorem total_b_perm : forall l l', Permutation l l' -> total_b l = total_b l'.
  Proof.
    intros l l' P. destruct (total_b l) eqn:E; destruct (total_b l') eqn:E'; auto.
    - apply total_b_iff in E. destruct E as [N T].
      assert (X : total_b l' = true).
      { apply total_b_iff. split; [eapply Permutation_NoDup; eauto|eapply total_on_perm; eauto]. }
      congruence.
    - apply total_b_iff in E'. destruct E' as [N T].
      assert (X : total_b l = true).
      { apply total_b_iff. split; [eapply Permutation_NoDup; [apply Permutation_sym|]; eauto|
                                    eapply total_on_perm; [apply Permutation_sym|]; eauto]. }
      congruence.
  Qed.
End SortFacts.

Arguments weakly_sorted {A}.
Arguments strictly_sorted {A}.
Arguments sort_spec {A}.
Arguments total_on {A}.
Arguments insert {A}.
Arguments isort {A}.
Arguments pairs_inc {A}.
Arguments total_b {A}.
