(* Correctness of the derivative matcher of Base/Regex.v with respect to the declarative semantics M. *)
From KV Require Import Base.Regex.

Ltac inv H := inversion H; subst; clear H.

Lemma emp_true s : emp s = true -> s = "".
Proof. destruct s; cbn; congruence. Qed.

Lemma emp_app a b : emp (a ++ b) = emp a && emp b.
Proof. destruct a; cbn; auto. Qed.

Lemma app_empty_r (s : string) : s ++ "" = s.
Proof. induction s; cbn; congruence. Qed.

Lemma app_assoc_s (a b c : string) : (a ++ b) ++ c = a ++ (b ++ c).
Proof. induction a; cbn; congruence. Qed.

Lemma app_eq_empty (a b : string) : a ++ b = "" -> a = "" /\ b = "".
Proof. destruct a; cbn; intros H; [auto|discriminate]. Qed.

(* ---------- inversion lemmas ---------- *)
Lemma M_Void_inv b e w : M Void b e w -> False.
Proof. intros H; inv H. Qed.

Lemma M_Eps_inv b e w : M Eps b e w -> w = "".
Proof. intros H; inv H; auto. Qed.

Lemma M_Cls_inv rs b e w :
  M (Cls rs) b e w -> exists c, w = String c "" /\ in_cls (N_of_ascii c) rs = true.
Proof. intros H; inv H; eauto. Qed.

Lemma M_Bol_inv b e w : M Bol b e w -> w = "" /\ b = true.
Proof. intros H; inv H; auto. Qed.

Lemma M_Eol_inv b e w : M Eol b e w -> w = "" /\ e = true.
Proof. intros H; inv H; auto. Qed.

Lemma M_Cat_inv r1 r2 b e w :
  M (Cat r1 r2) b e w ->
  exists w1 w2, w = w1 ++ w2 /\ M r1 b (e && emp w2) w1 /\ M r2 (b && emp w1) e w2.
Proof. intros H; inv H; eauto. Qed.

Lemma M_Alt_inv r1 r2 b e w : M (Alt r1 r2) b e w -> M r1 b e w \/ M r2 b e w.
Proof. intros H; inv H; auto. Qed.

(* ---------- syntactic equality ---------- *)
Lemma ranges_eqb_eq a : forall b, ranges_eqb a b = true -> a = b.
Proof.
  induction a as [|[l1 h1] t IH]; intros [|[l2 h2] t2]; cbn; intros H; try discriminate; auto.
  apply andb_prop in H; destruct H as [H H3]. apply andb_prop in H; destruct H as [H1 H2].
  apply N.eqb_eq in H1; apply N.eqb_eq in H2; subst. f_equal; auto.
Qed.

Lemma re_eqb_eq a : forall b, re_eqb a b = true -> a = b.
Proof.
  induction a; intros [] H; cbn in H; try discriminate; auto.
  - f_equal; apply ranges_eqb_eq; auto.
  - apply andb_prop in H; destruct H as [H1 H2]. f_equal; auto.
  - apply andb_prop in H; destruct H as [H1 H2]. f_equal; auto.
  - f_equal; auto.
Qed.

(* ---------- nullable ---------- *)
Lemma nullable_spec r : forall b e, nullable b e r = true <-> M r b e "".
Proof.
  induction r; intros b e; cbn; split; intros H.
  - discriminate.
  - inv H.
  - constructor.
  - reflexivity.
  - discriminate.
  - inv H.
  - subst; constructor.
  - apply M_Bol_inv in H; tauto.
  - subst; constructor.
  - apply M_Eol_inv in H; tauto.
  - apply andb_prop in H; destruct H as [H1 H2].
    apply IHr1 in H1; apply IHr2 in H2.
    change "" with ("" ++ ""). constructor; cbn; rewrite ?andb_true_r; auto.
  - apply M_Cat_inv in H; destruct H as (w1 & w2 & E & H1 & H2).
    symmetry in E; apply app_eq_empty in E; destruct E; subst. cbn in *; rewrite ?andb_true_r in *.
    apply IHr1 in H1; apply IHr2 in H2. rewrite H1, H2; reflexivity.
  - apply orb_prop in H; destruct H as [H|H]; [apply MAltL, IHr1|apply MAltR, IHr2]; auto.
  - apply M_Alt_inv in H; destruct H as [H|H]; [apply IHr1 in H|apply IHr2 in H]; rewrite H; auto using orb_true_r.
  - constructor.
  - reflexivity.
Qed.

(* ---------- smart constructors ---------- *)
Lemma M_Cat_Eps_l r b e w : M r b e w -> M (Cat Eps r) b e w.
Proof.
  intros H. change w with ("" ++ w). constructor; [constructor|]. cbn; rewrite andb_true_r; auto.
Qed.
Lemma M_Cat_Eps_r r b e w : M r b e w -> M (Cat r Eps) b e w.
Proof.
  intros H. rewrite <- (app_empty_r w). constructor; [|constructor]. cbn; rewrite andb_true_r; auto.
Qed.

Lemma mkcat_spec a c b e w : M (mkcat a c) b e w <-> M (Cat a c) b e w.
Proof.
  split; intros H.
  - destruct a; cbn in H; try (exfalso; eapply M_Void_inv; eassumption);
      destruct c; cbn in H; try (exfalso; eapply M_Void_inv; eassumption); auto;
      try (apply M_Cat_Eps_l; assumption); try (apply M_Cat_Eps_r; assumption).
  - apply M_Cat_inv in H; destruct H as (w1 & w2 & E & H1 & H2); subst.
    assert (HC : M (Cat a c) b e (w1 ++ w2)) by (constructor; auto).
    destruct a; try (exfalso; eapply M_Void_inv; eassumption);
      destruct c; try (exfalso; eapply M_Void_inv; eassumption); cbn; auto;
      try (apply M_Eps_inv in H1; subst; cbn in *; rewrite ?andb_true_r in *; assumption);
      try (apply M_Eps_inv in H2; subst; cbn in *; rewrite ?andb_true_r, ?app_empty_r in *; assumption).
Qed.

Lemma mkalt_cases a c :
  (a = Void /\ mkalt a c = c) \/
  (c = Void /\ mkalt a c = a) \/
  (mkalt a c = if re_eqb a c then a else Alt a c).
Proof. destruct a; cbn; auto; destruct c; cbn; auto. Qed.

Lemma mkalt_spec a c b e w : M (mkalt a c) b e w <-> M (Alt a c) b e w.
Proof.
  destruct (mkalt_cases a c) as [[E1 E2]|[[E1 E2]|E2]]; rewrite E2; try subst a; try subst c.
  - split; intros H; [apply MAltR; auto|].
    apply M_Alt_inv in H; destruct H as [H|H]; auto. inv H.
  - split; intros H; [apply MAltL; auto|].
    apply M_Alt_inv in H; destruct H as [H|H]; auto. inv H.
  - destruct (re_eqb a c) eqn:E; [|tauto].
    apply re_eqb_eq in E; subst. split; intros H; [apply MAltL; auto|].
    apply M_Alt_inv in H; tauto.
Qed.

(* ---------- derivatives ---------- *)
Lemma deriv_spec r : forall b e c w,
  M (deriv b (N_of_ascii c) r) false e w <-> M r b e (String c w).
Proof.
  induction r; intros b e c w; cbn [deriv].
  - split; intros H; inv H.
  - split; intros H; inv H.
  - destruct (in_cls (N_of_ascii c) rs) eqn:E; split; intros H.
    + apply M_Eps_inv in H; subst. constructor; auto.
    + apply M_Cls_inv in H; destruct H as (c0 & E0 & _). inv E0. constructor.
    + inv H.
    + apply M_Cls_inv in H; destruct H as (c0 & E0 & H). inv E0. congruence.
  - split; intros H; inv H.
  - split; intros H; inv H.
  - rewrite mkalt_spec. split; intros H.
    + apply M_Alt_inv in H; destruct H as [H|H].
      * apply mkcat_spec in H. apply M_Cat_inv in H; destruct H as (w1 & w2 & E & H1 & H2); subst.
        apply IHr1 in H1. cbn in H2.
        change (String c (w1 ++ w2)) with (String c w1 ++ w2).
        constructor; auto. cbn; rewrite andb_false_r; auto.
      * destruct (nullable b false r1) eqn:N; [|inv H].
        apply IHr2 in H. apply nullable_spec in N.
        change (String c w) with ("" ++ String c w).
        constructor; cbn; rewrite ?andb_false_r, ?andb_true_r; auto.
    + apply M_Cat_inv in H; destruct H as (w1 & w2 & E & H1 & H2).
      destruct w1 as [|c1 w1]; cbn in E.
      * subst w2. cbn in H1, H2; rewrite ?andb_false_r, ?andb_true_r in *.
        apply nullable_spec in H1. rewrite H1. apply MAltR. apply IHr2; auto.
      * inv E. cbn in H2; rewrite andb_false_r in H2.
        apply MAltL. apply mkcat_spec. constructor; [apply IHr1; auto|cbn; auto].
  - rewrite mkalt_spec. split; intros H.
    + apply M_Alt_inv in H; destruct H as [H|H]; [apply MAltL, IHr1|apply MAltR, IHr2]; auto.
    + apply M_Alt_inv in H; destruct H as [H|H]; [apply MAltL, IHr1|apply MAltR, IHr2]; auto.
  - rewrite mkcat_spec. split; intros H.
    + apply M_Cat_inv in H; destruct H as (w1 & w2 & E & H1 & H2); subst.
      apply IHr in H1. cbn in H2.
      change (String c (w1 ++ w2)) with (String c w1 ++ w2).
      apply MStarS; auto. cbn; rewrite andb_false_r; auto.
    + remember (Star r) as sr eqn:Esr. remember (String c w) as s eqn:Es.
      revert w Es. induction H; intros w0 Es; try discriminate.
      inv Esr. destruct w1 as [|c1 w1]; cbn in Es.
      * subst w2. cbn in IHM2. rewrite andb_true_r in IHM2. apply IHM2; auto.
      * inv Es. cbn in H0; rewrite andb_false_r in H0.
        constructor; [apply IHr; auto|cbn; auto].
Qed.

(* ---------- prefix match and search ---------- *)
Lemma prefix_match_spec s : forall b r,
  prefix_match b r s = true <-> exists w1 w2, s = w1 ++ w2 /\ M r b (emp w2) w1.
Proof.
  induction s as [|c s IH]; intros b r; cbn [prefix_match].
  - rewrite nullable_spec. split.
    + intros H; exists "", ""; auto.
    + intros (w1 & w2 & E & H). symmetry in E; apply app_eq_empty in E; destruct E; subst; auto.
  - split.
    + intros H; apply orb_prop in H; destruct H as [H|H].
      * apply nullable_spec in H. exists "", (String c s); auto.
      * apply IH in H; destruct H as (w1 & w2 & E & H); subst.
        apply deriv_spec in H. exists (String c w1), w2; auto.
    + intros (w1 & w2 & E & H). destruct w1 as [|c1 w1]; cbn in E.
      * subst w2. cbn in H. apply nullable_spec in H. rewrite H; auto.
      * inv E. apply deriv_spec in H. apply orb_true_iff; right. apply IH; eauto.
Qed.

Lemma search_spec s : forall b r,
  search b r s = true <->
  exists w0 w1 w2, s = w0 ++ w1 ++ w2 /\ M r (b && emp w0) (emp w2) w1.
Proof.
  induction s as [|c s IH]; intros b r; cbn [search].
  - rewrite orb_false_r, prefix_match_spec. split.
    + intros (w1 & w2 & E & H). exists "", w1, w2; cbn; rewrite andb_true_r; auto.
    + intros (w0 & w1 & w2 & E & H). symmetry in E; apply app_eq_empty in E; destruct E as [E0 E]; subst.
      cbn in H; rewrite andb_true_r in H. eauto.
  - split.
    + intros H; apply orb_prop in H; destruct H as [H|H].
      * apply prefix_match_spec in H; destruct H as (w1 & w2 & E & H).
        exists "", w1, w2; cbn; rewrite andb_true_r; auto.
      * apply IH in H; destruct H as (w0 & w1 & w2 & E & H); subst. cbn in H.
        exists (String c w0), w1, w2; cbn; rewrite andb_false_r; auto.
    + intros (w0 & w1 & w2 & E & H). destruct w0 as [|c0 w0]; cbn in E.
      * cbn in H; rewrite andb_true_r in H.
        apply orb_true_iff; left. apply prefix_match_spec; eauto.
      * inv E. cbn in H; rewrite andb_false_r in H.
        apply orb_true_iff; right. apply IH. exists w0, w1, w2; cbn; auto.
Qed.

(* regexp.MatchString = "some substring is matched in its context" *)
Theorem matches_spec r s :
  matches r s = true <->
  exists w0 w1 w2, s = w0 ++ w1 ++ w2 /\ M r (emp w0) (emp w2) w1.
Proof. unfold matches. rewrite search_spec. cbn. tauto. Qed.

(* ---------- anchoring ---------- *)
Theorem anchor_exact r s : matches (anchor r) s = true <-> full_match r s.
Proof.
  unfold full_match, anchor, Group. rewrite matches_spec. split.
  - intros (w0 & w1 & w2 & E & H).
    apply M_Cat_inv in H; destruct H as (u1 & u2 & E1 & H1 & H2).
    apply M_Bol_inv in H1; destruct H1 as [-> Hb]. apply emp_true in Hb; subst w0.
    cbn in H2. apply M_Cat_inv in H2; destruct H2 as (v1 & v2 & E2 & H3 & H4).
    apply M_Eol_inv in H4; destruct H4 as [-> He]. apply emp_true in He; subst w2.
    cbn in *. subst. rewrite !app_empty_r. auto.
  - intros H. exists "", s, "". split; [cbn; rewrite app_empty_r; auto|].
    change s with ("" ++ s). apply MCat; [constructor|].
    cbn. rewrite <- (app_empty_r s). apply MCat; cbn; [auto|constructor].
Qed.

(* ---------- literals, classes, options: the pieces of the image pattern ---------- *)
Lemma M_Chr c b e w : M (Chr c) b e w <-> exists a, w = String a "" /\ N_of_ascii a = c.
Proof.
  unfold Chr; split.
  - intros H; apply M_Cls_inv in H; destruct H as (a & E & H); subst. cbn in H.
    rewrite orb_false_r in H. apply andb_prop in H; destruct H as [H1 H2].
    apply N.leb_le in H1; apply N.leb_le in H2. exists a; split; auto. lia.
  - intros (a & E & H); subst. constructor. cbn. rewrite !N.leb_refl; auto.
Qed.

Lemma N_of_ascii_inj a b : N_of_ascii a = N_of_ascii b -> a = b.
Proof. intros H. rewrite <- (ascii_N_embedding a), <- (ascii_N_embedding b), H; auto. Qed.

Lemma M_lit t : forall b e w, M (lit t) b e w <-> w = t.
Proof.
  unfold lit. induction t as [|c t IH]; intros b e w; cbn [chars cat_of_list].
  - split; [apply M_Eps_inv|intros ->; constructor].
  - destruct t as [|c' t'].
    + cbn. rewrite M_Chr. split.
      * intros (a & E & H); subst. apply N_of_ascii_inj in H; subst; auto.
      * intros ->; eauto.
    + cbn [chars cat_of_list] in *. split.
      * intros H; apply M_Cat_inv in H; destruct H as (w1 & w2 & E & H1 & H2); subst.
        apply M_Chr in H1; destruct H1 as (a & E & H); subst. apply N_of_ascii_inj in H; subst.
        apply IH in H2; subst; auto.
      * intros ->. change (String c (String c' t')) with (String c "" ++ String c' t').
        constructor; [apply M_Chr; eauto|apply IH; auto].
Qed.

Fixpoint all_in (rs : list (N * N)) (s : string) : bool :=
  match s with
  | EmptyString => true
  | String c s' => in_cls (N_of_ascii c) rs && all_in rs s'
  end.

Lemma M_star_cls rs : forall w b e, M (Star (Cls rs)) b e w <-> all_in rs w = true.
Proof.
  intros w b e; split.
  - intros H. remember (Star (Cls rs)) as sr eqn:E. induction H; try discriminate; auto.
    inv E. apply M_Cls_inv in H; destruct H as (c & -> & H). cbn. rewrite H; cbn. auto.
  - revert b e. induction w as [|c w IH]; intros b e H; cbn in H; [constructor|].
    apply andb_prop in H; destruct H as [H1 H2].
    change (String c w) with (String c "" ++ w). apply MStarS; [constructor; auto|apply IH; auto].
Qed.

Lemma M_Opt r b e w : M (Opt r) b e w <-> M r b e w \/ w = "".
Proof.
  unfold Opt; split.
  - intros H; apply M_Alt_inv in H; destruct H as [H|H]; auto. apply M_Eps_inv in H; auto.
  - intros [H| ->]; [apply MAltL; auto|apply MAltR; constructor].
Qed.

Lemma M_Cat_iff r1 r2 b e w :
  M (Cat r1 r2) b e w <->
  exists w1 w2, w = w1 ++ w2 /\ M r1 b (e && emp w2) w1 /\ M r2 (b && emp w1) e w2.
Proof.
  split; [apply M_Cat_inv|]. intros (w1 & w2 & -> & H1 & H2); constructor; auto.
Qed.
