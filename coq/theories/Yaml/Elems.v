(* Model of the element- and field-level filters of kyaml/yaml/fns.go that PathGetter does not cover:
   FieldMatcher (Name / Value / Create), ElementMatcher (Keys / Values / MatchAnyValue / Create, incl.
   GetElementByKey, MatchElement, MatchElementList), ElementAppender, ElementSetter, Tee, FieldClearer{IfEmpty},
   and the metadata setters of kfns.go built from them (SetLabel, SetK8sName/Namespace).
   Definitions only; proofs in ElemsProofs.v.  As in Fns.v every function returns the document afterwards
   (Go mutates through pointers) together with the node the filter returns. *)
From KV Require Export Yaml.Fns Base.Regex.

Definition is_empty_map (n : node) : bool := match n with Map [] => true | _ => false end.

(* ---------- FieldSetter, with the node it returns ---------- *)
Section WithOracle.
  Variable nonstr : string -> bool.

  (* FieldSetter{Name: name (non-empty), Value: v}: document afterwards and the returned node:
     the stored field, or (null value = Clear) the removed one, or (on a null node) the value after the
     forced YAML-1.1 quoting, which went into the invisible Content of the null scalar *)
  Definition set_field_r (name : string) (v : node) (m : node) : res (node * option node) :=
    do m' <- set_field nonstr name (Some v) false m;
    Ok (m', if is_null v then match m with Map kvs => find_field name kvs | _ => None end
            else match m' with
                 | Map kvs => find_field name kvs
                 | _ => Some (quote11 nonstr v)
                 end).

  (* FieldMatcher{Name, Value (compared by scalar text; None = unset), Create}.
     StringRegexValue is not modelled. *)
  Definition field_matcher (name : string) (value : option string) (create : option node) (x : node)
    : res (node * option node) :=
    if is_null x then Ok (x, None)                        (* never match nil or null fields *)
    else if String.eqb name "" then
      match x with
      | Scalar _ _ s =>
          if String.eqb s (match value with Some w => w | None => "" end) then Ok (x, Some x) else Ok (x, None)
      | _ => Err
      end
    else
      match x with
      | Map kvs =>
          let hit := match find_field name kvs with
                     | Some f => match value with
                                 | None => Some f
                                 | Some w => if String.eqb (node_value f) w then Some f else None
                                 end
                     | None => None
                     end in
          match hit with
          | Some f => Ok (x, Some f)
          | None => match create with
                    | Some c => set_field_r name c x
                    | None => Ok (x, None)
                    end
          end
      | _ => Err
      end.

  (* FieldMatcher{Name, StringRegexValue: pattern}: the expression is only looked at when Name is empty (the node is
     then a scalar and the expression is SEARCHED in its Value, unanchored); with a Name it is ignored.
     [compiled] = regexp.Compile(pattern): None when it does not compile. *)
  Definition field_matcher_regex (name : string) (compiled : option re) (x : node) : res (node * option node) :=
    if String.eqb name "" then
      if is_null x then Ok (x, None)
      else match x with
           | Scalar _ _ s =>
               match compiled with
               | None => Err
               | Some r => if matches r s then Ok (x, Some x) else Ok (x, None)
               end
           | _ => Err
           end
    else field_matcher name None None x.

  (* Get(name) / MatchField(name, v) / Match(v) *)
  Definition fm_get (name : string) := field_matcher name None None.
  Definition fm_match_field (name v : string) := field_matcher name (Some v) None.
  Definition fm_match (v : string) := field_matcher "" (Some v) None.
  (* FieldMatcher{Name, StringValue}: an empty StringValue leaves Value unset *)
  Definition fm_string_value (name v : string) :=
    field_matcher name (if String.eqb v "" then None else Some v) None.

  (* ---------- ElementAppender ---------- *)
  Definition elem_append (els : list node) (n : node) : res (node * option node) :=
    let ret := match els with [e] => Some e | _ => None end in
    match n with
    | Seq es => Ok (Seq (es ++ els), ret)
    | _ => if is_null n then Ok (n, ret)     (* appended to the Content of a null scalar: invisible *)
           else Err
    end.

  (* ---------- ElementMatcher ---------- *)
  Definition default_one (l : list string) : list string := match l with [] => [""] | _ => l end.

  (* the test of one element (a mapping or a null node) against the keys, in order.
     None: not this element; Some false: this element; Some true: this element, and the last
     FieldMatcher call returned an error (an empty key on a mapping), which the filter passes on *)
  Fixpoint em_elem (any : bool) (keys values : list string) (e : node) : option bool :=
    match keys with
    | [] => Some false
    | k :: ks =>
        let v := hd "" values in
        let r := if any then fm_get k e else fm_match_field k v e in
        match r with
        | Ok (_, None) => None
        | Ok (_, Some _) => match ks with [] => Some false | _ => em_elem any ks (tl values) e end
        | _ => match ks with [] => Some true | _ => em_elem any ks (tl values) e end
        end
    end.

  Fixpoint em_scan (any : bool) (keys values : list string) (es : list node) : res (option node) :=
    match es with
    | [] => Ok None
    | e :: t =>
        if negb (is_map e || is_null e) then em_scan any keys values t      (* only check mapping nodes *)
        else if negb any && negb (Nat.eqb (List.length keys) (List.length values)) then Err
        else match em_elem any keys values e with
             | None => em_scan any keys values t
             | Some false => Ok (Some e)
             | Some true => Err
             end
    end.

  Fixpoint first_by_value (v : string) (es : list node) : option node :=
    match es with
    | [] => None
    | e :: t => if String.eqb (node_value e) v then Some e else first_by_value v t
    end.

  Definition elem_matcher (keys values : list string) (any : bool) (create : option node) (n : node)
    : res (node * option node) :=
    let keys := default_one keys in
    let values := default_one values in
    let go (es : list node) : res (node * option node) :=
      if any && negb (String.eqb (hd "" values) "") then Err else
      do found <- (if String.eqb (hd "" keys) "" then Ok (first_by_value (hd "" values) es)
                   else em_scan any keys values es);
      match found with
      | Some e => Ok (n, Some e)
      | None => match create with
                | Some c => elem_append [c] n
                | None => Ok (n, None)
                end
      end in
    match n with
    | Seq es => go es
    | _ => if is_null n then go [] else Err
    end.

  (* MatchElement / MatchElementList / GetElementByKey *)
  Definition match_element (k v : string) := elem_matcher [k] [v] false None.
  Definition match_element_list (ks vs : list string) := elem_matcher ks vs false None.
  Definition get_element_by_key (k : string) := elem_matcher [k] [] true None.

  (* ---------- ElementSetter ---------- *)
  (* does the element answer to Keys/Values?  [val] is Go's variable of that name: it keeps the result of the
     last FieldMatcher call when the values run out before the keys do *)
  Fixpoint es_match (keys values : list string) (val : bool) (e : node) : res bool :=
    match keys with
    | [] => Ok true
    | k :: ks =>
        match values with
        | v :: vs =>
            do r <- fm_string_value k v e;
            match snd r with
            | Some _ => es_match ks vs true e
            | None => Ok false
            end
        | [] => if val then es_match ks [] val e else Ok false
        end
    end.

  Fixpoint es_scan (keys values : list string) (mapping_setter : bool) (element : option node)
           (es : list node) : res (list node * bool) :=
    match es with
    | [] => Ok ([], false)
    | e :: t =>
        if is_null e || is_empty_map e then es_scan keys values mapping_setter element t   (* dropped *)
        else if negb (is_map e) && mapping_setter then
          do r <- es_scan keys values mapping_setter element t; Ok (e :: fst r, snd r)
        else
          do m <- es_match keys values false e;
          do r <- es_scan keys values mapping_setter element t;
          if m then Ok (match element with Some x => x :: fst r | None => fst r end, true)
          else Ok (match values with [] => fst r | _ => e :: fst r end, snd r)
    end.

  Definition elem_setter (keys values : list string) (element : option node) (n : node)
    : res (node * option node) :=
    let keys := default_one keys in
    let mapping_setter :=
      negb (String.eqb (hd "" keys) "") &&
      match values with [] => false | v :: _ => negb (String.eqb v "") end in
    let go (es : list node) : res (list node * option node) :=
      do r <- es_scan keys values mapping_setter element es;
      match element with
      | None => Ok (fst r, None)
      | Some x =>
          if is_null x then Ok (fst r, None)
          else Ok (if snd r then fst r else (fst r ++ [x])%list, Some x)
      end in
    match n with
    | Seq es => do r <- go es; Ok (Seq (fst r), snd r)
    | _ => if is_null n then (do r <- go []; Ok (n, snd r)) else Err
    end.

  (* ---------- Tee: run the filter for its effect, return the node it was applied to ---------- *)
  Definition k_tee {A} (k : node -> res (node * A)) : node -> res (node * node) :=
    fun x => do r <- k x; Ok (fst r, fst r).

  (* ---------- FieldClearer{Name, IfEmpty} with the removed node ---------- *)
  Definition content_empty (v : node) : bool :=
    match v with Scalar _ _ _ => true | Map [] => true | Seq [] => true | _ => false end.

  Fixpoint remove_first_if (name : string) (if_empty : bool) (kvs : list (string * node))
    : list (string * node) * option node :=
    match kvs with
    | [] => ([], None)
    | (k, v) :: t =>
        if String.eqb k name && (negb if_empty || content_empty v) then (t, Some v)
        else let r := remove_first_if name if_empty t in ((k, v) :: fst r, snd r)
    end.

  Definition field_clearer (name : string) (if_empty : bool) (n : node) : res (node * option node) :=
    match n with
    | Map kvs => let r := remove_first_if name if_empty kvs in Ok (Map (fst r), snd r)
    | _ => if is_null n then Ok (n, None) else Err
    end.

  (* ---------- kfns.go ---------- *)
  (* NewStringRNode(v) with Style = SingleQuotedStyle *)
  Definition quoted_value (v : string) : node := Scalar TStr SSingle v.

  (* LabelSetter: PathGetter{[metadata, labels], Create: Mapping} | FieldSetter{Name: k, Value: 'v'} *)
  Definition set_label (k v : string) (n : node) : res (node * option node) :=
    do r <- walk (Some KMap) [PKey "metadata"; PKey "labels"] (set_field_r k (quoted_value v)) n;
    Ok (fst r, match snd r with Some (Some x) => Some x | _ => None end).

  (* k8sMetaSetter (SetK8sName / SetK8sNamespace): returns the object itself *)
  Definition set_k8s_meta (k v : string) (n : node) : res node :=
    do r <- walk (Some KMap) [PKey "metadata"] (set_field_r k (Scalar TStr SPlain v)) n;
    Ok (fst r).
End WithOracle.
