(* The addresses PathMatcher returns never overlap: no returned node lies at, above or below another one. *)
From KV Require Import Base.Regex Yaml.Match Yaml.MatchProofs Yaml.MatchFrameProofs.

Ltac inv H := inversion H; subst; clear H.

Fixpoint at_addrs (hits : list hit) : list addr :=
  match hits with
  | [] => []
  | HAt a :: t => a :: at_addrs t
  | HDetached _ :: t => at_addrs t
  end.

Fixpoint pairwise_incomparable (l : list addr) : bool :=
  match l with
  | [] => true
  | a :: t => forallb (fun b => negb (comparable a b) && negb (comparable b a)) t && pairwise_incomparable t
  end.

Lemma in_at_addrs a hits : In a (at_addrs hits) <-> In (HAt a) hits.
Proof.
  induction hits as [|[b|x] t IH]; cbn; [tauto| |].
  - rewrite IH. split; intros [H|H]; auto; [left; congruence|inv H; auto].
  - rewrite IH. split; [auto|intros [H|H]; [discriminate|auto]].
Qed.

Lemma at_addrs_app h1 h2 : at_addrs (h1 ++ h2) = (at_addrs h1 ++ at_addrs h2)%list.
Proof. induction h1 as [|[a|x] t IH]; cbn; auto. rewrite IH; auto. Qed.

Lemma at_addrs_push i h : at_addrs (map (push i) h) = map (cons i) (at_addrs h).
Proof. induction h as [|[a|x] t IH]; cbn; auto. rewrite IH; auto. Qed.

Lemma at_addrs_detach d h : at_addrs (detach d h) = [].
Proof. unfold detach. induction h as [|[a|x] t IH]; cbn; auto. Qed.

Lemma pi_map_cons i : forall l, pairwise_incomparable l = true -> pairwise_incomparable (map (cons i) l) = true.
Proof.
  induction l as [|a t IH]; cbn; auto. intros H. apply andb_prop in H. destruct H as [H1 H2].
  rewrite IH; auto. rewrite andb_true_r. rewrite forallb_forall in *. intros b Hb.
  apply in_map_iff in Hb. destruct Hb as (c & <- & Hc). cbn. rewrite Nat.eqb_refl. cbn. apply H1; auto.
Qed.

Lemma pi_app : forall l1 l2,
  pairwise_incomparable l1 = true -> pairwise_incomparable l2 = true ->
  (forall a b, In a l1 -> In b l2 -> comparable a b = false /\ comparable b a = false) ->
  pairwise_incomparable (l1 ++ l2) = true.
Proof.
  induction l1 as [|a t IH]; cbn; intros l2 H1 H2 Hx; auto.
  apply andb_prop in H1. destruct H1 as [A B].
  rewrite IH; auto. rewrite andb_true_r. rewrite forallb_forall in *. intros b Hb.
  apply in_app_or in Hb. destruct Hb as [Hb|Hb]; [apply A; auto|].
  destruct (Hx a b (or_introl eq_refl) Hb) as [C D]. rewrite C, D. reflexivity.
Qed.

Lemma visit_elems_pi f : forall es i es' hs,
  (forall e e' h, In e es -> f e = Ok (e', h) -> pairwise_incomparable (at_addrs h) = true) ->
  visit_elems f i es = Ok (es', hs) -> pairwise_incomparable (at_addrs hs) = true.
Proof.
  induction es as [|e t IH]; intros i es' hs Hf H; cbn in H.
  - inv H. reflexivity.
  - destruct (f e) as [[e1 h1]| | |] eqn:Fe; cbn in H; try discriminate.
    destruct (visit_elems f (S i) t) as [[t1 h2]| | |] eqn:V; cbn in H; inv H.
    rewrite at_addrs_app, at_addrs_push. apply pi_app.
    + apply pi_map_cons. eapply Hf; eauto. left; auto.
    + eapply IH; eauto. intros; eapply Hf; eauto. right; auto.
    + intros a b Ha Hb. apply in_map_iff in Ha. destruct Ha as (a0 & <- & _).
      apply in_at_addrs in Hb. destruct (visit_elems_idx _ _ _ _ _ V _ Hb) as (j & b0 & -> & _).
      cbn. assert (Nat.eqb i (S i + j) = false) by (apply Nat.eqb_neq; lia).
      assert (Nat.eqb (S i + j) i = false) by (apply Nat.eqb_neq; lia).
      cbn in *. rewrite H, H0. auto.
Qed.

Lemma retry_pi visit new_elem cr :
  (forall e e' h, visit e = Ok (e', h) -> pairwise_incomparable (at_addrs h) = true) ->
  forall f app es es' hs, retry_loop visit new_elem cr app f es = Ok (es', hs) -> pairwise_incomparable (at_addrs hs) = true.
Proof.
  intros Hv. induction f as [|f IH]; intros app es es' hs R; cbn in R; [discriminate|].
  destruct (visit_elems visit 0 es) as [[e1 g1]| | |] eqn:V; cbn in R; try discriminate.
  assert (P : pairwise_incomparable (at_addrs g1) = true) by (eapply visit_elems_pi; eauto).
  destruct g1; [|inv R; auto]. destruct cr; [|inv R; auto].
  destruct app; cbn in R; try discriminate; eapply IH; eauto.
Qed.

Section Disjoint.
  Variable parse : string -> option re.
  Variable enc : node -> string.
  Variable nonstr : string -> bool.
  Variable create : option kind.
  Variable fuel : nat.

  Notation pmc := (pm parse enc nonstr create fuel).

  Theorem pm_hits_incomparable : forall path n n' hits,
    pmc path n = Ok (n', hits) -> pairwise_incomparable (at_addrs hits) = true.
  Proof.
    induction path as [|p rest IH]; intros n n' hits H; cbn [pm] in H.
    - inv H. reflexivity.
    - destruct (classify_pm p) as [i|raw| |name] eqn:Cp.
      + destruct n as [t s v|kvs|es].
        * destruct (is_null _); [|discriminate].
          destruct (Nat.eqb i 0 && is_create create); [|discriminate].
          destruct (pmc rest _) as [[e' h]| | |]; cbn -[detach] in H; inv H. rewrite at_addrs_detach. reflexivity.
        * discriminate.
        * destruct (Nat.eqb (List.length es) i && is_create create).
          -- destruct (pmc rest _) as [[e' h]| | |] eqn:P; cbn in H; inv H.
             rewrite at_addrs_push. apply pi_map_cons. eapply IH; eauto.
          -- destruct (nth_error es i) as [e|]; [|discriminate].
             destruct (pmc rest e) as [[e' h]| | |] eqn:P; cbn in H; inv H.
             rewrite at_addrs_push. apply pi_map_cons. eapply IH; eauto.
      + destruct (split_index_name_value raw) as [[fld v]|]; [|discriminate].
        assert (Hv : forall e e' h,
                  (do r <- elem_regex parse v;
                   if String.eqb fld "" then (if matches r (enc e) then Ok (e, [HAt []]) else Ok (e, []))
                   else match e with
                        | Map kvs => match find_field fld kvs with
                                     | Some x => if matches r (enc x) then pmc rest e else Ok (e, [])
                                     | None => Ok (e, [])
                                     end
                        | _ => Ok (e, [])
                        end) = Ok (e', h) -> pairwise_incomparable (at_addrs h) = true).
        { intros e e' h Hx. destruct (elem_regex parse v) as [r| | |]; cbn in Hx; try discriminate.
          destruct (String.eqb fld "").
          - destruct (matches r (enc e)); inv Hx; reflexivity.
          - destruct e as [t s v0|kvs|es0]; try (inv Hx; reflexivity).
            destruct (find_field fld kvs) as [x|]; [|inv Hx; reflexivity].
            destruct (matches r (enc x)); [eapply IH; eauto|inv Hx; reflexivity]. }
        destruct n as [t s v0|kvs|es].
        * destruct (is_null _); [|discriminate].
          destruct (retry_loop _ _ _ _ _ _) as [[es1 h1]| | |]; cbn -[detach] in H; inv H. rewrite at_addrs_detach. reflexivity.
        * discriminate.
        * destruct (retry_loop _ _ _ _ _ es) as [[es1 h1]| | |] eqn:R; cbn in H; inv H.
          eapply retry_pi; [|exact R]. exact Hv.
      + destruct n as [t s v|kvs|es].
        * destruct (is_null _); inv H; reflexivity.
        * discriminate.
        * destruct (visit_elems (pmc rest) 0 es) as [[es1 h1]| | |] eqn:V; cbn in H; inv H.
          eapply visit_elems_pi; eauto.
      + destruct (String.eqb name "").
        * destruct n as [t s v|kvs|es]; try discriminate.
          destruct (negb (is_null (Scalar t s v)) && String.eqb v ""); [eapply IH; eauto|].
          destruct (is_create create); [|inv H; reflexivity].
          destruct (pmc rest _) as [[e' h]| | |]; cbn -[detach] in H; inv H. rewrite at_addrs_detach. reflexivity.
        * destruct n as [t s v|kvs|es].
          -- destruct (is_null _); [|discriminate]. destruct (is_create create); [|inv H; reflexivity].
             destruct (pmc rest _) as [[e' h]| | |]; cbn -[detach] in H; inv H. rewrite at_addrs_detach. reflexivity.
          -- destruct (find_field name kvs) as [y|].
             ++ destruct (pmc rest y) as [[y' h]| | |] eqn:P; cbn in H; inv H.
                rewrite at_addrs_push. apply pi_map_cons. eapply IH; eauto.
             ++ destruct (is_create create); [|inv H; reflexivity].
                destruct (pmc rest _) as [[y' h]| | |] eqn:P; cbn in H; inv H.
                rewrite at_addrs_push. apply pi_map_cons. eapply IH; eauto.
          -- discriminate.
  Qed.
End Disjoint.
