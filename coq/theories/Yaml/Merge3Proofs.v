(* Proofs about the merge3 visitor (Yaml/Merge3.v): the visitor contract of the walker, hence no
   divergence at the canonical fuel; the partial merge laws that hold on the fragment without
   associative lists; witnesses of the laws that fail for the code as it is. *)
From KV Require Import Yaml.Walk Yaml.WalkProofs Yaml.WalkFields Yaml.SortUniq Yaml.Merge2 Yaml.Merge2Frame Yaml.Merge3.
Local Open Scope list_scope.

Lemma bounded_updated n srcs x : bounded n srcs -> updated_of srcs = Some x -> depth x <= n.
Proof.
  intros H E. unfold updated_of in E. destruct srcs as [|d [|o [|u t]]]; try discriminate. subst.
  unfold bounded in H. rewrite !Forall_cons_iff in H. destruct H as [_ [_ [H _]]]. exact H.
Qed.

Lemma merger3_ok : vis_ok merger3.
Proof.
  constructor.
  - intros n srcs vr Hb H. cbn in H. unfold m3_visit_map in H.
    destruct (tagged_null (updated_of srcs) || tagged_null (dest_of srcs)); [inv H; cbn; split; [auto|intros; discriminate]|].
    destruct (is_none (dest_of srcs) && is_none (updated_of srcs)) eqn:E1; [inv H; cbn; split; [auto|intros; discriminate]|].
    destruct (is_none (dest_of srcs)) eqn:E2; inv H; cbn; split; auto; try (intros; discriminate).
    intros x k Hx. inv Hx. cbn.
    cbn in E1. destruct (updated_of srcs) as [u|] eqn:Eu; [|discriminate].
    pose proof (bounded_updated _ _ _ Hb Eu). pose proof (depth_pos u). lia.
  - intros b m srcs vr Hb H. cbn in H. unfold m3_visit_list in H.
    destruct b.
    + destruct (o_null (updated_of srcs) && negb (o_null (origin_of srcs))); [inv H; cbn; split; [auto|intros; discriminate]|].
      destruct (o_null (dest_of srcs)); inv H; cbn; split; auto; try (intros; discriminate).
      intros x k Hx. inv Hx. cbn. lia.
    + destruct (tagged_null (updated_of srcs) || tagged_null (dest_of srcs)); [inv H; cbn; split; [auto|intros; discriminate]|].
      destruct (negb (Bool.eqb (o_null (updated_of srcs)) (o_null (origin_of srcs)))); [inv H; cbn; split; [auto|intros; discriminate]|].
      destruct (o_null (updated_of srcs) && o_null (origin_of srcs)); [inv H; cbn; split; [auto|intros; discriminate]|].
      destruct (updated_of srcs) as [un|]; [|inv H; cbn; split; [auto|intros; discriminate]].
      destruct (origin_of srcs) as [on|]; [|inv H; cbn; split; [auto|intros; discriminate]].
      destruct (node_eqb un on); inv H; cbn; split; auto; intros; discriminate.
  - intros n srcs r Hb H x k Hx. cbn in H. unfold m3_visit_scalar in H. subst r.
    repeat match type of H with
           | context [if ?c then _ else _] => destruct c; try discriminate
           | context [match ?c with _ => _ end] => destruct c; try discriminate
           end.
  - intros srcs. cbn. unfold m3_visit_map.
    repeat match goal with |- context [if ?c then _ else _] => destruct c; try discriminate end.
  - intros b srcs. cbn. unfold m3_visit_list.
    repeat match goal with
           | |- context [if ?c then _ else _] => destruct c; try discriminate
           | |- context [match ?c with _ => _ end] => destruct c; try discriminate
           end.
  - intros srcs. cbn. unfold m3_visit_scalar.
    repeat match goal with
           | |- context [if ?c then _ else _] => destruct c; try discriminate
           | |- context [match ?c with _ => _ end] => destruct c; try discriminate
           end.
Qed.

Section M3.
  Context {Sc : Type}.
  Variable sch : schema Sc.
  Variable opts : wopts.
  Variable nonstr : string -> bool.

  Theorem merge3_no_diverge l o u : merge3 sch opts nonstr l o u <> Diverge.
  Proof. unfold merge3. apply walk_top_no_diverge. apply merger3_ok. Qed.
End M3.

(* ---------- structural equality is reflexive ---------- *)
Lemma tag_eqb_refl t : tag_eqb t t = true. Proof. destruct t; reflexivity. Qed.
Lemma style_eqb_refl s : style_eqb s s = true. Proof. destruct s; reflexivity. Qed.

Lemma node_eqb_refl n : node_eqb n n = true.
Proof.
  induction n as [t s v|kvs IH|es IH] using node_ind'.
  - cbn. rewrite tag_eqb_refl, style_eqb_refl, String.eqb_refl. reflexivity.
  - cbn. induction IH as [|[k x] l Hx Hl IHl]; auto. cbn in Hx. rewrite String.eqb_refl, Hx. cbn. exact IHl.
  - cbn. induction IH as [|x l Hx Hl IHl]; auto. rewrite Hx. cbn. exact IHl.
Qed.

(* ---------- merge3(l, o, o): what local holds survives (fragment without associative lists) ---------- *)

(* o has no explicit null at the places the path goes through *)
Fixpoint no_null_along (o : option node) (q : list string) : Prop :=
  tagged_null o = false /\
  match q with
  | [] => True
  | k :: r => no_null_along (field_of k o) r
  end.

Section Local.
  Context {Sc : Type}.
  Variable sch : schema Sc.
  Variable opts : wopts.
  Variable nonstr : string -> bool.
  Hypothesis Hatomic : atomic_lists sch opts.

  Notation W3 := (walk sch opts nonstr merger3).

  Lemma map_level3 f sc lk o x :
    tagged_null o = false ->
    W3 (S f) sc None [Some (Map lk); o; o] = Ok x ->
    exists d, x = Some (mkW d false true) /\
              walk_fields sch nonstr (W3 f) (get_schema sch sc [Some (Map lk); o; o]) None [Some (Map lk); o; o]
                          (field_names [Some (Map lk); o; o]) (Map lk) = Ok d.
  Proof.
    intros Ho H. cbn [walk] in H.
    cbn [first_kind o_null is_null kind_of] in H.
    destruct (all_valid KMap [Some (Map lk); o; o]); [|discriminate].
    unfold walk_map in H. cbn [v_map merger3] in H. unfold m3_visit_map in H.
    cbn [dest_of updated_of] in H.
    rewrite Ho in H. cbn [tagged_null is_null orb is_none andb] in H.
    cbn [bind fst snd sync_from_alias resolve nth_error] in H.
    match type of H with
    | bind ?X _ = _ => destruct X as [d| | |] eqn:E; cbn in H; try discriminate
    end.
    inv H. exists d. split; auto.
  Qed.

  Lemma leaf3 f sc v o r :
    is_map v = false -> is_null v = false -> tagged_null o = false ->
    W3 f sc None [Some v; o; o] = Ok r ->
    fval nonstr r (Some v) = Some (quote11 nonstr v).
  Proof.
    intros Hm Hn Ho H. destruct f as [|f]; [discriminate|]. cbn [walk] in H.
    destruct v as [t s x| |es]; [| discriminate |].
    - assert (Hk : first_kind [Some (Scalar t s x); o; o] = Some KScalar).
      { cbn. cbn in Hn. rewrite Hn. reflexivity. }
      rewrite Hk in H. destruct (all_valid KScalar [Some (Scalar t s x); o; o]); [|discriminate].
      cbn [v_scalar merger3] in H. unfold m3_visit_scalar in H. cbn [dest_of origin_of updated_of] in H.
      rewrite Ho in H. unfold tagged_null at 1 in H. rewrite Hn in H. cbn [orb] in H.
      rewrite Bool.eqb_reflx in H. cbn [negb] in H.
      destruct (o_null o && o_null o) eqn:En.
      + cbn in H. inv H. cbn in Hn |- *. rewrite Hn. reflexivity.
      + destruct o as [on|].
        * rewrite String.eqb_refl in H. cbn in H. inv H. cbn in Hn |- *. rewrite Hn. reflexivity.
        * cbn in En. discriminate.
    - cbn [first_kind o_null is_null kind_of] in H.
      destruct (all_valid KSeq [Some (Seq es); o; o]); [|discriminate].
      rewrite (not_assoc sch opts Hatomic) in H.
      cbn [v_list merger3] in H. unfold m3_visit_list in H. cbn [dest_of origin_of updated_of] in H.
      rewrite Ho in H. cbn [tagged_null is_null orb] in H.
      rewrite Bool.eqb_reflx in H. cbn [negb] in H.
      destruct (o_null o && o_null o) eqn:En.
      + cbn in H. inv H. reflexivity.
      + destruct o as [on|].
        * rewrite node_eqb_refl in H. cbn in H. inv H. reflexivity.
        * cbn in En. discriminate.
  Qed.

  Lemma in_field_names_dest3 k lk v o u :
    find_field k lk = Some v -> In k (field_names [Some (Map lk); o; u]).
  Proof.
    intros H. unfold field_names. apply in_sort_uniq. cbn. apply in_or_app. left.
    destruct (in_dec string_dec k (keys lk)) as [Hi|Hn]; auto.
    apply find_field_none_iff in Hn. congruence.
  Qed.

  Lemma local_leaf q :
    q <> [] ->
    forall f sc lk o w v,
      W3 f sc None [Some (Map lk); o; o] = Ok (Some w) ->
      no_null_along o q -> maps_along q (Map lk) ->
      getp q (Map lk) = Some v -> is_map v = false -> is_null v = false ->
      getp q (w_node w) = Some (quote11 nonstr v).
  Proof.
    induction q as [|k r IH]; [congruence|]. intros _ f sc lk o w v H Hnn Hm Hg Hv Hi.
    destruct f as [|f]; [discriminate|].
    destruct Hnn as [Ho Hnn]. fold no_null_along in Hnn.
    destruct (map_level3 _ _ _ _ _ Ho H) as [d [Hx Hw]]. inv Hx. cbn [w_node].
    cbn in Hm. destruct Hm as [Hnd Hm].
    cbn [getp dfield] in Hg. destruct (find_field k lk) as [lv|] eqn:Flv; [|discriminate].
    destruct (walk_fields_map sch nonstr _ _ _ _ _ (nodup_sort_uniq _) _ _ Hnd Hw) as [kvs' [-> [Hnd' [_ Hin]]]].
    destruct (Hin k (in_field_names_dest3 _ _ _ _ _ Flv)) as [rk [Hrk Hfk]].
    rewrite Flv in Hrk, Hfk. cbn [getp dfield]. rewrite Hfk.
    unfold fvs, set_nth in Hrk. cbn [map replace_nth field_of] in Hrk. fold (field_of k o) in Hrk.
    destruct r as [|k' r'].
    - cbn in Hg. inv Hg. destruct Hnn as [Hof _].
      erewrite leaf3; eauto.
    - cbn [getp] in Hg. destruct lv as [| lk' |]; try (cbn in Hg; discriminate).
      destruct f as [|f]; [discriminate|].
      pose proof Hnn as Hnn0. destruct Hnn0 as [Hof _].
      destruct (map_level3 _ _ _ _ _ Hof Hrk) as [d' [Hx' Hw']]. subst rk.
      cbn [fval w_node w_keep w_inplace].
      assert (Hd' : exists kvs2, d' = Map kvs2).
      { pose proof Hm as Hm0. cbn in Hm0. destruct Hm0 as [Hnd2 _].
        destruct (walk_fields_map sch nonstr _ _ _ _ _ (nodup_sort_uniq _) _ _ Hnd2 Hw') as [kvs2 [-> _]]. eauto. }
      destruct Hd' as [kvs2 ->]. cbn [is_null andb quote11].
      change (Map kvs2) with (w_node (mkW (Map kvs2) false true)).
      eapply (IH ltac:(discriminate) (S f)); eauto.
  Qed.
End Local.

Section Top3.
  Context {Sc : Type}.
  Variable sch : schema Sc.
  Variable opts : wopts.
  Variable nonstr : string -> bool.
  Hypothesis Hatomic : atomic_lists sch opts.

  (* merge3(l, o, o): every non-mapping, non-null value of local is in the result (same tag and text) *)
  Theorem merge3_local_kept q lk o r v :
    q <> [] ->
    merge3 sch opts nonstr (Some (Map lk)) o o = Ok (Some r) ->
    no_null_along o q -> maps_along q (Map lk) ->
    getp q (Map lk) = Some v -> is_map v = false -> is_null v = false ->
    getp q r = Some (quote11 nonstr v).
  Proof.
    intros Hq H Hnn Hm Hg Hv Hi. unfold merge3, walk_top in H.
    destruct (walk sch opts nonstr merger3 (fuel_of [Some (Map lk); o; o]) None None [Some (Map lk); o; o])
      as [[w|]| | |] eqn:E; cbn in H; inv H.
    eapply local_leaf; eauto.
  Qed.

  (* merge3(d, d, d): every non-mapping, non-null value of d is in the result *)
  Corollary merge3_all_equal_kept q dk r v :
    q <> [] ->
    merge3 sch opts nonstr (Some (Map dk)) (Some (Map dk)) (Some (Map dk)) = Ok (Some r) ->
    no_null_along (Some (Map dk)) q -> maps_along q (Map dk) ->
    getp q (Map dk) = Some v -> is_map v = false -> is_null v = false ->
    getp q r = Some (quote11 nonstr v).
  Proof. intros. eapply merge3_local_kept; eauto. Qed.
End Top3.

(* ---------- merge3(o, o, u): what updated holds arrives (fragment without associative lists) ---------- *)

(* original (= local) along the path: absent, or mappings with pairwise different keys; no explicit null at the leaf *)
Fixpoint ok_along (o : option node) (q : list string) : Prop :=
  match q with
  | [] => tagged_null o = false
  | k :: r =>
      match o with
      | None => True
      | Some (Map okv) => nodupk okv /\ ok_along (find_field k okv) r
      | Some _ => False
      end
  end.

Lemma ok_along_none q : ok_along None q.
Proof. destruct q; cbn; auto. Qed.

(* does updated's value differ from original's, the way the visitor decides it *)
Definition same3 (v x : node) : bool :=
  match v, x with
  | Scalar _ _ a, Scalar _ _ b => String.eqb a b
  | _, _ => node_eqb v x
  end.

Section Upd.
  Variable nonstr : string -> bool.
  (* the value stored at a leaf of updated, given what original (= local) had there *)
  Definition expected3 (ov : option node) (v : node) : node :=
    match ov with
    | None => quote11 nonstr v
    | Some x => if same3 v x then quote11 nonstr x else with_style (style_of x) v
    end.
End Upd.

Section Updated.
  Context {Sc : Type}.
  Variable sch : schema Sc.
  Variable opts : wopts.
  Variable nonstr : string -> bool.
  Hypothesis Hatomic : atomic_lists sch opts.

  Notation W3 := (walk sch opts nonstr merger3).

  (* dest is a mapping, updated is not an explicit null: VisitMap answers with dest *)
  Lemma map_level3_dest f sc dk o u x :
    tagged_null u = false ->
    W3 (S f) sc None [Some (Map dk); o; u] = Ok x ->
    exists d, x = Some (mkW d false true) /\
              walk_fields sch nonstr (W3 f) (get_schema sch sc [Some (Map dk); o; u]) None [Some (Map dk); o; u]
                          (field_names [Some (Map dk); o; u]) (Map dk) = Ok d.
  Proof.
    intros Hu H. cbn [walk] in H.
    cbn [first_kind o_null is_null kind_of] in H.
    destruct (all_valid KMap [Some (Map dk); o; u]); [|discriminate].
    unfold walk_map in H. cbn [v_map merger3] in H. unfold m3_visit_map in H.
    cbn [dest_of updated_of] in H.
    rewrite Hu in H. cbn [tagged_null is_null orb is_none andb] in H.
    cbn [bind fst snd sync_from_alias resolve nth_error] in H.
    match type of H with
    | bind ?X _ = _ => destruct X as [d| | |] eqn:E; cbn in H; try discriminate
    end.
    inv H. exists d. split; auto.
  Qed.

  (* dest and original are absent, updated is a mapping: VisitMap makes a new mapping that is then filled *)
  Lemma map_level3_new f sc uk x :
    W3 (S f) sc None [None; None; Some (Map uk)] = Ok x ->
    exists d, x = Some (mkW d false false) /\
              walk_fields sch nonstr (W3 f) (get_schema sch sc [None; None; Some (Map uk)]) None [None; None; Some (Map uk)]
                          (field_names [Some (Map []); None; Some (Map uk)]) (Map []) = Ok d.
  Proof.
    intros H. cbn [walk] in H.
    cbn [first_kind o_null is_null kind_of all_valid forallb kind_eqb orb andb] in H.
    unfold walk_map in H. cbn [v_map merger3] in H. unfold m3_visit_map in H.
    cbn [dest_of updated_of tagged_null is_null orb is_none andb] in H.
    cbn [bind fst snd sync_from_alias resolve] in H.
    match type of H with
    | bind ?X _ = _ => destruct X as [d| | |] eqn:E; cbn in H; try discriminate
    end.
    inv H. exists d. split; auto.
  Qed.

  Lemma leaf3u f sc ov v r :
    is_map v = false -> is_null v = false -> tagged_null ov = false ->
    W3 f sc None [ov; ov; Some v] = Ok r ->
    fval nonstr r ov = Some (expected3 nonstr ov v).
  Proof.
    intros Hm Hn Ho H. destruct f as [|f]; [discriminate|]. cbn [walk] in H.
    destruct ov as [x|].
    - (* original has a value here *)
      cbn in Ho.
      assert (Hk : first_kind [Some x; Some x; Some v] = Some (kind_of x)).
      { cbn. rewrite Ho. reflexivity. }
      rewrite Hk in H.
      destruct x as [tx sx ax|xk|xs]; cbn [kind_of] in H.
      + destruct (all_valid KScalar [Some (Scalar tx sx ax); Some (Scalar tx sx ax); Some v]) eqn:Ev; [|discriminate].
        destruct v as [tv sv av| |vs]; [| discriminate |].
        * cbn [v_scalar merger3] in H. unfold m3_visit_scalar in H. cbn [dest_of origin_of updated_of] in H.
          unfold tagged_null in H. rewrite Hn, Ho in H. cbn [orb] in H.
          unfold o_null in H. rewrite Hn, Ho in H. cbn [Bool.eqb negb andb] in H.
          cbn [node_value] in H. cbn [expected3 same3].
          destruct (String.eqb av ax); cbn in H; inv H; cbn in Ho, Hn |- *; rewrite ?Ho, ?Hn; reflexivity.
        * clear -Ev. destruct tx; cbn in Ev; discriminate.
      + destruct (all_valid KMap [Some (Map xk); Some (Map xk); Some v]) eqn:Ev.
        * exfalso. destruct v; cbn in Ev, Hm, Hn; try rewrite Hn in Ev; discriminate.
        * discriminate.
      + destruct (all_valid KSeq [Some (Seq xs); Some (Seq xs); Some v]) eqn:Ev; [|discriminate].
        destruct v as [tv sv av| |vs]; [ | discriminate | ].
        * cbn in Ev. cbn in Hn. rewrite Hn in Ev. discriminate.
        * rewrite (not_assoc sch opts Hatomic) in H.
          cbn [v_list merger3] in H. unfold m3_visit_list in H. cbn [dest_of origin_of updated_of] in H.
          cbn [tagged_null is_null orb o_null Bool.eqb negb andb] in H.
          cbn [expected3 same3].
          destruct (node_eqb (Seq vs) (Seq xs)); cbn in H; inv H; reflexivity.
    - (* original has nothing here: the value is new *)
      assert (Hk : first_kind [None; None; Some v] = Some (kind_of v)).
      { cbn. rewrite Hn. reflexivity. }
      rewrite Hk in H. cbn [expected3].
      destruct v as [tv sv av| |vs]; [| discriminate |]; cbn [kind_of] in H.
      + destruct (all_valid KScalar [None; None; Some (Scalar tv sv av)]); [|discriminate].
        cbn [v_scalar merger3] in H. unfold m3_visit_scalar in H. cbn [dest_of origin_of updated_of] in H.
        unfold tagged_null in H. rewrite Hn in H. cbn [orb] in H.
        unfold o_null in H. rewrite Hn in H. cbn in H. inv H. cbn in Hn |- *. rewrite Hn. reflexivity.
      + destruct (all_valid KSeq [None; None; Some (Seq vs)]); [|discriminate].
        rewrite (not_assoc sch opts Hatomic) in H.
        cbn [v_list merger3] in H. unfold m3_visit_list in H. cbn [dest_of origin_of updated_of] in H.
        cbn in H. inv H. reflexivity.
  Qed.

  Lemma in_field_names_upd k d o uk v :
    find_field k uk = Some v -> In k (field_names [d; o; Some (Map uk)]).
  Proof.
    intros H. unfold field_names. apply in_sort_uniq. cbn. rewrite !in_app_iff. right. right. left.
    destruct (in_dec string_dec k (keys uk)) as [Hi|Hn]; auto.
    apply find_field_none_iff in Hn. congruence.
  Qed.

  Definition getp_o (q : list string) (o : option node) : option node :=
    match o with Some n => getp q n | None => None end.

  Lemma updated_leaf q :
    q <> [] ->
    forall f sc o uk w v,
      W3 f sc None [o; o; Some (Map uk)] = Ok (Some w) ->
      ok_along o q ->
      getp q (Map uk) = Some v -> is_map v = false -> is_null v = false ->
      getp q (w_node w) = Some (expected3 nonstr (getp_o q o) v).
  Proof.
    induction q as [|k r IH]; [congruence|]. intros _ f sc o uk w v H Hok Hg Hv Hi.
    destruct f as [|f]; [discriminate|].
    cbn [getp dfield] in Hg. destruct (find_field k uk) as [uv|] eqn:Fuv; [|discriminate].
    (* one level: the value stored under k is fval of the walk of [ov; ov; Some uv] *)
    assert (Hlevel : exists kvs' rk,
               w_node w = Map kvs' /\
               W3 f (child_schema sch (get_schema sch sc [o; o; Some (Map uk)]) k) None
                  [field_of k o; field_of k o; Some uv] = Ok rk /\
               find_field k kvs' = fval nonstr rk (field_of k o) /\
               ok_along (field_of k o) r).
    { destruct o as [[| okv |]|]; cbn in Hok; try contradiction.
      - destruct Hok as [Hnd Hok].
        destruct (map_level3_dest _ _ _ _ _ _ (eq_refl : tagged_null (Some (Map uk)) = false) H) as [d [Hx Hw]].
        inv Hx. cbn [w_node].
        destruct (walk_fields_map sch nonstr _ _ _ _ _ (nodup_sort_uniq _) _ _ Hnd Hw) as [kvs' [-> [Hnd' [_ Hin]]]].
        destruct (Hin k (in_field_names_upd _ _ _ _ _ Fuv)) as [rk [Hrk Hfk]].
        unfold fvs, set_nth in Hrk. cbn [map replace_nth field_of] in Hrk. rewrite Fuv in Hrk.
        exists kvs', rk. cbn [field_of]. repeat split; auto.
      - destruct (map_level3_new _ _ _ _ H) as [d [Hx Hw]]. inv Hx. cbn [w_node].
        assert (Hnd0 : nodupk []) by constructor.
        destruct (walk_fields_map sch nonstr _ _ _ _ _ (nodup_sort_uniq _) _ _ Hnd0 Hw) as [kvs' [-> [Hnd' [_ Hin]]]].
        destruct (Hin k (in_field_names_upd _ _ _ _ _ Fuv)) as [rk [Hrk Hfk]].
        unfold fvs, set_nth in Hrk. cbn [map replace_nth field_of find_field] in Hrk. rewrite Fuv in Hrk.
        exists kvs', rk. cbn [field_of]. repeat split; auto. apply ok_along_none. }
    destruct Hlevel as [kvs' [rk [Hwn [Hrk [Hfk Hokc]]]]].
    rewrite Hwn. cbn [getp dfield]. rewrite Hfk.
    assert (Hgo : getp_o (k :: r) o = getp_o r (field_of k o)).
    { destruct o as [[| okv |]|]; cbn; auto; destruct (find_field k okv); auto. }
    rewrite Hgo.
    destruct r as [|k' r'].
    - cbn in Hg. inv Hg. cbn in Hokc.
      erewrite leaf3u; eauto.
      destruct (field_of k o); reflexivity.
    - cbn [getp] in Hg. destruct uv as [| uk' |]; try (cbn in Hg; discriminate).
      destruct f as [|f]; [discriminate|].
      assert (Hchild : exists kvs2 ip, rk = Some (mkW (Map kvs2) false ip) /\
                                      (ip = false -> field_of k o = None)).
      { destruct (field_of k o) as [[| okv' |]|] eqn:Fo; cbn in Hokc; try contradiction.
        - destruct Hokc as [Hnd2 _].
          destruct (map_level3_dest _ _ _ _ _ _ (eq_refl : tagged_null (Some (Map uk')) = false) Hrk) as [d' [Hx' Hw']].
          destruct (walk_fields_map sch nonstr _ _ _ _ _ (nodup_sort_uniq _) _ _ Hnd2 Hw') as [kvs2 [-> _]].
          exists kvs2, true. split; auto. discriminate.
        - destruct (map_level3_new _ _ _ _ Hrk) as [d' [Hx' Hw']].
          assert (Hnd0 : nodupk []) by constructor.
          destruct (walk_fields_map sch nonstr _ _ _ _ _ (nodup_sort_uniq _) _ _ Hnd0 Hw') as [kvs2 [-> _]].
          exists kvs2, false. split; auto. }
      destruct Hchild as [kvs2 [ip [-> Hip]]].
      assert (Hfv : fval nonstr (Some (mkW (Map kvs2) false ip)) (field_of k o) = Some (Map kvs2)).
      { cbn. destruct (field_of k o); [destruct ip|]; reflexivity. }
      rewrite Hfv.
      change (Map kvs2) with (w_node (mkW (Map kvs2) false ip)).
      eapply (IH ltac:(discriminate) (S f)); eauto.
  Qed.
End Updated.

Section Top3u.
  Context {Sc : Type}.
  Variable sch : schema Sc.
  Variable opts : wopts.
  Variable nonstr : string -> bool.
  Hypothesis Hatomic : atomic_lists sch opts.

  (* merge3(o, o, u): every non-mapping, non-null value of updated arrives; its spelling is decided by what
     original (= local) had at the same place *)
  Theorem merge3_updated_arrives q o uk r v :
    q <> [] ->
    merge3 sch opts nonstr o o (Some (Map uk)) = Ok (Some r) ->
    ok_along o q ->
    getp q (Map uk) = Some v -> is_map v = false -> is_null v = false ->
    getp q r = Some (expected3 nonstr (getp_o q o) v).
  Proof.
    intros Hq H Hok Hg Hv Hi. unfold merge3, walk_top in H.
    destruct (walk sch opts nonstr merger3 (fuel_of [o; o; Some (Map uk)]) None None [o; o; Some (Map uk)])
      as [[w|]| | |] eqn:E; cbn in H; inv H.
    eapply updated_leaf; eauto.
  Qed.
End Top3u.
