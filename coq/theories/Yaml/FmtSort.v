(* Order and sorting facts used by the C20 proofs:
   - Go's byte-wise string < ([String.ltb]) is a strict total order;
   - yaml.FieldOrder built from a list with "later index wins" is injective, hence
     sortedMapContents.Less ([less_key]) is a strict total order on field names;
   - hypothesis (S1) on a sort function, the concrete insertion sort meets it, it is stable, and
     a sorted permutation is unique when the sort keys are pairwise distinct. *)
From KV Require Import Yaml.Fmt.
From Coq Require Import Permutation Sorted.

(* ---------- strict total orders on strings ---------- *)

Record strict_total (cmp : string -> string -> bool) : Prop := mkST {
  st_irrefl : forall a, cmp a a = false;
  st_trans : forall a b c, cmp a b = true -> cmp b c = true -> cmp a c = true;
  st_total : forall a b, cmp a b = false -> cmp b a = false -> a = b
}.

Lemma st_asym cmp : strict_total cmp -> forall a b, cmp a b = true -> cmp b a = false.
Proof.
  intros H a b Hab. destruct (cmp b a) eqn:E; auto.
  rewrite <- (st_irrefl _ H a). symmetry. eapply st_trans; eauto.
Qed.

(* "not greater" is transitive *)
Lemma st_le_trans cmp : strict_total cmp ->
  forall x y z, cmp y x = false -> cmp z y = false -> cmp z x = false.
Proof.
  intros H x y z Hyx Hzy. destruct (cmp z x) eqn:Hzx; auto.
  destruct (cmp y z) eqn:Hyz.
  - rewrite (st_trans _ H y z x Hyz Hzx) in Hyx. discriminate.
  - assert (z = y) by (eapply st_total; eauto). subst. congruence.
Qed.

(* ---- String.compare ---- *)

Lemma ascii_compare_refl c : Ascii.compare c c = Eq.
Proof. unfold Ascii.compare. apply N.compare_refl. Qed.

Lemma string_compare_refl s : String.compare s s = Eq.
Proof. induction s as [|c s IH]; cbn; auto. rewrite ascii_compare_refl. exact IH. Qed.

Lemma ascii_compare_lt_trans a b c :
  Ascii.compare a b = Lt -> Ascii.compare b c = Lt -> Ascii.compare a c = Lt.
Proof. unfold Ascii.compare. rewrite !N.compare_lt_iff. apply N.lt_trans. Qed.

Lemma string_compare_lt_trans : forall a b c,
  String.compare a b = Lt -> String.compare b c = Lt -> String.compare a c = Lt.
Proof.
  induction a as [|x a IH]; intros [|y b] [|z c]; cbn; try discriminate; auto.
  destruct (Ascii.compare x y) eqn:Exy; try discriminate.
  - apply Ascii.compare_eq_iff in Exy. subst y.
    destruct (Ascii.compare x z) eqn:Exz; auto. apply IH.
  - intros _. destruct (Ascii.compare y z) eqn:Eyz; try discriminate.
    + apply Ascii.compare_eq_iff in Eyz. subst z. rewrite Exy. auto.
    + intros _. rewrite (ascii_compare_lt_trans _ _ _ Exy Eyz). auto.
Qed.

Lemma ltb_strict_total : strict_total String.ltb.
Proof.
  constructor.
  - intros a. unfold String.ltb. rewrite string_compare_refl. reflexivity.
  - intros a b c. unfold String.ltb.
    destruct (String.compare a b) eqn:E1; try discriminate.
    destruct (String.compare b c) eqn:E2; try discriminate.
    rewrite (string_compare_lt_trans _ _ _ E1 E2). reflexivity.
  - intros a b. unfold String.ltb. rewrite (String.compare_antisym b a).
    destruct (String.compare a b) eqn:E; cbn; intros H1 H2; try discriminate.
    apply String.compare_eq_iff. exact E.
Qed.

(* ---------- FieldOrder ---------- *)

Lemma rank_from_spec : forall l i name acc r,
  rank_from i l name acc = Some r ->
  acc = Some r \/ exists k, nth_error l k = Some name /\ r = (i + N.of_nat k + 1)%N.
Proof.
  induction l as [|x t IH]; intros i name acc r H; cbn in H; auto.
  apply IH in H. destruct H as [H | [k [Hk Hr]]].
  - destruct (String.eqb x name) eqn:E; auto.
    apply String.eqb_eq in E. subst x. inversion H; subst.
    right. exists 0%nat. split; auto. cbn. lia.
  - right. exists (S k). split; auto. lia.
Qed.

Lemma rank_in_nth l name r :
  rank_in l name = Some r -> exists k, nth_error l k = Some name /\ r = (N.of_nat k + 1)%N.
Proof.
  unfold rank_in. intros H. apply rank_from_spec in H.
  destruct H as [H | [k [Hk Hr]]]; [discriminate|]. exists k. split; auto.
Qed.

(* two names with the same rank are the same name — whatever the table, duplicates included *)
Lemma rank_in_injective l a b r : rank_in l a = Some r -> rank_in l b = Some r -> a = b.
Proof.
  intros Ha Hb. apply rank_in_nth in Ha. apply rank_in_nth in Hb.
  destruct Ha as [k [Hk Hr]], Hb as [k' [Hk' Hr']].
  assert (k = k') by lia. subst k'. congruence.
Qed.

Lemma field_order_injective a b r : field_order a = Some r -> field_order b = Some r -> a = b.
Proof. apply rank_in_injective. Qed.

Lemma less_key_strict_total : strict_total less_key.
Proof.
  pose proof ltb_strict_total as HS.
  constructor.
  - intros a. unfold less_key, less_rank. destruct (field_order a).
    + apply N.ltb_irrefl.
    + apply (st_irrefl _ HS).
  - intros a b c. unfold less_key, less_rank.
    destruct (field_order a) as [i|], (field_order b) as [j|], (field_order c) as [k|];
      try discriminate; auto.
    + rewrite !N.ltb_lt. apply N.lt_trans.
    + apply (st_trans _ HS).
  - intros a b. unfold less_key, less_rank.
    destruct (field_order a) as [i|] eqn:Ea, (field_order b) as [j|] eqn:Eb; try discriminate.
    + rewrite !N.ltb_ge. intros H1 H2. assert (i = j) by lia. subst j.
      eapply field_order_injective; eauto.
    + apply (st_total _ HS).
Qed.

(* ---------- sortedness of decorated lists ---------- *)

Section Sorting.
  Context {B : Type}.
  Variable cmp : string -> string -> bool.
  Hypothesis ST : strict_total cmp.

  Definition le_fst (x y : string * B) : Prop := cmp (fst y) (fst x) = false.

  (* every earlier entry is "not greater" than every later one *)
  Definition sorted (l : list (string * B)) : Prop := StronglySorted le_fst l.

  Lemma insert_perm (x : string * B) l : Permutation (insert_sorted (lt_fst cmp) x l) (x :: l).
  Proof.
    induction l as [|y t IH]; cbn; auto.
    destruct (lt_fst cmp y x); auto.
    rewrite IH. apply perm_swap.
  Qed.

  Lemma isort_perm (l : list (string * B)) : Permutation (isort_list (lt_fst cmp) l) l.
  Proof.
    induction l as [|x t IH]; cbn; auto.
    rewrite insert_perm. auto.
  Qed.

  Lemma insert_sorted_sorted (x : string * B) l : sorted l -> sorted (insert_sorted (lt_fst cmp) x l).
  Proof.
    unfold sorted.
    induction l as [|y t IH]; intros Hs; cbn.
    - repeat constructor.
    - inversion Hs as [|? ? Hst Hall]; subst.
      destruct (lt_fst cmp y x) eqn:E; unfold lt_fst in E.
      + constructor; [apply IH; exact Hst|].
        rewrite Forall_forall. intros z Hz.
        apply (Permutation_in _ (insert_perm x t)) in Hz. destruct Hz as [<-|Hz].
        * unfold le_fst. apply (st_asym _ ST). exact E.
        * rewrite Forall_forall in Hall. auto.
      + constructor; [exact Hs|]. constructor; [exact E|].
        rewrite Forall_forall in *. intros z Hz. unfold le_fst in *.
        eapply (st_le_trans _ ST); eauto.
  Qed.

  Lemma isort_sorted (l : list (string * B)) : sorted (isort_list (lt_fst cmp) l).
  Proof.
    induction l as [|x t IH]; cbn; [constructor|]. apply insert_sorted_sorted. exact IH.
  Qed.

  Lemma isort_fixes_sorted (l : list (string * B)) : sorted l -> isort_list (lt_fst cmp) l = l.
  Proof.
    induction l as [|x t IH]; intros Hs; cbn; auto.
    inversion Hs as [|? ? Hst Hall]; subst. rewrite IH; auto.
    destruct t as [|y t']; cbn; auto.
    inversion Hall as [|? ? Hy _]; subst. unfold le_fst in Hy. unfold lt_fst. rewrite Hy. reflexivity.
  Qed.

  (* stability: entries with a given key keep their relative order *)
  Lemma insert_filter k (x : string * B) l :
    filter (fun d => String.eqb (fst d) k) (insert_sorted (lt_fst cmp) x l) =
    filter (fun d => String.eqb (fst d) k) (x :: l).
  Proof.
    induction l as [|y t IH]; auto.
    cbn [insert_sorted]. destruct (lt_fst cmp y x) eqn:E; auto.
    cbn [filter] in *. rewrite IH.
    destruct (String.eqb (fst x) k) eqn:Ex; auto.
    destruct (String.eqb (fst y) k) eqn:Ey; auto.
    apply String.eqb_eq in Ex, Ey. unfold lt_fst in E. rewrite Ex, Ey in E.
    rewrite (st_irrefl _ ST) in E. discriminate.
  Qed.

  Lemma isort_filter k (l : list (string * B)) :
    filter (fun d => String.eqb (fst d) k) (isort_list (lt_fst cmp) l) =
    filter (fun d => String.eqb (fst d) k) l.
  Proof.
    induction l as [|x t IH]; auto.
    cbn [isort_list]. rewrite insert_filter. cbn [filter]. rewrite IH. reflexivity.
  Qed.

  (* uniqueness of the sorted permutation when the keys are pairwise distinct *)
  Lemma same_key_same_entry (l : list (string * B)) x y :
    NoDup (map fst l) -> In x l -> In y l -> fst x = fst y -> x = y.
  Proof.
    induction l as [|z t IH]; intros Hnd Hx Hy Hk; [contradiction|].
    cbn in Hnd. inversion Hnd as [|? ? Hnin Hnd']; subst.
    destruct Hx as [<-|Hx], Hy as [<-|Hy]; auto.
    - exfalso. apply Hnin. rewrite Hk. apply in_map. exact Hy.
    - exfalso. apply Hnin. rewrite <- Hk. apply in_map. exact Hx.
  Qed.

  Lemma sorted_perm_unique : forall l l',
    sorted l -> sorted l' -> Permutation l l' -> NoDup (map fst l) -> l = l'.
  Proof.
    induction l as [|x t IH]; intros l' Hs Hs' Hp Hnd.
    - apply Permutation_nil in Hp. auto.
    - destruct l' as [|x' t']; [apply Permutation_sym, Permutation_nil in Hp; discriminate|].
      assert (x = x').
      { inversion Hs as [|? ? _ Hall]; subst. inversion Hs' as [|? ? _ Hall']; subst.
        rewrite Forall_forall in Hall, Hall'.
        assert (Hin' : In x' (x :: t)) by (eapply Permutation_in; [apply Permutation_sym; eauto|left; auto]).
        assert (Hin : In x (x' :: t')) by (eapply Permutation_in; [eauto|left; auto]).
        destruct Hin' as [E|Hin']; auto. destruct Hin as [E|Hin]; auto.
        apply (same_key_same_entry (x :: t)); auto; [left; auto|right; auto|].
        apply (st_total _ ST); [apply (Hall' _ Hin) | apply (Hall _ Hin')]. }
      subst x'. f_equal. apply IH.
      + inversion Hs; auto.
      + inversion Hs'; auto.
      + eapply Permutation_cons_inv; eauto.
      + inversion Hnd; auto.
  Qed.
End Sorting.

(* ---------- hypothesis (S1) ---------- *)

Definition S1 (srt : sorter) : Prop :=
  forall (B : Type) (cmp : string -> string -> bool), strict_total cmp ->
  forall l : list (string * B),
    Permutation (srt _ (lt_fst cmp) l) l /\
    sorted cmp (srt _ (lt_fst cmp) l) /\
    (sorted cmp l -> srt _ (lt_fst cmp) l = l).

Lemma isort_S1 : S1 isort.
Proof.
  intros B cmp ST l. unfold isort. split; [|split].
  - apply isort_perm.
  - apply isort_sorted; auto.
  - apply isort_fixes_sorted; auto.
Qed.

(* any two sorts meeting (S1) agree when the keys are pairwise distinct *)
Lemma S1_unique srt srt' : S1 srt -> S1 srt' ->
  forall (B : Type) cmp, strict_total cmp -> forall l : list (string * B),
    NoDup (map fst l) -> srt _ (lt_fst cmp) l = srt' _ (lt_fst cmp) l.
Proof.
  intros H H' B cmp ST l Hnd.
  destruct (H B cmp ST l) as [P [S _]]. destruct (H' B cmp ST l) as [P' [S' _]].
  apply (sorted_perm_unique cmp ST); auto.
  - rewrite P. symmetry. exact P'.
  - eapply Permutation_NoDup; [|exact Hnd]. apply Permutation_map. symmetry. exact P.
Qed.

(* an (S1) sort that is not stable: it reverses the order of equal keys whenever it has to sort *)
Definition rsort : sorter :=
  fun A lt l => if sortedb lt l then l else isort_list lt (rev l).

Lemma sortedb_sorted {B} cmp (l : list (string * B)) :
  sortedb (lt_fst cmp) l = true <-> sorted cmp l.
Proof.
  induction l as [|x t IH]; cbn.
  - split; auto. intros _. constructor.
  - rewrite andb_true_iff, IH, forallb_forall. split.
    + intros [Ha Hs]. constructor; auto. rewrite Forall_forall. intros y Hy.
      specialize (Ha y Hy). unfold le_fst, lt_fst in *. destruct (cmp (fst y) (fst x)); auto.
    + intros Hs. inversion Hs as [|? ? Hst Hall]; subst. split; auto.
      rewrite Forall_forall in Hall. intros y Hy. specialize (Hall y Hy).
      unfold le_fst, lt_fst in *. rewrite Hall. reflexivity.
Qed.

Lemma rsort_S1 : S1 rsort.
Proof.
  intros B cmp ST l. unfold rsort.
  destruct (sortedb (lt_fst cmp) l) eqn:E.
  - apply sortedb_sorted in E. repeat split; auto.
  - split; [|split].
    + rewrite isort_perm. symmetry. apply Permutation_rev.
    + apply isort_sorted; auto.
    + intros Hs. apply sortedb_sorted in Hs. congruence.
Qed.
